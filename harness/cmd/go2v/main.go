// go2v regenerates coq/Gen/Paths.v from /repo/pkg/model: the string constants and the
// metadata path builders whose body is a single return of a fmt.Sprint / "+" expression over
// literals, constants, parameters and calls to other such builders.  A builder that no
// longer has a translatable shape is an error (the tie to the source is then broken).
package main

import (
	"flag"
	"fmt"
	"go/ast"
	"go/parser"
	"go/token"
	"os"
	"path/filepath"
	"sort"
	"strconv"
	"strings"
)

// builders the models depend on, in dependency order
var wanted = []string{
	"getArchivePathToRepos", "GetArchivePathToRepoDescriptor", "GetArchivePathPrefixToRepos",
	"getArchivePathToBundles", "GetArchivePathToBundle", "GetArchivePathPrefixToBundles", "GetArchivePathToBundleFileList",
	"getArchivePathToLabels", "GetArchivePathPrefixToLabels", "GetArchivePathToLabel",
	"getArchivePathToDiamonds", "GetArchivePathPrefixToDiamonds", "GetArchivePathToFinalDiamond", "GetArchivePathToInitialDiamond",
	"GetArchivePathPrefixToSplits", "GetArchivePathToFinalSplit", "GetArchivePathToInitialSplit", "GetArchivePathToSplitFileList",
	"getArchivePathToContexts", "GetArchivePathPrefixToContexts",
	"PurgeLock", "ReverseIndex",
}

type tr struct {
	consts   map[string]string // name -> Coq expr
	constSrc map[string]ast.Expr
	funcs    map[string]*ast.FuncDecl
	errs     []string
}

func coqStr(s string) string { return "\"" + strings.ReplaceAll(s, "\"", "\"\"") + "\"" }

func (t *tr) expr(e ast.Expr, params map[string]string) string {
	switch x := e.(type) {
	case *ast.BasicLit:
		if x.Kind == token.STRING {
			s, err := strconv.Unquote(x.Value)
			if err != nil {
				t.errs = append(t.errs, "bad literal "+x.Value)
				return "\"\""
			}
			for i := 0; i < len(s); i++ {
				if s[i] < 32 || s[i] > 126 {
					t.errs = append(t.errs, "non-printable literal "+x.Value)
				}
			}
			return coqStr(s)
		}
	case *ast.Ident:
		if ty, ok := params[x.Name]; ok {
			switch ty {
			case "string":
				return x.Name
			case "uint64":
				return "(dec " + x.Name + ")"
			case "...string":
				return x.Name
			}
		}
		if _, ok := t.constSrc[x.Name]; ok {
			return x.Name
		}
	case *ast.ParenExpr:
		return t.expr(x.X, params)
	case *ast.BinaryExpr:
		if x.Op == token.ADD {
			return "(" + t.expr(x.X, params) + " ++ " + t.expr(x.Y, params) + ")"
		}
	case *ast.CallExpr:
		if sel, ok := x.Fun.(*ast.SelectorExpr); ok {
			pkg, _ := sel.X.(*ast.Ident)
			if pkg != nil && pkg.Name == "fmt" && sel.Sel.Name == "Sprint" {
				// Sprint inserts a space only between two non-string operands; builders never do that
				parts := []string{}
				prevNonString := false
				for _, a := range x.Args {
					nonString := false
					if id, ok := a.(*ast.Ident); ok && params[id.Name] == "uint64" {
						nonString = true
					}
					if nonString && prevNonString {
						t.errs = append(t.errs, "fmt.Sprint with two adjacent non-string operands")
					}
					prevNonString = nonString
					parts = append(parts, t.expr(a, params))
				}
				if len(parts) == 0 {
					return "\"\""
				}
				return "(" + strings.Join(parts, " ++ ") + ")"
			}
			if pkg != nil && pkg.Name == "strings" && sel.Sel.Name == "Join" && len(x.Args) == 2 {
				return "(join " + t.expr(x.Args[1], params) + " " + t.expr(x.Args[0], params) + ")"
			}
		}
		if id, ok := x.Fun.(*ast.Ident); ok {
			if fd, ok := t.funcs[id.Name]; ok {
				np := 0
				variadic := false
				for _, f := range fd.Type.Params.List {
					if _, ok := f.Type.(*ast.Ellipsis); ok {
						variadic = true
					}
					np += len(f.Names)
				}
				args := []string{}
				for _, a := range x.Args {
					args = append(args, t.expr(a, params))
				}
				if variadic && len(args) == np-1 {
					args = append(args, "[]")
				}
				if len(args) != np {
					t.errs = append(t.errs, "call arity not supported: "+id.Name)
				}
				if len(args) == 0 {
					return id.Name
				}
				return "(" + id.Name + " " + strings.Join(args, " ") + ")"
			}
		}
	}
	t.errs = append(t.errs, fmt.Sprintf("unsupported expression %T", e))
	return "\"\""
}

func main() {
	repo := flag.String("repo", "/repo", "repository root")
	out := flag.String("out", "", "output directory (coq/Gen)")
	flag.Parse()
	dir := filepath.Join(*repo, "pkg", "model")
	fset := token.NewFileSet()
	pkgs, err := parser.ParseDir(fset, dir, func(fi os.FileInfo) bool { return !strings.HasSuffix(fi.Name(), "_test.go") }, 0)
	if err != nil {
		fmt.Println("go2v: parse error:", err)
		os.Exit(1)
	}
	t := &tr{consts: map[string]string{}, constSrc: map[string]ast.Expr{}, funcs: map[string]*ast.FuncDecl{}}
	var constOrder []string
	for _, p := range pkgs {
		names := make([]string, 0, len(p.Files))
		for n := range p.Files {
			names = append(names, n)
		}
		sort.Strings(names)
		for _, n := range names {
			f := p.Files[n]
			for _, d := range f.Decls {
				switch x := d.(type) {
				case *ast.GenDecl:
					if x.Tok != token.CONST {
						continue
					}
					for _, s := range x.Specs {
						vs := s.(*ast.ValueSpec)
						if vs.Type != nil {
							continue // typed constants (states, modes) are not path material
						}
						for i, nm := range vs.Names {
							if i < len(vs.Values) {
								if isStringExpr(vs.Values[i], t) {
									t.constSrc[nm.Name] = vs.Values[i]
									constOrder = append(constOrder, nm.Name)
								}
							}
						}
					}
				case *ast.FuncDecl:
					if x.Recv == nil {
						t.funcs[x.Name.Name] = x
					}
				}
			}
		}
	}
	var sb strings.Builder
	sb.WriteString("(* GENERATED by harness/cmd/go2v from /repo/pkg/model - do not edit. *)\n")
	sb.WriteString("From Coq Require Import List String NArith.\nFrom DM Require Import Base.Str.\nImport ListNotations.\nOpen Scope string_scope.\n\n")
	// constants in dependency order: repeat until all emitted
	emitted := map[string]bool{}
	for pass := 0; pass < 10; pass++ {
		for _, nm := range constOrder {
			if emitted[nm] {
				continue
			}
			if depsReady(t.constSrc[nm], emitted, t) {
				sb.WriteString(fmt.Sprintf("Definition %s : string := %s.\n", nm, t.expr(t.constSrc[nm], nil)))
				emitted[nm] = true
			}
		}
	}
	sb.WriteString("\n")
	for _, name := range wanted {
		fd, ok := t.funcs[name]
		if !ok {
			t.errs = append(t.errs, "builder not found: "+name)
			continue
		}
		params := map[string]string{}
		var sig []string
		for _, f := range fd.Type.Params.List {
			ty := ""
			switch x := f.Type.(type) {
			case *ast.Ident:
				ty = x.Name
			case *ast.Ellipsis:
				if id, ok := x.Elt.(*ast.Ident); ok && id.Name == "string" {
					ty = "...string"
				}
			}
			coqTy := map[string]string{"string": "string", "uint64": "N", "...string": "list string"}[ty]
			if coqTy == "" {
				t.errs = append(t.errs, "unsupported parameter type in "+name)
			}
			for _, n := range f.Names {
				params[n.Name] = ty
				sig = append(sig, fmt.Sprintf("(%s : %s)", n.Name, coqTy))
			}
		}
		if fd.Body == nil || len(fd.Body.List) != 1 {
			t.errs = append(t.errs, "builder body is not a single return: "+name)
			continue
		}
		ret, ok := fd.Body.List[0].(*ast.ReturnStmt)
		if !ok || len(ret.Results) != 1 {
			t.errs = append(t.errs, "builder body is not a single return: "+name)
			continue
		}
		sb.WriteString(fmt.Sprintf("Definition %s %s : string := %s.\n", name, strings.Join(sig, " "), t.expr(ret.Results[0], params)))
	}
	constsSrc, cerrs := numericConsts(*repo)
	t.errs = append(t.errs, cerrs...)
	if len(t.errs) > 0 {
		fmt.Println("go2v: cannot translate pkg/model path builders:")
		for _, e := range t.errs {
			fmt.Println("  -", e)
		}
		os.Exit(1)
	}
	if *out == "" {
		fmt.Print(sb.String())
		return
	}
	dst := filepath.Join(*out, "Paths.v")
	old, _ := os.ReadFile(dst)
	if string(old) != sb.String() {
		if err := os.WriteFile(dst, []byte(sb.String()), 0o644); err != nil {
			fmt.Println("go2v:", err)
			os.Exit(1)
		}
		fmt.Println("go2v: wrote", dst)
	}
	dst = filepath.Join(*out, "Consts.v")
	old, _ = os.ReadFile(dst)
	if string(old) != constsSrc {
		if err := os.WriteFile(dst, []byte(constsSrc), 0o644); err != nil {
			fmt.Println("go2v:", err)
			os.Exit(1)
		}
		fmt.Println("go2v: wrote", dst)
	}
}

// numeric constants the models depend on: file, name, Coq name. A constant that cannot be found or is not an
// integer literal (or a product of an integer literal and time.Second / time.Minute, read in seconds) is an error.
var wantedConsts = [][3]string{
	{"pkg/core/bundle_pack.go", "defaultBundleEntriesPerFile", "defaultBundleEntriesPerFile"},
	{"pkg/wal/wal.go", "maxEntriesPerList", "walMaxEntriesPerList"},
	{"pkg/wal/wal.go", "GetExpirationDuration", "walExpirationSeconds"},
	{"pkg/fuse/fs.go", "firstINode", "fuseFirstINode"},
}

func intValue(e ast.Expr) (int64, bool) {
	switch x := e.(type) {
	case *ast.BasicLit:
		if x.Kind == token.INT {
			v, err := strconv.ParseInt(x.Value, 0, 64)
			return v, err == nil
		}
	case *ast.ParenExpr:
		return intValue(x.X)
	case *ast.SelectorExpr:
		if pkg, ok := x.X.(*ast.Ident); ok && pkg.Name == "time" {
			switch x.Sel.Name {
			case "Second":
				return 1, true
			case "Minute":
				return 60, true
			case "Hour":
				return 3600, true
			}
		}
	case *ast.BinaryExpr:
		a, ok1 := intValue(x.X)
		b, ok2 := intValue(x.Y)
		if ok1 && ok2 {
			switch x.Op {
			case token.MUL:
				return a * b, true
			case token.ADD:
				return a + b, true
			}
		}
	}
	return 0, false
}

func numericConsts(repo string) (string, []string) {
	var sb strings.Builder
	var errs []string
	sb.WriteString("(* GENERATED by harness/cmd/go2v from /repo - do not edit. *)\nFrom Coq Require Import Arith.\n\n")
	for _, w := range wantedConsts {
		fset := token.NewFileSet()
		f, err := parser.ParseFile(fset, filepath.Join(repo, w[0]), nil, 0)
		if err != nil {
			errs = append(errs, err.Error())
			continue
		}
		found := false
		for _, d := range f.Decls {
			switch x := d.(type) {
			case *ast.GenDecl:
				if x.Tok != token.CONST {
					continue
				}
				for _, sp := range x.Specs {
					vs := sp.(*ast.ValueSpec)
					for i, nm := range vs.Names {
						if nm.Name == w[1] && i < len(vs.Values) {
							if v, ok := intValue(vs.Values[i]); ok {
								sb.WriteString(fmt.Sprintf("Definition %s : nat := %d. (* %s: %s *)\n", w[2], v, w[0], w[1]))
								found = true
							}
						}
					}
				}
			case *ast.FuncDecl:
				if x.Name.Name == w[1] && x.Body != nil && len(x.Body.List) == 1 {
					if ret, ok := x.Body.List[0].(*ast.ReturnStmt); ok && len(ret.Results) == 1 {
						if v, ok := intValue(ret.Results[0]); ok {
							sb.WriteString(fmt.Sprintf("Definition %s : nat := %d. (* %s: %s returns a duration, in seconds *)\n", w[2], v, w[0], w[1]))
							found = true
						}
					}
				}
			}
		}
		if !found {
			errs = append(errs, "numeric constant not found or not translatable: "+w[0]+" "+w[1])
		}
	}
	return sb.String(), errs
}

func isStringExpr(e ast.Expr, t *tr) bool {
	switch x := e.(type) {
	case *ast.BasicLit:
		return x.Kind == token.STRING
	case *ast.BinaryExpr:
		return x.Op == token.ADD && isStringExpr(x.X, t) && isStringExpr(x.Y, t)
	case *ast.Ident:
		_, ok := t.constSrc[x.Name]
		return ok
	case *ast.ParenExpr:
		return isStringExpr(x.X, t)
	}
	return false
}

func depsReady(e ast.Expr, emitted map[string]bool, t *tr) bool {
	ok := true
	ast.Inspect(e, func(n ast.Node) bool {
		if id, is := n.(*ast.Ident); is {
			if _, isConst := t.constSrc[id.Name]; isConst && !emitted[id.Name] {
				ok = false
			}
		}
		return true
	})
	return ok
}
