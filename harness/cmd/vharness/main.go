// vharness drives the real datamon implementation on generated cases and writes, per
// property, Coq case files holding the observations, to be evaluated against the model.
package main

import (
	"bufio"
	"encoding/json"
	"flag"
	"fmt"
	"os"
	"path/filepath"
	"sort"
	"strings"
	"syscall"

	"verifharness/gen"
)

// Ctx collects the cases of one run.
type Ctx struct {
	Prop    string
	Tier    string
	Seed    uint64
	Out     string
	Rng     *gen.Rand
	Replay  []json.RawMessage // when non-empty: run exactly these cases
	Header  string            // Coq preamble (Require Imports)
	CaseTy  string            // Coq type of one case
	Report  string            // Coq function list case -> report
	PerFile int

	shard     int
	inShard   int
	w         *bufio.Writer
	f         *os.File
	jl        *bufio.Writer
	jlf       *os.File
	evals     int
	distinct  map[string]bool
	hist      map[string]int
	samples   []json.RawMessage
	Notes     []string
	Rule      string
	ImplFlags map[string]string // per-case implementation-side verdict classes (sig by index)
}

func (c *Ctx) Quick() bool { return c.Tier != "thorough" }

func (c *Ctx) openShard() {
	name := filepath.Join(c.Out, fmt.Sprintf("Cases_%s_%d.v", c.Prop, c.shard))
	f, err := os.Create(name)
	if err != nil {
		panic(err)
	}
	c.f = f
	c.w = bufio.NewWriterSize(f, 1<<20)
	fmt.Fprintf(c.w, "%s\nDefinition cases : list (%s) := [\n", c.Header, c.CaseTy)
	c.inShard = 0
}

func (c *Ctx) closeShard() {
	if c.w == nil {
		return
	}
	fmt.Fprintf(c.w, "\n].\nDefinition r := Eval vm_compute in (%s cases).\nPrint r.\n", c.Report)
	c.w.Flush()
	c.f.Close()
	c.w = nil
	c.shard++
}

// Emit records one evaluated case: its JSON form (inputs and observations, used for replay
// and samples), its Coq term, a key telling whether it is non-trivial/distinct (empty = trivial),
// a histogram class and a signature used to match known findings.
// Pending records the case that is about to be run: when the implementation takes the process down (a panic in
// one of its goroutines, a fatal error) the check finds here the input that did it.
func (c *Ctx) Pending(caseJSON interface{}) {
	raw, err := json.Marshal(caseJSON)
	if err != nil {
		return
	}
	_ = os.WriteFile(filepath.Join(c.Out, "pending.json"), raw, 0o644)
}

func (c *Ctx) Emit(caseJSON interface{}, coqTerm string, distinctKey string, class string, sig string) {
	_ = os.Remove(filepath.Join(c.Out, "pending.json"))
	if c.w == nil {
		c.openShard()
	}
	if c.inShard > 0 {
		c.w.WriteString(";\n")
	}
	c.w.WriteString(coqTerm)
	raw, err := json.Marshal(map[string]interface{}{"shard": c.shard, "index": c.inShard, "sig": sig, "class": class, "case": caseJSON})
	if err != nil {
		panic(err)
	}
	c.jl.Write(raw)
	c.jl.WriteString("\n")
	c.inShard++
	c.evals++
	if distinctKey != "" {
		c.distinct[distinctKey] = true
	}
	c.hist[class]++
	if len(c.samples) < 5 || (c.evals%997 == 0 && len(c.samples) < 12) {
		cj, _ := json.Marshal(caseJSON)
		if len(cj) < 4000 {
			c.samples = append(c.samples, cj)
		} else if len(c.samples) < 2 {
			t, _ := json.Marshal(string(cj[:1500]) + " ...")
			c.samples = append(c.samples, t)
		}
	}
	if c.inShard >= c.PerFile {
		c.closeShard()
	}
}

func (c *Ctx) finish() {
	c.closeShard()
	c.jl.Flush()
	c.jlf.Close()
	classes := make([]string, 0, len(c.hist))
	for k := range c.hist {
		classes = append(classes, k)
	}
	sort.Strings(classes)
	meta := map[string]interface{}{
		"property": c.Prop, "tier": c.Tier, "seed": c.Seed, "shards": c.shard,
		"evaluations": c.evals, "distinct_nontrivial": len(c.distinct), "histogram": c.hist,
		"samples": c.samples, "rule": c.Rule, "notes": c.Notes,
	}
	b, _ := json.MarshalIndent(meta, "", " ")
	if err := os.WriteFile(filepath.Join(c.Out, "meta.json"), b, 0o644); err != nil {
		panic(err)
	}
}

type propFn func(c *Ctx)

var props = map[string]propFn{}

func main() {
	// programs on the mutable mount keep their backing files open until the process ends
	var lim syscall.Rlimit
	if syscall.Getrlimit(syscall.RLIMIT_NOFILE, &lim) == nil && lim.Cur < lim.Max {
		lim.Cur = lim.Max
		_ = syscall.Setrlimit(syscall.RLIMIT_NOFILE, &lim)
	}
	if len(os.Args) < 2 {
		fmt.Fprintln(os.Stderr, "usage: vharness <property> [-tier quick|thorough] [-seed n] [-out dir] [-replay file]")
		os.Exit(2)
	}
	prop := strings.ToUpper(os.Args[1])
	if prop == "WORKER" {
		workerMain(os.Args[2:])
		return
	}
	fs := flag.NewFlagSet("vharness", flag.ExitOnError)
	tier := fs.String("tier", "quick", "quick|thorough")
	seed := fs.Uint64("seed", 20260921, "PRNG seed")
	out := fs.String("out", ".", "output directory")
	replay := fs.String("replay", "", "replay file (JSON with a cases array)")
	_ = fs.Parse(os.Args[2:])
	fn, ok := props[prop]
	if !ok {
		fmt.Fprintln(os.Stderr, "unknown property", prop)
		os.Exit(2)
	}
	if err := os.MkdirAll(*out, 0o755); err != nil {
		panic(err)
	}
	c := &Ctx{Prop: prop, Tier: *tier, Seed: *seed, Out: *out, Rng: gen.New(*seed), PerFile: 400,
		distinct: map[string]bool{}, hist: map[string]int{}}
	if *replay != "" {
		b, err := os.ReadFile(*replay)
		if err != nil {
			panic(err)
		}
		var rf struct {
			Cases []json.RawMessage `json:"cases"`
		}
		if err := json.Unmarshal(b, &rf); err != nil {
			panic(err)
		}
		c.Replay = rf.Cases
	}
	jf, err := os.Create(filepath.Join(*out, "cases.jsonl"))
	if err != nil {
		panic(err)
	}
	c.jlf = jf
	c.jl = bufio.NewWriterSize(jf, 1<<20)
	fn(c)
	c.finish()
}

// workerMain is the entry of isolated worker sub-processes (used by properties whose
// implementation cases may hang, panic in a background goroutine or die fatally).
func workerMain(args []string) {
	if len(args) < 1 {
		os.Exit(2)
	}
	w, ok := workers[strings.ToUpper(args[0])]
	if !ok {
		os.Exit(2)
	}
	w(args[1:])
}

var workers = map[string]func(args []string){}
