package main

import (
	"encoding/json"
	"fmt"
	"path"
	"sort"
	"strings"
	"sync"
	"sync/atomic"

	"github.com/oneconcern/datamon/pkg/core"
	"github.com/oneconcern/datamon/pkg/model"
	"github.com/oneconcern/datamon/pkg/storage"
	"gopkg.in/yaml.v2"

	"verifharness/gen"
	"verifharness/memstore"
	"verifharness/world"
)

// C12: a diamond commits at most once, from completed splits only. Actors (commits, cancellations,
// split runs) are interleaved at every decision-relevant store access and crashed at any of them.

type c12Actor struct {
	Kind  string `json:"kind"` // commit | cancel | split
	Split int    `json:"split,omitempty"`
	Batch int    `json:"batch,omitempty"` // commit: page size of its listings (0 = default)
	Fault string `json:"fault,omitempty"` // the first read of a key containing this fails once
	Err   string `json:"err,omitempty"`
}

type c12Case struct {
	Actors    []c12Actor            `json:"actors"`
	Decisions []int                 `json:"decisions"` // the choices made (index into the waiting list, +1000 = crash)
	Events    []memstore.SchedEvent `json:"events"`
	Term      string                `json:"term"` // "", "canceled", "done:<actor>"
	Done      [][2]int              `json:"done"` // split, run (actor index)
	Bundles   []c12Bundle           `json:"bundles"`
	CountOnly bool                  `json:"countonly"`
	Sig       string                `json:"sig"`
	Note      string                `json:"note,omitempty"`
}

type c12Bundle struct {
	Actor int      `json:"actor"`
	ID    string   `json:"id"`
	Runs  [][2]int `json:"runs"`
}

func c12Classify(kinds []string) func(actor int, op, key string) string {
	// a commit first lists the splits, then reads their descriptors and file lists: the reads are a class of their
	// own, so that other actors can be scheduled between what the commit listed and what it reads
	reading := make([]int32, len(kinds))
	return func(actor int, op, key string) string {
		base := path.Base(key)
		switch {
		case strings.HasPrefix(key, "diamonds/"):
			switch {
			case op == "list":
				if atomic.LoadInt32(&reading[actor]) == 1 {
					return "collectread"
				}
				return "collect"
			case strings.Contains(key, "/splits/") && strings.HasPrefix(base, "split-"):
				if op == "put" {
					if base == "split-done.yaml" {
						return "wsplitdone"
					}
					return "wrunning"
				}
				if kinds[actor] == "split" {
					return "readsplit"
				}
				atomic.StoreInt32(&reading[actor], 1)
				return "collectread"
			case strings.Contains(key, "/splits/"):
				if op == "put" {
					return "wlists"
				}
				atomic.StoreInt32(&reading[actor], 1)
				return "collectread"
			case strings.HasPrefix(base, "diamond-"):
				if op == "put" {
					return "wdone"
				}
				return "ready"
			}
		case strings.HasPrefix(key, "bundles/") && op == "put":
			if base == "bundle.yaml" {
				return "wbundle"
			}
			return "wblists"
		}
		return ""
	}
}

var c12ClassCoq = map[string]string{"ready": "KReady", "readsplit": "KReadSplit", "wrunning": "KWriteRunning", "wlists": "KWriteLists",
	"wsplitdone": "KWriteSplitDone", "collect": "KCollect", "wblists": "KWriteBLists", "wbundle": "KWriteBundle", "wdone": "KWriteDone"}

func c12Run(cs *c12Case, r *gen.Rand, replay bool) {
	w := world.New()
	if err := w.CreateRepo("repo"); err != nil {
		panic(err)
	}
	did := kid(r, 90)
	dd := model.NewDiamondDescriptor(model.DiamondID(did))
	if _, err := core.CreateDiamond("repo", w.Stores(), core.DiamondDescriptor(dd), core.DiamondLogger(world.Nop)); err != nil {
		panic(err)
	}
	kinds := make([]string, len(cs.Actors))
	for i, a := range cs.Actors {
		kinds[i] = a.Kind
		cs.Actors[i].Err = ""
	}
	sched := memstore.NewSched(len(cs.Actors), c12Classify(kinds))
	var wg sync.WaitGroup
	var mu sync.Mutex
	commitBundle := map[string]int{} // bundle id -> committing actor
	for i := range cs.Actors {
		i := i
		wa := *w
		flt := &memstore.Faults{}
		if cs.Actors[i].Fault != "" {
			flt.Rules = []*memstore.FaultRule{{Op: "get", Substr: cs.Actors[i].Fault, Times: 1}}
		}
		wa.WrapMeta = func(s storage.Store) storage.Store {
			return &memstore.Gated{Store: &memstore.Flaky{Store: s, F: flt}, S: sched, Actor: i}
		}
		wa.WrapVMeta = wa.WrapMeta
		st := wa.Stores()
		wg.Add(1)
		go func() {
			defer wg.Done()
			defer sched.Finish(i)
			var err error
			switch cs.Actors[i].Kind {
			case "commit":
				d := core.NewDiamond("repo", st, core.DiamondDescriptor(model.NewDiamondDescriptor(model.DiamondID(did))), core.DiamondLogger(world.Nop))
				if cs.Actors[i].Batch > 0 {
					err = d.Commit(core.BatchSize(cs.Actors[i].Batch))
				} else {
					err = d.Commit()
				}
				mu.Lock()
				if d.BundleID != "" {
					commitBundle[d.BundleID] = i
				}
				mu.Unlock()
			case "cancel":
				d := core.NewDiamond("repo", st, core.DiamondDescriptor(model.NewDiamondDescriptor(model.DiamondID(did))), core.DiamondLogger(world.Nop))
				err = d.Cancel()
			case "split":
				sid := fmt.Sprintf("split-%d", cs.Actors[i].Split)
				sd := model.NewSplitDescriptor(model.SplitID(sid))
				var got model.SplitDescriptor
				got, err = core.CreateSplit("repo", did, st, core.SplitDescriptor(sd), core.SplitLogger(world.Nop))
				if err == nil {
					files := []world.File{{Name: fmt.Sprintf("run-%d.txt", i), Data: []byte(fmt.Sprintf("run %d", i))},
						{Name: "common.txt", Data: []byte(fmt.Sprintf("common of %d", i))}}
					s := core.NewSplit("repo", did, st, core.SplitDescriptor(&got), core.SplitConsumableStore(world.Consumable(files)), core.SplitLogger(world.Nop))
					s.BundleDescriptor.LeafSize = 64
					err = s.Upload()
				}
			}
			if err != nil {
				mu.Lock()
				cs.Actors[i].Err = err.Error()
				mu.Unlock()
				if strings.Contains(err.Error(), "injected transient") {
					sched.MarkCrashed(i) // a failed read ends the actor like a crash does
				}
			}
		}()
	}
	pos := 0
	var made []int
	runErr := sched.Run(func(waiting []int, classes []string) (int, bool) {
		var d int
		if replay && pos < len(cs.Decisions) {
			d = cs.Decisions[pos]
		} else {
			d = r.Intn(len(waiting))
			if r.Bool() { // let split runs get ahead of commits half of the time
				var sp []int
				for x, a := range waiting {
					if kinds[a] == "split" {
						sp = append(sp, x)
					}
				}
				if len(sp) > 0 {
					d = sp[r.Intn(len(sp))]
				}
			}
			if !replay && r.Chance(1, 14) {
				d += 1000
			}
		}
		pos++
		crash := d >= 1000
		idx := d % 1000
		if idx >= len(waiting) {
			idx = len(waiting) - 1
		}
		if crash && classes[idx] == "collectread" {
			// a read that fails inside the commit's listing of splits never returns (the listing workers wait for
			// one another, see DESIGN.md): the crash is taken at the commit's next gate instead
			crash, d = false, idx
		}
		made = append(made, d)
		return waiting[idx], crash
	})
	if runErr != nil {
		panic(runErr)
	}
	wg.Wait()
	cs.Decisions = made
	cs.Events = sched.Trace
	// final state, seen by a fresh process
	cs.Term, cs.Done, cs.Bundles = "", nil, nil
	snap := w.VMeta.Snapshot()
	genRun := map[string]int{} // generation id -> run (actor)
	for _, e := range sched.Trace {
		if e.Class == "wlists" {
			parts := strings.Split(e.Key, "/")
			genRun[parts[len(parts)-2]] = e.Actor
		}
	}
	runGen := map[int]bool{}
	for k, data := range snap {
		base := path.Base(k)
		switch {
		case base == "split-done.yaml":
			var sd model.SplitDescriptor
			if yaml.Unmarshal(data, &sd) != nil {
				panic("split descriptor")
			}
			var sn int
			fmt.Sscanf(sd.SplitID, "split-%d", &sn)
			run, ok := genRun[sd.GenerationID]
			if !ok {
				run = 9999
			}
			cs.Done = append(cs.Done, [2]int{sn, run})
			runGen[run] = true
		}
	}
	sort.Slice(cs.Done, func(i, j int) bool { return cs.Done[i][0] < cs.Done[j][0] })
	bs, lerr := core.ListBundles("repo", w.Stores())
	if lerr != nil {
		panic(lerr)
	}
	for _, b := range bs {
		es, e := w.Entries("repo", b.ID)
		if e != nil {
			cs.Note += "bundle unreadable: " + e.Error() + "; "
		}
		cb := c12Bundle{Actor: 9999, ID: b.ID}
		if a, ok := commitBundle[b.ID]; ok {
			cb.Actor = a
		}
		for _, en := range es {
			var run int
			if n, _ := fmt.Sscanf(path.Base(en.Name), "run-%d.txt", &run); n == 1 && !strings.HasPrefix(en.Name, ".conflicts") {
				cb.Runs = append(cb.Runs, [2]int{cs.Actors[run].Split, run})
			}
		}
		cs.Bundles = append(cs.Bundles, cb)
	}
	if data, ok := snap[model.GetArchivePathToFinalDiamond("repo", did)]; ok {
		var d model.DiamondDescriptor
		if yaml.Unmarshal(data, &d) != nil {
			panic("diamond descriptor")
		}
		switch d.State {
		case model.DiamondCanceled:
			cs.Term = "canceled"
		case model.DiamondDone:
			a, ok := commitBundle[d.BundleID]
			if !ok {
				a = 9999
			}
			cs.Term = fmt.Sprintf("done:%d", a)
		}
	}
}

func c12Coq(cs *c12Case) string {
	as := make([]string, len(cs.Actors))
	for i, a := range cs.Actors {
		switch a.Kind {
		case "commit":
			as[i] = "fresh_commit"
		case "cancel":
			as[i] = "fresh_cancel"
		default:
			as[i] = fmt.Sprintf("fresh_split %d %d", a.Split, i)
		}
	}
	var es []string
	for _, e := range cs.Events {
		switch {
		case e.Class == "crash":
			es = append(es, fmt.Sprintf("(%d, None)", e.Actor))
		case e.Class == "collectread": // part of the commit's collection, which the model takes at the listing
		default:
			es = append(es, fmt.Sprintf("(%d, Some (%s, %v))", e.Actor, c12ClassCoq[e.Class], e.Ok))
		}
	}
	pairs := func(l [][2]int) string {
		ps := make([]string, len(l))
		for i, p := range l {
			ps[i] = fmt.Sprintf("(%d, %d)", p[0], p[1])
		}
		return "[" + strings.Join(ps, "; ") + "]"
	}
	term := "None"
	switch {
	case cs.Term == "canceled":
		term = "(Some TCanceled)"
	case strings.HasPrefix(cs.Term, "done:"):
		term = "(Some (TDone " + cs.Term[5:] + "))"
	}
	bs := make([]string, len(cs.Bundles))
	for i, b := range cs.Bundles {
		bs[i] = fmt.Sprintf("(%d, %s)", b.Actor, pairs(b.Runs))
	}
	return fmt.Sprintf("{| dc_actors := [%s]; dc_events := [%s]; dc_term := %s; dc_done := %s; dc_bundles := [%s]; dc_count_only := %v |}",
		strings.Join(as, "; "), strings.Join(es, "; "), term, pairs(cs.Done), strings.Join(bs, "; "), cs.CountOnly)
}

// two or more bundles: is it the recorded pattern - every committing actor passed its ready check
// before the diamond's final descriptor was written?
func c12Sig(cs *c12Case) string {
	firstDone := len(cs.Events)
	for i, e := range cs.Events {
		if e.Class == "wdone" && e.Ok {
			firstDone = i
			break
		}
	}
	for _, b := range cs.Bundles {
		ready := -1
		for i, e := range cs.Events {
			if e.Actor == b.Actor && e.Class == "ready" {
				ready = i
				break
			}
		}
		if ready < 0 || ready > firstDone {
			return "bundle-from-commit-started-after-termination"
		}
	}
	return "two-commits-ready-before-done"
}

func init() {
	props["C12"] = func(c *Ctx) {
		c.Header = "From Coq Require Import List String NArith.\nFrom DM Require Import Model.Diamond Model.DiamondCheck.\nImport ListNotations.\nOpen Scope list_scope."
		c.CaseTy = "dcase"
		c.Report = "report"
		c.PerFile = 25
		c.Rule = "one diamond with 1..3 commits (retries included), 0..1 cancellation and 1..4 split runs over 1..2 split ids (reruns of one id included), all started together and interleaved by a scheduler at every decision-relevant store access (read of the diamond state, read of the split state, listing of splits, reads of the splits listed, each create-if-absent write), with a crash of the scheduled actor at one in 14 decisions, commits listing with page sizes 1, 2, 3, 5 or the default, and one actor in five meeting a failed read of the diamond's or a split's final descriptor; the final store is read by a fresh process; non-trivial = schedule in which at least one commit wrote a bundle or was refused, distinct by actors and decisions"
		emit := func(cs *c12Case) {
			key := ""
			for _, e := range cs.Events {
				if e.Class == "wbundle" || (e.Class == "ready" && cs.Actors[e.Actor].Kind == "commit") {
					j, _ := json.Marshal([]interface{}{cs.Actors, cs.Decisions})
					key = string(j)
					break
				}
			}
			cs.CountOnly, cs.Sig = false, "protocol"
			c.Emit(cs, c12Coq(cs), key, fmt.Sprintf("actors=%d bundles=%d term=%s", len(cs.Actors), len(cs.Bundles), strings.SplitN(cs.Term, ":", 2)[0]), cs.Sig)
			if len(cs.Bundles) > 1 {
				cp := *cs
				cp.CountOnly, cp.Sig = true, c12Sig(cs)
				c.Emit(&cp, c12Coq(&cp), "", "more than one bundle: "+cp.Sig, cp.Sig)
			}
		}
		r := c.Rng.Fork()
		if len(c.Replay) > 0 {
			for _, raw := range c.Replay {
				var cs c12Case
				if err := json.Unmarshal(raw, &cs); err != nil {
					panic(err)
				}
				if cs.CountOnly {
					continue // re-derived from the schedule it accompanies
				}
				c.Pending(&cs)
				c12Run(&cs, r, true)
				emit(&cs)
			}
			return
		}
		// the two recorded schedules, in every run
		k1 := &c12Case{Actors: []c12Actor{{Kind: "split", Split: 0}, {Kind: "commit"}, {Kind: "commit"}},
			Decisions: []int{0, 0, 0, 0, 0, 0, 1, 0, 1, 0, 1, 0, 1, 0, 0}}
		c.Pending(k1)
		c12Run(k1, r, true)
		emit(k1)
		k2 := &c12Case{Actors: []c12Actor{{Kind: "split", Split: 0}, {Kind: "commit"}, {Kind: "commit"}},
			Decisions: []int{0, 0, 0, 0, 0, 0, 0, 0, 0, 1000, 0, 0, 0, 0, 0}}
		c.Pending(k2)
		c12Run(k2, r, true)
		emit(k2)
		n := 120
		if !c.Quick() {
			n = 3000
		}
		for i := 0; i < n; i++ {
			cs := &c12Case{}
			nsplit := r.Range(1, 4)
			for j := 0; j < nsplit; j++ {
				cs.Actors = append(cs.Actors, c12Actor{Kind: "split", Split: r.Intn(2)})
			}
			for j := 0; j < r.Range(1, 3); j++ {
				cs.Actors = append(cs.Actors, c12Actor{Kind: "commit", Batch: []int{0, 1, 2, 3, 5}[r.Intn(5)]})
			}
			if r.Chance(1, 3) {
				cs.Actors = append(cs.Actors, c12Actor{Kind: "cancel"})
			}
			// shuffle
			p := r.Perm(len(cs.Actors))
			as := make([]c12Actor, len(p))
			for x, y := range p {
				as[x] = cs.Actors[y]
			}
			cs.Actors = as
			for x := range cs.Actors {
				if r.Chance(1, 5) {
					cs.Actors[x].Fault = "diamond-done.yaml"
					if cs.Actors[x].Kind == "split" && r.Bool() {
						// (a failed read inside a commit's listing of splits never returns: the listing workers
						// block on their output channel once the consumer has given up - not exercised here)
						cs.Actors[x].Fault = "split-done.yaml"
					}
				}
			}
			c.Pending(cs)
			c12Run(cs, r, false)
			emit(cs)
		}
	}
}
