package main

import (
	"context"
	"encoding/json"
	"fmt"
	"math/big"
	"sort"
	"strings"
	"sync"
	"time"

	"github.com/oneconcern/datamon/pkg/wal"
	"github.com/segmentio/ksuid"

	"verifharness/gen"
	"verifharness/memstore"
	"verifharness/world"
)

// C19: the write-ahead log returns what was appended, in token order.

type c19Phase struct {
	AdvanceSec int      `json:"advance"` // seconds the clock moves before the phase
	Payloads   []string `json:"payloads"` // appended concurrently
}

type c19Entry struct {
	Token   string `json:"token"`
	Payload string `json:"payload"`
	Second  int    `json:"second"` // seconds the harness had moved the clock by when the entry was appended
}

type c19List struct {
	FromIssued int        `json:"fromissued"` // >= 0: the n-th issued token (mod), else synthetic
	BackSec    int        `json:"backsec"`    // synthetic: seconds before the last issued token
	From       string     `json:"from"`
	Max        int        `json:"max"`
	Obs        []c19Entry `json:"obs"`
	Err        string     `json:"err,omitempty"`
}

type c19Case struct {
	Phases  []c19Phase `json:"phases"`
	Lists   []c19List  `json:"lists"`
	Appends []c19Entry `json:"appends"`
	Errs    []string   `json:"errs,omitempty"`
}

func c19Num(tok string) string {
	k, err := ksuid.Parse(tok)
	if err != nil {
		panic(err)
	}
	return new(big.Int).SetBytes(k.Bytes()).String()
}

func c19Run(cs *c19Case, r *gen.Rand) {
	mutable, store := memstore.New("mutable"), memstore.New("wal")
	w := wal.New(mutable, store, wal.Logger(world.Nop))
	cs.Appends, cs.Errs = nil, nil
	ctx := context.Background()
	moved := 0
	for _, ph := range cs.Phases {
		mutable.Advance(time.Duration(ph.AdvanceSec) * time.Second)
		moved += ph.AdvanceSec
		at := moved
		var wg sync.WaitGroup
		var mu sync.Mutex
		for _, p := range ph.Payloads {
			p := p
			wg.Add(1)
			go func() {
				defer wg.Done()
				tok, err := w.Add(ctx, p)
				mu.Lock()
				if err != nil {
					cs.Errs = append(cs.Errs, err.Error())
				} else {
					cs.Appends = append(cs.Appends, c19Entry{Token: tok, Payload: p, Second: at})
				}
				mu.Unlock()
			}()
		}
		wg.Wait()
	}
	sort.Slice(cs.Appends, func(i, j int) bool { return cs.Appends[i].Token < cs.Appends[j].Token })
	hung := false
	for i := range cs.Lists {
		q := &cs.Lists[i]
		q.Obs, q.Err = nil, ""
		if hung {
			q.Err = "not attempted: an earlier listing did not return"
			continue
		}
		if len(cs.Appends) == 0 {
			q.From = ksuid.New().String()
		} else if q.FromIssued >= 0 {
			q.From = cs.Appends[q.FromIssued%len(cs.Appends)].Token
		} else {
			last, _ := ksuid.Parse(cs.Appends[len(cs.Appends)-1].Token)
			k, _ := ksuid.NewRandomWithTime(last.Time().Add(-time.Duration(q.BackSec) * time.Second))
			q.From = k.String()
		}
		done := make(chan struct{})
		go func() {
			defer close(done)
			defer func() {
				if p := recover(); p != nil {
					q.Err = "panic: " + fmt.Sprint(p)
				}
			}()
			es, _, err := w.ListEntries(ctx, q.From, q.Max)
			if err != nil {
				q.Err = err.Error()
				return
			}
			q.Obs = []c19Entry{}
			for _, e := range es {
				q.Obs = append(q.Obs, c19Entry{Token: e.Token, Payload: e.Payload})
			}
		}()
		select {
		case <-done:
		case <-time.After(2 * time.Second):
			q.Err = "listing did not return"
			hung = true
		}
	}
}

func c19Coq(cs *c19Case) string {
	ents := func(l []c19Entry) string {
		out := make([]string, len(l))
		for i, e := range l {
			tok := "0"
			if e.Token != "" {
				if _, err := ksuid.Parse(e.Token); err == nil {
					tok = c19Num(e.Token)
				}
			}
			out[i] = fmt.Sprintf("(%s, %s)", tok, S(e.Payload))
		}
		return "[" + strings.Join(out, "; ") + "]"
	}
	ls := make([]string, len(cs.Lists))
	for i, q := range cs.Lists {
		obs := "None"
		if q.Err == "" {
			obs = "(Some " + ents(q.Obs) + ")"
		}
		ls[i] = fmt.Sprintf("{| wl_from := %s; wl_max := %d%%nat; wl_obs := %s |}", c19Num(q.From), max0(q.Max), obs)
	}
	secs := make([]string, len(cs.Appends))
	for i, e := range cs.Appends {
		secs[i] = fmt.Sprintf("%d", e.Second)
	}
	return fmt.Sprintf("{| wa_appends := %s; wa_seconds := [%s]%%N; wa_refused := %d%%nat; wa_lists := [%s] |}", ents(cs.Appends), strings.Join(secs, "; "), len(cs.Errs), strings.Join(ls, ";\n "))
}

func max0(n int) int {
	if n < 0 {
		return 0
	}
	return n
}

var c19Payloads = []string{"", "plain", "two\nlines\n", "token: abc\npayload: xyz\n", "- a\n- b\n", "{json: \"like\"}", "tab\tand \"quotes\"", ": : :", "payload: |\n  block\n"}

func init() {
	props["C19"] = func(c *Ctx) {
		c.Header = "From Coq Require Import List String NArith.\nFrom DM Require Import Model.BundleCheck Model.Wal Model.WalCheck.\nImport ListNotations.\nOpen Scope N_scope."
		c.CaseTy = "wcase"
		c.Report = "report"
		c.PerFile = 6
		c.Rule = "histories of 1..5 phases; before a phase the store clock moves by 0 s, 1 s, 5 s, 10 min, 25 min or 1 h; in a phase 1..6 entries are appended concurrently, with payloads that are empty, multi-line, YAML-looking or longer than 1 KiB, the same payload often several times within a second; then 4..8 listings from issued tokens and from synthetic tokens 0 s .. 2 h before the last one, with max in {0, 1, 2, 3, 10, 1000, 2000}; the store lists from a start key in key order; non-trivial = history with entries in at least two different seconds, distinct by tokens"
		emit := func(cs *c19Case) {
			key := ""
			secs := map[string]bool{}
			for _, e := range cs.Appends {
				k, _ := ksuid.Parse(e.Token)
				secs[fmt.Sprint(k.Timestamp())] = true
			}
			if len(secs) > 1 {
				j, _ := json.Marshal(cs.Appends)
				key = string(j)
				if len(key) > 300 {
					key = key[:300]
				}
			}
			c.Emit(cs, c19Coq(cs), key, fmt.Sprintf("appends=%d lists=%d", len(cs.Appends)/5*5, len(cs.Lists)), "wal")
		}
		r := c.Rng.Fork()
		if len(c.Replay) > 0 {
			for _, raw := range c.Replay {
				var cs c19Case
				if err := json.Unmarshal(raw, &cs); err != nil {
					panic(err)
				}
				c.Pending(&cs)
				c19Run(&cs, r)
				emit(&cs)
			}
			return
		}
		n := 30
		if !c.Quick() {
			n = 600
		}
		for i := 0; i < n; i++ {
			cs := &c19Case{}
			if i%5 == 1 { // entries in three consecutive seconds, and more of them about 1200 s later: the oldest second of the look-back window
				for p := 0; p < 3; p++ {
					ph := c19Phase{AdvanceSec: 1}
					for k := 0; k < 5; k++ {
						ph.Payloads = append(ph.Payloads, fmt.Sprintf("old %d/%d", p, k))
					}
					cs.Phases = append(cs.Phases, ph)
				}
				late := c19Phase{AdvanceSec: 1198 + r.Intn(2)}
				for k := 0; k < 3; k++ {
					late.Payloads = append(late.Payloads, fmt.Sprintf("late %d", k))
				}
				cs.Phases = append(cs.Phases, late)
				for k := 0; k < 3; k++ {
					cs.Lists = append(cs.Lists, c19List{FromIssued: 15 + k, Max: 1000}) // the late entries are the last three issued
				}
				cs.Lists = append(cs.Lists, c19List{FromIssued: -1, BackSec: 0, Max: 1000}, c19List{FromIssued: -1, BackSec: 1, Max: 1000})
				c.Pending(cs)
				c19Run(cs, r)
				emit(cs)
				continue
			}
			for p := 0; p < r.Range(1, 5); p++ {
				ph := c19Phase{AdvanceSec: []int{0, 1, 5, 600, 1500, 3600}[r.Intn(6)]}
				for k := 0; k < r.Range(1, 6); k++ {
					pl := c19Payloads[r.Intn(len(c19Payloads))]
					if k > 0 && r.Chance(1, 4) { // the same payload again within the second
						pl = ph.Payloads[r.Intn(len(ph.Payloads))]
					}
					if r.Chance(1, 8) {
						pl = strings.Repeat("0123456789abcdef", 70+r.Intn(30)) + "\nend"
					}
					ph.Payloads = append(ph.Payloads, pl)
				}
				cs.Phases = append(cs.Phases, ph)
			}
			for q := 0; q < r.Range(4, 8); q++ {
				l := c19List{FromIssued: r.Intn(40), Max: []int{0, 1, 2, 3, 10, 1000, 2000}[r.Intn(7)]}
				if r.Chance(1, 3) {
					l.FromIssued, l.BackSec = -1, []int{0, 1, 30, 900, 1200, 1201, 3000, 7200}[r.Intn(8)]
				}
				cs.Lists = append(cs.Lists, l)
			}
			c.Pending(cs)
			c19Run(cs, r)
			emit(cs)
		}
	}
}
