package main

import (
	"encoding/json"
	"fmt"
	"reflect"
	"strings"
	"time"

	"github.com/oneconcern/datamon/pkg/model"
	"gopkg.in/yaml.v2"

	"verifharness/coqfmt"
	"verifharness/gen"
)

// C20: metadata paths, validators, descriptor YAML.
type c20Case struct {
	Kind   string   `json:"kind"`
	Args   []string `json:"args,omitempty"`
	Index  uint64   `json:"index,omitempty"`
	Final  bool     `json:"final,omitempty"`
	Built  string   `json:"built,omitempty"`
	Parsed *c20Comp `json:"parsed,omitempty"`
	Panic  bool     `json:"panic,omitempty"`
	Meta   *c20Meta `json:"meta,omitempty"`
	Back   *uint64  `json:"back,omitempty"`
	Obs    bool     `json:"obs,omitempty"`
	NA     bool     `json:"nonascii_ok,omitempty"`
}
type c20Comp struct {
	Repo, Bundle, File, Label, Context, Diamond, Split, Gen string
	Final                                                   bool
}
type c20Meta struct {
	Type   int
	Bundle string
	Index  uint64
}

var S = coqfmt.Str

func c20Parse(p string) *c20Comp {
	c, err := model.GetArchivePathComponents(p)
	if err != nil {
		return nil
	}
	return &c20Comp{c.Repo, c.BundleID, c.ArchiveFileName, c.LabelName, c.Context, c.DiamondID, c.SplitID, c.GenerationID, c.IsFinalState}
}
func c20CompCoq(c *c20Comp) string {
	if c == nil {
		return "None"
	}
	return fmt.Sprintf("(Some {| c_repo := %s; c_bundle := %s; c_file := %s; c_label := %s; c_context := %s; c_diamond := %s; c_split := %s; c_gen := %s; c_final := %v |})",
		S(c.Repo), S(c.Bundle), S(c.File), S(c.Label), S(c.Context), S(c.Diamond), S(c.Split), S(c.Gen), c.Final)
}
func c20ConsMeta(p string) *c20Meta {
	m, err := model.GetConsumableStorePathMetadata(p)
	if err != nil {
		return nil
	}
	return &c20Meta{int(m.Type), m.BundleID, m.Index}
}
func c20MetaCoq(m *c20Meta) string {
	if m == nil {
		return "None"
	}
	if m.Type == int(model.ConsumableStorePathTypeDescriptor) {
		return "(Some (MetaDescriptor " + S(m.Bundle) + "))"
	}
	return fmt.Sprintf("(Some (MetaFileList %s %d%%N))", S(m.Bundle), m.Index)
}

func c20Build(cs *c20Case) (coqKind string) {
	a := cs.Args
	switch cs.Kind {
	case "repo":
		cs.Built = model.GetArchivePathToRepoDescriptor(a[0])
		return "BRepo " + S(a[0])
	case "label":
		cs.Built = model.GetArchivePathToLabel(a[0], a[1])
		return "BLabel " + S(a[0]) + " " + S(a[1])
	case "bundle":
		cs.Built = model.GetArchivePathToBundle(a[0], a[1])
		return "BBundle " + S(a[0]) + " " + S(a[1])
	case "bundlefl":
		cs.Built = model.GetArchivePathToBundleFileList(a[0], a[1], cs.Index)
		return fmt.Sprintf("BBundleFL %s %s %d%%N", S(a[0]), S(a[1]), cs.Index)
	case "diamond":
		st := model.DiamondInitialized
		if cs.Final {
			st = model.DiamondDone
			if cs.Index%2 == 1 { // the other terminal state
				st = model.DiamondCanceled
			}
		}
		cs.Built = model.GetArchivePathToDiamond(a[0], a[1], st)
		return fmt.Sprintf("BDiamond %s %s %v", S(a[0]), S(a[1]), cs.Final)
	case "split":
		st := model.SplitRunning
		if cs.Final {
			st = model.SplitDone
		}
		cs.Built = model.GetArchivePathToSplit(a[0], a[1], a[2], st)
		return fmt.Sprintf("BSplit %s %s %s %v", S(a[0]), S(a[1]), S(a[2]), cs.Final)
	case "splitfl":
		cs.Built = model.GetArchivePathToSplitFileList(a[0], a[1], a[2], a[3], cs.Index)
		return fmt.Sprintf("BSplitFL %s %s %s %s %d%%N", S(a[0]), S(a[1]), S(a[2]), S(a[3]), cs.Index)
	case "pbundles":
		cs.Built = model.GetArchivePathPrefixToBundles(a[0])
		return "BPrefixBundles " + S(a[0])
	case "plabels":
		cs.Built = model.GetArchivePathPrefixToLabels(a[0], a[1:]...)
		items := make([]string, len(a)-1)
		for i, x := range a[1:] {
			items[i] = S(x)
		}
		return "BPrefixLabels " + S(a[0]) + " [" + strings.Join(items, "; ") + "]"
	case "pdiamonds":
		cs.Built = model.GetArchivePathPrefixToDiamonds(a[0])
		return "BPrefixDiamonds " + S(a[0])
	case "psplits":
		cs.Built = model.GetArchivePathPrefixToSplits(a[0], a[1])
		return "BPrefixSplits " + S(a[0]) + " " + S(a[1])
	case "prepos":
		cs.Built = model.GetArchivePathPrefixToRepos()
		return "BPrefixRepos"
	}
	panic("kind " + cs.Kind)
}

// expected verdict of the documented alphabets on the non-ASCII runes the generator uses
var c20Runes = []struct {
	r                       rune
	letterDigitHyphen, isPc bool
}{
	{'é', true, false}, {'日', true, false}, {'Ω', true, false}, {'٣', true, false} /* arabic-indic digit */, {'‐', true, false}, /* U+2010 hyphen */
	{'\u00ad', true, false} /* soft hyphen */, {'\u058a', true, false} /* armenian hyphen */, {'\u2011', true, false} /* non-breaking hyphen */,
	{'\u30fb', true, false} /* katakana middle dot: Hyphen property */, {'\uff65', true, false} /* halfwidth katakana middle dot: Hyphen property */, {'\uff0d', true, false}, /* fullwidth hyphen-minus */
	// dashes that are not hyphens
	{'\u2013', false, false} /* en dash */, {'\u2014', false, false} /* em dash */, {'\u2012', false, false} /* figure dash */, {'\u05be', false, false} /* maqaf */, {'\u301c', false, false}, /* wave dash */
	{'\u2212', false, false} /* minus sign */, {'\ufe33', false, true} /* vertical low line, Pc */, {'\uff3f', false, true}, /* fullwidth low line, Pc */
	{'\u0301', false, false} /* combining acute: a mark, not a letter */, {'\u00b2', false, false} /* superscript two: No, not Nd */, {'\u2160', false, false}, /* roman numeral one: Nl */
	{'‿', false, true} /* U+203F undertie, Pc */, {'€', false, false}, {' ', false, false}, {'🙂', false, false}, {'·', false, false},
}

func c20Name(r *gen.Rand, hostile bool) string {
	if !hostile {
		alpha := "abcdefghijklmnopqrstuvwxyzABCDEFGHIJKLMNOPQRSTUVWXYZ0123456789-"
		n := r.Range(1, 12)
		b := make([]byte, n)
		for i := range b {
			b[i] = alpha[r.Intn(len(alpha))]
		}
		return string(b)
	}
	switch r.Intn(8) {
	case 0:
		return ""
	case 1:
		return "a/b"
	case 2:
		return "/"
	case 3:
		return "x y"
	case 4:
		return "lab_el" + string(c20Runes[r.Intn(len(c20Runes))].r)
	case 5:
		return ".."
	case 6:
		return "bundle.yaml"
	default:
		n := r.Range(1, 8)
		b := make([]byte, n)
		for i := range b {
			b[i] = byte(r.Range(32, 126))
		}
		return string(b)
	}
}

const b62 = "0123456789ABCDEFGHIJKLMNOPQRSTUVWXYZabcdefghijklmnopqrstuvwxyz"

func c20Ksuid(r *gen.Rand, hostile bool) string {
	if hostile {
		switch r.Intn(5) {
		case 0:
			return "aWgEPTl1tmebfsQzFP4bxwgy80V" // max
		case 1:
			return "aWgEPTl1tmebfsQzFP4bxwgy80W" // max+1
		case 2:
			return "000000000000000000000000000"
		case 3:
			return "short"
		default:
			return "zzzzzzzzzzzzzzzzzzzzzzzzzzz"
		}
	}
	b := make([]byte, 27)
	b[0] = b62[r.Intn(36)] // stays below the maximum
	for i := 1; i < 27; i++ {
		b[i] = b62[r.Intn(62)]
	}
	return string(b)
}

func c20Index(r *gen.Rand) uint64 {
	switch r.Intn(6) {
	case 0:
		return 0
	case 1:
		return 1<<63 - 1
	case 2:
		return 1 << 63
	case 3:
		return ^uint64(0)
	case 4:
		return uint64(r.Intn(3000))
	default:
		return r.U64()
	}
}

func c20Yaml(r *gen.Rand) (string, bool) {
	ts := func() time.Time { return time.Unix(int64(r.Intn(2000000000)), int64(r.Intn(1000))*1000000).UTC() }
	str := func() string {
		return []string{"", "x", "multi\nline", "with: colon", "- dash", "é日本", "'quoted'", "{a: b}", "true", "123", " lead", "null", "~"}[r.Intn(13)]
	}
	num := func() uint64 { // zero values and boundaries are as likely as arbitrary ones
		switch r.Intn(4) {
		case 0:
			return 0
		case 1:
			return 1
		case 2:
			return ^uint64(0) >> uint(r.Intn(2))
		default:
			return r.U64()
		}
	}
	contrib := func() []model.Contributor {
		n := r.Intn(3)
		var cs []model.Contributor
		for i := 0; i < n; i++ {
			cs = append(cs, model.Contributor{Name: str(), Email: str()})
		}
		return cs
	}
	rt := func(in, out interface{}) bool {
		b, err := yaml.Marshal(in)
		if err != nil {
			return false
		}
		if err := yaml.Unmarshal(b, out); err != nil {
			return false
		}
		// equal up to nil-vs-empty slices: the value read back serialises to the same bytes and is a
		// fixed point of another round trip
		got := reflect.ValueOf(out).Elem().Interface()
		b2, err := yaml.Marshal(got)
		if err != nil || string(b2) != string(b) {
			return false
		}
		again := reflect.New(reflect.TypeOf(got))
		if err := yaml.Unmarshal(b2, again.Interface()); err != nil {
			return false
		}
		return reflect.DeepEqual(got, again.Elem().Interface())
	}
	switch r.Intn(8) {
	case 0:
		d := model.RepoDescriptor{Name: str(), Description: str(), Timestamp: ts(), Contributor: model.Contributor{Name: str(), Email: str()}}
		var o model.RepoDescriptor
		return "repo", rt(d, &o)
	case 1:
		d := model.BundleDescriptor{LeafSize: uint32(num()), ID: str(), Message: str(), Timestamp: ts(), Contributors: contrib(),
			BundleEntriesFileCount: num(), Version: num(), Deduplication: str(), RunStage: str()}
		if r.Bool() {
			d.Parents = []string{str(), str()}
		}
		var o model.BundleDescriptor
		return "bundle", rt(d, &o)
	case 2:
		n := r.Intn(4)
		var es []model.BundleEntry
		for i := 0; i < n; i++ {
			e := model.BundleEntry{Hash: str(), NameWithPath: str(), FileMode: 0644, Size: num()}
			if r.Bool() {
				e.Timestamp = ts()
			}
			es = append(es, e)
		}
		d := model.BundleEntries{BundleEntries: es}
		var o model.BundleEntries
		return "filelist", rt(d, &o)
	case 3:
		d := model.LabelDescriptor{Name: str(), BundleID: str(), Timestamp: ts(), Contributors: contrib()}
		var o model.LabelDescriptor
		return "label", rt(d, &o)
	case 4:
		d := model.DiamondDescriptor{DiamondID: str(), StartTime: ts(), EndTime: ts(), State: model.DiamondDone, Mode: model.EnableConflicts,
			HasConflicts: r.Bool(), HasCheckpoints: r.Bool(), Tag: str(), BundleID: str()}
		if r.Bool() {
			d.Splits = []model.SplitDescriptor{{SplitID: str(), StartTime: ts(), EndTime: ts(), State: model.SplitDone, Contributors: contrib(), GenerationID: str(), SplitEntriesFileCount: num(), Tag: str()}}
		}
		var o model.DiamondDescriptor
		return "diamond", rt(d, &o)
	case 5:
		d := model.SplitDescriptor{SplitID: str(), StartTime: ts(), EndTime: ts(), State: model.SplitRunning, Contributors: contrib(), GenerationID: str(), SplitEntriesFileCount: num(), Tag: str()}
		var o model.SplitDescriptor
		return "split", rt(d, &o)
	case 6:
		d := model.Context{Name: str(), WAL: str(), ReadLog: str(), Blob: str(), Metadata: str(), VMetadata: str(), Version: num()}
		b, err := model.MarshalContext(&d)
		if err != nil {
			return "context", false
		}
		o, err := model.UnmarshalContext(b)
		return "context", err == nil && reflect.DeepEqual(d, *o)
	default:
		d := model.Entry{Token: str(), Payload: str()}
		b, err := model.MarshalWAL(&d)
		if err != nil {
			return "wal", false
		}
		o, err := model.UnmarshalWAL(b)
		return "wal", err == nil && reflect.DeepEqual(d, *o)
	}
}

func init() {
	props["C20"] = func(c *Ctx) {
		c.Header = "From Coq Require Import List String NArith.\nFrom DM Require Import Model.PathsParse Model.PathsCheck.\nImport ListNotations.\nOpen Scope string_scope."
		c.CaseTy = "pcase"
		c.Report = "report"
		c.PerFile = 500
		c.Rule = "every path builder on valid and hostile components (slashes, empty, unicode, KSUID bounds, indices 0 .. 2^64-1), the parsers on built and mutated paths, consumable-store and reverse-index paths, IsGeneratedFile on reserved-looking strings, validators on documented-alphabet and hostile names, YAML round trips of randomly populated descriptors; non-trivial = distinct case of a kind other than a plain refusal"
		emitCase := func(cs *c20Case, coq string, nontrivial bool) {
			key := ""
			if nontrivial {
				key = coq
				if len(key) > 200 {
					key = key[:200]
				}
			}
			c.Emit(cs, coq, key, cs.Kind, "paths")
		}
		runBuild := func(kind string, args []string, idx uint64, final bool) {
			cs := &c20Case{Kind: kind, Args: args, Index: idx, Final: final}
			ck := c20Build(cs)
			cs.Parsed = c20Parse(cs.Built)
			emitCase(cs, fmt.Sprintf("BuildCase (%s) %s %s", ck, S(cs.Built), c20CompCoq(cs.Parsed)), cs.Parsed != nil)
		}
		runParse := func(p string) {
			cs := &c20Case{Kind: "parse", Built: p, Parsed: c20Parse(p)}
			emitCase(cs, fmt.Sprintf("ParseCase %s %s", S(p), c20CompCoq(cs.Parsed)), true)
		}
		runCons := func(b string, idx uint64, fl bool) {
			cs := &c20Case{Kind: "consdesc", Args: []string{b}, Index: idx}
			func() {
				defer func() {
					if recover() != nil {
						cs.Panic = true
					}
				}()
				if fl {
					cs.Kind = "consfl"
					cs.Built = model.GetConsumablePathToBundleFileList(b, idx)
				} else {
					cs.Built = model.GetConsumablePathToBundle(b)
				}
			}()
			if cs.Panic {
				if fl {
					cs.Built = fmt.Sprint(".datamon/", b, "-bundle-files-", idx, ".yaml")
				} else {
					cs.Built = fmt.Sprint(".datamon/", b, ".yaml")
				}
			}
			cs.Meta = c20ConsMeta(cs.Built)
			if fl {
				emitCase(cs, fmt.Sprintf("ConsFL %s %d%%N %v %s %s", S(b), idx, cs.Panic, S(cs.Built), c20MetaCoq(cs.Meta)), true)
			} else {
				emitCase(cs, fmt.Sprintf("ConsDesc %s %v %s %s", S(b), cs.Panic, S(cs.Built), c20MetaCoq(cs.Meta)), true)
			}
		}
		runConsParse := func(p string) {
			cs := &c20Case{Kind: "consparse", Built: p, Meta: c20ConsMeta(p)}
			emitCase(cs, fmt.Sprintf("ConsParse %s %s", S(p), c20MetaCoq(cs.Meta)), cs.Meta != nil)
		}
		runRev := func(i uint64) {
			p := model.ReverseIndexFile(i)
			cs := &c20Case{Kind: "revindex", Index: i, Built: p}
			back := "None"
			if v, err := model.ReverseIndexChunk(p); err == nil {
				cs.Back = &v
				back = fmt.Sprintf("(Some %d%%N)", v)
			}
			emitCase(cs, fmt.Sprintf("RevIndex %d%%N %s %s", i, S(p), back), true)
		}
		runGen := func(p string) {
			cs := &c20Case{Kind: "genfile", Built: p, Obs: model.IsGeneratedFile(p)}
			emitCase(cs, fmt.Sprintf("GenFile %s %v", S(p), cs.Obs), true)
		}
		nonASCII := func(name string, label bool) bool {
			ok := true
			for _, r := range name {
				if r < 128 {
					continue
				}
				found := false
				for _, e := range c20Runes {
					if e.r == r {
						found = true
						if !(e.letterDigitHyphen || (label && e.isPc)) {
							ok = false
						}
					}
				}
				if !found {
					ok = false
				}
			}
			return ok
		}
		runValid := func(name string, label bool) {
			cs := &c20Case{Kind: "validrepo", Args: []string{name}}
			if label {
				cs.Kind = "validlabel"
				cs.Obs = model.ValidateLabel(model.LabelDescriptor{Name: name, BundleID: "b"}) == nil
			} else {
				cs.Obs = model.ValidateRepo(model.RepoDescriptor{Name: name, Description: "d"}) == nil
			}
			cs.NA = nonASCII(name, label)
			ctor := "ValidRepo"
			if label {
				ctor = "ValidLabel"
			}
			emitCase(cs, fmt.Sprintf("%s %s %v %v", ctor, S(name), cs.NA, cs.Obs), true)
		}
		if len(c.Replay) > 0 {
			for _, raw := range c.Replay {
				var cs c20Case
				if err := json.Unmarshal(raw, &cs); err != nil {
					panic(err)
				}
				switch cs.Kind {
				case "parse":
					runParse(cs.Built)
				case "consdesc":
					runCons(cs.Args[0], 0, false)
				case "consfl":
					runCons(cs.Args[0], cs.Index, true)
				case "consparse":
					runConsParse(cs.Built)
				case "revindex":
					runRev(cs.Index)
				case "genfile":
					runGen(cs.Built)
				case "validrepo":
					runValid(cs.Args[0], false)
				case "validlabel":
					runValid(cs.Args[0], true)
				case "yaml":
				default:
					runBuild(cs.Kind, cs.Args, cs.Index, cs.Final)
				}
			}
			return
		}
		r := c.Rng.Fork()
		n := 250
		if !c.Quick() {
			n = 5000
		}
		for i := 0; i < n; i++ {
			h := func() bool { return r.Chance(1, 6) }
			repo, b, l := c20Name(r, h()), c20Ksuid(r, false), c20Name(r, h())
			d, g, s := c20Ksuid(r, h()), c20Ksuid(r, h()), c20Name(r, h())
			idx := c20Index(r)
			runBuild("repo", []string{repo}, 0, false)
			runBuild("label", []string{repo, l}, 0, false)
			runBuild("bundle", []string{repo, b}, 0, false)
			runBuild("bundlefl", []string{repo, b}, idx, false)
			runBuild("diamond", []string{repo, d}, uint64(r.Intn(2)), r.Bool())
			runBuild("split", []string{repo, d, s}, 0, r.Bool())
			runBuild("splitfl", []string{repo, d, s, g}, idx, false)
			if i%10 == 0 {
				runBuild("pbundles", []string{repo}, 0, false)
				runBuild("plabels", []string{repo, l}, 0, false)
				runBuild("plabels", []string{repo}, 0, false)
				runBuild("pdiamonds", []string{repo}, 0, false)
				runBuild("psplits", []string{repo, d}, 0, false)
				runBuild("prepos", nil, 0, false)
			}
			// mutated paths
			base := []string{model.GetArchivePathToBundleFileList(repo, b, idx), model.GetArchivePathToSplitFileList(repo, d, s, g, idx),
				model.GetArchivePathToLabel(repo, l), model.GetArchivePathToFinalSplit(repo, d, s)}[r.Intn(4)]
			switch r.Intn(5) {
			case 0:
				runParse(base + "/extra")
			case 1:
				runParse(base[:r.Intn(len(base)+1)])
			case 2:
				runParse(strings.Replace(base, ".yaml", ".yml", 1))
			case 3:
				runParse(strings.Replace(base, "bundle-files-", "bundle-files-x", 1))
			default:
				runParse("unknown/" + base)
			}
			runCons(c20Ksuid(r, false), idx, r.Bool())
			if i%5 == 0 {
				runCons([]string{"a-b", "x-bundle-files-3", "", "plain"}[r.Intn(4)], idx, r.Bool())
				runConsParse([]string{".datamon/x.yaml", ".datamon/x-bundle-files-+5.yaml", ".datamon/x-bundle-files-.yaml", ".datamon/x-bundle-files-18446744073709551616.yaml",
					".datamon/a-bundle-files-1-bundle-files-2.yaml", "datamon/x.yaml", ".datamon/x.yml", ".datamon/x-bundle-files-007.yaml"}[r.Intn(8)])
			}
			runRev(idx)
			pre := []string{"", "/", "./", ".", "..", "a/", "//"}[r.Intn(7)]
			dir := []string{".datamon", ".conflicts", ".checkpoints", ".datamonx", "conflicts", ".conflict", ".checkpoints2"}[r.Intn(7)]
			suf := []string{"", "/", "/x", "/x/y", "x", ".yaml", "/a\nb", "\n", "/\n", "/x\r\n", "/é/日"}[r.Intn(11)]
			runGen(pre + dir + suf)
			runValid(c20Name(r, r.Chance(1, 3)), r.Bool())
		}
		for _, e := range c20Runes {
			runValid("ab"+string(e.r), false)
			runValid("ab"+string(e.r), true)
		}
		ny := 200
		if !c.Quick() {
			ny = 3000
		}
		for i := 0; i < ny; i++ {
			kind, ok := c20Yaml(r)
			cs := &c20Case{Kind: "yaml", Args: []string{kind}, Obs: ok}
			c.Emit(cs, fmt.Sprintf("Yaml %s %v", S(kind), ok), fmt.Sprintf("yaml-%s-%d", kind, i%7), "yaml", "yaml")
		}
	}
}
