package main

import (
	"context"
	"encoding/binary"
	"encoding/json"
	"fmt"
	"os"
	"sort"
	"strings"
	"time"

	"github.com/jacobsa/fuse/fuseops"
	"github.com/jacobsa/fuse/fuseutil"
	"github.com/oneconcern/datamon/pkg/core"
	"github.com/oneconcern/datamon/pkg/model"
	dfuse "github.com/oneconcern/datamon/pkg/fuse"
	"github.com/oneconcern/datamon/pkg/storage/localfs"
	"github.com/spf13/afero"

	"verifharness/gen"
	"verifharness/world"
)

// C17: a read-only mount shows exactly the bundle. The file system operations are driven directly.

type c17Child struct {
	Name  string `json:"name"`
	IsDir bool   `json:"isdir"`
}

type c17Chunk struct {
	Offset  int        `json:"offset"`
	Entries []c17Child `json:"entries"`
}

type c17Op struct {
	Kind   string     `json:"kind"` // lookup | readdir | read
	Dir    string     `json:"dir"`  // "" = root; components joined by "/"
	Name   string     `json:"name,omitempty"`
	Buf    int        `json:"buf,omitempty"`    // readdir: size of the caller's buffer
	Off    int        `json:"off,omitempty"`    // read
	Len    int        `json:"len,omitempty"`    // read
	Found  bool       `json:"found,omitempty"`  // lookup
	IsDir  bool       `json:"isdir,omitempty"`  // lookup
	Size   uint64     `json:"size,omitempty"`   // lookup
	Chunks []c17Chunk `json:"chunks,omitempty"` // readdir
	Data   []byte     `json:"data,omitempty"`   // read
	Err    string     `json:"err,omitempty"`
}

type c17Case struct {
	Files    []world.File `json:"files"`
	// when Base is set the bundle is the commit of a diamond: split-0 uploads Base, then split-1 uploads Alt; Files is
	// what that bundle must hold (split-1's versions win, split-0's differing versions are kept under .conflicts/split-0/)
	Base []world.File `json:"base,omitempty"`
	Alt  []world.File `json:"alt,omitempty"`
	Streamed bool         `json:"streamed"`
	Ops      []c17Op      `json:"ops"`
	Order    []string     `json:"order"` // names in the order of the bundle's file lists
}

func c17Dirents(buf []byte) []fuseutil.Dirent {
	var out []fuseutil.Dirent
	for len(buf) >= 24 {
		ino := binary.LittleEndian.Uint64(buf[0:8])
		off := binary.LittleEndian.Uint64(buf[8:16])
		nl := int(binary.LittleEndian.Uint32(buf[16:20]))
		ty := binary.LittleEndian.Uint32(buf[20:24])
		name := string(buf[24 : 24+nl])
		out = append(out, fuseutil.Dirent{Inode: fuseops.InodeID(ino), Offset: fuseops.DirOffset(off), Name: name, Type: fuseutil.DirentType(ty)})
		sz := 24 + nl
		if sz%8 != 0 {
			sz += 8 - sz%8
		}
		buf = buf[sz:]
	}
	return out
}

type c17FS struct {
	ops fuseutil.FileSystem
}

func (f *c17FS) lookup(parent fuseops.InodeID, name string) (fuseops.InodeID, fuseops.InodeAttributes, error) {
	op := &fuseops.LookUpInodeOp{Parent: parent, Name: name}
	err := f.ops.LookUpInode(context.Background(), op)
	return op.Entry.Child, op.Entry.Attributes, err
}

func (f *c17FS) resolve(dir string) (fuseops.InodeID, error) {
	ino := fuseops.InodeID(fuseops.RootInodeID)
	if dir == "" {
		return ino, nil
	}
	for _, comp := range strings.Split(dir, "/") {
		child, _, err := f.lookup(ino, comp)
		if err != nil {
			return 0, err
		}
		ino = child
	}
	return ino, nil
}

func c17Run(cs *c17Case, r *gen.Rand) {
	w := world.New()
	if err := w.CreateRepo("repo"); err != nil {
		panic(err)
	}
	var id string
	var err error
	if cs.Base != nil {
		id = c17Diamond(cs, w, r)
	} else {
		id, err = w.Upload("repo", world.Consumable(cs.Files), world.UploadOpts{LeafSize: 64})
		if err != nil {
			panic(err)
		}
	}
	es, err := w.Entries("repo", id)
	if err != nil {
		panic(err)
	}
	cs.Order = nil
	for _, e := range es {
		cs.Order = append(cs.Order, e.Name)
	}
	// a pre-downloaded mount reads from a directory of the local file system
	tmp, err := os.MkdirTemp("/root/.cache/verif/tmp", "mnt")
	if err != nil {
		panic(err)
	}
	defer os.RemoveAll(tmp)
	dst := localfs.New(afero.NewBasePathFs(afero.NewOsFs(), tmp))
	b := core.NewBundle(core.Repo("repo"), core.BundleID(id), core.ContextStores(w.Stores()), core.ConsumableStore(dst), core.Logger(world.Nop))
	mfs, err := dfuse.NewReadOnlyFS(b, dfuse.Streaming(cs.Streamed), dfuse.Logger(world.Nop))
	if err != nil {
		for i := range cs.Ops {
			cs.Ops[i].Found, cs.Ops[i].Chunks, cs.Ops[i].Data = false, nil, nil
			cs.Ops[i].Err = "the bundle cannot be mounted: " + err.Error()
		}
		return
	}
	f := &c17FS{ops: mfs.VerifFileSystem()}
	ctx := context.Background()
	for i := range cs.Ops {
		o := &cs.Ops[i]
		o.Found, o.IsDir, o.Size, o.Chunks, o.Data, o.Err = false, false, 0, nil, nil, ""
		func() {
			defer func() {
				if p := recover(); p != nil {
					o.Err = "panic: " + fmt.Sprint(p)
				}
			}()
			dir, err := f.resolve(o.Dir)
			if err != nil {
				o.Err = "directory not found: " + err.Error()
				return
			}
			switch o.Kind {
			case "lookup":
				child, attr, err := f.lookup(dir, o.Name)
				if err != nil {
					return
				}
				o.Found, o.IsDir, o.Size = true, attr.Mode.IsDir(), attr.Size
				// the attributes by inode agree with those of the lookup
				ga := &fuseops.GetInodeAttributesOp{Inode: child}
				if err := f.ops.GetInodeAttributes(ctx, ga); err != nil || ga.Attributes.Size != attr.Size || ga.Attributes.Mode != attr.Mode || ga.Attributes.Nlink != attr.Nlink {
					o.Err = "GetInodeAttributes disagrees with LookUpInode"
				}
			case "readdir":
				if err := f.ops.OpenDir(ctx, &fuseops.OpenDirOp{Inode: dir}); err != nil {
					o.Err = "opendir: " + err.Error()
					return
				}
				off := 0
				for steps := 0; steps < 300; steps++ { // a listing that does not end is cut here
					op := &fuseops.ReadDirOp{Inode: dir, Offset: fuseops.DirOffset(off), Dst: make([]byte, o.Buf)}
					if err := f.ops.ReadDir(ctx, op); err != nil {
						o.Err = "readdir: " + err.Error()
						return
					}
					ents := c17Dirents(op.Dst[:op.BytesRead])
					ch := c17Chunk{Offset: off, Entries: []c17Child{}}
					for _, e := range ents {
						ch.Entries = append(ch.Entries, c17Child{Name: e.Name, IsDir: e.Type == fuseutil.DT_Directory})
						off = int(e.Offset)
					}
					o.Chunks = append(o.Chunks, ch)
					if len(ents) == 0 {
						break
					}
				}
			case "read":
				child, _, err := f.lookup(dir, o.Name)
				if err != nil {
					o.Err = "file not found"
					return
				}
				if err := f.ops.OpenFile(ctx, &fuseops.OpenFileOp{Inode: child}); err != nil {
					o.Err = "open: " + err.Error()
					return
				}
				op := &fuseops.ReadFileOp{Inode: child, Offset: int64(o.Off), Dst: make([]byte, o.Len)}
				if err := f.ops.ReadFile(ctx, op); err != nil {
					o.Err = "read: " + err.Error()
					return
				}
				o.Data = append([]byte{}, op.Dst[:op.BytesRead]...)
			}
		}()
	}
}

// c17Diamond commits a diamond of two splits and returns the bundle; the bundle is checked, by a plain download, to
// hold what the case says
func c17Diamond(cs *c17Case, w *world.World, r *gen.Rand) string {
	did := kid(r, 4000)
	dd := model.NewDiamondDescriptor(model.DiamondID(did))
	if _, err := core.CreateDiamond("repo", w.Stores(), core.DiamondDescriptor(dd), core.DiamondLogger(world.Nop)); err != nil {
		panic(err)
	}
	for i, files := range [][]world.File{cs.Base, cs.Alt} {
		sd := model.NewSplitDescriptor(model.SplitID(fmt.Sprintf("split-%d", i)))
		got, err := core.CreateSplit("repo", did, w.Stores(), core.SplitDescriptor(sd), core.SplitLogger(world.Nop))
		if err != nil {
			panic(err)
		}
		sp := core.NewSplit("repo", did, w.Stores(), core.SplitDescriptor(&got), core.SplitConsumableStore(world.Consumable(files)), core.SplitLogger(world.Nop))
		sp.BundleDescriptor.LeafSize = 64
		if err := sp.Upload(); err != nil {
			panic(err)
		}
		time.Sleep(5 * time.Millisecond) // the second split is the later one
	}
	d := core.NewDiamond("repo", w.Stores(), core.DiamondDescriptor(model.NewDiamondDescriptor(model.DiamondID(did))), core.DiamondLogger(world.Nop))
	d.BundleDescriptor.LeafSize = 64
	if err := d.Commit(); err != nil {
		panic(err)
	}
	bs, err := core.ListBundles("repo", w.Stores())
	if err != nil || len(bs) != 1 {
		panic("the diamond did not commit one bundle")
	}
	got, err := w.Download("repo", bs[0].ID, 0, nil)
	var plain []world.File
	for _, f := range got {
		if !strings.HasPrefix(f.Name, ".datamon/") {
			plain = append(plain, f)
		}
	}
	sort.Slice(plain, func(i, j int) bool { return plain[i].Name < plain[j].Name })
	same := err == nil && len(plain) == len(cs.Files)
	for i := 0; same && i < len(plain); i++ {
		same = plain[i].Name == cs.Files[i].Name && string(plain[i].Data) == string(cs.Files[i].Data)
	}
	if !same {
		panic(fmt.Sprint("the committed diamond does not hold the expected files: ", err, " ", len(plain), " ", len(cs.Files)))
	}
	return bs[0].ID
}

// what the commit of split-0 = base, split-1 = alt must hold
func c17Merged(base, alt []world.File) []world.File {
	var out []world.File
	altBy := map[string][]byte{}
	for _, f := range alt {
		altBy[f.Name] = f.Data
	}
	for _, f := range base {
		if d, ok := altBy[f.Name]; ok {
			if string(d) != string(f.Data) {
				out = append(out, world.File{Name: ".conflicts/split-0/" + f.Name, Data: f.Data})
			}
			continue
		}
		out = append(out, f)
	}
	out = append(out, alt...)
	sort.Slice(out, func(i, j int) bool { return out[i].Name < out[j].Name })
	return out
}

func c17Path(p string) string {
	if p == "" {
		return "[]"
	}
	return strList(strings.Split(p, "/"))
}

func c17Coq(cs *c17Case) string {
	byName := map[string][]byte{}
	for _, f := range cs.Files {
		byName[f.Name] = f.Data
	}
	fs := make([]string, len(cs.Order))
	for i, n := range cs.Order {
		fs[i] = fmt.Sprintf("(%s, %s)", c17Path(n), coqBytes(byName[n]))
	}
	ops := make([]string, len(cs.Ops))
	for i, o := range cs.Ops {
		switch o.Kind {
		case "lookup":
			obs := "None"
			if o.Found {
				obs = fmt.Sprintf("(Some (%v, %d%%N))", o.IsDir, o.Size)
			}
			if o.Err != "" {
				obs = "(Some (true, 0%N)) (* " + strings.ReplaceAll(o.Err, "*", "") + " *)"
				if !o.Found || o.IsDir {
					obs = "(Some (false, 99999999%N))"
				}
			}
			ops[i] = fmt.Sprintf("MLookup %s %s %s", c17Path(o.Dir), S(o.Name), obs)
		case "readdir":
			chs := make([]string, len(o.Chunks))
			for j, ch := range o.Chunks {
				es := make([]string, len(ch.Entries))
				for k, e := range ch.Entries {
					es[k] = fmt.Sprintf("(%s, %v)", S(e.Name), e.IsDir)
				}
				chs[j] = fmt.Sprintf("(%d%%nat, [%s])", ch.Offset, strings.Join(es, "; "))
			}
			if o.Err != "" {
				chs = []string{"(0%nat, [(\"?error\"%string, false)])"}
			}
			ops[i] = fmt.Sprintf("MReaddir %s [%s]", c17Path(o.Dir), strings.Join(chs, "; "))
		case "read":
			obs := "(Some " + coqBytes(o.Data) + ")"
			if o.Err != "" {
				obs = "None"
			}
			p := o.Name
			if o.Dir != "" {
				p = o.Dir + "/" + o.Name
			}
			ops[i] = fmt.Sprintf("MRead %s %d%%nat %d%%nat %s", c17Path(p), o.Off, o.Len, obs)
		}
	}
	return fmt.Sprintf("{| mo_files := [%s]; mo_ops := [%s] |}", strings.Join(fs, ";\n "), strings.Join(ops, ";\n "))
}

func coqBytes(b []byte) string {
	parts := make([]string, len(b))
	for i, x := range b {
		parts[i] = fmt.Sprint(x)
	}
	return "[" + strings.Join(parts, ";") + "]%N"
}

// a random tree: deep nesting, many siblings, empty files, files of several leaves
func c17Tree(r *gen.Rand) []world.File {
	dirs := []string{"", "a", "a/b", "a/b/c", "a/b/c/d/e", "z", "a/bb", "m/n"}
	var fs []world.File
	seen := map[string]bool{}
	n := r.Range(1, 14)
	for i := 0; i < n; i++ {
		d := dirs[r.Intn(len(dirs))]
		name := fmt.Sprintf("f%d", r.Intn(12))
		if r.Chance(1, 5) {
			name = []string{"b", "a", "file with space", "x.y.z"}[r.Intn(4)]
		}
		p := name
		if d != "" {
			p = d + "/" + name
		}
		// a path is either a file or a directory
		clash := false
		for q := range seen {
			if strings.HasPrefix(q, p+"/") || strings.HasPrefix(p, q+"/") || q == p {
				clash = true
			}
		}
		for _, dd := range dirs {
			if dd == p || strings.HasPrefix(dd, p+"/") {
				clash = true
			}
		}
		if clash {
			continue
		}
		seen[p] = true
		size := []int{0, 1, 10, 64, 65, 130, 200}[r.Intn(7)]
		fs = append(fs, world.File{Name: p, Data: r.Bytes(size)})
	}
	if len(fs) == 0 {
		fs = append(fs, world.File{Name: "only", Data: []byte("x")})
	}
	if r.Chance(1, 3) { // many siblings, names of very different lengths
		for i := 0; i < 40; i++ {
			name := fmt.Sprintf("s%03d", i)
			if r.Bool() {
				name += strings.Repeat("x", r.Intn(50))
			}
			fs = append(fs, world.File{Name: "many/" + name, Data: []byte{byte(i)}})
		}
	}
	if r.Chance(1, 5) { // sibling directories whose names are prefixes of one another
		for _, d := range []string{"runs/run1", "runs/run10", "runs/run1.bak", "runs/run"} {
			if r.Chance(2, 3) {
				fs = append(fs, world.File{Name: d + "/out", Data: []byte(d)})
			}
		}
	}
	return fs
}

func init() {
	props["C17"] = func(c *Ctx) {
		c.Header = "From Coq Require Import List String NArith.\nFrom DM Require Import Model.Mount Model.MountCheck.\nImport ListNotations.\nOpen Scope list_scope."
		c.CaseTy = "mcase"
		c.Report = "report"
		c.PerFile = 6
		c.Rule = "bundles of 1..14 files (sometimes plus 40 siblings) in directories nested up to five deep, names that are prefixes of one another, files of 0, 1, 10, 64, 65, 130 and 200 bytes with 64-byte leaves; mounted read-only streamed and pre-downloaded; 15..30 operations: lookups of present and absent names in present directories (with attributes by inode), directory listings read through buffers of 96..4096 bytes (never smaller than one entry) and resumed at the last offset returned, reads at offsets and lengths inside, across and beyond the end of the file; non-trivial = case with a listing that needed more than one chunk or a read that took bytes of two leaves, distinct by files and operations"
		emit := func(cs *c17Case) {
			key := ""
			for _, o := range cs.Ops {
				crosses := o.Kind == "read" && len(o.Data) > 0 && o.Off/64 != (o.Off+len(o.Data)-1)/64 // bytes of two leaves in one read
				if (o.Kind == "readdir" && len(o.Chunks) > 2) || crosses {
					j, _ := json.Marshal([]interface{}{cs.Files, cs.Streamed, len(cs.Ops)})
					key = string(j)
					if len(key) > 300 {
						key = key[:300]
					}
				}
			}
			c.Emit(cs, c17Coq(cs), key, fmt.Sprintf("streamed=%v files=%d", cs.Streamed, len(cs.Files)/5*5), "mount")
		}
		r := c.Rng.Fork()
		if len(c.Replay) > 0 {
			for _, raw := range c.Replay {
				var cs c17Case
				if err := json.Unmarshal(raw, &cs); err != nil {
					panic(err)
				}
				c.Pending(&cs)
				c17Run(&cs, r)
				emit(&cs)
			}
			return
		}
		n := 24
		if !c.Quick() {
			n = 400
		}
		for i := 0; i < n; i++ {
			cs := &c17Case{Files: c17Tree(r), Streamed: i%2 == 0 || i%16 == 5}
			if i%16 == 5 || i%16 == 10 { // a bundle without files: a root directory with nothing in it
				cs.Files = nil
				for k := 0; k < 4; k++ {
					cs.Ops = append(cs.Ops, c17Op{Kind: "readdir", Dir: "", Buf: 4096}, c17Op{Kind: "lookup", Dir: "", Name: fmt.Sprintf("f%d", k)})
				}
				c.Pending(cs)
				c17Run(cs, r)
				emit(cs)
				continue
			}
			if i%4 == 3 { // the bundle of a diamond with conflicting splits: entries under .conflicts/ are files like any other
				cs.Base = cs.Files
				for _, f := range cs.Base {
					switch r.Intn(3) {
					case 0:
						cs.Alt = append(cs.Alt, world.File{Name: f.Name, Data: append([]byte("other version "), f.Data...)})
					case 1:
						cs.Alt = append(cs.Alt, f)
					}
				}
				if len(cs.Alt) == 0 {
					cs.Alt = []world.File{{Name: cs.Base[0].Name, Data: []byte("the other version")}}
				}
				cs.Files = c17Merged(cs.Base, cs.Alt)
			}
			dirSet := map[string]bool{"": true}
			for _, f := range cs.Files {
				parts := strings.Split(f.Name, "/")
				for k := 1; k < len(parts); k++ {
					dirSet[strings.Join(parts[:k], "/")] = true
				}
			}
			var dirs []string
			for d := range dirSet {
				dirs = append(dirs, d)
			}
			sort.Strings(dirs)
			for k := 0; k < r.Range(15, 30); k++ {
				switch r.Intn(3) {
				case 0:
					d := dirs[r.Intn(len(dirs))]
					name := fmt.Sprintf("f%d", r.Intn(12))
					if r.Bool() { // a name that exists somewhere
						f := cs.Files[r.Intn(len(cs.Files))]
						parts := strings.Split(f.Name, "/")
						name = parts[r.Intn(len(parts))]
					}
					cs.Ops = append(cs.Ops, c17Op{Kind: "lookup", Dir: d, Name: name})
				case 1:
					cs.Ops = append(cs.Ops, c17Op{Kind: "readdir", Dir: dirs[r.Intn(len(dirs))], Buf: []int{r.Range(96, 160), r.Range(96, 400), r.Range(100, 1024), 4096}[r.Intn(4)]})
				default:
					f := cs.Files[r.Intn(len(cs.Files))]
					d, name := "", f.Name
					if i := strings.LastIndex(f.Name, "/"); i >= 0 {
						d, name = f.Name[:i], f.Name[i+1:]
					}
					cs.Ops = append(cs.Ops, c17Op{Kind: "read", Dir: d, Name: name, Off: r.Intn(len(f.Data) + 10), Len: r.Intn(150)})
				}
			}
			c.Pending(cs)
			c17Run(cs, r)
			emit(cs)
		}
	}
}
