package main

import (
	"bufio"
	"bytes"
	"context"
	"encoding/hex"
	"encoding/json"
	"fmt"
	"io"
	"os"
	"os/exec"
	"path/filepath"
	"sort"
	"strings"
	"sync"
	"time"

	"github.com/oneconcern/datamon/pkg/cafs"
	"github.com/oneconcern/datamon/pkg/storage"
	"go.uber.org/zap"

	"verifharness/coqfmt"
	"verifharness/gen"
	"verifharness/memstore"
	"verifharness/world"
)

// C01 / C02 / C03: the content-addressable store.

type cafsProbe struct {
	Kind string `json:"kind"` // seq | at | wtat | wt
	Bufs []int  `json:"bufs,omitempty"`
	Off  int    `json:"off,omitempty"`
	N    int    `json:"n,omitempty"`
	// observations
	Class string `json:"class,omitempty"` // ok | hang | panic | err
	Data  string `json:"data,omitempty"`  // hex
	Calls int    `json:"calls,omitempty"`
}

type cafsDamage struct {
	Key  string  `json:"key"`
	Data *string `json:"data"` // nil = remove
	What string  `json:"what"`
}

type cafsCase struct {
	L          int          `json:"L"`
	Pre        [][2]string  `json:"pre"` // hex key, hex blob
	Chunks     []string     `json:"chunks"`
	WriterTo   bool         `json:"writerto"`
	ReaderMode int          `json:"readermode"`
	EOFData    bool         `json:"eofdata"` // the source hands its last bytes over together with io.EOF
	Warm       bool         `json:"warm"`    // an instance reads the object before the damage and is probed again after it
	Prefetch   int          `json:"prefetch"`
	Flushes    int          `json:"flushes"`
	SlowPut    int          `json:"slowput,omitempty"` // blob writes take this many milliseconds: flushes stay in flight
	CacheBytes int          `json:"cache"`
	Damage     []cafsDamage `json:"damage,omitempty"`
	Probes     []cafsProbe  `json:"probes"`
	// observations
	PutClass string      `json:"putclass,omitempty"`
	Written  int64       `json:"written,omitempty"`
	Key      string      `json:"keyhex,omitempty"`
	Keys     string      `json:"keys,omitempty"`
	Found    bool        `json:"found,omitempty"`
	PyKey    string      `json:"pykey,omitempty"`
	After    [][2]string `json:"after,omitempty"`
}

type pyRef struct {
	cmd *exec.Cmd
	in  io.WriteCloser
	out *bufio.Reader
	mu  sync.Mutex
}

func newPyRef() *pyRef {
	script := filepath.Join(os.Getenv("VERIF_DIR"), "tools", "blake_tree.py")
	if os.Getenv("VERIF_DIR") == "" {
		script = "/verif/tools/blake_tree.py"
	}
	cmd := exec.Command("python3", script)
	in, _ := cmd.StdinPipe()
	out, _ := cmd.StdoutPipe()
	cmd.Stderr = os.Stderr
	if err := cmd.Start(); err != nil {
		panic(err)
	}
	return &pyRef{cmd: cmd, in: in, out: bufio.NewReaderSize(out, 1<<16)}
}

func (p *pyRef) key(L int, data []byte) string {
	p.mu.Lock()
	defer p.mu.Unlock()
	fmt.Fprintf(p.in, "%d %s\n", L, hex.EncodeToString(data))
	line, err := p.out.ReadString('\n')
	if err != nil {
		panic(fmt.Sprint("python reference failed: ", err))
	}
	return strings.TrimSpace(line)
}

// chunkSource hands the content to io.Copy in the given chunks.
type chunkSource struct {
	chunks  [][]byte
	eofData bool // the last bytes are handed over together with io.EOF
}

func (c *chunkSource) Read(p []byte) (int, error) {
	for len(c.chunks) > 0 && len(c.chunks[0]) == 0 {
		c.chunks = c.chunks[1:]
	}
	if len(c.chunks) == 0 {
		return 0, io.EOF
	}
	n := copy(p, c.chunks[0])
	c.chunks[0] = c.chunks[0][n:]
	if c.eofData && len(c.chunks[0]) == 0 {
		rest := 0
		for _, x := range c.chunks[1:] {
			rest += len(x)
		}
		if rest == 0 {
			c.chunks = nil
			return n, io.EOF
		}
	}
	return n, nil
}

type memWriterAt struct {
	mu  sync.Mutex
	buf []byte
}

func (m *memWriterAt) WriteAt(p []byte, off int64) (int, error) {
	m.mu.Lock()
	defer m.mu.Unlock()
	end := int(off) + len(p)
	if end > len(m.buf) {
		m.buf = append(m.buf, make([]byte, end-len(m.buf))...)
	}
	copy(m.buf[off:], p)
	return len(p), nil
}
func (m *memWriterAt) Write(p []byte) (int, error) { panic("Write on WriterAt destination") }

// guarded runs f with panic recovery and a deadline.
func guarded(d time.Duration, f func() error) (class string) {
	done := make(chan string, 1)
	go func() {
		defer func() {
			if r := recover(); r != nil {
				done <- "panic"
			}
		}()
		if err := f(); err != nil {
			done <- "err"
			return
		}
		done <- "ok"
	}()
	select {
	case c := <-done:
		return c
	case <-time.After(d):
		return "hang"
	}
}

func cafsFs(cs *cafsCase, st *memstore.Store) cafs.Fs {
	var backend storage.Store = st
	if cs.SlowPut > 0 {
		backend = &memstore.Recorder{Store: st, Log: &memstore.PutLog{}, Name: "blob", SlowFor: time.Duration(cs.SlowPut) * time.Millisecond}
	}
	opts := []cafs.Option{cafs.LeafSize(uint32(cs.L)), cafs.Backend(backend), cafs.Logger(zap.NewNop()), cafs.Prefetch(cs.Prefetch)}
	if cs.Flushes > 0 {
		opts = append(opts, cafs.ConcurrentFlushes(cs.Flushes))
	}
	if cs.CacheBytes > 0 {
		opts = append(opts, cafs.CacheSize(cs.CacheBytes))
	}
	fs, err := cafs.New(opts...)
	if err != nil {
		panic(err)
	}
	return fs
}

func dumpStore(st *memstore.Store) [][2]string {
	snap := st.Snapshot()
	keys := make([]string, 0, len(snap))
	for k := range snap {
		keys = append(keys, k)
	}
	sort.Strings(keys)
	out := make([][2]string, len(keys))
	for i, k := range keys {
		out[i] = [2]string{k, hex.EncodeToString(snap[k])}
	}
	return out
}

func cafsRun(cs *cafsCase, py *pyRef) {
	st := memstore.New("blob")
	for _, kv := range cs.Pre {
		b, _ := hex.DecodeString(kv[1])
		st.Set(kv[0], b)
	}
	st.SetReaderMode(cs.ReaderMode)
	var content []byte
	chunks := make([][]byte, len(cs.Chunks))
	for i, c := range cs.Chunks {
		chunks[i], _ = hex.DecodeString(c)
		content = append(content, chunks[i]...)
	}
	cs.PyKey = py.key(cs.L, content)
	fs := cafsFs(cs, st)
	var res cafs.PutRes
	cs.PutClass = guarded(10*time.Second, func() error {
		var src io.Reader = &chunkSource{chunks: chunks, eofData: cs.EOFData}
		if cs.WriterTo {
			src = bytes.NewReader(content)
		}
		r, err := fs.Put(context.Background(), src)
		res = r
		return err
	})
	if cs.PutClass != "ok" {
		return
	}
	cs.Written, cs.Key, cs.Keys, cs.Found = res.Written, res.Key.String(), hex.EncodeToString(res.Keys), res.Found
	cs.After = dumpStore(st)
	// an instance that has read the whole object while it was intact
	var fsWarm cafs.Fs
	if cs.Warm {
		fsWarm = cafsFs(cs, st)
		_ = guarded(10*time.Second, func() error {
			r, err := fsWarm.Get(context.Background(), res.Key)
			if err != nil {
				return err
			}
			defer r.Close()
			_, err = io.Copy(io.Discard, struct{ io.Reader }{r})
			return err
		})
	}
	for _, d := range cs.Damage {
		if d.Data == nil {
			st.Remove(d.Key)
		} else {
			b, _ := hex.DecodeString(*d.Data)
			st.Set(d.Key, b)
		}
	}
	for i := range cs.Probes {
		p := &cs.Probes[i]
		fsr := cafsFs(cs, st) // cold caches for every probe
		kind := p.Kind
		if strings.HasPrefix(kind, "warm") && fsWarm != nil {
			fsr = fsWarm // ... but for the probes of the instance that knew the object intact
			kind = map[string]string{"warmseq": "seq", "warmat": "at"}[kind]
		}
		var out []byte
		switch kind {
		case "seq":
			p.Class = guarded(10*time.Second, func() error {
				r, err := fsr.Get(context.Background(), res.Key)
				if err != nil {
					return err
				}
				defer r.Close()
				for call := 0; ; call++ {
					if call > 100000 {
						return fmt.Errorf("too many calls")
					}
					k := p.Bufs[call%len(p.Bufs)]
					buf := make([]byte, k)
					n, err := r.Read(buf)
					out = append(out, buf[:n]...)
					p.Calls = call + 1
					if err == io.EOF {
						return nil
					}
					if err != nil {
						return err
					}
				}
			})
		case "at":
			p.Class = guarded(10*time.Second, func() error {
				r, err := fsr.GetAt(context.Background(), res.Key)
				if err != nil {
					return err
				}
				buf := make([]byte, p.N)
				n, err := r.ReadAt(buf, int64(p.Off))
				out = buf[:n]
				if err == io.EOF {
					return nil
				}
				return err
			})
		case "atagain": // the same random-access read twice through one instance: the second answer is the one reported
			p.Class = guarded(10*time.Second, func() error {
				var err error
				for attempt := 0; attempt < 2; attempt++ {
					var rd io.ReaderAt
					rd, err = fsr.GetAt(context.Background(), res.Key)
					if err != nil {
						continue
					}
					buf := make([]byte, p.N)
					var n int
					n, err = rd.ReadAt(buf, int64(p.Off))
					out = buf[:n]
					if err == io.EOF {
						err = nil
					}
				}
				return err
			})
		case "wtat":
			p.Class = guarded(10*time.Second, func() error {
				r, err := fsr.Get(context.Background(), res.Key)
				if err != nil {
					return err
				}
				defer r.Close()
				w := &memWriterAt{}
				_, err = r.(io.WriterTo).WriteTo(w)
				out = w.buf
				return err
			})
		case "dl": // the object as the only file of a bundle, the same damage in the blob store, a full download to a directory
			p.Class = guarded(30*time.Second, func() error {
				w := world.New()
				if err := w.CreateRepo("repo"); err != nil {
					return err
				}
				id, err := w.Upload("repo", world.Consumable([]world.File{{Name: "obj", Data: content}}), world.UploadOpts{LeafSize: uint32(cs.L)})
				if err != nil {
					panic("upload for the download probe: " + err.Error())
				}
				for _, d := range cs.Damage {
					if _, ok := w.Blob.Snapshot()[d.Key]; !ok {
						panic("download probe: the bundle's blob store has no key " + d.Key)
					}
					if d.Data == nil {
						w.Blob.Remove(d.Key)
					} else {
						b, _ := hex.DecodeString(*d.Data)
						w.Blob.Set(d.Key, b)
					}
				}
				got, err := w.Download("repo", id, 0, nil)
				if err != nil {
					return err
				}
				for _, f := range got {
					if f.Name == "obj" {
						out = f.Data
						return nil
					}
				}
				return fmt.Errorf("the download reports success and the file is not there")
			})
		case "wt":
			p.Class = guarded(10*time.Second, func() error {
				r, err := fsr.Get(context.Background(), res.Key)
				if err != nil {
					return err
				}
				defer r.Close()
				var b bytes.Buffer
				_, err = io.Copy(&b, r)
				out = b.Bytes()
				return err
			})
		}
		if p.Class == "ok" {
			p.Data = hex.EncodeToString(out)
		}
	}
}

func hexBytesCoq(h string) string {
	b, _ := hex.DecodeString(h)
	return coqfmt.Bytes(b)
}

func storeCoq(s [][2]string) string {
	items := make([]string, len(s))
	for i, kv := range s {
		items[i] = "(" + hexBytesCoq(kv[0]) + ", " + hexBytesCoq(kv[1]) + ")"
	}
	return "[" + strings.Join(items, "; ") + "]"
}

func cafsCoq(cs *cafsCase) string {
	chunks := make([]string, len(cs.Chunks))
	for i, c := range cs.Chunks {
		chunks[i] = hexBytesCoq(c)
	}
	class := map[string]int{"ok": 0, "hang": 1, "panic": 2, "err": 3}[cs.PutClass]
	var keys []string
	for i := 0; i+128 <= len(cs.Keys); i += 128 {
		keys = append(keys, hexBytesCoq(cs.Keys[i:i+128]))
	}
	put := fmt.Sprintf("{| po_class := %d%%N; po_written := %d%%nat; po_key := %s; po_keys := [%s]; po_found := %v |}",
		class, cs.Written, hexBytesCoq(cs.Key), strings.Join(keys, "; "), cs.Found)
	dmg := make([]string, len(cs.Damage))
	for i, d := range cs.Damage {
		if d.Data == nil {
			dmg[i] = "(" + hexBytesCoq(d.Key) + ", None)"
		} else {
			dmg[i] = "(" + hexBytesCoq(d.Key) + ", Some " + hexBytesCoq(*d.Data) + ")"
		}
	}
	obs := func(p cafsProbe) string {
		switch p.Class {
		case "ok":
			return "(OOk " + hexBytesCoq(p.Data) + ")"
		case "hang":
			return "OHang"
		case "panic":
			return "OPanic"
		}
		return "OErr"
	}
	probes := make([]string, len(cs.Probes))
	for i, p := range cs.Probes {
		switch p.Kind {
		case "seq":
			n := p.Calls + 2
			bufs := make([]string, n)
			for j := 0; j < n; j++ {
				bufs[j] = fmt.Sprintf("%d", p.Bufs[j%len(p.Bufs)])
			}
			orc := "[]"
			total := 0
			for _, c := range cs.Chunks {
				total += len(c) / 2
			}
			switch cs.ReaderMode {
			case 1:
				orc = fmt.Sprintf("(repeat (1%%nat, false) %d%%nat)", total+4*len(keys)+16)
			case 2:
				orc = fmt.Sprintf("(repeat (70000%%nat, true) %d%%nat)", total+4*len(keys)+16)
			}
			probes[i] = fmt.Sprintf("PSeq [%s]%%nat %s %s", strings.Join(bufs, ";"), orc, obs(p))
		case "at", "atagain":
			probes[i] = fmt.Sprintf("PAt %d%%nat %d%%nat %s", p.Off, p.N, obs(p))
		case "warmseq":
			probes[i] = "PWarmSeq " + obs(p)
		case "warmat":
			probes[i] = fmt.Sprintf("PWarmAt %d%%nat %d%%nat %s", p.Off, p.N, obs(p))
		case "wtat", "dl":
			probes[i] = "PWriteToAt " + obs(p)
		case "wt":
			probes[i] = "PWriteTo " + obs(p)
		}
	}
	return fmt.Sprintf("{| cc_L := %d%%nat; cc_pre := %s; cc_chunks := [%s]; cc_put := %s; cc_pykey := %s; cc_after := %s; cc_damage := [%s]; cc_probes := [%s] |}",
		cs.L, storeCoq(cs.Pre), strings.Join(chunks, "; "), put, hexBytesCoq(cs.PyKey), storeCoq(cs.After), strings.Join(dmg, "; "), strings.Join(probes, "; "))
}

// ---- generators ----

func cafsContent(r *gen.Rand, L int) []byte {
	var n int
	switch r.Intn(12) {
	case 0:
		n = 0
	case 1:
		n = 1
	case 2:
		n = L - 1
	case 3:
		n = L
	case 4:
		n = L + 1
	case 5:
		n = 2*L - 1
	case 6:
		n = 2 * L
	case 7:
		n = 2*L + 1
	case 8:
		n = 6 * L
	case 9:
		n = 3*L + r.Intn(L)
	default:
		n = r.Intn(6*L + 2)
	}
	b := make([]byte, n)
	switch r.Intn(3) {
	case 0: // random
		copy(b, r.Bytes(n))
	case 1: // low entropy: leaves share content
		for i := range b {
			b[i] = byte(i % 3)
		}
	default: // periodic in L: identical full leaves
		for i := range b {
			b[i] = byte(i % L)
		}
	}
	return b
}

func cafsChunking(r *gen.Rand, content []byte, L int) ([][]byte, bool) {
	n := len(content)
	switch r.Intn(6) {
	case 0:
		return [][]byte{content}, true // WriterTo source: one Write with everything
	case 1:
		return [][]byte{content}, false
	case 2: // one byte at a time
		cs := make([][]byte, n)
		for i := range content {
			cs[i] = content[i : i+1]
		}
		return cs, false
	case 3: // fixed k
		k := []int{2, 7, L - 1, L, L + 1, 2*L + 3, 3 * L}[r.Intn(7)]
		var cs [][]byte
		for i := 0; i < n; i += k {
			e := i + k
			if e > n {
				e = n
			}
			cs = append(cs, content[i:e])
		}
		return cs, false
	default: // random sizes, sometimes larger than a leaf
		var cs [][]byte
		for i := 0; i < n; {
			k := r.Range(1, 3*L)
			if r.Chance(1, 3) {
				k = r.Range(1, 9)
			}
			e := i + k
			if e > n {
				e = n
			}
			cs = append(cs, content[i:e])
			i = e
		}
		return cs, false
	}
}

func cafsProbes(r *gen.Rand, L, n int, quick bool) []cafsProbe {
	var ps []cafsProbe
	bufChoices := [][]int{{1}, {L - 1}, {L}, {L + 1}, {2 * L}, {3, 1, L}, {2*L + 1, 5}, {7}, {6*L + 10}}
	ps = append(ps, cafsProbe{Kind: "seq", Bufs: bufChoices[r.Intn(len(bufChoices))]})
	if r.Chance(1, 2) {
		k := r.Intn(4) + 1
		bs := make([]int, k)
		for i := range bs {
			bs[i] = r.Range(1, 2*L)
		}
		ps = append(ps, cafsProbe{Kind: "seq", Bufs: bs})
	}
	// ReadAt grid over leaf boundaries and past EOF
	offs := []int{0, 1, L - 1, L, L + 1, 2*L - 1, 2 * L, n - 1, n, n + 1, n + L/2, (n/L+1)*L - 1, (n/L + 1) * L, n + 3*L}
	lens := []int{1, L - 1, L, L + 1, 2*L + 1, n + 5}
	na := 4
	if !quick {
		na = 10
	}
	for i := 0; i < na; i++ {
		o := offs[r.Intn(len(offs))]
		if o < 0 {
			o = 0
		}
		if r.Chance(1, 4) {
			o = r.Intn(n + 2*L)
		}
		ps = append(ps, cafsProbe{Kind: "at", Off: o, N: lens[r.Intn(len(lens))]})
	}
	ps = append(ps, cafsProbe{Kind: "wtat"}, cafsProbe{Kind: "wt"})
	return ps
}

// single-object damages of C03
func cafsDamages(r *gen.Rand, cs *cafsCase, other [][2]string) []cafsDamage {
	after := map[string]string{}
	for _, kv := range cs.After {
		after[kv[0]] = kv[1]
	}
	var leafKeys []string
	for i := 0; i+128 <= len(cs.Keys); i += 128 {
		leafKeys = append(leafKeys, cs.Keys[i:i+128])
	}
	pick := cs.Key
	isRoot := true
	if len(leafKeys) > 0 && r.Chance(3, 4) {
		pick = leafKeys[r.Intn(len(leafKeys))]
		isRoot = false
	}
	blob, _ := hex.DecodeString(after[pick])
	set := func(b []byte, what string) []cafsDamage {
		h := hex.EncodeToString(b)
		return []cafsDamage{{Key: pick, Data: &h, What: what}}
	}
	switch r.Intn(8) {
	case 0, 1: // bit flip
		if len(blob) == 0 {
			return []cafsDamage{{Key: pick, What: "delete"}}
		}
		b := append([]byte(nil), blob...)
		pos := []int{0, len(b) - 1, len(b) / 2, r.Intn(len(b))}[r.Intn(4)]
		b[pos] ^= 1 << uint(r.Intn(8))
		return set(b, fmt.Sprintf("flip@%d root=%v", pos, isRoot))
	case 2: // truncate
		if len(blob) == 0 {
			return []cafsDamage{{Key: pick, What: "delete"}}
		}
		return set(blob[:r.Intn(len(blob))], fmt.Sprintf("truncate root=%v", isRoot))
	case 3:
		return set(nil, fmt.Sprintf("empty root=%v", isRoot))
	case 4:
		return []cafsDamage{{Key: pick, What: fmt.Sprintf("delete root=%v", isRoot)}}
	case 5: // replace by another leaf of the same object
		if len(leafKeys) > 1 && !isRoot {
			o := leafKeys[r.Intn(len(leafKeys))]
			b, _ := hex.DecodeString(after[o])
			return set(b, "swap-with-leaf-of-same-object")
		}
		fallthrough
	case 6: // replace by a blob of another object (a leaf, or that object's root blob for the root)
		if len(other) > 0 {
			var cands [][2]string
			for _, kv := range other {
				if isRoot == (len(kv[1]) >= 128 && len(kv[1])%128 == 0) {
					cands = append(cands, kv)
				}
			}
			if len(cands) == 0 {
				cands = other
			}
			o := cands[r.Intn(len(cands))]
			b, _ := hex.DecodeString(o[1])
			return set(b, fmt.Sprintf("replace-with-blob-of-another-object root=%v", isRoot))
		}
		fallthrough
	default: // append garbage
		return set(append(append([]byte(nil), blob...), r.Bytes(r.Range(1, 70))...), fmt.Sprintf("append root=%v", isRoot))
	}
}

func cafsProp(prop string) propFn {
	return func(c *Ctx) {
		c.Header = "From Coq Require Import List NArith.\nFrom DM Require Import Model.Cafs Model.CafsCheck.\nImport ListNotations.\nOpen Scope N_scope."
		c.CaseTy = "ccase"
		if prop == "C01" {
			c.CaseTy = "xcase"
		}
		c.Report = map[string]string{"C01": "report01", "C02": "report02", "C03": "report03"}[prop]
		c.PerFile = 12
		py := newPyRef()
		defer py.in.Close()
		emit := func(cs *cafsCase) {
			class := fmt.Sprintf("L=%d leaves=%d put=%s", cs.L, len(cs.Keys)/128, cs.PutClass)
			key := ""
			if cs.PutClass == "ok" && len(cs.Keys) > 0 {
				key = cs.Key + fmt.Sprint(len(cs.Chunks), cs.Damage)
			}
			if len(cs.Damage) > 0 {
				class += " damage=" + strings.Fields(cs.Damage[0].What)[0]
			}
			term := cafsCoq(cs)
			if prop == "C01" {
				term = "Small " + term
			}
			c.Emit(cs, term, key, class, "cafs")
		}
		if len(c.Replay) > 0 {
			for _, raw := range c.Replay {
				var big cafsBig
				if err := json.Unmarshal(raw, &big); err == nil && big.Big {
					bc, term := cafsBigRun(big.L, big.Len, big.WriterTo, big.Prefetch, 0)
					c.Emit(bc, term, "big", "big", "cafs-big")
					continue
				}
				var cs cafsCase
				if err := json.Unmarshal(raw, &cs); err != nil {
					panic(err)
				}
				c.Pending(&cs)
				cafsRun(&cs, py)
				emit(&cs)
			}
			return
		}
		r := c.Rng.Fork()
		n := map[string]int{"C01": 150, "C02": 90, "C03": 150}[prop]
		if !c.Quick() {
			n *= 12
		}
		leafSizes := []int{64, 64, 65, 100, 128}
		var history [][2]string // blob store carried from case to case (C02 histories, C03 foreign blobs)
		c.Rule = map[string]string{
			"C01": "contents of 0..6 leaves (boundaries +-1, identical leaves), leaf sizes 64..128 in the evaluated cases, chunkings {WriterTo single write, single read, 1-byte, fixed k, random incl. > leaf}, sources that signal the end with their last bytes or with a separate read, stream modes {bulk, 1 byte per call, EOF with data}, prefetch 0..3, Read with many buffer-size sequences, ReadAt over a boundary grid incl. past EOF, both WriteTo paths; non-trivial = Put succeeded with at least one leaf, distinct by key+chunking",
			"C02": "histories of Puts into one shared blob store (same content again, contents sharing leaves, prefixes of earlier contents; one case in six with 17..40 leaves, 2..16 concurrent flushes and blob writes of 1..3 ms so that flushes stay in flight), flush concurrency 1..16; keys compared three ways: implementation, Gallina BLAKE2b tree model, Python hashlib; non-trivial = Put with at least one leaf, distinct by key",
			"C03": "every kind of single-blob damage (bit flip at boundary/random positions, truncation, emptying, deletion, swap with a leaf of the same or of another object, root blob replaced by another object's root blob, appended bytes) on objects of 1..6 leaves, observed through Read, ReadAt (also a second time through the same instance), both WriteTo paths with cold caches, and a full download of a bundle holding the object as its only file; non-trivial = damaged case with at least one leaf, distinct by key+damage",
		}[prop]
		if prop == "C01" {
			cafsBigCases(c, r)
		}
		var prevContents [][]byte
		for i := 0; i < n; i++ {
			L := leafSizes[r.Intn(len(leafSizes))]
			content := cafsContent(r, L)
			if prop == "C02" && len(prevContents) > 0 {
				switch r.Intn(4) {
				case 0: // same again
					content = prevContents[r.Intn(len(prevContents))]
				case 1: // prefix of an earlier one
					p := prevContents[r.Intn(len(prevContents))]
					content = p[:r.Intn(len(p)+1)]
				case 2: // extension
					p := prevContents[r.Intn(len(prevContents))]
					content = append(append([]byte(nil), p...), r.Bytes(r.Intn(L+2))...)
				}
			}
			if prop == "C02" && (i == 3 || i == 4) { // the empty content, twice in a row, into the shared store
				content = nil
			}
			long := prop == "C02" && i%6 == 5
			if long { // many leaves, kept in flight by slow blob writes
				content = r.Bytes(L*r.Range(17, 40) + r.Intn(L))
			}
			chunks, wt := cafsChunking(r, content, L)
			cs := &cafsCase{L: L, WriterTo: wt, EOFData: r.Bool(), ReaderMode: r.Intn(4), Prefetch: r.Intn(4), Flushes: []int{1, 2, 10, 16}[r.Intn(4)]}
			if long {
				cs.SlowPut, cs.Flushes = r.Range(1, 3), []int{2, 4, 10, 16}[r.Intn(4)]
			}
			if r.Chance(1, 3) {
				cs.CacheBytes = L * r.Range(1, 4)
			}
			for _, ch := range chunks {
				cs.Chunks = append(cs.Chunks, hex.EncodeToString(ch))
			}
			if prop == "C02" || prop == "C03" {
				cs.Pre = history
			}
			switch prop {
			case "C01":
				cs.Probes = cafsProbes(r, L, len(content), c.Quick())
				c.Pending(cs)
				cafsRun(cs, py)
			case "C02":
				c.Pending(cs)
				cafsRun(cs, py)
				if cs.PutClass == "ok" {
					history = cs.After
					if len(history) > 60 { // keep the carried store small
						history = nil
						prevContents = nil
					}
					prevContents = append(prevContents, content)
				}
			case "C03":
				// first run without damage to learn the keys, then damage one blob and probe
				probe := &cafsCase{L: L, WriterTo: wt, Chunks: cs.Chunks, Pre: cs.Pre, Flushes: 1}
				c.Pending(probe)
				cafsRun(probe, py)
				if probe.PutClass != "ok" {
					cs.Probes = nil
					c.Pending(cs)
					cafsRun(cs, py)
					break
				}
				var foreign [][2]string
				own := map[string]bool{probe.Key: true}
				for j := 0; j+128 <= len(probe.Keys); j += 128 {
					own[probe.Keys[j:j+128]] = true
				}
				for _, kv := range history {
					if !own[kv[0]] {
						foreign = append(foreign, kv)
					}
				}
				cs.Damage = cafsDamages(r, probe, foreign)
				cs.Probes = []cafsProbe{{Kind: "seq", Bufs: []int{[]int{1, L, 2*L + 1, 17}[r.Intn(4)]}}, {Kind: "wtat"}, {Kind: "wt"}, {Kind: "dl"},
					{Kind: "at", Off: 0, N: len(content) + 3}, {Kind: "at", Off: r.Intn(len(content) + 1), N: r.Range(1, 2*L)},
					{Kind: "atagain", Off: 0, N: len(content) + 3}, {Kind: "atagain", Off: r.Intn(len(content) + 1), N: r.Range(1, 2*L)}}
				if r.Bool() { // the same reads again through an instance that read the object before it was damaged
					cs.Warm = true
					cs.Probes = append(cs.Probes, cafsProbe{Kind: "warmseq", Bufs: []int{4096}}, cafsProbe{Kind: "warmat", Off: r.Intn(len(content) + 1), N: r.Range(1, 2*L)},
						cafsProbe{Kind: "warmseq", Bufs: []int{[]int{1, L, 17}[r.Intn(3)]}})
				}
				c.Pending(cs)
				cafsRun(cs, py)
				if i%3 == 0 && cs.PutClass == "ok" {
					history = probe.After
					if len(history) > 40 {
						history = history[:20]
					}
				}
			}
			emit(cs)
		}
	}
}

func init() {
	props["C01"] = cafsProp("C01")
	props["C02"] = cafsProp("C02")
	props["C03"] = cafsProp("C03")
}

// ---- production leaf sizes (C01 only): bytes compared by the harness ----

type cafsBig struct {
	Big      bool     `json:"big"`
	L        int      `json:"L"`
	Len      int      `json:"len"`
	WriterTo bool     `json:"writerto"`
	Prefetch int      `json:"prefetch"`
	PutClass string   `json:"putclass"`
	Written  int64    `json:"written"`
	Probes   []string `json:"probes"` // kind:class:equal
}

func patternBytes(n int, seed int) []byte {
	b := make([]byte, n)
	for i := range b {
		b[i] = byte((i*7 + seed + i/251) % 251)
	}
	return b
}

func cafsBigRun(L, n int, writerTo bool, prefetch int, seed int) (*cafsBig, string) {
	bc := &cafsBig{Big: true, L: L, Len: n, WriterTo: writerTo, Prefetch: prefetch}
	content := patternBytes(n, seed)
	st := memstore.New("blob")
	st.SetReaderMode([]int{3, 0, 3, 2}[seed%4])
	cs := &cafsCase{L: L, Prefetch: prefetch, Flushes: 4}
	fs := cafsFs(cs, st)
	var res cafs.PutRes
	bc.PutClass = guarded(60*time.Second, func() error {
		var src io.Reader = &chunkSource{chunks: [][]byte{append([]byte(nil), content...)}}
		if writerTo {
			src = bytes.NewReader(content)
		}
		r, err := fs.Put(context.Background(), src)
		res = r
		return err
	})
	var probes []string
	var coqProbes []string
	add := func(kind, class string, equal bool) {
		probes = append(probes, fmt.Sprintf("%s:%s:%v", kind, class, equal))
		coqProbes = append(coqProbes, fmt.Sprintf("(%d%%N, %v)", map[string]int{"ok": 0, "hang": 1, "panic": 2, "err": 3}[class], equal))
	}
	if bc.PutClass == "ok" {
		bc.Written = res.Written
		window := func(off, k int) []byte {
			if off > n {
				off = n
			}
			e := off + k
			if e > n {
				e = n
			}
			return content[off:e]
		}
		// sequential read with a 32 KiB buffer
		{
			var out []byte
			fsr := cafsFs(cs, st)
			cl := guarded(60*time.Second, func() error {
				r, err := fsr.Get(context.Background(), res.Key)
				if err != nil {
					return err
				}
				defer r.Close()
				buf := make([]byte, 32*1024)
				for {
					k, err := r.Read(buf)
					out = append(out, buf[:k]...)
					if err == io.EOF {
						return nil
					}
					if err != nil {
						return err
					}
				}
			})
			add("seq", cl, cl == "ok" && bytes.Equal(out, content))
		}
		for _, at := range [][2]int{{0, n + 10}, {L - 1, 2}, {L, 100}, {n - 1, 5}, {n, 5}, {n + 3, 5}, {L / 2, L}, {0, L}} {
			if at[0] < 0 {
				continue
			}
			var out []byte
			fsr := cafsFs(cs, st)
			cl := guarded(20*time.Second, func() error {
				r, err := fsr.GetAt(context.Background(), res.Key)
				if err != nil {
					return err
				}
				buf := make([]byte, at[1])
				k, err := r.ReadAt(buf, int64(at[0]))
				out = buf[:k]
				if err == io.EOF {
					return nil
				}
				return err
			})
			add(fmt.Sprintf("at(%d,%d)", at[0], at[1]), cl, cl == "ok" && bytes.Equal(out, window(at[0], at[1])))
		}
		{
			fsr := cafsFs(cs, st)
			w := &memWriterAt{}
			cl := guarded(60*time.Second, func() error {
				r, err := fsr.Get(context.Background(), res.Key)
				if err != nil {
					return err
				}
				defer r.Close()
				_, err = r.(io.WriterTo).WriteTo(w)
				return err
			})
			add("wtat", cl, cl == "ok" && bytes.Equal(w.buf, content))
		}
	}
	bc.Probes = probes
	term := fmt.Sprintf("Big {| bg_L := %d%%N; bg_len := %d%%N; bg_put_ok := %v; bg_written_ok := %v; bg_probes := [%s] |}",
		L, n, bc.PutClass == "ok", bc.Written == int64(n), strings.Join(coqProbes, "; "))
	return bc, term
}

func cafsBigCases(c *Ctx, r *gen.Rand) {
	const MiB = 1 << 20
	leafs := []int{1 * MiB, 2 * MiB, 5 * MiB, MiB + MiB/2}
	if !c.Quick() {
		leafs = append(leafs, 3*MiB, 4*MiB, 64*1024, 1000003)
	}
	for i, L := range leafs {
		lens := []int{L, L + 1, 2*L + 17}
		if !c.Quick() {
			lens = append(lens, L-1, 2*L, 3*L)
		}
		for j, n := range lens {
			bc, term := cafsBigRun(L, n, (i+j)%2 == 0, (i+j)%3, i*31+j)
			c.Emit(bc, term, fmt.Sprintf("big/%d/%d", L, n), fmt.Sprintf("big L=%d put=%s", L, bc.PutClass), "cafs-big")
		}
	}
}
