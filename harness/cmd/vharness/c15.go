package main

import (
	"context"
	"crypto/sha256"
	"encoding/hex"
	"encoding/json"
	"fmt"
	"os"
	"runtime"
	"sort"
	"strings"
	"sync"
	"time"

	"github.com/oneconcern/datamon/pkg/core"
	"github.com/oneconcern/datamon/pkg/model"
	"github.com/oneconcern/datamon/pkg/storage"

	"verifharness/gen"
	"verifharness/memstore"
	"verifharness/world"
)

// C15: concurrent uploads, downloads, label sets and diamond commits do not interfere.

type c15Op struct {
	Kind  string       `json:"kind"` // upload | download | label | diamond
	Files []world.File `json:"files,omitempty"`
	Which int          `json:"which,omitempty"` // download / label: which initial bundle
	Slow  int          `json:"slow,omitempty"`  // the first n blob writes of the operation are slow
	Wait  int          `json:"wait,omitempty"`  // milliseconds the operation waits before it starts
	Many  int          `json:"many,omitempty"`  // upload: this many generated small files instead of Files
	// observed
	Done  bool                 `json:"done"`
	Err   string               `json:"err,omitempty"`
	Solo  string               `json:"solo"`
	Conc  string               `json:"conc"`
	Blobs []memstore.PutRecord `json:"blobs,omitempty"` // blob writes of the solo run
}

type c15Case struct {
	Procs   int                  `json:"procs"`
	Initial [][]world.File       `json:"initial"`
	Ops     []c15Op              `json:"ops"`
	Trace   []memstore.PutRecord `json:"trace"`
	Before  [][2]string          `json:"before"` // blob store before: key, digest
	Races   int                  `json:"races"`
	Hung    bool                 `json:"hung,omitempty"`
	SlowLists bool               `json:"slowlists,omitempty"` // file lists take 60 ms to write
}

// operations that have not returned by then are reported as hung (a loaded machine under the race detector is slow: the
// limit is generous, a deadlock never returns)
var c15Deadline = 90 * time.Second

var c15Raw = true // results are kept readable in the case; digests go to Coq

func c15Short(s string) string {
	h := sha256.Sum256([]byte(s))
	return hex.EncodeToString(h[:8])
}

func c15Digest(v interface{}) string {
	j, _ := json.Marshal(v)
	if c15Raw {
		return string(j)
	}
	s := sha256.Sum256(j)
	return hex.EncodeToString(s[:8])
}

func c15FilesDigest(fs []world.File) string {
	var l []string
	for _, f := range fs {
		if strings.HasPrefix(f.Name, ".datamon/") {
			continue
		}
		s := sha256.Sum256(f.Data)
		l = append(l, strings.TrimPrefix(f.Name, "/")+":"+hex.EncodeToString(s[:8])+":"+fmt.Sprintf("%q", string(f.Data)))
	}
	sort.Strings(l)
	return c15Digest(l)
}

// one operation on a world seen through recording stores; returns the digest of its result
// c15Shared puts recording stores in front of the stores of a world. All operations of a run go through the
// same store objects, as operations of one process do (caches keyed by store would otherwise be out of reach).
func c15Shared(w *world.World, log *memstore.PutLog, slow int32, slowLists ...bool) *world.World {
	wa := *w
	var delay *int32
	if slow > 0 {
		delay = &slow // the first blob writes of the run travel over a slow link
	}
	meta := &memstore.Recorder{Store: w.Meta, Log: log, Name: "meta"}
	if len(slowLists) > 0 && slowLists[0] {
		meta.SlowSubstr, meta.SlowFor = "bundle-files-", 60*time.Millisecond
	}
	vmeta := &memstore.Recorder{Store: w.VMeta, Log: log, Name: "vmeta"}
	blob := &memstore.Recorder{Store: w.Blob, Log: log, Name: "blob", Delay: delay, Jitter: 300 * time.Microsecond}
	wa.WrapMeta = func(storage.Store) storage.Store { return meta }
	wa.WrapVMeta = func(storage.Store) storage.Store { return vmeta }
	wa.WrapBlob = func(storage.Store) storage.Store { return blob }
	return &wa
}

// one operation; returns the digest of its result
func c15Do(wa *world.World, id int, o *c15Op, ids []string, r *gen.Rand, seq int64) (string, error) {
	ctx := context.Background()
	switch o.Kind {
	case "upload":
		bid := kid(gen.New(uint64(seq)), 5000+seq)
		files, conc := o.Files, 4
		if o.Many > 0 { // many small files, mostly the same in every such upload: more than one file list
			files, conc = nil, 20
			for j := 0; j < o.Many; j++ {
				files = append(files, world.File{Name: fmt.Sprintf("many/f%04d", j), Data: []byte(fmt.Sprintf("%s/%d", c15Pool[j%3], j%40))})
			}
		}
		if _, err := wa.Upload("repo", world.Consumable(files), world.UploadOpts{LeafSize: 64, BundleID: bid, Message: "c15", Concurrency: conc}); err != nil {
			return "", err
		}
		es, err := wa.Entries("repo", bid)
		if err != nil {
			return "", err
		}
		sort.Slice(es, func(i, j int) bool { return es[i].Name < es[j].Name })
		if o.Many > 0 {
			return c15Digest(es), nil
		}
		got, err := wa.Download("repo", bid, 0, nil)
		if err != nil {
			return "", err
		}
		return c15Digest([]interface{}{es, c15FilesDigest(got)}), nil
	case "download":
		got, err := wa.Download("repo", ids[o.Which%len(ids)], 4, nil)
		if err != nil {
			return "", err
		}
		return c15FilesDigest(got), nil
	case "label":
		name := fmt.Sprintf("label-%d", id)
		l := core.NewLabel(core.LabelDescriptor(model.NewLabelDescriptor(model.LabelName(name))))
		b := core.NewBundle(core.Repo("repo"), core.ContextStores(wa.Stores()), core.BundleID(ids[o.Which%len(ids)]), core.Logger(world.Nop))
		if err := l.UploadDescriptor(ctx, b); err != nil {
			return "", err
		}
		l2 := core.NewLabel(core.LabelDescriptor(model.NewLabelDescriptor(model.LabelName(name))))
		b2 := core.NewBundle(core.Repo("repo"), core.ContextStores(wa.Stores()), core.Logger(world.Nop))
		if err := l2.DownloadDescriptor(ctx, b2, true); err != nil {
			return "", err
		}
		return c15Digest(l2.Descriptor.BundleID), nil
	case "diamond":
		did := kid(gen.New(uint64(seq)), 7000+seq)
		dd := model.NewDiamondDescriptor(model.DiamondID(did))
		if _, err := core.CreateDiamond("repo", wa.Stores(), core.DiamondDescriptor(dd), core.DiamondLogger(world.Nop)); err != nil {
			return "", err
		}
		sd := model.NewSplitDescriptor(model.SplitID("only"))
		got, err := core.CreateSplit("repo", did, wa.Stores(), core.SplitDescriptor(sd), core.SplitLogger(world.Nop))
		if err != nil {
			return "", err
		}
		s := core.NewSplit("repo", did, wa.Stores(), core.SplitDescriptor(&got), core.SplitConsumableStore(world.Consumable(o.Files)), core.SplitLogger(world.Nop))
		s.BundleDescriptor.LeafSize = 64
		if err := s.Upload(); err != nil {
			return "", err
		}
		d := core.NewDiamond("repo", wa.Stores(), core.DiamondDescriptor(model.NewDiamondDescriptor(model.DiamondID(did))), core.DiamondLogger(world.Nop))
		d.BundleDescriptor.LeafSize = 64
		if err := d.Commit(); err != nil {
			return "", err
		}
		es, err := wa.Entries("repo", d.BundleID)
		if err != nil {
			return "", err
		}
		sort.Slice(es, func(i, j int) bool { return es[i].Name < es[j].Name })
		files, err := wa.Download("repo", d.BundleID, 0, nil)
		if err != nil {
			return "", err
		}
		return c15Digest([]interface{}{es, c15FilesDigest(files)}), nil
	}
	return "", fmt.Errorf("unknown operation")
}

func c15RaceCount() int {
	lp := ""
	for _, kv := range strings.Fields(os.Getenv("GORACE")) {
		if strings.HasPrefix(kv, "log_path=") {
			lp = strings.TrimPrefix(kv, "log_path=")
		}
	}
	if lp == "" {
		return 0
	}
	b, err := os.ReadFile(fmt.Sprintf("%s.%d", lp, os.Getpid()))
	if err != nil {
		return 0
	}
	return strings.Count(string(b), "WARNING: DATA RACE")
}

func c15Run(cs *c15Case, r *gen.Rand) {
	// the detector reports a racing pair of accesses once per process: a race inside one operation shows up
	// while that operation is run alone, so the count covers the whole case
	racesBefore := c15RaceCount()
	w := world.New()
	if err := w.CreateRepo("repo"); err != nil {
		panic(err)
	}
	var ids []string
	for i, fs := range cs.Initial {
		id := kid(r, int64(100+10*i))
		if _, err := w.Upload("repo", world.Consumable(fs), world.UploadOpts{LeafSize: 64, BundleID: id, Message: "initial"}); err != nil {
			panic(err)
		}
		ids = append(ids, id)
	}
	cs.Before = nil
	snap := w.Blob.Snapshot()
	for _, k := range w.Blob.SortedKeys() {
		s := sha256.Sum256(snap[k])
		cs.Before = append(cs.Before, [2]string{k, hex.EncodeToString(s[:8])})
	}
	// each operation alone, on a copy of the initial world
	for i := range cs.Ops {
		o := &cs.Ops[i]
		log := &memstore.PutLog{}
		res, err := c15Do(c15Shared(w.Clone(), log, 0), i+1, o, ids, r, int64(i))
		if err != nil {
			panic(fmt.Sprint("solo run failed: ", err))
		}
		o.Solo, o.Blobs = res, nil
		for _, p := range log.Puts {
			if p.Store == "blob" {
				o.Blobs = append(o.Blobs, p)
			}
		}
	}
	// all of them together
	prev := runtime.GOMAXPROCS(cs.Procs)
	defer runtime.GOMAXPROCS(prev)
	log := &memstore.PutLog{}
	slow := 0
	for _, o := range cs.Ops {
		slow += o.Slow
	}
	shared := c15Shared(w, log, int32(slow), cs.SlowLists)
	var wg sync.WaitGroup
	start := make(chan struct{})
	for i := range cs.Ops {
		i := i
		wg.Add(1)
		go func() {
			defer wg.Done()
			o := &cs.Ops[i]
			defer func() {
				if p := recover(); p != nil {
					o.Err = "panic: " + fmt.Sprint(p)
				}
			}()
			<-start
			time.Sleep(time.Duration(o.Wait) * time.Millisecond)
			res, err := c15Do(shared, i+1, o, ids, r, int64(i))
			if err != nil {
				o.Err = err.Error()
				return
			}
			o.Done, o.Conc = true, res
		}()
	}
	for i := range cs.Ops {
		cs.Ops[i].Done, cs.Ops[i].Err, cs.Ops[i].Conc = false, "", ""
	}
	close(start)
	deadline := c15Deadline
	if cs.SlowLists {
		deadline = 300 * time.Second
	}
	finished := make(chan struct{})
	go func() { wg.Wait(); close(finished) }()
	select {
	case <-finished:
	case <-time.After(deadline):
		cs.Hung = true // some operations never returned: they are reported as not completed
	}
	cs.Trace = log.Snapshot()
	cs.Races = c15RaceCount() - racesBefore
}

func c15Coq(cs *c15Case) string {
	short := func(k string) string {
		if len(k) == 128 && !strings.Contains(k, "/") { // a blob key
			return k[:12] + ".." + k[len(k)-10:]
		}
		return k
	}
	tr := make([]string, len(cs.Trace))
	for i, p := range cs.Trace {
		tr[i] = fmt.Sprintf("{| p_op := %d; p_store := %s; p_key := %s; p_digest := %s; p_excl := %v; p_ok := %v |}", p.Op, S(p.Store), S(short(p.Key)), S(p.Digest), p.Excl, p.Ok)
	}
	ops := make([]string, len(cs.Ops))
	for i, o := range cs.Ops {
		bl := make([]string, len(o.Blobs))
		for j, b := range o.Blobs {
			bl[j] = fmt.Sprintf("(%s, %s)", S(short(b.Key)), S(b.Digest))
		}
		ops[i] = fmt.Sprintf("{| co_kind := %s; co_completed := %v; co_solo := %s; co_conc := %s; co_blobs := [%s] |}", S(o.Kind), o.Done, S(c15Short(o.Solo)), S(c15Short(o.Conc)), strings.Join(bl, "; "))
	}
	bf := make([]string, len(cs.Before))
	for i, b := range cs.Before {
		bf[i] = fmt.Sprintf("(%s, %s)", S(short(b[0])), S(b[1]))
	}
	return fmt.Sprintf("{| cc_initial := [%s]; cc_trace := [%s]; cc_ops := [%s]; cc_races := %d%%nat |}",
		strings.Join(bf, "; "), strings.Join(tr, ";\n "), strings.Join(ops, ";\n "), cs.Races)
}

var c15Pool = []string{"alpha", "bravo-bravo", strings.Repeat("charlie ", 20), strings.Repeat("delta-", 30), "", "echo", strings.Repeat("f", 64), strings.Repeat("g", 129)}

func c15Tree(r *gen.Rand) []world.File {
	var fs []world.File
	for i := 0; i < r.Range(1, 5); i++ {
		fs = append(fs, world.File{Name: fmt.Sprintf("d%d/f%d", i%2, i), Data: []byte(c15Pool[r.Intn(len(c15Pool))])})
	}
	return fs
}

func init() {
	props["C15"] = func(c *Ctx) {
		c.Header = "From Coq Require Import List String NArith.\nFrom DM Require Import Model.Concur Model.ConcurCheck.\nImport ListNotations.\nOpen Scope list_scope.\nOpen Scope string_scope."
		c.CaseTy = "ccase"
		c.Report = "report"
		c.PerFile = 4
		c.Rule = "a repository with two bundles, then 2..16 goroutines started together: uploads, diamond commits (create, split upload, commit), downloads of the initial bundles and label assignments, some starting 1..150 ms late, some uploads writing their first blobs over a slow link (1.2 s for the first write), attribute reads and touches of blobs delayed by 0.3 ms so that the calls of concurrent flushes overlap, in the thorough tier one run in sixteen made of 2..3 uploads of 1001..1019 small files each while file lists take 60 ms to write, with file contents drawn from eight values (heavy overlap: the same blobs are written by several operations at once, some spanning several 64-byte leaves); GOMAXPROCS 1, 2, 4 or 16; the binary is built with the Go race detector; every operation is first run alone on a copy of the initial stores; non-trivial = run in which two operations wrote a common blob key, distinct by operations"
		emit := func(cs *c15Case) {
			key := ""
			writers := 0
			for _, o := range cs.Ops {
				if o.Kind == "upload" || o.Kind == "diamond" {
					writers++
				}
			}
			if writers >= 2 {
				j, _ := json.Marshal([]interface{}{cs.Procs, len(cs.Ops), c15Short(cs.Ops[0].Solo), c15Short(cs.Ops[len(cs.Ops)-1].Solo)})
				key = string(j)
			}
			c.Emit(cs, c15Coq(cs), key, fmt.Sprintf("ops=%d procs=%d races=%d", len(cs.Ops), cs.Procs, cs.Races), "concurrent")
		}
		if !c.Quick() {
			c15Deadline = 240 * time.Second
		}
		r := c.Rng.Fork()
		if len(c.Replay) > 0 {
			for _, raw := range c.Replay {
				var cs c15Case
				if err := json.Unmarshal(raw, &cs); err != nil {
					panic(err)
				}
				c.Pending(&cs)
				c15Run(&cs, r)
				emit(&cs)
			}
			return
		}
		n := 6
		if !c.Quick() {
			n = 60
		}
		for i := 0; i < n; i++ {
			cs := &c15Case{Procs: []int{1, 2, 4, 16}[i%4], Initial: [][]world.File{c15Tree(r), c15Tree(r)}}
			nops := r.Range(2, 8)
			if !c.Quick() {
				nops = r.Range(2, 16)
			}
			if !c.Quick() && i%16 == 2 { // uploads of a little over 1000 files each while file lists are slow to write (thorough tier)
				nops = 0
				cs.SlowLists = true
				for k := 0; k < r.Range(2, 3); k++ {
					cs.Ops = append(cs.Ops, c15Op{Kind: "upload", Many: 1001 + r.Intn(19)})
				}
			}
			for k := 0; k < nops; k++ {
				o := c15Op{Which: r.Intn(2)}
				switch r.Intn(7) {
				case 0, 1, 2:
					o.Kind, o.Files = "upload", c15Tree(r)
					if r.Chance(1, 3) {
						o.Slow = 1
					}
				case 3:
					o.Kind, o.Files = "diamond", c15Tree(r)
				case 4, 5:
					o.Kind = "download"
				default:
					o.Kind = "label"
				}
				if r.Bool() {
					o.Wait = []int{1, 5, 20, 60, 150}[r.Intn(5)]
				}
				cs.Ops = append(cs.Ops, o)
			}
			c.Pending(cs)
			c15Run(cs, r)
			emit(cs)
			if cs.Hung {
				break // the stuck operations hold whatever they hold: nothing more can be run in this process
			}
		}
	}
}
