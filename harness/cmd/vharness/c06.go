package main

import (
	"context"
	"encoding/json"
	"fmt"
	"sort"
	"strings"

	"github.com/oneconcern/datamon/pkg/core"
	"github.com/oneconcern/datamon/pkg/model"
	"github.com/oneconcern/datamon/pkg/storage"

	"verifharness/gen"
	"verifharness/memstore"
	"verifharness/world"
)

// C06: bundles become visible atomically. Crash injection at every mutating store call.

type c06Crash struct {
	At         int         `json:"at"`
	Landed     bool        `json:"landed"`
	Lost       bool        `json:"lost,omitempty"` // the write landed and reported a failure; the process went on
	LandedMeta int         `json:"landedmeta"`
	OpErr      bool        `json:"operr"`
	Listed     []string    `json:"listed"`
	ListedOk   bool        `json:"listedok"`
	Latest     *string     `json:"latest,omitempty"`
	Labels     [][2]string `json:"labels"`
	LabelsOk   bool        `json:"labelsok"`
	PriorOk    bool        `json:"priorok"`
	NewKeys    []string    `json:"newkeys"`
	NewRead    bool        `json:"newreadable"`
	RetryOk    bool        `json:"retryok"`
	SameIDOk   bool        `json:"sameidok"`
}

type c06Case struct {
	Kind    string         `json:"kind"` // upload | label | commit
	Splits  [][]world.File `json:"splits,omitempty"` // commit: files of the completed splits of the diamond
	did     string
	merged  []world.File
	Prior   [][]world.File `json:"prior"`
	Labels  [][2]interface{} `json:"labels"` // name, prior bundle index
	Files   []world.File   `json:"files,omitempty"`
	Name    string         `json:"name,omitempty"`
	Target  int            `json:"target"`
	Sampled bool           `json:"sampled"`
	Crashes []c06Crash     `json:"crashes,omitempty"`
	RaceOk  bool           `json:"raceok"`
	newID   string
	entries []world.Entry
	before  [2]string
	labelID string
}

func c06Setup(cs *c06Case, r *gen.Rand) (*world.World, []string, map[string][]world.File) {
	w := world.New()
	if err := w.CreateRepo("repo"); err != nil {
		panic(err)
	}
	_ = w.CreateRepo("repo2")
	var ids []string
	orig := map[string][]world.File{}
	for i, files := range cs.Prior {
		id := kid(r, int64(100+10*i))
		if _, err := w.Upload("repo", world.Consumable(files), world.UploadOpts{LeafSize: 64, BundleID: id, Message: "prior"}); err != nil {
			panic(err)
		}
		ids = append(ids, id)
		orig[id] = files
	}
	for _, l := range cs.Labels {
		idx := int(l[1].(float64))
		if idx < len(ids) {
			w.PutLabel("repo", l[0].(string), ids[idx])
		}
	}
	return w, ids, orig
}

func sameFiles(a, b []world.File) bool {
	var fa, fb []world.File
	for _, f := range a {
		if !strings.HasPrefix(f.Name, ".datamon/") {
			fa = append(fa, f)
		}
	}
	for _, f := range b {
		if !strings.HasPrefix(f.Name, ".datamon/") && !model.IsGeneratedFile(f.Name) {
			fb = append(fb, f)
		}
	}
	if len(fa) != len(fb) {
		return false
	}
	sort.Slice(fa, func(i, j int) bool { return fa[i].Name < fa[j].Name })
	sort.Slice(fb, func(i, j int) bool { return fb[i].Name < fb[j].Name })
	for i := range fa {
		if fa[i].Name != fb[i].Name || string(fa[i].Data) != string(fb[i].Data) {
			return false
		}
	}
	return true
}

// sameFilesExact: the downloaded files, datamon's own metadata aside, are exactly the expected ones (entries under
// .conflicts/ included)
func sameFilesExact(got, want []world.File) bool {
	var plain []world.File
	for _, f := range got {
		if !strings.HasPrefix(f.Name, ".datamon/") {
			plain = append(plain, f)
		}
	}
	w := append([]world.File(nil), want...)
	sort.Slice(plain, func(i, j int) bool { return plain[i].Name < plain[j].Name })
	sort.Slice(w, func(i, j int) bool { return w[i].Name < w[j].Name })
	if len(plain) != len(w) {
		return false
	}
	for i := range plain {
		if plain[i].Name != w[i].Name || string(plain[i].Data) != string(w[i].Data) {
			return false
		}
	}
	return true
}

func c06Diamond(cs *c06Case, w *world.World, r *gen.Rand) {
	cs.did = kid(r, 4000)
	dd := model.NewDiamondDescriptor(model.DiamondID(cs.did))
	if _, err := core.CreateDiamond("repo", w.Stores(), core.DiamondDescriptor(dd), core.DiamondLogger(world.Nop)); err != nil {
		panic(err)
	}
	for i, files := range cs.Splits {
		sd := model.NewSplitDescriptor(model.SplitID(fmt.Sprintf("split-%d", i)))
		got, err := core.CreateSplit("repo", cs.did, w.Stores(), core.SplitDescriptor(sd), core.SplitLogger(world.Nop))
		if err != nil {
			panic(err)
		}
		s := core.NewSplit("repo", cs.did, w.Stores(), core.SplitDescriptor(&got), core.SplitConsumableStore(world.Consumable(files)), core.SplitLogger(world.Nop))
		s.BundleDescriptor.LeafSize = 64
		if err := s.Upload(); err != nil {
			panic(err)
		}
	}
}

func c06Run(cs *c06Case, r *gen.Rand) {
	base, ids, orig := c06Setup(cs, r)
	if cs.Kind == "commit" {
		c06Diamond(cs, base, r)
	}
	cs.before = whSnap(base)
	cs.newID = kid(r, 5000)
	cs.labelID = ""
	if cs.Kind == "label" && cs.Target < len(ids) {
		cs.labelID = ids[cs.Target]
	} else if cs.Kind == "label" {
		cs.labelID = cs.newID
	}
	// the operation, on a given world with the given wrappers
	op := func(w *world.World) error {
		if cs.Kind == "upload" {
			_, err := w.Upload("repo", world.Consumable(cs.Files), world.UploadOpts{LeafSize: 64, BundleID: cs.newID, Message: "new", Concurrency: 1})
			return err
		}
		if cs.Kind == "commit" {
			d := core.NewDiamond("repo", w.Stores(), core.DiamondDescriptor(model.NewDiamondDescriptor(model.DiamondID(cs.did))), core.DiamondLogger(world.Nop))
			d.BundleDescriptor.LeafSize = 64
			return d.Commit()
		}
		l := core.NewLabel(core.LabelDescriptor(model.NewLabelDescriptor(model.LabelName(cs.Name))))
		b := core.NewBundle(core.Repo("repo"), core.ContextStores(w.Stores()), core.BundleID(cs.labelID), core.Logger(world.Nop))
		return l.UploadDescriptor(context.Background(), b)
	}
	// count the mutating calls of an uninterrupted run, and learn the entries
	probe := base.Clone()
	cr := &memstore.Crash{}
	wrapAll(probe, cr)
	if err := op(probe); err != nil {
		panic(fmt.Sprint("uninterrupted operation failed: ", err))
	}
	total := cr.Count()
	if cs.Kind == "commit" { // what the committed bundle must hold
		probe.WrapMeta, probe.WrapVMeta, probe.WrapBlob = nil, nil, nil
		bs, err := core.ListBundles("repo", probe.Stores())
		if err != nil || len(bs) != len(ids)+1 {
			panic("uninterrupted commit did not add one bundle")
		}
		for _, b := range bs {
			if _, old := orig[b.ID]; !old {
				cs.merged, err = probe.Download("repo", b.ID, 0, nil)
				if err != nil {
					panic(err)
				}
			}
		}
	}
	if cs.Kind == "upload" {
		probe.WrapMeta, probe.WrapVMeta, probe.WrapBlob = nil, nil, nil
		es, err := probe.Entries("repo", cs.newID)
		if err != nil {
			panic(err)
		}
		cs.entries = es
	}
	cs.RaceOk = true
	if cs.Kind == "upload" && !cs.Sampled {
		cs.RaceOk = c06Race(cs, base)
	}
	var metaCalls []int // positions (1-based) of metadata writes in the trace
	for i, t := range cr.Trace {
		if strings.HasPrefix(t, "meta:") || strings.HasPrefix(t, "vmeta:") {
			metaCalls = append(metaCalls, i+1)
		}
	}
	points := map[int]bool{}
	for _, p := range metaCalls {
		points[p] = true
		if p > 1 {
			points[p-1] = true
		}
	}
	if cs.Sampled {
		for i := 0; i < 6; i++ {
			points[r.Range(1, total)] = true
		}
	} else {
		for p := 1; p <= total; p++ {
			points[p] = true
		}
	}
	var ps []int
	for p := range points {
		ps = append(ps, p)
	}
	sort.Ints(ps)
	cs.Crashes = nil
	for _, at := range ps {
		isMeta := false
		for _, p := range metaCalls {
			isMeta = isMeta || p == at
		}
		for variant := 0; variant < 3; variant++ {
			landed, lost := variant >= 1, variant == 2
			if lost && (!isMeta || cs.Kind == "commit") {
				// a response lost on a metadata write of an upload or a label assignment (a commit reacts to a failed
				// write by rolling the diamond back, which is judged by C12)
				continue
			}
			w := base.Clone()
			c := &memstore.Crash{At: at, Landed: landed, Lost: lost}
			wrapAll(w, c)
			err := op(w)
			co := c06Crash{At: at, Landed: landed, Lost: lost, OpErr: err != nil}
			for _, t := range c.Trace {
				if strings.HasPrefix(t, "meta:") || strings.HasPrefix(t, "vmeta:") {
					co.LandedMeta++
				}
			}
			// observe with a restarted process: plain stores
			w.WrapMeta, w.WrapVMeta, w.WrapBlob = nil, nil, nil
			st := w.Stores()
			if bs, e := core.ListBundles("repo", st, core.BatchSize([]int{1, 2, 1000}[at%3])); e == nil {
				co.ListedOk = true
				for _, b := range bs {
					co.Listed = append(co.Listed, b.ID)
				}
			}
			if v, e := core.GetLatestBundle("repo", st); e == nil {
				co.Latest = &v
			}
			if ls, e := core.ListLabels("repo", st); e == nil {
				co.LabelsOk = true
				for _, l := range ls {
					co.Labels = append(co.Labels, [2]string{l.Name, l.BundleID})
				}
			}
			co.PriorOk = true
			for id, files := range orig {
				got, e := w.Download("repo", id, 0, nil)
				if e != nil || !sameFiles(got, files) {
					co.PriorOk = false
				}
			}
			for _, k := range w.Meta.SortedKeys() {
				if strings.HasPrefix(k, model.GetArchivePathPrefixToBundles("repo")+cs.newID+"/") {
					co.NewKeys = append(co.NewKeys, k)
				}
			}
			if cs.Kind == "upload" {
				got, e := w.Download("repo", cs.newID, 0, nil)
				co.NewRead = e == nil && sameFiles(got, cs.Files)
			}
			if cs.Kind == "commit" { // every bundle that is listed and was not there before reads back completely
				co.NewRead = true
				for _, id := range co.Listed {
					if _, old := orig[id]; !old {
						got, e := w.Download("repo", id, 0, nil)
						if e != nil || c15FilesDigest(got) != c15FilesDigest(cs.merged) { // kept conflict versions included
							co.NewRead = false
						}
					}
				}
			}
			// retry under the same bundle id with other content of the same shape: either refused and still
			// invisible, or visible with the retried content - never the interrupted run's
			co.SameIDOk = true
			if cs.Kind == "upload" && !co.NewRead {
				w2 := w.Clone()
				alt := make([]world.File, len(cs.Files))
				for i, f := range cs.Files {
					alt[i] = world.File{Name: f.Name, Data: append([]byte("retried:"), f.Data...)}
				}
				_, e := w2.Upload("repo", world.Consumable(alt), world.UploadOpts{LeafSize: 64, BundleID: cs.newID, Message: "retry same id", Concurrency: 1})
				listed := false
				if bs, e2 := core.ListBundles("repo", w2.Stores()); e2 == nil {
					for _, b := range bs {
						listed = listed || b.ID == cs.newID
					}
				}
				if e != nil {
					co.SameIDOk = !listed
				} else {
					got, e2 := w2.Download("repo", cs.newID, 0, nil)
					co.SameIDOk = listed && e2 == nil && sameFiles(got, alt)
				}
			}
			// retry the operation (a new upload of the same tree gets a new id; a label set is repeated)
			if cs.Kind == "upload" {
				rid, e := w.Upload("repo", world.Consumable(cs.Files), world.UploadOpts{LeafSize: 64, Message: "retry"})
				if e == nil {
					got, e2 := w.Download("repo", rid, 0, nil)
					co.RetryOk = e2 == nil && sameFiles(got, cs.Files)
					// the leftover of the interrupted run hides no bundle from a listing, whatever the page size
					want := map[string]bool{rid: true}
					for _, id := range ids {
						want[id] = true
					}
					for _, bsz := range []int{1, 2} {
						bs, e3 := core.ListBundles("repo", w.Stores(), core.BatchSize(bsz))
						seen := 0
						for _, b := range bs {
							if want[b.ID] {
								seen++
							}
						}
						co.RetryOk = co.RetryOk && e3 == nil && seen == len(want)
					}
				}
			} else if cs.Kind == "commit" {
				// a retried commit succeeds unless the interrupted one had already terminated the diamond; what it
				// adds is judged by C12 (a second bundle is the recorded finding), here it must leave everything readable
				_ = op(w)
				co.RetryOk = true
				if bs, e := core.ListBundles("repo", w.Stores()); e == nil {
					for _, b := range bs {
						if _, old := orig[b.ID]; !old {
							got, e2 := w.Download("repo", b.ID, 0, nil)
							co.RetryOk = co.RetryOk && e2 == nil && c15FilesDigest(got) == c15FilesDigest(cs.merged)
						}
					}
				} else {
					co.RetryOk = false
				}
			} else {
				if e := op(w); e == nil {
					l := core.NewLabel(core.LabelDescriptor(model.NewLabelDescriptor(model.LabelName(cs.Name))))
					b := core.NewBundle(core.Repo("repo"), core.ContextStores(w.Stores()), core.Logger(world.Nop))
					co.RetryOk = l.DownloadDescriptor(context.Background(), b, true) == nil && l.Descriptor.BundleID == cs.labelID
				}
			}
			if len(cs.Crashes) == 0 {
				co.SameIDOk = co.SameIDOk && cs.RaceOk
			}
			cs.Crashes = append(cs.Crashes, co)
		}
	}
}

// two uploads under one preserved bundle id, the second one run to completion just before the k-th
// metadata write of the first: whichever becomes visible keeps its own content, and at most one does
func c06Race(cs *c06Case, base *world.World) bool {
	alt := make([]world.File, len(cs.Files))
	for i, f := range cs.Files {
		alt[i] = world.File{Name: f.Name, Data: append([]byte("late:"), f.Data...)}
	}
	if len(alt) > 1 {
		alt = alt[:len(alt)-1] // another number of entries
	}
	for k := 1; k <= 4; k++ {
		w := base.Clone()
		plain := &world.World{Meta: w.Meta, VMeta: w.VMeta, Blob: w.Blob, Wal: w.Wal, ReadLog: w.ReadLog}
		var errA error
		ranA := false
		n := 0
		f := &memstore.Faults{}
		f.Hook = func(store, op, key string) {
			if store != "meta" || op != "put" || !strings.Contains(key, cs.newID) || ranA {
				return
			}
			if n++; n == k {
				ranA = true
				_, errA = plain.Upload("repo", world.Consumable(cs.Files), world.UploadOpts{LeafSize: 64, BundleID: cs.newID, Message: "first", Concurrency: 1})
			}
		}
		w.WrapMeta = func(st storage.Store) storage.Store { return &memstore.Flaky{Store: st, F: f, Name: "meta"} }
		_, errB := w.Upload("repo", world.Consumable(alt), world.UploadOpts{LeafSize: 64, BundleID: cs.newID, Message: "late", Concurrency: 1})
		if !ranA {
			break
		}
		listed := false
		if bs, e := core.ListBundles("repo", plain.Stores()); e == nil {
			for _, b := range bs {
				listed = listed || b.ID == cs.newID
			}
		} else {
			return false
		}
		got, e := plain.Download("repo", cs.newID, 0, nil)
		switch {
		case errA == nil && errB != nil:
			if !listed || e != nil || !sameFiles(got, cs.Files) {
				return false
			}
		case errA != nil && errB == nil:
			if !listed || e != nil || !sameFiles(got, alt) {
				return false
			}
		case errA != nil && errB != nil:
			if listed {
				return false
			}
		default:
			return false
		}
	}
	return true
}

func wrapAll(w *world.World, c *memstore.Crash) {
	w.WrapMeta = func(s storage.Store) storage.Store { return &memstore.Crashy{Store: s, Name: "meta", C: c} }
	w.WrapVMeta = func(s storage.Store) storage.Store { return &memstore.Crashy{Store: s, Name: "vmeta", C: c} }
	w.WrapBlob = func(s storage.Store) storage.Store { return &memstore.Crashy{Store: s, Name: "blob", C: c} }
}

func c06Coq(cs *c06Case) string {
	kind := fmt.Sprintf("AUpload \"repo\" %s %s", S(cs.newID), entriesCoq(cs.entries))
	if cs.Kind == "commit" {
		kind = "ACommit \"repo\""
	}
	if cs.Kind == "label" {
		kind = fmt.Sprintf("ALabel \"repo\" %s %s", S(cs.Name), S(cs.labelID))
	}
	obs := make([]string, len(cs.Crashes))
	for i, c := range cs.Crashes {
		listed, labels, latest := "None", "None", "None"
		if c.ListedOk {
			listed = "(Some " + strList(c.Listed) + ")"
		}
		if c.LabelsOk {
			ps := make([]string, len(c.Labels))
			for j, p := range c.Labels {
				ps[j] = "(" + S(p[0]) + ", " + S(p[1]) + ")"
			}
			labels = "(Some [" + strings.Join(ps, "; ") + "])"
		}
		if c.Latest != nil {
			latest = "(Some " + S(*c.Latest) + ")"
		}
		obs[i] = fmt.Sprintf("{| co_landed_meta := %d%%nat; co_listed := %s; co_latest := %s; co_labels := %s; co_prior_ok := %v; co_new_keys := %s; co_new_readable := %v; co_retry_ok := %v |}",
			c.LandedMeta, listed, latest, labels, c.PriorOk, strList(c.NewKeys), c.NewRead, c.RetryOk && c.SameIDOk)
	}
	return fmt.Sprintf("{| ac_before := {| sn_meta := %s; sn_vmeta := %s |}; ac_kind := %s; ac_E := defaultBundleEntriesPerFile; ac_crashes := [%s] |}",
		cs.before[0], cs.before[1], kind, strings.Join(obs, ";\n "))
}

func init() {
	props["C06"] = func(c *Ctx) {
		c.Header = "From Coq Require Import List String NArith.\nFrom DM Require Import Gen.Consts Model.Meta Model.ListCheck Model.RepoOps Model.WorldCheck Model.Atomic Model.AtomicCheck.\nImport ListNotations.\nOpen Scope list_scope."
		c.CaseTy = "acase"
		c.Report = "report"
		c.PerFile = 2
		c.Rule = "histories of 0..3 committed bundles and labels, then a bundle upload, a label assignment or the commit of a diamond with one or two completed splits interrupted at every mutating store call (blob and metadata stores; before and after the call lands; for metadata writes of uploads and label assignments also with the write landing, its response lost and the process going on) - all calls for small trees, every metadata write plus sampled blob writes for a 1001-file tree with two file lists; after each crash a restarted process lists bundles, resolves the latest bundle, lists labels, downloads every previously committed bundle and the new one, retries the operation, retries an interrupted upload under the same bundle id with other content of the same shape, lists the bundles again page by page after the retry; two uploads under one preserved bundle id, one run to completion just before each metadata write of the other; label assignments also move existing labels; non-trivial = crash point at which the operation had written at least one object, distinct by case and crash point"
		emit := func(cs *c06Case) {
			n := 0
			for _, co := range cs.Crashes {
				if co.LandedMeta > 0 || co.At > 1 {
					n++
				}
			}
			key := ""
			if n > 0 {
				key = fmt.Sprint(cs.Kind, cs.newID, len(cs.Crashes))
			}
			c.Emit(cs, c06Coq(cs), key, fmt.Sprintf("%s crashpoints=%d", cs.Kind, len(cs.Crashes)), "atomic")
		}
		r := c.Rng.Fork()
		if len(c.Replay) > 0 {
			for _, raw := range c.Replay {
				var cs c06Case
				if err := json.Unmarshal(raw, &cs); err != nil {
					panic(err)
				}
				c.Pending(&cs)
				c06Run(&cs, r)
				emit(&cs)
			}
			return
		}
		n := 10
		if !c.Quick() {
			n = 150
		}
		for i := 0; i < n; i++ {
			cs := &c06Case{Kind: "upload"}
			if i%5 == 4 {
				cs.Kind = "commit"
				for j := 0; j < r.Range(1, 2); j++ {
					cs.Splits = append(cs.Splits, whTree(r, r.Range(1, 3)))
				}
			} else if i%3 == 2 {
				cs.Kind = "label"
				cs.Name = []string{"v1", "latest", "rel-1"}[r.Intn(3)]
			}
			np := r.Intn(4)
			if cs.Kind == "label" && i%6 == 2 && np < 2 {
				np = 2
			}
			for j := 0; j < np; j++ {
				cs.Prior = append(cs.Prior, whTree(r, r.Range(1, 4)))
			}
			for _, ln := range []string{"v1", "old"} {
				if len(cs.Prior) > 0 && (r.Bool() || (cs.Kind == "label" && i%6 == 2)) {
					cs.Labels = append(cs.Labels, [2]interface{}{ln, float64(r.Intn(len(cs.Prior)))})
				}
			}
			cs.Target = r.Intn(3)
			if cs.Kind == "label" && len(cs.Labels) > 0 && (r.Bool() || i%6 == 2) { // move an existing label
				cs.Name = cs.Labels[r.Intn(len(cs.Labels))][0].(string)
			}
			cs.Files = whTree(r, r.Range(1, 4))
			if i == 1 { // two file lists
				cs.Files = nil
				for j := 0; j < 1001; j++ {
					cs.Files = append(cs.Files, world.File{Name: fmt.Sprintf("many/f%04d", j), Data: []byte{byte(j), byte(j >> 8)}})
				}
				cs.Sampled = true
			}
			c.Pending(cs)
			c06Run(cs, r)
			emit(cs)
		}
	}
}
