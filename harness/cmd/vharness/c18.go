package main

import (
	"context"
	"encoding/json"
	"fmt"
	"os"
	"sort"
	"strings"

	jfuse "github.com/jacobsa/fuse"
	"github.com/jacobsa/fuse/fuseops"
	"github.com/jacobsa/fuse/fuseutil"
	"github.com/oneconcern/datamon/pkg/core"
	dfuse "github.com/oneconcern/datamon/pkg/fuse"
	"github.com/oneconcern/datamon/pkg/model"
	"github.com/oneconcern/datamon/pkg/storage/localfs"
	"github.com/spf13/afero"

	"verifharness/gen"
	"verifharness/world"
)

// C18: a mutable mount behaves like a file system and commits what it shows. The harness plays the kernel:
// it resolves paths by lookups, keeps the lookup counts, forgets inodes, applies the checks the VFS makes
// before calling the file system, and sends the operations.

type c18Op struct {
	Kind  string `json:"kind"` // create mkdir write truncate rename unlink rmdir lookup read readdir forget
	Path  string `json:"path"`
	Path2 string `json:"path2,omitempty"`
	Off   int    `json:"off,omitempty"`
	Len   int    `json:"len,omitempty"`
	Data  []byte `json:"data,omitempty"`
	Raced bool   `json:"raced,omitempty"` // create/mkdir sent without the kernel's own existence check (two callers racing)
	Buf   int    `json:"buf,omitempty"`
	// observed
	Res   string     `json:"res"` // ok | ENOENT ... | kind | data | names
	IsDir bool       `json:"isdir,omitempty"`
	Size  int        `json:"size,omitempty"`
	Got   []byte     `json:"got,omitempty"`
	Names []c17Child `json:"names,omitempty"`
}

type c18Entry struct {
	Path  string `json:"path"`
	Inode uint64 `json:"inode"`
}

type c18Case struct {
	Ops      []c18Op      `json:"ops"`
	Inodes   [][]c18Entry `json:"inodes"`
	Orphans  []bool       `json:"orphans"` // open-unlink-write-read sequences that behaved
	Commit   []world.File `json:"commit"`
	CommitOk bool         `json:"commitok"`
	Crashed  string       `json:"crashed,omitempty"`
	Inode    *c18Inode    `json:"inode,omitempty"` // a history of the inode generator instead of a program
}

type c18Kernel struct {
	ops    fuseutil.FileSystem
	counts map[fuseops.InodeID]int // lookup counts the file system owes us
	paths  map[fuseops.InodeID]string
}

var c18Errs = map[error]string{jfuse.ENOENT: "ENOENT", jfuse.EEXIST: "EEXIST", jfuse.ENOTEMPTY: "ENOTEMPTY", jfuse.ENOTDIR: "ENOTDIR",
	jfuse.EINVAL: "EINVAL", jfuse.EIO: "EIO", jfuse.ENOSYS: "ENOSYS"}

func c18Err(err error) string {
	if s, ok := c18Errs[err]; ok {
		return s
	}
	return "ERR:" + err.Error()
}

func (k *c18Kernel) lookup(parent fuseops.InodeID, name, full string) (fuseops.InodeID, fuseops.InodeAttributes, error) {
	op := &fuseops.LookUpInodeOp{Parent: parent, Name: name}
	if err := k.ops.LookUpInode(context.Background(), op); err != nil {
		return 0, fuseops.InodeAttributes{}, err
	}
	k.counts[op.Entry.Child]++
	k.paths[op.Entry.Child] = full
	return op.Entry.Child, op.Entry.Attributes, nil
}

// walk resolves a path; returns inode, attributes, and a POSIX error name ("" if found)
func (k *c18Kernel) walk(p string) (fuseops.InodeID, fuseops.InodeAttributes, string) {
	ino := fuseops.InodeID(fuseops.RootInodeID)
	attr := fuseops.InodeAttributes{Mode: os.ModeDir | 0777}
	if p == "" {
		return ino, attr, ""
	}
	comps := strings.Split(p, "/")
	for i, c := range comps {
		if !attr.Mode.IsDir() {
			return 0, attr, "ENOTDIR"
		}
		child, a, err := k.lookup(ino, c, strings.Join(comps[:i+1], "/"))
		if err != nil {
			return 0, attr, c18Err(err)
		}
		ino, attr = child, a
	}
	return ino, attr, ""
}

func splitPath(p string) (string, string) {
	if i := strings.LastIndex(p, "/"); i >= 0 {
		return p[:i], p[i+1:]
	}
	return "", p
}

func (k *c18Kernel) forgetAll(ino fuseops.InodeID) {
	for k.counts[ino] > 0 {
		k.counts[ino]--
		_ = k.ops.ForgetInode(context.Background(), &fuseops.ForgetInodeOp{Inode: ino, N: 1})
	}
	delete(k.counts, ino)
	delete(k.paths, ino)
}

func (k *c18Kernel) do(o *c18Op, r *gen.Rand) {
	ctx := context.Background()
	o.Res, o.IsDir, o.Size, o.Got, o.Names = "", false, 0, nil, nil
	switch o.Kind {
	case "create", "mkdir":
		dir, name := splitPath(o.Path)
		if o.Path == "" {
			o.Res = "EEXIST"
			return
		}
		pino, pattr, e := k.walk(dir)
		if e != "" {
			o.Res = e
			return
		}
		if !pattr.Mode.IsDir() {
			o.Res = "ENOTDIR"
			return
		}
		if !o.Raced {
			if _, _, err := k.lookup(pino, name, o.Path); err == nil {
				o.Res = "EEXIST"
				return
			}
		}
		var err error
		var child fuseops.InodeID
		if o.Kind == "create" {
			op := &fuseops.CreateFileOp{Parent: pino, Name: name, Mode: 0644}
			err = k.ops.CreateFile(ctx, op)
			child = op.Entry.Child
		} else {
			op := &fuseops.MkDirOp{Parent: pino, Name: name, Mode: os.ModeDir | 0755}
			err = k.ops.MkDir(ctx, op)
			child = op.Entry.Child
		}
		if err != nil {
			o.Res = c18Err(err)
			return
		}
		k.counts[child]++
		k.paths[child] = o.Path
		o.Res = "ok"
	case "write", "truncate", "read":
		ino, attr, e := k.walk(o.Path)
		if e != "" {
			o.Res = e
			return
		}
		if attr.Mode.IsDir() {
			o.Res = "EISDIR"
			return
		}
		if err := k.ops.OpenFile(ctx, &fuseops.OpenFileOp{Inode: ino}); err != nil {
			o.Res = c18Err(err)
			return
		}
		switch o.Kind {
		case "write":
			if err := k.ops.WriteFile(ctx, &fuseops.WriteFileOp{Inode: ino, Offset: int64(o.Off), Data: o.Data}); err != nil {
				o.Res = c18Err(err)
				return
			}
			o.Res = "ok"
		case "truncate":
			sz := uint64(o.Len)
			if err := k.ops.SetInodeAttributes(ctx, &fuseops.SetInodeAttributesOp{Inode: ino, Size: &sz}); err != nil {
				o.Res = c18Err(err)
				return
			}
			o.Res = "ok"
		default:
			op := &fuseops.ReadFileOp{Inode: ino, Offset: int64(o.Off), Dst: make([]byte, o.Len)}
			if err := k.ops.ReadFile(ctx, op); err != nil {
				o.Res = c18Err(err)
				return
			}
			o.Res, o.Got = "data", append([]byte{}, op.Dst[:op.BytesRead]...)
		}
		if o.Kind != "read" && o.Off%2 == 0 { // an fsync before the close, for about half of the modifications
			if err := k.ops.SyncFile(ctx, &fuseops.SyncFileOp{Inode: ino}); err != nil {
				o.Res = c18Err(err)
				return
			}
		}
		_ = k.ops.FlushFile(ctx, &fuseops.FlushFileOp{Inode: ino})
		_ = k.ops.ReleaseFileHandle(ctx, &fuseops.ReleaseFileHandleOp{})
	case "lookup":
		_, attr, e := k.walk(o.Path)
		if e != "" {
			o.Res = e
			return
		}
		o.Res, o.IsDir, o.Size = "kind", attr.Mode.IsDir(), int(attr.Size)
	case "readdir":
		ino, attr, e := k.walk(o.Path)
		if e != "" {
			o.Res = e
			return
		}
		if !attr.Mode.IsDir() {
			o.Res = "ENOTDIR"
			return
		}
		if err := k.ops.OpenDir(ctx, &fuseops.OpenDirOp{Inode: ino}); err != nil {
			o.Res = c18Err(err)
			return
		}
		off := 0
		o.Names = []c17Child{}
		for steps := 0; steps < 1000; steps++ {
			op := &fuseops.ReadDirOp{Inode: ino, Offset: fuseops.DirOffset(off), Dst: make([]byte, o.Buf)}
			if err := k.ops.ReadDir(ctx, op); err != nil {
				o.Res = c18Err(err)
				return
			}
			ents := c17Dirents(op.Dst[:op.BytesRead])
			if len(ents) == 0 {
				break
			}
			for _, e := range ents {
				o.Names = append(o.Names, c17Child{Name: e.Name, IsDir: e.Type == fuseutil.DT_Directory})
				off = int(e.Offset)
			}
		}
		o.Res = "names"
	case "unlink", "rmdir":
		dir, name := splitPath(o.Path)
		if o.Path == "" {
			o.Res = map[string]string{"unlink": "EISDIR", "rmdir": "EINVAL"}[o.Kind]
			return
		}
		pino, pattr, e := k.walk(dir)
		if e != "" {
			o.Res = e
			return
		}
		if !pattr.Mode.IsDir() {
			o.Res = "ENOTDIR"
			return
		}
		child, attr, err := k.lookup(pino, name, o.Path)
		if err != nil {
			o.Res = c18Err(err)
			return
		}
		// the VFS refuses the wrong kind before calling the file system
		if o.Kind == "unlink" && attr.Mode.IsDir() {
			o.Res = "EISDIR"
			return
		}
		if o.Kind == "rmdir" && !attr.Mode.IsDir() {
			o.Res = "ENOTDIR"
			return
		}
		if o.Kind == "unlink" {
			err = k.ops.Unlink(ctx, &fuseops.UnlinkOp{Parent: pino, Name: name})
		} else {
			err = k.ops.RmDir(ctx, &fuseops.RmDirOp{Parent: pino, Name: name})
		}
		if err != nil {
			o.Res = c18Err(err)
			return
		}
		o.Res = "ok"
		if r.Bool() { // the dentry is gone; the inode is forgotten now or later
			k.forgetAll(child)
		}
	case "rename":
		if o.Path == "" {
			o.Res = "EINVAL"
			return
		}
		odir, oname := splitPath(o.Path)
		opino, opattr, e := k.walk(odir)
		if e != "" {
			o.Res = e
			return
		}
		if !opattr.Mode.IsDir() {
			o.Res = "ENOTDIR"
			return
		}
		_, oattr, err := k.lookup(opino, oname, o.Path)
		if err != nil {
			o.Res = c18Err(err)
			return
		}
		if o.Path2 == "" {
			o.Res = "EINVAL"
			return
		}
		ndir, nname := splitPath(o.Path2)
		npino, npattr, e := k.walk(ndir)
		if e != "" {
			o.Res = e
			return
		}
		if !npattr.Mode.IsDir() {
			o.Res = "ENOTDIR"
			return
		}
		if o.Path == o.Path2 {
			o.Res = "ok"
			return
		}
		if strings.HasPrefix(o.Path2+"/", o.Path+"/") {
			o.Res = "EINVAL"
			return
		}
		var victim fuseops.InodeID
		if child, nattr, err := k.lookup(npino, nname, o.Path2); err == nil {
			victim = child
			if oattr.Mode.IsDir() && !nattr.Mode.IsDir() {
				o.Res = "ENOTDIR"
				return
			}
			if !oattr.Mode.IsDir() && nattr.Mode.IsDir() {
				o.Res = "EISDIR"
				return
			}
		}
		if err := k.ops.Rename(ctx, &fuseops.RenameOp{OldParent: opino, OldName: oname, NewParent: npino, NewName: nname}); err != nil {
			o.Res = c18Err(err)
			return
		}
		o.Res = "ok"
		if victim != 0 && r.Bool() {
			k.forgetAll(victim)
		}
	case "orphan":
		// the temporary file pattern: the file is unlinked while the kernel still holds its inode, and used on
		o.Res = "skipped"
		dir, name := splitPath(o.Path)
		pino, pattr, e := k.walk(dir)
		if e != "" || !pattr.Mode.IsDir() || o.Path == "" {
			return
		}
		if _, _, err := k.lookup(pino, name, o.Path); err == nil {
			return // the name is taken
		}
		cop := &fuseops.CreateFileOp{Parent: pino, Name: name, Mode: 0644}
		if err := k.ops.CreateFile(ctx, cop); err != nil {
			o.Res = "orphan-bad: create " + c18Err(err)
			return
		}
		ino := cop.Entry.Child
		k.counts[ino]++
		k.paths[ino] = o.Path + " (unlinked)"
		bad := ""
		if err := k.ops.WriteFile(ctx, &fuseops.WriteFileOp{Inode: ino, Offset: 0, Data: o.Data}); err != nil {
			bad = "write before unlink " + c18Err(err)
		}
		if err := k.ops.Unlink(ctx, &fuseops.UnlinkOp{Parent: pino, Name: name}); err != nil {
			bad = "unlink " + c18Err(err)
		}
		if err := k.ops.WriteFile(ctx, &fuseops.WriteFileOp{Inode: ino, Offset: int64(len(o.Data)), Data: o.Data}); err != nil && bad == "" {
			bad = "write after unlink " + c18Err(err)
		}
		rop := &fuseops.ReadFileOp{Inode: ino, Offset: 0, Dst: make([]byte, 4*len(o.Data)+8)}
		if err := k.ops.ReadFile(ctx, rop); err != nil && bad == "" {
			bad = "read after unlink " + c18Err(err)
		} else if bad == "" && string(rop.Dst[:rop.BytesRead]) != string(o.Data)+string(o.Data) {
			bad = "read after unlink returned other bytes"
		}
		ga := &fuseops.GetInodeAttributesOp{Inode: ino}
		if err := k.ops.GetInodeAttributes(ctx, ga); bad == "" && (err != nil || ga.Attributes.Size != uint64(2*len(o.Data))) {
			bad = "attributes after unlink"
		}
		k.forgetAll(ino)
		if bad != "" {
			o.Res = "orphan-bad: " + bad
		} else {
			o.Res = "orphan-ok"
		}
	case "forget":
		// forget a cached entry that has no cached entry below it
		var cands []fuseops.InodeID
		for ino, p := range k.paths {
			leaf := true
			for ino2, q := range k.paths {
				if ino2 != ino && strings.HasPrefix(q, p+"/") {
					leaf = false
				}
			}
			if leaf {
				cands = append(cands, ino)
			}
		}
		sort.Slice(cands, func(i, j int) bool { return cands[i] < cands[j] })
		if len(cands) > 0 {
			k.forgetAll(cands[o.Off%len(cands)])
		}
		o.Res = "ok"
	}
}

// every live entry with its inode, found by listing and lookups
func (k *c18Kernel) snapshot() []c18Entry {
	var out []c18Entry
	var rec func(dir string, ino fuseops.InodeID)
	rec = func(dir string, ino fuseops.InodeID) {
		o := &c18Op{Kind: "readdir", Path: dir, Buf: 65536}
		k.do(o, nil)
		for _, n := range o.Names {
			p := n.Name
			if dir != "" {
				p = dir + "/" + n.Name
			}
			child, attr, err := k.lookup(ino, n.Name, p)
			if err != nil {
				out = append(out, c18Entry{Path: p + " (listed but not found)", Inode: 0})
				continue
			}
			out = append(out, c18Entry{Path: p, Inode: uint64(child)})
			if attr.Mode.IsDir() && len(out) < 500 {
				rec(p, child)
			}
		}
	}
	rec("", fuseops.RootInodeID)
	return out
}

func c18Run(cs *c18Case, r *gen.Rand) {
	w := world.New()
	if err := w.CreateRepo("repo"); err != nil {
		panic(err)
	}
	tmp, err := os.MkdirTemp("/root/.cache/verif/tmp", "rw")
	if err != nil {
		panic(err)
	}
	defer os.RemoveAll(tmp)
	bd := model.NewBundleDescriptor(model.Message("mutable mount"))
	bd.LeafSize = 64
	b := core.NewBundle(core.Repo("repo"), core.ContextStores(w.Stores()), core.BundleDescriptor(bd),
		core.ConsumableStore(localfs.New(afero.NewBasePathFs(afero.NewOsFs(), tmp))), core.Logger(world.Nop))
	mfs, err := dfuse.NewMutableFS(b, dfuse.Logger(world.Nop))
	if err != nil {
		panic(fmt.Sprint("mutable mount: ", err))
	}
	k := &c18Kernel{ops: mfs.VerifFileSystem(), counts: map[fuseops.InodeID]int{}, paths: map[fuseops.InodeID]string{}}
	cs.Inodes, cs.Commit, cs.CommitOk, cs.Crashed, cs.Orphans = nil, nil, false, "", nil
	func() {
		defer func() {
			if p := recover(); p != nil {
				cs.Crashed = fmt.Sprint(p)
			}
		}()
		for i := range cs.Ops {
			k.do(&cs.Ops[i], r)
			if strings.HasPrefix(cs.Ops[i].Res, "orphan-") {
				cs.Orphans = append(cs.Orphans, cs.Ops[i].Res == "orphan-ok")
			}
			if i%15 == 14 {
				cs.Inodes = append(cs.Inodes, k.snapshot())
			}
		}
		cs.Inodes = append(cs.Inodes, k.snapshot())
		if err := mfs.Commit(); err != nil {
			return
		}
		// read the committed bundle back
		files, err := w.Download("repo", b.BundleID, 0, nil)
		if err != nil {
			return
		}
		cs.CommitOk = true
		for _, f := range files {
			if !strings.HasPrefix(f.Name, ".datamon/") {
				cs.Commit = append(cs.Commit, world.File{Name: strings.TrimPrefix(f.Name, "/"), Data: f.Data})
			}
		}
	}()
}

func c18Coq(cs *c18Case) string {
	steps := make([]string, 0, len(cs.Ops))
	for _, o := range cs.Ops {
		var op string
		switch o.Kind {
		case "create":
			op = "FCreate " + c17Path(o.Path)
		case "mkdir":
			op = "FMkdir " + c17Path(o.Path)
		case "write":
			op = fmt.Sprintf("FWrite %s %d%%nat %s", c17Path(o.Path), o.Off, coqBytes(o.Data))
		case "truncate":
			op = fmt.Sprintf("FTruncate %s %d%%nat", c17Path(o.Path), o.Len)
		case "rename":
			op = fmt.Sprintf("FRename %s %s", c17Path(o.Path), c17Path(o.Path2))
		case "unlink":
			op = "FUnlink " + c17Path(o.Path)
		case "rmdir":
			op = "FRmdir " + c17Path(o.Path)
		case "lookup":
			op = "FLookup " + c17Path(o.Path)
		case "read":
			op = fmt.Sprintf("FRead %s %d%%nat %d%%nat", c17Path(o.Path), o.Off, o.Len)
		case "readdir":
			op = "FReaddir " + c17Path(o.Path)
		default:
			continue // forgets and unlinked temporary files leave the tree alone
		}
		var res string
		switch o.Res {
		case "ok":
			res = "ROk"
		case "kind":
			res = fmt.Sprintf("RKind %v %d%%nat", o.IsDir, o.Size)
		case "data":
			res = "RData " + coqBytes(o.Got)
		case "names":
			ns := make([]string, len(o.Names))
			for i, n := range o.Names {
				ns[i] = fmt.Sprintf("(%s, %v)", S(n.Name), n.IsDir)
			}
			res = "RNames [" + strings.Join(ns, "; ") + "]"
		case "ENOENT", "EEXIST", "ENOTEMPTY", "ENOTDIR", "EISDIR", "EINVAL":
			res = "RErr " + o.Res
		default:
			res = "RData [999999%N]" // an answer no POSIX tree gives (EIO, ENOSYS, nothing)
		}
		steps = append(steps, fmt.Sprintf("(%s, %s)", op, res))
	}
	cps := make([]string, len(cs.Inodes))
	for i, cp := range cs.Inodes {
		es := make([]string, len(cp))
		for j, e := range cp {
			es[j] = fmt.Sprintf("(%s, %d%%N)", c17Path(e.Path), e.Inode)
		}
		cps[i] = "[" + strings.Join(es, "; ") + "]"
	}
	commit := "None"
	if cs.CommitOk {
		fs := make([]string, len(cs.Commit))
		for i, f := range cs.Commit {
			fs[i] = fmt.Sprintf("(%s, %s)", c17Path(f.Name), coqBytes(f.Data))
		}
		commit = "(Some [" + strings.Join(fs, "; ") + "])"
	}
	orph := make([]string, len(cs.Orphans))
	for i, b := range cs.Orphans {
		orph[i] = fmt.Sprint(b)
	}
	return fmt.Sprintf("{| mu_steps := [%s]; mu_inodes := [%s]; mu_commit := %s; mu_crashed := %v; mu_orphans := [%s] |}",
		strings.Join(steps, ";\n "), strings.Join(cps, ";\n "), commit, cs.Crashed != "", strings.Join(orph, "; "))
}

// a history of the inode generator: -1 allocates, k >= 0 releases the k-th number in use (oldest first)
type c18Inode struct {
	Ops  []int    `json:"ops"`
	Base uint64   `json:"base"`
	Obs  []*uint64 `json:"obs"`
}

func c18InodeRun(h *c18Inode) {
	g := dfuse.VerifNewINodeGenerator()
	h.Base = uint64(g.Base())
	h.Obs = nil
	var live []fuseops.InodeID
	for _, o := range h.Ops {
		if o < 0 {
			n := g.Alloc()
			live = append(live, n)
			v := uint64(n)
			h.Obs = append(h.Obs, &v)
			continue
		}
		if o >= len(live) {
			h.Obs = append(h.Obs, nil)
			continue
		}
		v := uint64(live[o])
		g.Free(live[o])
		live = append(live[:o:o], live[o+1:]...)
		h.Obs = append(h.Obs, &v)
	}
}

func c18InodeEmit(c *Ctx, h *c18Inode) {
	ops := make([]string, len(h.Ops))
	obs := make([]string, len(h.Ops))
	frees := 0
	for i, o := range h.Ops {
		if o < 0 {
			ops[i] = "IAlloc"
		} else {
			ops[i] = fmt.Sprintf("IFree %d%%nat", o)
			frees++
		}
		if h.Obs[i] == nil {
			obs[i] = "None"
		} else {
			obs[i] = fmt.Sprintf("Some %d%%N", *h.Obs[i])
		}
	}
	key := ""
	if frees >= 2 {
		key = fmt.Sprint(h.Ops)
	}
	coq := fmt.Sprintf("ICase {| ic_base := %d%%N; ic_ops := [%s]; ic_obs := [%s] |}", h.Base, strings.Join(ops, "; "), strings.Join(obs, "; "))
	c.Emit(&c18Case{Inode: h}, coq, key, fmt.Sprintf("inode-history ops=%d", len(h.Ops)/20*20), "mutable")
}

func init() {
	props["C18"] = func(c *Ctx) {
		c.Header = "From Coq Require Import List String NArith.\nFrom DM Require Import Model.Mount Model.MutFs Model.Inode Model.InodeCheck Model.MutFsCheck.\nImport ListNotations.\nOpen Scope list_scope."
		c.CaseTy = "c18case"
		c.Report = "report18"
		c.PerFile = 5
		c.Rule = "programs of 20..60 operations over the names a, b, c, d in directories up to three deep: create, mkdir (one in eight sent without the kernel's existence check, as when two callers race), write at offsets inside and past the end, truncate, rename (onto nothing, onto files, onto empty and non-empty directories), unlink, rmdir, lookup, read, readdir through buffers of 60..4096 bytes resumed at the returned offsets, forgets of cached leaf entries, and temporary files (created, unlinked while the kernel still holds the inode, written, read, forgotten); the harness resolves paths by lookups, keeps lookup counts and applies the checks the VFS makes before calling the file system; every 15 operations and at the end the whole tree is walked for inode numbers; finally the mount is committed and the bundle downloaded; separately, histories of 5..120 allocations and releases on the mount's inode number generator alone (releasing the newest, the oldest and arbitrary numbers in use); non-trivial = program with at least one successful rename or unlink and a forget, distinct by operations"
		emit := func(cs *c18Case) {
			key := ""
			okMut, forgets := false, false
			for _, o := range cs.Ops {
				okMut = okMut || ((o.Kind == "rename" || o.Kind == "unlink") && o.Res == "ok")
				forgets = forgets || o.Kind == "forget"
			}
			if okMut && forgets {
				j, _ := json.Marshal(cs.Ops)
				key = string(j)
				if len(key) > 400 {
					key = key[:400]
				}
			}
			c.Emit(cs, "UCase ("+c18Coq(cs)+")", key, fmt.Sprintf("ops=%d crashed=%v commit=%v", len(cs.Ops)/10*10, cs.Crashed != "", cs.CommitOk), "mutable")
		}
		r := c.Rng.Fork()
		if len(c.Replay) > 0 {
			for _, raw := range c.Replay {
				var cs c18Case
				if err := json.Unmarshal(raw, &cs); err != nil {
					panic(err)
				}
				if cs.Inode != nil {
					c18InodeRun(cs.Inode)
					c18InodeEmit(c, cs.Inode)
					continue
				}
				c.Pending(&cs)
				c18Run(&cs, r)
				emit(&cs)
			}
			return
		}
		n := 20
		if !c.Quick() {
			n = 400
		}
		// histories of the inode number generator alone
		for i := 0; i < 3*n; i++ {
			h := &c18Inode{}
			live := 0
			bias := r.Range(2, 6) // out of 8: how often a step allocates
			for j := 0; j < r.Range(5, 120); j++ {
				if live == 0 || r.Intn(8) < bias {
					h.Ops = append(h.Ops, -1)
					live++
					continue
				}
				k := r.Intn(live)
				switch r.Intn(4) {
				case 0:
					k = live - 1 // the most recent number: often the highest one
				case 1:
					k = 0
				}
				if r.Chance(1, 30) {
					k = live + r.Intn(3) // no such entry: ignored
				} else {
					live--
				}
				h.Ops = append(h.Ops, k)
			}
			c18InodeRun(h)
			c18InodeEmit(c, h)
		}
		names := []string{"a", "b", "c", "d"}
		path := func() string {
			d := r.Intn(4)
			if d == 0 {
				if r.Chance(1, 10) {
					return ""
				}
				d = 1
			}
			parts := make([]string, d)
			for i := range parts {
				parts[i] = names[r.Intn(len(names))]
			}
			return strings.Join(parts, "/")
		}
		for i := 0; i < n; i++ {
			cs := &c18Case{}
			// a rough picture of the tree, kept only to aim operations at paths that exist
			shadow := map[string]bool{"": true} // path -> is a directory
			existing := func(wantDir, wantFile bool) (string, bool) {
				var c []string
				for p, d := range shadow {
					if p != "" && ((d && wantDir) || (!d && wantFile)) {
						c = append(c, p)
					}
				}
				sort.Strings(c)
				if len(c) == 0 {
					return "", false
				}
				return c[r.Intn(len(c))], true
			}
			fresh := func() string { // a new name in an existing directory
				var dirs []string
				for p, d := range shadow {
					if d && strings.Count(p, "/") < 2 {
						dirs = append(dirs, p)
					}
				}
				sort.Strings(dirs)
				d := dirs[r.Intn(len(dirs))]
				n := names[r.Intn(len(names))]
				if d == "" {
					return n
				}
				return d + "/" + n
			}
			aim := func(wantDir, wantFile bool) string {
				if r.Chance(3, 4) {
					if p, ok := existing(wantDir, wantFile); ok {
						return p
					}
				}
				if r.Bool() {
					return fresh()
				}
				return path()
			}
			parentIsDir := func(p string) bool {
				d, _ := splitPath(p)
				return shadow[d]
			}
			hasKids := func(p string) bool {
				for q := range shadow {
					if strings.HasPrefix(q, p+"/") {
						return true
					}
				}
				return false
			}
			for k := 0; k < r.Range(20, 60); k++ {
				var o c18Op
				switch x := r.Intn(20); {
				case x < 3:
					o = c18Op{Kind: "create", Path: fresh(), Raced: r.Chance(1, 8)}
					if _, ok := shadow[o.Path]; !ok && parentIsDir(o.Path) {
						shadow[o.Path] = false
					}
				case x < 6:
					o = c18Op{Kind: "mkdir", Path: fresh(), Raced: r.Chance(1, 8)}
					if r.Chance(1, 6) {
						o.Path = path()
					}
					if _, ok := shadow[o.Path]; !ok && parentIsDir(o.Path) {
						shadow[o.Path] = true
					}
				case x < 8:
					o = c18Op{Kind: "write", Path: aim(false, true), Off: r.Intn(100), Data: r.Bytes(r.Range(1, 90))}
				case x == 8:
					o = c18Op{Kind: "truncate", Path: aim(false, true), Len: r.Intn(120)}
				case x < 11:
					o = c18Op{Kind: "rename", Path: aim(true, true)}
					if r.Bool() {
						o.Path2 = fresh()
					} else {
						o.Path2 = aim(true, true)
					}
					sd, sok := shadow[o.Path]
					td, tok := shadow[o.Path2]
					if sok && o.Path != "" && o.Path2 != "" && parentIsDir(o.Path2) && o.Path != o.Path2 && !strings.HasPrefix(o.Path2+"/", o.Path+"/") &&
						(!tok || (sd == td && !(td && hasKids(o.Path2)))) {
						moved := map[string]bool{}
						for q, d := range shadow {
							if q == o.Path || strings.HasPrefix(q, o.Path+"/") {
								moved[o.Path2+q[len(o.Path):]] = d
								delete(shadow, q)
							}
						}
						for q, d := range moved {
							shadow[q] = d
						}
					}
				case x == 11:
					o = c18Op{Kind: "unlink", Path: aim(false, true)}
					if d, ok := shadow[o.Path]; ok && !d {
						delete(shadow, o.Path)
					}
				case x == 12:
					o = c18Op{Kind: "rmdir", Path: aim(true, false)}
					if d, ok := shadow[o.Path]; ok && d && o.Path != "" && !hasKids(o.Path) {
						delete(shadow, o.Path)
					}
				case x < 15:
					o = c18Op{Kind: "lookup", Path: aim(true, true)}
				case x < 17:
					o = c18Op{Kind: "read", Path: aim(false, true), Off: r.Intn(80), Len: r.Range(1, 200)}
				case x == 17 && r.Bool():
					o = c18Op{Kind: "orphan", Path: fresh(), Data: r.Bytes(r.Range(1, 40))}
				case x == 17:
					o = c18Op{Kind: "readdir", Path: aim(true, false), Buf: []int{60, 100, 200, 4096}[r.Intn(4)]}
					if r.Bool() {
						o.Path = ""
					}
				default:
					o = c18Op{Kind: "forget", Off: r.Intn(100)}
					if r.Chance(1, 3) { // a file with content goes away for good, then new files are made and read
						old := fresh()
						if _, taken := shadow[old]; !taken && parentIsDir(old) {
							cs.Ops = append(cs.Ops, c18Op{Kind: "create", Path: old}, c18Op{Kind: "write", Path: old, Off: 0, Data: r.Bytes(r.Range(20, 90))},
								c18Op{Kind: "unlink", Path: old}, c18Op{Kind: "forget", Off: 0}, c18Op{Kind: "forget", Off: 1}, c18Op{Kind: "forget", Off: 2})
							nw := fresh()
							if _, taken := shadow[nw]; !taken && parentIsDir(nw) {
								shadow[nw] = false
								cs.Ops = append(cs.Ops, c18Op{Kind: "create", Path: nw}, c18Op{Kind: "read", Path: nw, Off: 0, Len: 100},
									c18Op{Kind: "write", Path: nw, Off: 0, Data: r.Bytes(r.Range(1, 10))}, c18Op{Kind: "lookup", Path: nw}, c18Op{Kind: "read", Path: nw, Off: 0, Len: 100})
							}
						}
					}
				}
				cs.Ops = append(cs.Ops, o)
			}
			c.Pending(cs)
			c18Run(cs, r)
			emit(cs)
		}
	}
}
