package main

import (
	"encoding/json"
	"fmt"
	"sort"
	"strings"

	"github.com/oneconcern/datamon/pkg/sidecar/param"

	"verifharness/gen"
)

// C21: sidecar parameters <-> environment variable strings.
type c21Bundle struct {
	Name, SrcPath, SrcRepo, SrcLabel, SrcBundle, DestPath, DestRepo, DestMsg, DestLabel, DestBundleID string
}
type c21DB struct {
	Name                                                                     string
	Port                                                                     int
	DestRepo, DestMsg, DestLabel, DestBundleID, SrcRepo, SrcLabel, SrcBundle string
}
type c21Case struct {
	Kind    string      `json:"kind"` // fuse | pg
	Sleep   bool        `json:"sleep"`
	Ignore  bool        `json:"ignore"`
	Coord   string      `json:"coord"`
	Bucket  string      `json:"bucket"`
	Context string      `json:"context"`
	CName   string      `json:"cname"`
	CEmail  string      `json:"cemail"`
	Bundles []c21Bundle `json:"bundles,omitempty"`
	DBs     []c21DB     `json:"dbs,omitempty"`
	Err     string      `json:"err,omitempty"`
	Env     [][2]string `json:"env,omitempty"`
	AddErr  bool        `json:"adderr,omitempty"`
}

func cps(s string) string {
	rs := []rune(s)
	parts := make([]string, len(rs))
	for i, r := range rs {
		parts[i] = fmt.Sprint(int(r))
	}
	return "[" + strings.Join(parts, ";") + "]"
}

func c21Run(cs *c21Case) {
	var env map[string]string
	var err error
	if cs.Kind == "fuse" {
		p, e := param.NewFUSEParams(param.FUSECoordPoint(cs.Coord), param.FUSEConfigBucketName(cs.Bucket), param.FUSEContextName(cs.Context))
		if e != nil {
			cs.AddErr = true
			return
		}
		p.Globals.SleepInsteadOfExit = cs.Sleep
		for _, b := range cs.Bundles {
			opts := []param.FUSEParamsBDOption{param.BDName(b.Name)}
			if b.SrcLabel != "" || b.SrcBundle == "" {
				opts = append(opts, param.BDSrcByLabel(b.SrcPath, b.SrcRepo, b.SrcLabel))
			} else {
				opts = append(opts, param.BDSrcByBundleID(b.SrcPath, b.SrcRepo, b.SrcBundle))
			}
			opts = append(opts, param.BDDest(b.DestRepo, b.DestMsg, b.DestPath))
			if b.DestLabel != "" {
				opts = append(opts, param.BDDestLabel(b.DestLabel))
			}
			if b.DestBundleID != "" {
				opts = append(opts, param.BDDestBundleIDFile(b.DestBundleID))
			}
			if e := p.AddBundle(opts...); e != nil {
				cs.AddErr = true
				return
			}
		}
		env, err = param.FUSEParamsToEnvVars(p)
	} else {
		p, e := param.NewPGParams(param.PGCoordPoint(cs.Coord), param.PGContributor(cs.CName, cs.CEmail))
		if e != nil {
			cs.AddErr = true
			return
		}
		p.Globals.SleepInsteadOfExit = cs.Sleep
		p.Globals.IgnorePGVersionMismatch = cs.Ignore
		for _, d := range cs.DBs {
			opts := []param.PGParamsDBOption{param.DBNameAndPort(d.Name, d.Port), param.DBDest(d.DestRepo, d.DestMsg)}
			if d.DestLabel != "" {
				opts = append(opts, param.DBDestLabel(d.DestLabel))
			}
			if d.SrcLabel != "" || d.SrcBundle == "" {
				opts = append(opts, param.DBSrcByLabel(d.SrcRepo, d.SrcLabel))
			} else {
				opts = append(opts, param.DBSrcByBundle(d.SrcRepo, d.SrcBundle))
			}
			if d.DestBundleID != "" {
				opts = append(opts, param.DBDestBundleIDFile(d.DestBundleID))
			}
			if e := p.AddDatabase(opts...); e != nil {
				cs.AddErr = true
				return
			}
		}
		env, err = param.PGParamsToEnvVars(p)
	}
	if err != nil {
		cs.Err = err.Error()
		return
	}
	keys := make([]string, 0, len(env))
	for k := range env {
		keys = append(keys, k)
	}
	sort.Strings(keys)
	for _, k := range keys {
		cs.Env = append(cs.Env, [2]string{k, env[k]})
	}
}

func c21Coq(cs *c21Case) string {
	obs := "None"
	if cs.Err == "" {
		items := make([]string, len(cs.Env))
		for i, kv := range cs.Env {
			items[i] = "(" + cps(kv[0]) + ", " + cps(kv[1]) + ")"
		}
		obs = "(Some [" + strings.Join(items, "; ") + "])"
	}
	if cs.Kind == "fuse" {
		bs := make([]string, len(cs.Bundles))
		for i, b := range cs.Bundles {
			bs[i] = fmt.Sprintf("{| fb_name := %s; fb_srcpath := %s; fb_srcrepo := %s; fb_srclabel := %s; fb_srcbundle := %s; fb_destpath := %s; fb_destrepo := %s; fb_destmsg := %s; fb_destlabel := %s; fb_destbundleid := %s |}",
				cps(b.Name), cps(b.SrcPath), cps(b.SrcRepo), cps(b.SrcLabel), cps(b.SrcBundle), cps(b.DestPath), cps(b.DestRepo), cps(b.DestMsg), cps(b.DestLabel), cps(b.DestBundleID))
		}
		return fmt.Sprintf("FuseCase {| fp_sleep := %v; fp_coord := %s; fp_bucket := %s; fp_context := %s; fp_bundles := [%s] |} %s",
			cs.Sleep, cps(cs.Coord), cps(cs.Bucket), cps(cs.Context), strings.Join(bs, "; "), obs)
	}
	ds := make([]string, len(cs.DBs))
	for i, d := range cs.DBs {
		ds[i] = fmt.Sprintf("{| pd_name := %s; pd_port := %s; pd_destrepo := %s; pd_destmsg := %s; pd_destlabel := %s; pd_destbundleid := %s; pd_srcrepo := %s; pd_srclabel := %s; pd_srcbundle := %s |}",
			cps(d.Name), cps(fmt.Sprint(d.Port)), cps(d.DestRepo), cps(d.DestMsg), cps(d.DestLabel), cps(d.DestBundleID), cps(d.SrcRepo), cps(d.SrcLabel), cps(d.SrcBundle))
	}
	return fmt.Sprintf("PgCase {| pp_sleep := %v; pp_ignore := %v; pp_coord := %s; pp_cname := %s; pp_cemail := %s; pp_dbs := [%s] |} %s",
		cs.Sleep, cs.Ignore, cps(cs.Coord), cps(cs.CName), cps(cs.CEmail), strings.Join(ds, "; "), obs)
}

// value generators
func c21Val(r *gen.Rand, allowEmpty bool) string {
	if allowEmpty && r.Chance(1, 4) {
		return ""
	}
	if r.Chance(1, 12) { // line breaks and blanks, also at either end (a YAML block scalar ends in a line break)
		return []string{"message\n", "a\r\n", "two\nlines", "tab\there", " lead", "trail ", "\nx", "x\n\n", "\n", "\r"}[r.Intn(10)]
	}
	switch r.Intn(10) {
	case 0, 1, 2, 3: // ordinary identifiers and paths
		alpha := "abcdefghijklmnopqrstuvwxyz0123456789-_/."
		n := r.Range(1, 14)
		b := make([]byte, n)
		for i := range b {
			b[i] = alpha[r.Intn(len(alpha))]
		}
		return string(b)
	case 4, 5: // dense: every code point from '0' up to a chosen one (pushes the separators upwards)
		hi := r.Range('0', 'z'+3)
		var sb strings.Builder
		for c := '0'; c <= rune(hi); c++ {
			sb.WriteRune(c)
		}
		return sb.String()
	case 6: // dense with holes
		hi := r.Range('0', 'z')
		var sb strings.Builder
		for c := '0'; c <= rune(hi); c++ {
			if !r.Chance(1, 12) {
				sb.WriteRune(c)
			}
		}
		if sb.Len() == 0 {
			return "x"
		}
		return sb.String()
	case 7: // punctuation-heavy printable ASCII
		n := r.Range(1, 20)
		b := make([]byte, n)
		for i := range b {
			b[i] = byte(r.Range(32, 126))
		}
		return string(b)
	case 8: // unicode
		rs := []rune{'é', 'ü', '日', '本', '🙂', 'Ω', 'ß', '0', 'S', 'c'}
		n := r.Range(1, 8)
		var sb strings.Builder
		for i := 0; i < n; i++ {
			sb.WriteRune(rs[r.Intn(len(rs))])
		}
		return sb.String()
	default: // the separators a previous run would pick
		return []string{"0", "1", "01", ";", ":", ";:", "S", "c", "sp", "true", "false", "0123456789:;<=>?@ABCDEFGHIJKLMNOPQR"}[r.Intn(12)]
	}
}

func c21Gen(r *gen.Rand) *c21Case {
	cs := &c21Case{Sleep: r.Bool()}
	if r.Chance(3, 5) {
		cs.Kind = "fuse"
		cs.Coord, cs.Bucket, cs.Context = c21Val(r, r.Chance(1, 10)), c21Val(r, r.Chance(1, 10)), c21Val(r, r.Chance(1, 10))
		nb := r.Intn(4)
		for i := 0; i < nb; i++ {
			b := c21Bundle{Name: fmt.Sprintf("bd%d_%s", i, c21Val(r, false)), SrcPath: c21Val(r, true), SrcRepo: c21Val(r, true)}
			if r.Bool() {
				b.SrcLabel = c21Val(r, true)
			} else {
				b.SrcBundle = c21Val(r, true)
			}
			if r.Bool() {
				b.DestRepo, b.DestMsg, b.DestPath = c21Val(r, false), c21Val(r, false), c21Val(r, true)
				b.DestLabel, b.DestBundleID = c21Val(r, true), c21Val(r, true)
			} else {
				b.DestPath = c21Val(r, true)
			}
			cs.Bundles = append(cs.Bundles, b)
		}
	} else {
		cs.Kind = "pg"
		cs.Ignore = r.Bool()
		cs.Coord = c21Val(r, r.Chance(1, 10))
		if r.Bool() {
			cs.CName, cs.CEmail = c21Val(r, true), c21Val(r, true)
		}
		nd := r.Intn(4)
		for i := 0; i < nd; i++ {
			d := c21DB{Name: fmt.Sprintf("db%d_%s", i, c21Val(r, false)), Port: r.Range(1, 65535), DestRepo: c21Val(r, false), DestMsg: c21Val(r, false),
				DestLabel: c21Val(r, true), DestBundleID: c21Val(r, true), SrcRepo: c21Val(r, true)}
			if r.Bool() {
				d.SrcLabel = c21Val(r, true)
			} else {
				d.SrcBundle = c21Val(r, true)
			}
			cs.DBs = append(cs.DBs, d)
		}
	}
	return cs
}

func init() {
	props["C21"] = func(c *Ctx) {
		c.Header = "From Coq Require Import List NArith String.\nFrom DM Require Import Model.Param Model.ParamCheck.\nImport ListNotations.\nOpen Scope N_scope."
		c.CaseTy = "pcase"
		c.Report = "report"
		c.PerFile = 150
		c.Rule = "random FUSE/PG parameter sets built through the public constructors; values from ordinary, dense ('0'..x, pushing the separators onto later code points), punctuation, unicode and separator-looking streams; non-trivial = encoding succeeded with a separator other than the default pair, distinct by separators+shape"
		emit := func(cs *c21Case) {
			c.Pending(cs)
			c21Run(cs)
			if cs.AddErr {
				return // refused by the constructors before any encoding
			}
			key, class := "", cs.Kind+":err"
			if cs.Err == "" && len(cs.Env) > 0 {
				v := []rune(cs.Env[0][1])
				class = cs.Kind + ":ok"
				if len(v) >= 2 && !(v[0] == '0' && v[1] == '1') {
					key = fmt.Sprintf("%s/%c%c/%d", cs.Kind, v[0], v[1], len(cs.Env))
					class = cs.Kind + ":ok-shifted-separators"
				}
			}
			c.Emit(cs, c21Coq(cs), key, class, "param")
		}
		if len(c.Replay) > 0 {
			for _, raw := range c.Replay {
				var cs c21Case
				if err := json.Unmarshal(raw, &cs); err != nil {
					panic(err)
				}
				cs.Err, cs.Env, cs.AddErr = "", nil, false
				emit(&cs)
			}
			return
		}
		// directed: for every boundary code point, values covering '0'..boundary (sleep on and off)
		for hi := '0' - 1; hi <= 'z'+2; hi++ {
			var sb strings.Builder
			for ch := '0'; ch <= hi; ch++ {
				sb.WriteRune(ch)
			}
			v := sb.String()
			if v == "" {
				v = "-"
			}
			for _, sleep := range []bool{true, false} {
				emit(&c21Case{Kind: "fuse", Sleep: sleep, Coord: v, Bucket: "b", Context: "ctx",
					Bundles: []c21Bundle{{Name: "in", SrcPath: "/data", SrcRepo: "repo", SrcLabel: "lbl"}}})
				emit(&c21Case{Kind: "pg", Sleep: sleep, Coord: v, DBs: []c21DB{{Name: "db", Port: 5432, DestRepo: "r", DestMsg: "m"}}})
			}
		}
		n := 600
		if !c.Quick() {
			n = 12000
		}
		r := c.Rng.Fork()
		for i := 0; i < n; i++ {
			emit(c21Gen(r))
		}
	}
}
