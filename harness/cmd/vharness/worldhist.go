package main

import (
	"context"
	"encoding/json"
	"fmt"
	"sort"
	"strings"
	"sync"

	"github.com/blang/semver"
	"github.com/oneconcern/datamon/pkg/core"
	"github.com/oneconcern/datamon/pkg/model"

	"verifharness/gen"
	"verifharness/world"
)

// Histories of repository-level operations: C08 (labels), C09 (delete / rename / delete-files /
// concurrent create), C10 (squash).

type whStep struct {
	Op      string        `json:"op"`
	Repo    string        `json:"repo,omitempty"`
	Repo2   string        `json:"repo2,omitempty"`
	Name    string        `json:"name,omitempty"`
	Bundle  int           `json:"bundle"` // index into the case's uploaded bundles (label target), -1 = a made-up id
	Prefix  string        `json:"prefix,omitempty"`
	Files   []world.File  `json:"files,omitempty"`
	Paths   []string      `json:"paths,omitempty"`
	N       int           `json:"n,omitempty"`
	Mode    string        `json:"mode,omitempty"` // none | all | semver
	Judge   bool          `json:"judge,omitempty"`
	Older   bool          `json:"older,omitempty"` // leftover: id older than every bundle so far
	Prep    bool          `json:"prep,omitempty"`  // setlabel: the label value was built before the history started
	// observations
	ID      string        `json:"id,omitempty"`
	Entries []world.Entry `json:"entries,omitempty"`
	Ok      bool          `json:"ok"`
	Str     *string       `json:"str,omitempty"`
	Pairs   [][2]string   `json:"pairs,omitempty"`
	Strs    []string      `json:"strs,omitempty"`
	Err     string        `json:"err,omitempty"`
	before, after [2]string
}

type whCase struct {
	Steps []whStep `json:"steps"`
	Sig   string   `json:"sig,omitempty"`
	final [2]string
	sem   []string
}

func whSnap(w *world.World) [2]string {
	return [2]string{world.CoqStore(w.Meta, S), world.CoqStore(w.VMeta, S)}
}

func whRun(cs *whCase, r *gen.Rand) {
	w := world.New()
	ctx := context.Background()
	var ids []string
	sec := int64(1000)
	// label values built ahead of time: their descriptors are older than anything the history stores
	prepared := map[int]*core.Label{}
	for i := range cs.Steps {
		if cs.Steps[i].Op == "setlabel" && cs.Steps[i].Prep {
			prepared[i] = core.NewLabel(core.LabelDescriptor(model.NewLabelDescriptor(model.LabelName(cs.Steps[i].Name))))
		}
	}
	for i := range cs.Steps {
		s := &cs.Steps[i]
		s.Ok, s.Err, s.Str, s.Pairs, s.Strs = false, "", nil, nil, nil
		if s.Judge {
			s.before = whSnap(w)
		}
		st := w.Stores()
		var err error
		bundleID := func() string {
			if s.Bundle >= 0 && s.Bundle < len(ids) {
				return ids[s.Bundle]
			}
			return "1abcdefghijklmnopqrstuvwxyz"
		}
		switch s.Op {
		case "create":
			err = w.CreateRepo(s.Repo)
		case "upload":
			sec += 10
			s.ID = kid(r, sec)
			if s.Older { // uploaded now under an id older than every bundle so far: id order is not upload order
				s.ID = kid(r, 500+int64(len(ids)))
			}
			_, err = w.Upload(s.Repo, world.Consumable(s.Files), world.UploadOpts{LeafSize: 64, BundleID: s.ID, Message: "h"})
			if err == nil {
				ids = append(ids, s.ID)
				s.Entries, _ = w.Entries(s.Repo, s.ID)
			}
		case "bigbundle": // a committed bundle with more than one file list, written directly
			sec += 10
			s.ID = kid(r, sec)
			for j := 0; j < s.N; j++ {
				s.Entries = append(s.Entries, world.Entry{Name: fmt.Sprintf("big/f%05d", j), Hash: strings.Repeat(fmt.Sprintf("%02x", j%256), 64), Size: uint64(j)})
			}
			w.PutBundle(s.Repo, s.ID, s.Entries, 1000, true)
			ids = append(ids, s.ID)
		case "leftover":
			sec += 10
			if s.Older {
				s.ID = kid(r, int64(len(ids))) // older than any committed bundle
			} else {
				s.ID = kid(r, sec)
			}
			for j, f := range s.Files {
				s.Entries = append(s.Entries, world.Entry{Name: f.Name, Hash: strings.Repeat(fmt.Sprintf("%02x", j%256), 64), Size: uint64(len(f.Data))})
			}
			w.PutBundle(s.Repo, s.ID, s.Entries, 1000, false)
		case "setlabel":
			l := core.NewLabel(core.LabelDescriptor(model.NewLabelDescriptor(model.LabelName(s.Name))))
			if p, ok := prepared[i]; ok {
				l = p
			}
			b := core.NewBundle(core.Repo(s.Repo), core.ContextStores(st), core.BundleID(bundleID()), core.Logger(world.Nop))
			s.ID = bundleID()
			err = l.UploadDescriptor(ctx, b)
		case "movelabel": // the same Label value, as downloaded, is uploaded again for another bundle
			l := core.NewLabel(core.LabelDescriptor(model.NewLabelDescriptor(model.LabelName(s.Name))))
			b0 := core.NewBundle(core.Repo(s.Repo), core.ContextStores(st), core.Logger(world.Nop))
			_ = l.DownloadDescriptor(ctx, b0, true)
			b := core.NewBundle(core.Repo(s.Repo), core.ContextStores(st), core.BundleID(bundleID()), core.Logger(world.Nop))
			s.ID = bundleID()
			err = l.UploadDescriptor(ctx, b)
		case "getlabel":
			l := core.NewLabel(core.LabelDescriptor(model.NewLabelDescriptor(model.LabelName(s.Name))))
			b := core.NewBundle(core.Repo(s.Repo), core.ContextStores(st), core.Logger(world.Nop))
			if e := l.DownloadDescriptor(ctx, b, true); e == nil {
				v := l.Descriptor.BundleID
				s.Str = &v
			}
		case "dellabel":
			err = core.DeleteLabel(s.Repo, st, s.Name)
		case "listlabels":
			var ls []model.LabelDescriptor
			ls, err = core.ListLabels(s.Repo, st, core.WithLabelPrefix(s.Prefix), core.BatchSize([]int{1, 2, 1000}[i%3]))
			for _, l := range ls {
				s.Pairs = append(s.Pairs, [2]string{l.Name, l.BundleID})
			}
		case "listbundles":
			var bs model.BundleDescriptors
			bs, err = core.ListBundles(s.Repo, st, core.BatchSize([]int{1, 3, 1000}[i%3]))
			for _, b := range bs {
				s.Strs = append(s.Strs, b.ID)
			}
		case "latest":
			if v, e := core.GetLatestBundle(s.Repo, st); e == nil {
				s.Str = &v
			}
		case "delrepo":
			err = core.DeleteRepo(s.Repo, st)
		case "rename":
			err = core.RenameRepo(s.Repo, s.Repo2, st)
		case "delentries":
			err = core.DeleteEntriesFromRepo(s.Repo, st, s.Paths)
		case "squash":
			opts := []core.Option{core.WithRetainNLatest(s.N)}
			switch s.Mode {
			case "all":
				opts = append(opts, core.WithRetainTags(true))
			case "semver":
				opts = append(opts, core.WithRetainSemverTags(true))
			}
			err = core.RepoSquash(st, s.Repo, opts...)
		}
		s.Ok = err == nil
		if err != nil {
			s.Err = err.Error()
		}
		if s.Judge {
			s.after = whSnap(w)
		}
	}
	cs.final = whSnap(w)
	cs.sem = nil
	for _, n := range whLabelNames {
		if _, err := semver.ParseTolerant(n); err == nil {
			cs.sem = append(cs.sem, n)
		}
	}
}

func entriesCoq(es []world.Entry) string {
	out := make([]string, len(es))
	for i, e := range es {
		out[i] = fmt.Sprintf("{| e_name := %s; e_hash := %s; e_size := %d%%N |}", S(e.Name), S(e.Hash), e.Size)
	}
	return "[" + strings.Join(out, "; ") + "]"
}

func whCoq(cs *whCase) string {
	steps := make([]string, len(cs.Steps))
	for i, s := range cs.Steps {
		var op, obs string
		res := fmt.Sprintf("WRes %v", s.Ok)
		str := "WStr None"
		if s.Str != nil {
			str = "WStr (Some " + S(*s.Str) + ")"
		}
		switch s.Op {
		case "create":
			op, obs = "OCreateRepo "+S(s.Repo), res
		case "upload":
			op, obs = fmt.Sprintf("OUpload %s %s %s", S(s.Repo), S(s.ID), entriesCoq(s.Entries)), res
		case "bigbundle":
			op, obs = fmt.Sprintf("OUpload %s %s %s", S(s.Repo), S(s.ID), entriesCoq(s.Entries)), "WRes true"
		case "leftover":
			op, obs = fmt.Sprintf("OLeftover %s %s %s", S(s.Repo), S(s.ID), entriesCoq(s.Entries)), "WRes true"
		case "setlabel", "movelabel":
			op, obs = fmt.Sprintf("OSetLabel %s %s %s", S(s.Repo), S(s.Name), S(s.ID)), res
		case "getlabel":
			op, obs = fmt.Sprintf("OGetLabel %s %s", S(s.Repo), S(s.Name)), str
		case "dellabel":
			op, obs = fmt.Sprintf("ODeleteLabel %s %s", S(s.Repo), S(s.Name)), res
		case "listlabels":
			op = fmt.Sprintf("OListLabels %s %s", S(s.Repo), S(s.Prefix))
			obs = "WPairs None"
			if s.Ok {
				ps := make([]string, len(s.Pairs))
				for j, p := range s.Pairs {
					ps[j] = "(" + S(p[0]) + ", " + S(p[1]) + ")"
				}
				obs = "WPairs (Some [" + strings.Join(ps, "; ") + "])"
			}
		case "listbundles":
			op = "OListBundles " + S(s.Repo)
			obs = "WStrs None"
			if s.Ok {
				obs = "WStrs (Some " + strList(s.Strs) + ")"
			}
		case "latest":
			op, obs = "OLatest "+S(s.Repo), str
		case "delrepo":
			op, obs = "ODeleteRepo "+S(s.Repo), res
		case "rename":
			op, obs = fmt.Sprintf("ORename %s %s", S(s.Repo), S(s.Repo2)), res
		case "delentries":
			op, obs = fmt.Sprintf("ODeleteEntries %s %s", S(s.Repo), strList(s.Paths)), res
		case "squash":
			mode := map[string]string{"none": "TNone", "all": "TAll", "semver": "TSemver", "": "TNone"}[s.Mode]
			op, obs = fmt.Sprintf("OSquash %s %d%%nat %s %s", S(s.Repo), s.N, mode, strList(cs.sem)), res
		}
		snaps := "None"
		if s.Judge {
			snaps = fmt.Sprintf("(Some ({| sn_meta := %s; sn_vmeta := %s |}, {| sn_meta := %s; sn_vmeta := %s |}))", s.before[0], s.before[1], s.after[0], s.after[1])
		}
		steps[i] = fmt.Sprintf("{| ws_op := %s; ws_obs := %s; ws_snaps := %s |}", op, obs, snaps)
	}
	return fmt.Sprintf("{| wc_E := defaultBundleEntriesPerFile; wc_steps := [%s]; wc_final := {| sn_meta := %s; sn_vmeta := %s |} |}", strings.Join(steps, ";\n "), cs.final[0], cs.final[1])
}

var whRepos = []string{"r", "r2", "r-x", "repo", "repo2"}
var whLabelNames = []string{"v1", "v1.0.0", "1.2", "v1-rc", "latest", "l", "l-2", "l_3", "v10", "0.0.1-beta", "rel"}
var whHostile = []string{"a/b", "x y", "dot.ted", "", "label.yaml", "é1", "/x", "../x", ".", "/", "-v", "_", "v1/"}

func indexOf(l []int, x int) int {
	for i, y := range l {
		if y == x {
			return i
		}
	}
	return 0
}

func whTree(r *gen.Rand, n int) []world.File {
	var fs []world.File
	for i := 0; i < n; i++ {
		fs = append(fs, world.File{Name: fmt.Sprintf("d%d/f%d", i%3, i), Data: r.Bytes(r.Intn(90))})
	}
	if r.Bool() {
		fs = append(fs, world.File{Name: "common.txt", Data: []byte("shared")})
	}
	return fs
}

// common prologue: a few repositories with bundles and labels
func whPrologue(r *gen.Rand, maxBundles int) ([]whStep, []string, map[string][]int) {
	var steps []whStep
	nr := r.Range(2, 4)
	perm := r.Perm(len(whRepos))
	var repos []string
	byRepo := map[string][]int{}
	nb := 0
	for i := 0; i < nr; i++ {
		repo := whRepos[perm[i]]
		repos = append(repos, repo)
		steps = append(steps, whStep{Op: "create", Repo: repo, Bundle: -1})
	}
	for _, repo := range repos {
		nbr := r.Intn(maxBundles + 1)
		for j := 0; j < nbr; j++ {
			if r.Chance(1, 5) {
				steps = append(steps, whStep{Op: "leftover", Repo: repo, Files: whTree(r, r.Range(1, 3)), Bundle: -1, Older: r.Chance(1, 3)})
				continue
			}
			steps = append(steps, whStep{Op: "upload", Repo: repo, Files: whTree(r, r.Range(0, 4)), Bundle: -1})
			byRepo[repo] = append(byRepo[repo], nb)
			nb++
		}
	}
	for _, repo := range repos {
		for _, ln := range whLabelNames {
			if r.Chance(1, 3) && len(byRepo[repo]) > 0 {
				steps = append(steps, whStep{Op: "setlabel", Repo: repo, Name: ln, Bundle: byRepo[repo][r.Intn(len(byRepo[repo]))]})
			}
		}
	}
	return steps, repos, byRepo
}

// big: -1, or which of the delete-files cases on bundles with several file lists to generate
func whGen(prop string, r *gen.Rand, big int) *whCase {
	cs := &whCase{}
	switch prop {
	case "C08":
		steps, repos, byRepo := whPrologue(r, 3)
		pickRepo := func() string {
			if r.Chance(1, 8) {
				return "norepo"
			}
			return repos[r.Intn(len(repos))]
		}
		have := map[string]map[string]int{} // repo -> label -> bundle it was last set to
		note := func(repo, name string, b int) {
			if have[repo] == nil {
				have[repo] = map[string]int{}
			}
			have[repo][name] = b
		}
		for _, st := range steps {
			if st.Op == "setlabel" {
				note(st.Repo, st.Name, st.Bundle)
			}
		}
		for i := 0; i < r.Range(10, 25); i++ {
			if r.Chance(1, 5) { // an existing label is moved to another bundle with a label value built before the history started
				var cands [][2]string
				for _, rp := range repos {
					if len(byRepo[rp]) >= 2 {
						for nm := range have[rp] {
							cands = append(cands, [2]string{rp, nm})
						}
					}
				}
				sort.Slice(cands, func(a, b int) bool { return cands[a][0]+"/"+cands[a][1] < cands[b][0]+"/"+cands[b][1] })
				if len(cands) > 0 {
					c := cands[r.Intn(len(cands))]
					bs := byRepo[c[0]]
					nb := bs[r.Intn(len(bs))]
					if nb == have[c[0]][c[1]] {
						nb = bs[(r.Intn(len(bs)-1)+1+indexOf(bs, nb))%len(bs)]
					}
					steps = append(steps, whStep{Op: "setlabel", Repo: c[0], Name: c[1], Bundle: nb, Judge: r.Chance(1, 4), Prep: true},
						whStep{Op: "getlabel", Repo: c[0], Name: c[1], Bundle: -1})
					note(c[0], c[1], nb)
					continue
				}
			}
			repo := pickRepo()
			name := whLabelNames[r.Intn(len(whLabelNames))]
			if r.Chance(1, 6) {
				name = whHostile[r.Intn(len(whHostile))]
			}
			b := -1
			if len(byRepo[repo]) > 0 {
				b = byRepo[repo][r.Intn(len(byRepo[repo]))]
			}
			switch r.Intn(6) {
			case 0, 1:
				op := "setlabel"
				if r.Chance(1, 3) {
					op = "movelabel"
				}
				steps = append(steps, whStep{Op: op, Repo: repo, Name: name, Bundle: b, Judge: r.Chance(1, 4), Prep: op == "setlabel" && r.Chance(1, 3)})
				if b >= 0 {
					note(repo, name, b)
				}
			case 2:
				steps = append(steps, whStep{Op: "dellabel", Repo: repo, Name: name, Bundle: -1})
			case 3:
				steps = append(steps, whStep{Op: "getlabel", Repo: repo, Name: name, Bundle: -1})
			default:
				steps = append(steps, whStep{Op: "listlabels", Repo: repo, Prefix: []string{"", "", "v", "l", "v1"}[r.Intn(5)], Bundle: -1})
			}
		}
		cs.Steps = steps
	case "C09":
		steps, repos, _ := whPrologue(r, 3)
		target := repos[r.Intn(len(repos))]
		if big >= 0 { // delete-files on bundles with several file lists
			name := func(j int) string { return fmt.Sprintf("big/f%05d", j) }
			n := []int{1001, 1002, 1003}[r.Intn(3)]
			variant := big
			if big >= 2 {
				n = []int{1000, 1001, 1999, 2000, 2001, 2500}[r.Intn(6)]
				variant = r.Intn(6)
			} else if big == 1 {
				n = 2001 + r.Intn(2)
			}
			var paths []string
			switch variant {
			case 0: // a few entries of the first and second list
				paths = []string{"big/f00003", "big/f01000", "common.txt"}[:r.Range(1, 3)]
			case 1: // the whole last list and an early entry: one list fewer
				for j := (n - 1) / 1000 * 1000; j < n; j++ {
					paths = append(paths, name(j))
				}
				paths = append(paths, name(3))
			case 2: // the whole first list
				for j := 0; j < 1000 && j < n; j++ {
					paths = append(paths, name(j))
				}
			case 3: // everything
				for j := 0; j < n; j++ {
					paths = append(paths, name(j))
				}
			case 4: // the last entry only
				paths = []string{name(n - 1)}
			default: // one entry of every list
				for j := 5; j < n; j += 1000 {
					paths = append(paths, name(j))
				}
			}
			steps = append(steps, whStep{Op: "bigbundle", Repo: target, N: n, Bundle: -1})
			if r.Bool() { // another bundle of the repository holding some of the paths
				steps = append(steps, whStep{Op: "upload", Repo: target, Files: []world.File{{Name: "big/f00003", Data: []byte("x")}, {Name: "keep", Data: []byte("y")}}, Bundle: -1})
			}
			steps = append(steps, whStep{Op: "delentries", Repo: target, Paths: paths, Bundle: -1, Judge: true})
			steps = append(steps, whStep{Op: "listbundles", Repo: target, Bundle: -1})
			cs.Steps = steps
			cs.Sig = "delete-entries-multi-index"
			return cs
		}
		if r.Chance(1, 2) { // labels that point at no committed bundle
			for j := 0; j < r.Range(1, 2); j++ {
				steps = append(steps, whStep{Op: "setlabel", Repo: repos[r.Intn(len(repos))], Name: []string{"dangling", "0.9.0", "gone"}[r.Intn(3)], Bundle: -1})
			}
			steps = append(steps, whStep{Op: "setlabel", Repo: target, Name: "dangling-t", Bundle: -1})
		}
		switch r.Intn(3) {
		case 0:
			steps = append(steps, whStep{Op: "delrepo", Repo: target, Bundle: -1, Judge: true})
		case 1:
			to := "renamed"
			if r.Chance(1, 4) {
				to = repos[(r.Intn(len(repos)))] // may already exist: refused
			}
			steps = append(steps, whStep{Op: "rename", Repo: target, Repo2: to, Bundle: -1, Judge: true})
		default:
			paths := []string{"common.txt", "d0/f0", "d1/f1", "nothing/here"}
			if pm := r.Perm(len(paths)); r.Bool() {
				paths = []string{paths[pm[0]], paths[pm[1]], paths[pm[2]], paths[pm[3]]}
			}
			for j := 0; j < r.Intn(3); j++ { // the same paths in several bundles
				fs := append(whTree(r, r.Range(1, 3)), world.File{Name: "common.txt", Data: []byte("shared")})
				if fs[len(fs)-2].Name == "common.txt" {
					fs = fs[:len(fs)-1]
				}
				// paths that differ from the deleted ones by leading dots, a suffix or their case
				for _, tw := range []string{".common.txt", "..common.txt", ".d0/f0", "d0/f0.bak", "Common.txt", "d0/.f0", "x/common.txt"} {
					if r.Chance(1, 3) {
						fs = append(fs, world.File{Name: tw, Data: []byte("twin " + tw)})
					}
				}
				steps = append(steps, whStep{Op: "upload", Repo: target, Files: fs, Bundle: -1})
			}
			steps = append(steps, whStep{Op: "delentries", Repo: target, Paths: paths[:r.Range(1, 4)], Bundle: -1, Judge: true})
		}
		for _, repo := range repos {
			steps = append(steps, whStep{Op: "listbundles", Repo: repo, Bundle: -1}, whStep{Op: "listlabels", Repo: repo, Bundle: -1})
		}
		cs.Steps = steps
	case "C10":
		steps, repos, byRepo := whPrologue(r, 7)
		target := repos[r.Intn(len(repos))]
		if r.Chance(1, 2) { // bundles uploaded late under ids older than the rest
			for j := 0; j < r.Range(1, 2); j++ {
				steps = append(steps, whStep{Op: "upload", Repo: target, Files: whTree(r, r.Range(1, 3)), Bundle: -1, Older: true})
			}
		}
		if bs := byRepo[target]; len(bs) > 0 { // several labels (semver and not) on one old bundle; a label on a bundle that does not exist
			old := bs[r.Intn((len(bs)+1)/2)]
			for j := 0; j < r.Intn(4); j++ {
				steps = append(steps, whStep{Op: "setlabel", Repo: target, Name: whLabelNames[r.Intn(len(whLabelNames))], Bundle: old})
			}
		}
		if r.Chance(1, 3) {
			steps = append(steps, whStep{Op: "setlabel", Repo: target, Name: []string{"dangling", "0.9.0"}[r.Intn(2)], Bundle: -1})
		}
		if r.Chance(1, 2) { // a leftover newer than every committed bundle
			steps = append(steps, whStep{Op: "leftover", Repo: target, Files: whTree(r, 2), Bundle: -1})
		}
		steps = append(steps, whStep{Op: "latest", Repo: target, Bundle: -1, Judge: true})
		retain := r.Range(1, 5)
		if cnt := len(byRepo[target]); r.Chance(2, 3) && cnt > 1 { // around the number of committed bundles
			retain = cnt - 2 + r.Intn(3)
			if retain < 1 {
				retain = 1
			}
		}
		mode := []string{"none", "all", "semver"}[r.Intn(3)]
		if bs := byRepo[target]; len(bs) > 1 && r.Chance(1, 3) { // an old bundle with a semver label and another label sorting after it
			pair := [][2]string{{"1.2", "latest"}, {"v1.0.0", "v1-rc"}, {"0.0.1-beta", "l"}, {"v1.0.0", "latest"}}[r.Intn(4)]
			steps = append(steps, whStep{Op: "setlabel", Repo: target, Name: pair[0], Bundle: bs[0]}, whStep{Op: "setlabel", Repo: target, Name: pair[1], Bundle: bs[0]})
			mode = "semver"
			retain = r.Range(1, len(bs)-1)
		}
		steps = append(steps, whStep{Op: "squash", Repo: target, N: retain, Mode: mode, Bundle: -1, Judge: true})
		steps = append(steps, whStep{Op: "latest", Repo: target, Bundle: -1, Judge: true})
		for _, repo := range repos {
			steps = append(steps, whStep{Op: "listbundles", Repo: repo, Bundle: -1}, whStep{Op: "listlabels", Repo: repo, Bundle: -1})
		}
		cs.Steps = steps
	}
	return cs
}

// concurrent creation of one repository name (C09)
func whCreateRace(n int) (oks int) {
	w := world.New()
	var wg sync.WaitGroup
	var mu sync.Mutex
	start := make(chan struct{})
	for i := 0; i < n; i++ {
		wg.Add(1)
		go func() {
			defer wg.Done()
			<-start
			if err := w.CreateRepo("raced"); err == nil {
				mu.Lock()
				oks++
				mu.Unlock()
			}
		}()
	}
	close(start)
	wg.Wait()
	return oks
}

func whProp(prop string) propFn {
	return func(c *Ctx) {
		c.Header = "From Coq Require Import List String NArith.\nFrom DM Require Import Gen.Consts Model.Meta Model.ListCheck Model.RepoOps Model.WorldCheck.\nImport ListNotations.\nOpen Scope list_scope."
		c.CaseTy = "wcase"
		c.Report = map[string]string{"C08": "report08", "C09": "report09", "C10": "report10"}[prop]
		c.PerFile = 2
		c.Rule = map[string]string{
			"C08": "histories of label set (with label values built on the spot, built before the history started, or read back from the store and re-used) / overwrite / delete / get / prefix-filtered listing over 2..4 repositories with prefix-related names (r, r2, r-x, repo, repo2), label names from the documented alphabet (semver-looking and not) plus hostile names (slash, space, dot, empty, 'label.yaml', unicode letters), unknown repositories; stores snapshotted around a quarter of the assignments; non-trivial = history with at least three successful label operations, distinct by steps",
			"C09": "histories creating 2..4 prefix-related repositories with bundles sharing content, leftovers of interrupted uploads and labels, followed by delete / rename (also onto an existing name) / delete-files (also on bundles of 1000..2500 entries in several file lists: a few entries, a whole list, the last entry, everything) with full store snapshots before and after, then listings of every repository; concurrent creation of one repository name by 2..8 goroutines; non-trivial = judged operation that succeeded, distinct by steps",
			"C10": "histories of 0..7 bundles per repository with labels (semver and not) and leftovers of interrupted uploads older and newer than the committed bundles, squashed with retain-N 1..5 and each retain-tags option, snapshots before and after, latest-bundle resolution before and after; non-trivial = squash that removed at least one bundle, distinct by steps",
		}[prop]
		emit := func(cs *whCase) {
			okOps := 0
			for _, s := range cs.Steps {
				if s.Ok && (s.Op == "setlabel" || s.Op == "dellabel" || s.Judge) {
					okOps++
				}
			}
			key := ""
			if okOps >= 1 {
				j, _ := json.Marshal(cs.Steps)
				key = string(j)
				if len(key) > 400 {
					key = key[len(key)-400:]
				}
			}
			sig := "world"
			if cs.Sig != "" {
				sig = cs.Sig
			}
			c.Emit(cs, whCoq(cs), key, fmt.Sprintf("steps=%d %s", len(cs.Steps)/10*10, cs.Sig), sig)
		}
		r := c.Rng.Fork()
		if len(c.Replay) > 0 {
			for _, raw := range c.Replay {
				var cs whCase
				if err := json.Unmarshal(raw, &cs); err != nil {
					panic(err)
				}
				c.Pending(&cs)
				whRun(&cs, r)
				emit(&cs)
			}
			return
		}
		n := 24
		if !c.Quick() {
			n = 500
		}
		for i := 0; i < n; i++ {
			big := -1
			if prop == "C09" && (i < 2 || (!c.Quick() && i < 14)) {
				big = i
			}
			cs := whGen(prop, r, big)
			c.Pending(cs)
			whRun(cs, r)
			emit(cs)
		}
		if prop == "C09" {
			bad := 0
			for i := 0; i < 40; i++ {
				if whCreateRace(r.Range(2, 8)) != 1 {
					bad++
				}
			}
			c.Notes = append(c.Notes, fmt.Sprintf("concurrent CreateRepo races: 40 runs, %d with a number of winners other than one", bad))
			if bad > 0 {
				// reported through a synthetic failing case
				cs := &whCase{Steps: []whStep{{Op: "create", Repo: "raced", Ok: false, Bundle: -1}}}
				cs.final = [2]string{"[]", "[]"}
				c.Emit(cs, whCoq(cs), "race", "create-race-failed", "world")
			}
		}
		_ = sort.Strings
	}
}

func init() {
	props["C08"] = whProp("C08")
	props["C09"] = whProp("C09")
	props["C10"] = whProp("C10")
}
