package main

import (
	"encoding/json"
	"fmt"
	"sort"
	"strings"
	"time"

	"github.com/oneconcern/datamon/pkg/core"
	"github.com/oneconcern/datamon/pkg/model"
	"github.com/segmentio/ksuid"

	"verifharness/gen"
	"verifharness/world"
)

// C07: listings are complete, exact and ordered.

type c07Query struct {
	Kind    string      `json:"kind"` // repos | bundles | labels | diamonds | splits
	Apply   bool        `json:"apply"`
	Repo    string      `json:"repo,omitempty"`
	Prefix  string      `json:"prefix,omitempty"`
	Diamond string      `json:"diamond,omitempty"`
	Batch   int         `json:"batch"`
	Conc    int         `json:"conc"`
	Ok      bool        `json:"ok"`
	Err     string      `json:"err,omitempty"`
	Names   []string    `json:"names,omitempty"`
	Pairs   [][2]string `json:"pairs,omitempty"`
	Ordered bool        `json:"ordered"`
}

type c07World struct {
	Repos    []string           `json:"repos"`
	Bundles  [][3]interface{}   `json:"bundles"` // repo, id, committed
	Labels   [][3]string        `json:"labels"`
	Diamonds []c07Diamond       `json:"diamonds"`
}
type c07Diamond struct {
	Repo, ID string
	StartNs  int64
	Done     bool
	Splits   []c07Split
}
type c07Split struct {
	ID, Gen string
	StartNs int64
	Done    bool
	Index   int
}
type c07Case struct {
	World   c07World   `json:"world"`
	Queries []c07Query `json:"queries"`
}

func kid(r *gen.Rand, sec int64) string {
	id, err := ksuid.FromParts(time.Unix(1500000000+sec, 0), r.Bytes(16))
	if err != nil {
		panic(err)
	}
	return id.String()
}

func c07Gen(r *gen.Rand, big bool, quick bool) c07World {
	var w c07World
	names := []string{"a", "a-b", "ab", "a0", "repo", "repo2", "repo-x", "r"}
	nr := r.Range(1, 5)
	if r.Chance(1, 10) {
		nr = 0
	}
	perm := r.Perm(len(names))
	for i := 0; i < nr; i++ {
		w.Repos = append(w.Repos, names[perm[i]])
	}
	scale := 1
	if big {
		scale = 5
		if quick {
			scale = 3
		}
	}
	for _, repo := range w.Repos {
		nb := r.Intn(6 * scale)
		for i := 0; i < nb; i++ {
			w.Bundles = append(w.Bundles, [3]interface{}{repo, kid(r, int64(r.Intn(50))), !r.Chance(1, 6)})
		}
		lnames := []string{"v1", "v1-rc", "v10", "v1.0.0", "latest", "l", "l-2", "l_3", "rel", "release"}
		for _, ln := range lnames {
			if r.Chance(1, 2) {
				w.Labels = append(w.Labels, [3]string{repo, ln, kid(r, int64(r.Intn(50)))})
			}
		}
		nd := r.Intn(4 * scale)
		for i := 0; i < nd; i++ {
			sec := int64(r.Intn(4)) // several diamonds in the same second
			d := c07Diamond{Repo: repo, ID: kid(r, sec), StartNs: (1500000000+sec)*1e9 + int64(r.Intn(1e9)), Done: r.Chance(1, 3)}
			ns := r.Intn(4)
			for j := 0; j < ns; j++ {
				sid := kid(r, sec+int64(j))
				if r.Chance(1, 3) {
					sid = []string{"split-a", "worker 1", "s", "s2", "s-3"}[r.Intn(5)] + fmt.Sprint(j)
				}
				d.Splits = append(d.Splits, c07Split{ID: sid, Gen: kid(r, sec), StartNs: d.StartNs + int64(r.Intn(1e9)), Done: r.Chance(1, 2), Index: r.Intn(5 * scale)})
			}
			w.Diamonds = append(w.Diamonds, d)
		}
	}
	return w
}

func c07Build(cw c07World) *world.World {
	w := world.New()
	for _, r := range cw.Repos {
		w.PutRepo(r)
	}
	for _, b := range cw.Bundles {
		w.PutBundle(b[0].(string), b[1].(string), []world.Entry{{Name: "f", Hash: strings.Repeat("cd", 64), Size: 1}}, 1000, b[2].(bool))
	}
	for _, l := range cw.Labels {
		w.PutLabel(l[0], l[1], l[2])
	}
	for _, d := range cw.Diamonds {
		w.PutDiamond(d.Repo, d.ID, time.Unix(0, d.StartNs).UTC(), d.Done, "")
		for _, s := range d.Splits {
			w.PutSplit(d.Repo, d.ID, s.ID, s.Gen, time.Unix(0, s.StartNs).UTC(), s.Done, s.Index)
		}
	}
	return w
}

func c07Run(w *world.World, q *c07Query) {
	opts := []core.Option{core.BatchSize(q.Batch), core.ConcurrentList(q.Conc)}
	st := w.Stores()
	var err error
	switch q.Kind {
	case "repos":
		if q.Apply {
			err = core.ListReposApply(st, func(r model.RepoDescriptor) error { q.Names = append(q.Names, r.Name); return nil }, opts...)
		} else {
			var rs []model.RepoDescriptor
			rs, err = core.ListRepos(st, opts...)
			for _, r := range rs {
				q.Names = append(q.Names, r.Name)
			}
		}
	case "bundles":
		if q.Apply {
			err = core.ListBundlesApply(q.Repo, st, func(b model.BundleDescriptor) error { q.Names = append(q.Names, b.ID); return nil }, opts...)
		} else {
			var bs model.BundleDescriptors
			bs, err = core.ListBundles(q.Repo, st, opts...)
			for _, b := range bs {
				q.Names = append(q.Names, b.ID)
			}
		}
	case "labels":
		o := append(opts, core.WithLabelPrefix(q.Prefix))
		if q.Apply {
			err = core.ListLabelsApply(q.Repo, st, func(l model.LabelDescriptor) error {
				if len(q.Pairs) < 40 {
					time.Sleep(300 * time.Microsecond) // a consumer slower than the background fetch of the next pages
				}
				q.Pairs = append(q.Pairs, [2]string{l.Name, l.BundleID})
				return nil
			}, o...)
		} else {
			var ls []model.LabelDescriptor
			ls, err = core.ListLabels(q.Repo, st, o...)
			for _, l := range ls {
				q.Pairs = append(q.Pairs, [2]string{l.Name, l.BundleID})
			}
		}
	case "diamonds":
		var ds model.DiamondDescriptors
		if q.Apply {
			err = core.ListDiamondsApply(q.Repo, st, func(d model.DiamondDescriptor) error { ds = append(ds, d); return nil }, opts...)
			q.Ordered = true // the streaming variant delivers batch by batch: order not judged
		} else {
			ds, err = core.ListDiamonds(q.Repo, st, opts...)
			q.Ordered = sort.SliceIsSorted(ds, func(i, j int) bool { return ds[i].StartTime.Before(ds[j].StartTime) })
		}
		for _, d := range ds {
			q.Names = append(q.Names, d.DiamondID)
		}
		sort.Strings(q.Names)
	case "splits":
		var ss model.SplitDescriptors
		if q.Apply {
			err = core.ListSplitsApply(q.Repo, q.Diamond, st, func(s model.SplitDescriptor) error { ss = append(ss, s); return nil }, opts...)
			q.Ordered = true
		} else {
			ss, err = core.ListSplits(q.Repo, q.Diamond, st, opts...)
			q.Ordered = sort.SliceIsSorted(ss, func(i, j int) bool { return ss[i].StartTime.Before(ss[j].StartTime) })
		}
		for _, s := range ss {
			q.Names = append(q.Names, s.SplitID)
		}
		sort.Strings(q.Names)
	}
	q.Ok = err == nil
	if err != nil {
		q.Err = err.Error()
	}
}

func strList(l []string) string {
	out := make([]string, len(l))
	for i, x := range l {
		out[i] = S(x)
	}
	return "[" + strings.Join(out, "; ") + "]"
}

func c07QueryCoq(q *c07Query) string {
	names := "None"
	if q.Ok {
		names = "(Some " + strList(q.Names) + ")"
	}
	switch q.Kind {
	case "repos":
		return fmt.Sprintf("QRepos %d%%nat %s", q.Batch, names)
	case "bundles":
		return fmt.Sprintf("QBundles %s %d%%nat %s", S(q.Repo), q.Batch, names)
	case "labels":
		ps := "None"
		if q.Ok {
			out := make([]string, len(q.Pairs))
			for i, p := range q.Pairs {
				out[i] = "(" + S(p[0]) + ", " + S(p[1]) + ")"
			}
			ps = "(Some [" + strings.Join(out, "; ") + "])"
		}
		return fmt.Sprintf("QLabels %s %s %d%%nat %s", S(q.Repo), S(q.Prefix), q.Batch, ps)
	case "diamonds":
		return fmt.Sprintf("QDiamonds %s %d%%nat %v %s", S(q.Repo), q.Batch, q.Ordered, names)
	}
	return fmt.Sprintf("QSplits %s %s %d%%nat %v %s", S(q.Repo), S(q.Diamond), q.Batch, q.Ordered, names)
}

func c07Queries(r *gen.Rand, cw c07World, quick bool) []c07Query {
	var qs []c07Query
	batches := []int{1, 2, 3, 7, 100, 2048}
	conc := []int{1, 4, 32}
	pick := func() (int, int) { return batches[r.Intn(len(batches))], conc[r.Intn(len(conc))] }
	add := func(q c07Query) {
		q.Batch, q.Conc = pick()
		q.Apply = r.Chance(1, 3)
		qs = append(qs, q)
		if !q.Apply { // and with page size 1, the case that stresses paging most
			q.Batch = 1
			qs = append(qs, q)
		}
	}
	add(c07Query{Kind: "repos"})
	repos := append([]string{}, cw.Repos...)
	repos = append(repos, "norepo")
	for _, repo := range repos {
		add(c07Query{Kind: "bundles", Repo: repo})
		if repo == "norepo" {
			continue
		}
		add(c07Query{Kind: "labels", Repo: repo})
		add(c07Query{Kind: "labels", Repo: repo, Prefix: []string{"v", "v1", "l", "x", "rel"}[r.Intn(5)]})
		add(c07Query{Kind: "diamonds", Repo: repo})
	}
	for _, d := range cw.Diamonds {
		if quick && r.Chance(1, 2) {
			continue
		}
		add(c07Query{Kind: "splits", Repo: d.Repo, Diamond: d.ID})
	}
	return qs
}

func init() {
	props["C07"] = func(c *Ctx) {
		c.Header = "From Coq Require Import List String NArith.\nFrom DM Require Import Model.Meta Model.ListOps Model.ListCheck.\nImport ListNotations.\nOpen Scope list_scope."
		c.CaseTy = "lcase"
		c.Report = "report"
		c.PerFile = 1
		c.Rule = "store states with 0..5 repositories whose names prefix one another (a, a-b, ab, repo, repo2, repo-x), committed bundles and leftovers of interrupted uploads, labels with prefix-related names, diamonds (several per second, running and done) with splits (KSUID and user-chosen ids) owning 0..60 file-list index files; every listing (and its Apply variant) with page sizes 1, 2, 3, 7, 100, 2048 and list concurrency 1, 4, 32; non-trivial = case with a listing of at least two objects, distinct by world"
		emit := func(cs *c07Case, w *world.World) {
			qs := make([]string, len(cs.Queries))
			multi := false
			for i := range cs.Queries {
				qs[i] = c07QueryCoq(&cs.Queries[i])
				if len(cs.Queries[i].Names) >= 2 || len(cs.Queries[i].Pairs) >= 2 {
					multi = true
				}
			}
			key := ""
			if multi {
				j, _ := json.Marshal(cs.World)
				key = string(j)
				if len(key) > 300 {
					key = key[:300] + fmt.Sprint(len(j))
				}
			}
			term := fmt.Sprintf("{| lc_meta := %s; lc_vmeta := %s; lc_queries := [%s] |}", world.CoqStore(w.Meta, S), world.CoqStore(w.VMeta, S), strings.Join(qs, "; "))
			c.Emit(cs, term, key, fmt.Sprintf("repos=%d diamonds=%d", len(cs.World.Repos), len(cs.World.Diamonds)), "listing")
		}
		if len(c.Replay) > 0 {
			for _, raw := range c.Replay {
				var cs c07Case
				if err := json.Unmarshal(raw, &cs); err != nil {
					panic(err)
				}
				w := c07Build(cs.World)
				for i := range cs.Queries {
					q := &cs.Queries[i]
					q.Names, q.Pairs, q.Err = nil, nil, ""
					c07Run(w, q)
				}
				emit(&cs, w)
			}
			return
		}
		r := c.Rng.Fork()
		n := 16
		if !c.Quick() {
			n = 160
		}
		for i := 0; i < n; i++ {
			cw := c07Gen(r, i%8 == 7, c.Quick())
			w := c07Build(cw)
			cs := &c07Case{World: cw, Queries: c07Queries(r, cw, c.Quick() || i%8 == 7)}
			for j := range cs.Queries {
				c07Run(w, &cs.Queries[j])
			}
			emit(cs, w)
		}
	}
}
