package main

import (
	"encoding/json"
	"fmt"
	"sort"
	"strings"
	"time"

	"github.com/oneconcern/datamon/pkg/core"
	"github.com/oneconcern/datamon/pkg/model"
	"gopkg.in/yaml.v2"

	"verifharness/gen"
	"verifharness/world"
)

// C11: diamond commit merges splits by latest write, keeping every losing version.

type c11Entry struct {
	Path string `json:"p"`
	Time int64  `json:"t"` // nanoseconds after the base time
	Hash string `json:"h"`
	Size uint64 `json:"z"`
}

type c11Batch struct {
	Split   string     `json:"split"`
	Entries []c11Entry `json:"entries"`
}

type c11Case struct {
	Kind    string        `json:"kind"` // merger | commit | e2e
	Mode    string        `json:"mode"`
	Init    string        `json:"init,omitempty"` // the mode the diamond was initialized with, when it is not the mode of the commit
	Batches []c11Batch    `json:"batches"`
	Judged  bool          `json:"judged"`
	Refused bool          `json:"refused"`
	Obs     []world.Entry `json:"obs"`
	Plain   []world.Entry `json:"plain,omitempty"` // e2e, one split: entries of a plain upload of the same files
	Files   [][]world.File `json:"files,omitempty"` // e2e: files uploaded by each split
	Err     string        `json:"err,omitempty"`
}

var c11Base = time.Date(2021, 3, 4, 5, 6, 7, 0, time.UTC)

var c11Modes = map[string]model.ConflictMode{"ignore": model.IgnoreConflicts, "checkpoints": model.EnableCheckpoints,
	"conflicts": model.EnableConflicts, "forbid": model.ForbidConflicts}
var c11ModeCoq = map[string]string{"ignore": "MIgnore", "checkpoints": "MCheckpoints", "conflicts": "MConflicts", "forbid": "MForbid"}
var c11ModeNames = []string{"ignore", "checkpoints", "conflicts", "forbid"}

func c11Hash(i int) string { return strings.Repeat(fmt.Sprintf("%02x", 17+i), 64) }

func c11ToModel(es []c11Entry) []model.BundleEntry {
	out := make([]model.BundleEntry, len(es))
	for i, e := range es {
		out[i] = model.BundleEntry{Hash: e.Hash, NameWithPath: e.Path, Size: e.Size, Timestamp: c11Base.Add(time.Duration(e.Time))}
	}
	return out
}

// judged = upload times of the versions of each path pairwise distinct
func c11Judged(bs []c11Batch) bool {
	seen := map[string]map[int64]bool{}
	for _, b := range bs {
		for _, e := range b.Entries {
			if seen[e.Path] == nil {
				seen[e.Path] = map[int64]bool{}
			}
			if seen[e.Path][e.Time] {
				return false
			}
			seen[e.Path][e.Time] = true
		}
	}
	return true
}

func c11Run(cs *c11Case, r *gen.Rand) {
	cs.Judged = c11Judged(cs.Batches)
	cs.Obs, cs.Refused, cs.Err, cs.Plain = nil, false, "", nil
	switch cs.Kind {
	case "merger":
		w := world.New()
		bs := make([]core.VerifMergeBatch, len(cs.Batches))
		for i, b := range cs.Batches {
			bs[i] = core.VerifMergeBatch{SplitID: b.Split, Entries: c11ToModel(b.Entries)}
		}
		out, _, _, err := core.VerifMergeSplits(w.Stores(), c11Modes[cs.Mode], bs)
		if err != nil {
			cs.Refused, cs.Err = true, err.Error()
			return
		}
		for _, e := range out {
			cs.Obs = append(cs.Obs, world.Entry{Name: e.NameWithPath, Hash: e.Hash, Size: e.Size})
		}
	case "commit":
		w := world.New()
		if err := w.CreateRepo("repo"); err != nil {
			panic(err)
		}
		did := kid(r, 77)
		dd := model.NewDiamondDescriptor(model.DiamondID(did), model.DiamondMode(c11Modes[cs.Mode]))
		ddInit := dd
		if cs.Init != "" { // the mode is chosen when committing, whatever the diamond was initialized with
			ddInit = model.NewDiamondDescriptor(model.DiamondID(did), model.DiamondMode(c11Modes[cs.Init]))
		}
		if _, err := core.CreateDiamond("repo", w.Stores(), core.DiamondDescriptor(ddInit), core.DiamondLogger(world.Nop)); err != nil {
			panic(err)
		}
		// one generation per split, its batches as index files in order of first appearance
		bySplit := map[string][][]model.BundleEntry{}
		var order []string
		for _, b := range cs.Batches {
			if _, ok := bySplit[b.Split]; !ok {
				order = append(order, b.Split)
			}
			bySplit[b.Split] = append(bySplit[b.Split], c11ToModel(b.Entries))
		}
		for i, s := range order {
			w.PutSplitLists("repo", did, s, kid(r, int64(200+i)), c11Base, true, bySplit[s])
		}
		d := core.NewDiamond("repo", w.Stores(), core.DiamondDescriptor(dd), core.DiamondLogger(world.Nop))
		if err := c11Commit(d); err != nil {
			cs.Refused, cs.Err = true, err.Error()
			return
		}
		es, err := w.Entries("repo", d.BundleID)
		if err != nil {
			cs.Err = "bundle unreadable: " + err.Error()
			cs.Refused = true
			return
		}
		cs.Obs = es
	case "e2e":
		w := world.New()
		if err := w.CreateRepo("repo"); err != nil {
			panic(err)
		}
		did := kid(r, 78)
		dd := model.NewDiamondDescriptor(model.DiamondID(did), model.DiamondMode(c11Modes[cs.Mode]))
		ddInit := dd
		if cs.Init != "" { // the mode is chosen when committing, whatever the diamond was initialized with
			ddInit = model.NewDiamondDescriptor(model.DiamondID(did), model.DiamondMode(c11Modes[cs.Init]))
		}
		if _, err := core.CreateDiamond("repo", w.Stores(), core.DiamondDescriptor(ddInit), core.DiamondLogger(world.Nop)); err != nil {
			panic(err)
		}
		cs.Batches = nil
		for i, files := range cs.Files {
			sid := fmt.Sprintf("split-%d", i)
			sd := model.NewSplitDescriptor(model.SplitID(sid))
			if _, err := core.CreateSplit("repo", did, w.Stores(), core.SplitDescriptor(sd), core.SplitLogger(world.Nop)); err != nil {
				panic(err)
			}
			s := core.NewSplit("repo", did, w.Stores(), core.SplitDescriptor(sd), core.SplitConsumableStore(world.Consumable(files)), core.SplitLogger(world.Nop))
			s.BundleDescriptor.LeafSize = 64
			if err := s.Upload(); err != nil {
				panic(err)
			}
			// what the split recorded
			snap := w.VMeta.Snapshot()
			for _, k := range w.VMeta.SortedKeys() {
				if !strings.HasPrefix(k, model.GetArchivePathPrefixToSplits("repo", did)+sid+"/") || !strings.Contains(k, "/bundle-files-") {
					continue
				}
				var be model.BundleEntries
				if err := yaml.Unmarshal(snap[k], &be); err != nil {
					panic(err)
				}
				b := c11Batch{Split: sid}
				for _, e := range be.BundleEntries {
					b.Entries = append(b.Entries, c11Entry{Path: e.NameWithPath, Time: int64(e.Timestamp.Sub(c11Base)), Hash: e.Hash, Size: e.Size})
				}
				cs.Batches = append(cs.Batches, b)
			}
		}
		cs.Judged = c11Judged(cs.Batches)
		d := core.NewDiamond("repo", w.Stores(), core.DiamondDescriptor(dd), core.DiamondLogger(world.Nop))
		if err := c11Commit(d); err != nil {
			cs.Refused, cs.Err = true, err.Error()
		} else {
			es, err := w.Entries("repo", d.BundleID)
			if err != nil {
				panic(err)
			}
			cs.Obs = es
		}
		if len(cs.Files) == 1 {
			id, err := w.Upload("repo", world.Consumable(cs.Files[0]), world.UploadOpts{LeafSize: 64})
			if err != nil {
				panic(err)
			}
			cs.Plain, _ = w.Entries("repo", id)
			if cs.Plain == nil {
				cs.Plain = []world.Entry{}
			}
		}
	}
}

// a commit that panics (in one of its goroutines it would take the process down) is a commit that failed
func c11Commit(d *core.Diamond) (err error) {
	defer func() {
		if p := recover(); p != nil {
			err = fmt.Errorf("panic: %v", p)
		}
	}()
	return d.Commit()
}

func c11Coq(cs *c11Case) string {
	bs := make([]string, len(cs.Batches))
	for i, b := range cs.Batches {
		es := make([]string, len(b.Entries))
		for j, e := range b.Entries {
			es[j] = fmt.Sprintf("(%s, (%d%%N, (%s, %d%%N)))", S(e.Path), e.Time, S(e.Hash), e.Size)
		}
		bs[i] = fmt.Sprintf("(%s, [%s])", S(b.Split), strings.Join(es, "; "))
	}
	oes := func(l []world.Entry) string {
		es := make([]string, len(l))
		for j, e := range l {
			es[j] = fmt.Sprintf("(%s, (%s, %d%%N))", S(e.Name), S(e.Hash), e.Size)
		}
		return "[" + strings.Join(es, "; ") + "]"
	}
	obs := "None"
	if !cs.Refused {
		obs = "(Some " + oes(cs.Obs) + ")"
	}
	plain := "None"
	if cs.Plain != nil {
		plain = "(Some " + oes(cs.Plain) + ")"
	}
	return fmt.Sprintf("{| mc_mode := %s; mc_batches := [%s]; mc_judged := %v; mc_obs := %s; mc_plain := %s |}",
		c11ModeCoq[cs.Mode], strings.Join(bs, ";\n "), cs.Judged, obs, plain)
}

// a set of splits over a small shared path space
func c11Gen(r *gen.Rand, ties bool) []c11Batch {
	paths := []string{"a", "b", "d/x", "d/y", "e/f/g", "z"}
	ns := r.Range(1, 8)
	used := map[string]map[int64]bool{}
	var bs []c11Batch
	for s := 0; s < ns; s++ {
		sid := fmt.Sprintf("s%d", s)
		if r.Chance(1, 6) {
			sid = kid(r, int64(s))
		}
		var es []c11Entry
		for _, p := range paths {
			if !r.Chance(2, 3) {
				continue
			}
			n := 1
			if r.Chance(1, 10) {
				n = 2 // the same split lists the path twice
			}
			for k := 0; k < n; k++ {
				h := r.Intn(3)
				t := int64(r.Range(1, 40)) * 1000
				if used[p] == nil {
					used[p] = map[int64]bool{}
				}
				for !ties && used[p][t] {
					t += 1000
				}
				used[p][t] = true
				es = append(es, c11Entry{Path: p, Time: t, Hash: c11Hash(h), Size: uint64(10 + h)})
			}
		}
		// one or two file lists
		if len(es) > 2 && r.Bool() {
			k := r.Range(1, len(es)-1)
			bs = append(bs, c11Batch{Split: sid, Entries: es[:k]}, c11Batch{Split: sid, Entries: es[k:]})
		} else if len(es) > 0 {
			bs = append(bs, c11Batch{Split: sid, Entries: es})
		}
	}
	return bs
}

func c11Perm(r *gen.Rand, bs []c11Batch) []c11Batch {
	out := make([]c11Batch, len(bs))
	for i, j := range r.Perm(len(bs)) {
		b := bs[j]
		es := make([]c11Entry, len(b.Entries))
		for x, y := range r.Perm(len(b.Entries)) {
			es[x] = b.Entries[y]
		}
		out[i] = c11Batch{Split: b.Split, Entries: es}
	}
	return out
}

func init() {
	props["C11"] = func(c *Ctx) {
		c.Header = "From Coq Require Import List String NArith.\nFrom DM Require Import Model.Merge Model.MergeCheck.\nImport ListNotations.\nOpen Scope list_scope."
		c.CaseTy = "mcase"
		c.Report = "report"
		c.PerFile = 40
		c.Rule = "sets of 1..8 splits over six shared paths with three possible contents (identical duplicates frequent), one or two file lists per split, a path sometimes listed twice by one split; upload times pairwise distinct per path (judged by the statement) or with ties (compared with the model only); every conflict mode; the merger is handed the file lists in several random arrival orders through the verif entry point, the same sets are committed through Diamond.Commit from split metadata written to the store (the diamond initialized with the mode of the commit or with another one), and real split uploads are committed and compared with a plain upload; non-trivial = at least two splits sharing a path with different contents, distinct by batches and mode"
		emit := func(cs *c11Case) {
			nontriv := ""
			byPath := map[string]map[string]bool{}
			for _, b := range cs.Batches {
				for _, e := range b.Entries {
					if byPath[e.Path] == nil {
						byPath[e.Path] = map[string]bool{}
					}
					byPath[e.Path][b.Split+"/"+e.Hash] = true
				}
			}
			for _, m := range byPath {
				if len(m) > 1 {
					j, _ := json.Marshal(cs.Batches)
					nontriv = cs.Kind + cs.Mode + string(j)
					break
				}
			}
			c.Emit(cs, c11Coq(cs), nontriv, fmt.Sprintf("%s %s judged=%v refused=%v", cs.Kind, cs.Mode, cs.Judged, cs.Refused), "merge-"+cs.Kind)
		}
		r := c.Rng.Fork()
		if len(c.Replay) > 0 {
			for _, raw := range c.Replay {
				var cs c11Case
				if err := json.Unmarshal(raw, &cs); err != nil {
					panic(err)
				}
				c.Pending(&cs)
				c11Run(&cs, r)
				emit(&cs)
			}
			return
		}
		n, perms := 25, 3
		if !c.Quick() {
			n, perms = 400, 6
		}
		for i := 0; i < n; i++ {
			bs := c11Gen(r, i%5 == 4)
			for _, m := range c11ModeNames {
				for k := 0; k < perms; k++ {
					cs := &c11Case{Kind: "merger", Mode: m, Batches: c11Perm(r, bs)}
					if k == 0 {
						cs.Batches = bs
					}
					c.Pending(cs)
					c11Run(cs, r)
					emit(cs)
				}
				if i%3 == 0 {
					cs := &c11Case{Kind: "commit", Mode: m, Batches: bs}
					if r.Bool() {
						cs.Init = c11ModeNames[r.Intn(4)]
					}
					c.Pending(cs)
					c11Run(cs, r)
					emit(cs)
				}
			}
		}
		ne := 6
		if !c.Quick() {
			ne = 60
		}
		for i := 0; i < ne; i++ {
			cs := &c11Case{Kind: "e2e", Mode: c11ModeNames[r.Intn(4)]}
			if r.Bool() {
				cs.Init = c11ModeNames[r.Intn(4)]
			}
			ns := r.Range(1, 4)
			if i%3 == 0 {
				ns = 1
			}
			for s := 0; s < ns; s++ {
				var fs []world.File
				for _, p := range []string{"a", "b", "d/x", "d/y"} {
					if r.Chance(2, 3) {
						fs = append(fs, world.File{Name: p, Data: []byte(fmt.Sprintf("content-%d", r.Intn(3)))})
					}
				}
				cs.Files = append(cs.Files, fs)
			}
			c.Pending(cs)
			c11Run(cs, r)
			emit(cs)
		}
		_ = sort.Strings
	}
}
