package main

import (
	"bytes"
	"context"
	"encoding/json"
	"errors"
	"fmt"
	"io/ioutil"
	"os"
	"strings"
	"sync"

	"github.com/oneconcern/datamon/pkg/storage"
	"github.com/oneconcern/datamon/pkg/storage/localfs"
	storagestatus "github.com/oneconcern/datamon/pkg/storage/status"
	"github.com/spf13/afero"

	"verifharness/coqfmt"
	"verifharness/gen"
)

// C16: the local file system store as an object store.
type c16Op struct {
	Op     string `json:"op"` // put | get | has | del | list
	Key    string `json:"key,omitempty"`
	Data   []byte `json:"data,omitempty"`
	Excl   bool   `json:"excl,omitempty"`
	Prefix string `json:"prefix,omitempty"`
	Delim  string `json:"delim,omitempty"`
	Count  int    `json:"count,omitempty"`
	// observation
	Res   string   `json:"res,omitempty"` // ok | exists | notfound | err | panic
	Got   *[]byte  `json:"got,omitempty"`
	Bool  bool     `json:"bool,omitempty"`
	Keys  []string `json:"keys,omitempty"`
	Pages int      `json:"pages,omitempty"`
}

type c16Case struct {
	Kind    string   `json:"kind"` // hist | excl
	Backend string   `json:"backend"`
	Ops     []c16Op  `json:"ops,omitempty"`
	Writers [][]byte `json:"writers,omitempty"`
	Oks     []bool   `json:"oks,omitempty"`
	Final   *[]byte  `json:"final,omitempty"`
}

func c16Store(backend string) (storage.Store, func()) {
	if backend == "os" {
		d, err := ioutil.TempDir(os.Getenv("VERIF_CACHE"), "c16-")
		if err != nil {
			panic(err)
		}
		return localfs.New(afero.NewBasePathFs(afero.NewOsFs(), d), localfs.WithRetry(false)), func() { os.RemoveAll(d) }
	}
	// BasePathFs makes relative and rooted keys name the same file, as on a real directory
	return localfs.New(afero.NewBasePathFs(afero.NewMemMapFs(), "/base"), localfs.WithRetry(false)), func() {}
}

func c16List(st storage.Store, prefix, delim string, count int) (keys []string, pages int, res string) {
	res = "ok"
	defer func() {
		if r := recover(); r != nil {
			res = "panic"
		}
	}()
	token := ""
	for {
		ks, next, err := st.KeysPrefix(context.Background(), token, prefix, delim, count)
		if err != nil {
			return keys, pages, "err"
		}
		pages++
		keys = append(keys, ks...)
		if next == "" || pages > 10000 {
			return keys, pages, "ok"
		}
		token = next
	}
}

func c16RunHist(cs *c16Case) {
	st, done := c16Store(cs.Backend)
	defer done()
	ctx := context.Background()
	for i := range cs.Ops {
		o := &cs.Ops[i]
		switch o.Op {
		case "put":
			err := st.Put(ctx, o.Key, bytes.NewReader(o.Data), o.Excl)
			switch {
			case err == nil:
				o.Res = "ok"
			case errors.Is(err, storagestatus.ErrExists) || strings.Contains(err.Error(), "exist"):
				o.Res = "exists"
			default:
				o.Res = "err"
			}
		case "get":
			rd, err := st.Get(ctx, o.Key)
			if err != nil {
				o.Res = "notfound"
				break
			}
			b, err := ioutil.ReadAll(rd)
			rd.Close()
			if err != nil {
				o.Res = "notfound" // a directory or a vanished file
				break
			}
			o.Res = "ok"
			o.Got = &b
		case "has":
			h, err := st.Has(ctx, o.Key)
			o.Res = "ok"
			if err != nil {
				o.Res = "err"
			}
			o.Bool = h
		case "del":
			if err := st.Delete(ctx, o.Key); err != nil {
				o.Res = "err"
			} else {
				o.Res = "ok"
			}
		case "deldir": // Delete of a name that is no key but the directory part of keys: whatever it answers, no key goes away
			_ = st.Delete(ctx, o.Key)
			o.Res = "ok"
		case "clear":
			if err := st.Clear(ctx); err != nil {
				o.Res = "err"
			} else {
				o.Res = "ok"
			}
		case "list":
			o.Keys, o.Pages, o.Res = c16List(st, o.Prefix, o.Delim, o.Count)
		}
	}
}

func c16RunExcl(cs *c16Case) {
	st, done := c16Store(cs.Backend)
	defer done()
	cs.Oks = make([]bool, len(cs.Writers))
	var wg sync.WaitGroup
	start := make(chan struct{})
	for i := range cs.Writers {
		wg.Add(1)
		go func(i int) {
			defer wg.Done()
			<-start
			err := st.Put(context.Background(), "dir/sub/the-key", bytes.NewReader(cs.Writers[i]), storage.NoOverWrite)
			cs.Oks[i] = err == nil
		}(i)
	}
	close(start)
	wg.Wait()
	if rd, err := st.Get(context.Background(), "dir/sub/the-key"); err == nil {
		if b, err := ioutil.ReadAll(rd); err == nil {
			cs.Final = &b
		}
		rd.Close()
	}
}

func c16Coq(cs *c16Case) string {
	if cs.Kind == "excl" {
		ws := make([]string, len(cs.Writers))
		oks := make([]string, len(cs.Oks))
		for i := range cs.Writers {
			ws[i] = coqfmt.Bytes(cs.Writers[i])
			oks[i] = coqfmt.Bool(cs.Oks[i])
		}
		final := "None"
		if cs.Final != nil {
			final = "(Some " + coqfmt.Bytes(*cs.Final) + ")"
		}
		return fmt.Sprintf("Excl [%s] [%s] %s", strings.Join(ws, "; "), strings.Join(oks, "; "), final)
	}
	ops := make([]string, len(cs.Ops))
	obs := make([]string, len(cs.Ops))
	for i, o := range cs.Ops {
		switch o.Op {
		case "put":
			ops[i] = fmt.Sprintf("OpPut %s %s %v", S(o.Key), coqfmt.Bytes(o.Data), o.Excl)
			obs[i] = "ObsRes " + map[string]string{"ok": "LOk", "exists": "LExists"}[o.Res]
			if o.Res == "err" {
				obs[i] = "ObsRes LNotFound" // never produced by the model: shows up as a disagreement
			}
		case "get":
			ops[i] = "OpGet " + S(o.Key)
			if o.Got != nil {
				obs[i] = "ObsData (Some " + coqfmt.Bytes(*o.Got) + ")"
			} else {
				obs[i] = "ObsData None"
			}
		case "has":
			ops[i] = "OpHas " + S(o.Key)
			obs[i] = "ObsBool " + coqfmt.Bool(o.Bool)
		case "del":
			ops[i] = "OpDelete " + S(o.Key)
			obs[i] = "ObsRes " + map[string]string{"ok": "LOk", "err": "LNotFound"}[o.Res]
		case "deldir":
			ops[i] = "OpDelete " + S(o.Key)
			obs[i] = "ObsRes LOk"
		case "clear":
			ops[i] = "OpClear"
			obs[i] = "ObsRes " + map[string]string{"ok": "LOk", "err": "LNotFound"}[o.Res]
		case "list":
			ops[i] = fmt.Sprintf("OpList %s %s %d%%nat", S(o.Prefix), S(o.Delim), o.Count)
			if o.Res == "ok" {
				ks := make([]string, len(o.Keys))
				for j, k := range o.Keys {
					ks[j] = S(k)
				}
				obs[i] = "ObsKeys (Some [" + strings.Join(ks, "; ") + "])"
			} else {
				obs[i] = "ObsKeys None"
			}
		}
	}
	return fmt.Sprintf("Hist ([%s], [%s])", strings.Join(ops, "; "), strings.Join(obs, "; "))
}

// hierarchical keys whose components are prefixes of one another and contain bytes below '/'
var c16Comps = []string{"a", "a b", "a-b", "a.b", "ab", "b", "repo", "repo2", "repo-x", "bundle.yaml", "x", "a!", "bundles", "labels"}

func c16Key(r *gen.Rand, dirs []string) string {
	// keys never make a file and a directory share a name: files live at depth 3, directories above
	return dirs[r.Intn(len(dirs))] + "/" + c16Comps[r.Intn(len(c16Comps))] + ".f"
}

func c16Hist(r *gen.Rand, n int, backend string) *c16Case {
	cs := &c16Case{Kind: "hist", Backend: backend}
	var dirs []string
	for i := 0; i < 5; i++ {
		dirs = append(dirs, c16Comps[r.Intn(len(c16Comps))]+"/"+c16Comps[r.Intn(len(c16Comps))])
	}
	var written []string
	for i := 0; i < n; i++ {
		if r.Chance(1, 25) { // the whole store is emptied, then used again
			cs.Ops = append(cs.Ops, c16Op{Op: "clear"})
			if r.Bool() {
				cs.Ops = append(cs.Ops, c16Op{Op: "list", Prefix: "", Count: 1000})
			}
			continue
		}
		if r.Chance(1, 12) { // names that are the directory part of keys (or were, before deletes): not keys
			d := dirs[r.Intn(len(dirs))]
			if r.Bool() {
				d = d[:strings.Index(d, "/")]
			}
			k := r.Intn(3)
			if backend != "os" {
				k = 0 // afero's in-memory file system reads a directory as an empty file and panics when one is removed in some states: real directories only
			}
			switch k {
			case 0:
				cs.Ops = append(cs.Ops, c16Op{Op: "has", Key: d})
			case 1:
				cs.Ops = append(cs.Ops, c16Op{Op: "get", Key: d})
			default:
				cs.Ops = append(cs.Ops, c16Op{Op: "deldir", Key: d}, c16Op{Op: "list", Prefix: "", Count: 1000})
			}
			continue
		}
		switch r.Intn(10) {
		case 0, 1, 2, 3:
			k := c16Key(r, dirs)
			if len(written) > 0 && r.Chance(1, 3) {
				k = written[r.Intn(len(written))] // write an existing key again: overwrite or refused create
			}
			written = append(written, k)
			cs.Ops = append(cs.Ops, c16Op{Op: "put", Key: k, Data: r.Bytes(r.Intn(14)), Excl: r.Bool()})
			if r.Chance(1, 2) {
				cs.Ops = append(cs.Ops, c16Op{Op: "get", Key: k})
			}
		case 4:
			k := c16Key(r, dirs)
			if len(written) > 0 && r.Bool() {
				k = written[r.Intn(len(written))]
			}
			cs.Ops = append(cs.Ops, c16Op{Op: "get", Key: k})
		case 5:
			k := c16Key(r, dirs)
			if len(written) > 0 && r.Bool() {
				k = written[r.Intn(len(written))]
			}
			cs.Ops = append(cs.Ops, c16Op{Op: "has", Key: k})
		case 6:
			k := c16Key(r, dirs)
			if len(written) > 0 && r.Chance(2, 3) {
				k = written[r.Intn(len(written))]
			}
			cs.Ops = append(cs.Ops, c16Op{Op: "del", Key: k})
		default:
			var prefix string
			switch r.Intn(6) {
			case 0:
				prefix = ""
			case 1:
				prefix = c16Comps[r.Intn(len(c16Comps))] + "/"
			case 2:
				prefix = dirs[r.Intn(len(dirs))] + "/"
			case 3:
				prefix = dirs[r.Intn(len(dirs))] // no trailing slash: plain string prefix
			case 4:
				d := dirs[r.Intn(len(dirs))]
				prefix = d[:r.Intn(len(d)+1)]
			default:
				prefix = "nothing/here/"
			}
			delim := ""
			if r.Bool() {
				delim = []string{"/", "/", ".", "-"}[r.Intn(4)]
			}
			cs.Ops = append(cs.Ops, c16Op{Op: "list", Prefix: prefix, Delim: delim, Count: []int{1, 2, 3, 7, 1000}[r.Intn(5)]})
		}
	}
	return cs
}

func init() {
	props["C16"] = func(c *Ctx) {
		c.Header = "From Coq Require Import List String NArith.\nFrom DM Require Import Model.LocalFS Model.LocalFSCheck.\nImport ListNotations.\nOpen Scope list_scope."
		c.CaseTy = "xcase"
		c.Report = "report"
		c.PerFile = 40
		c.Rule = "random histories of put (plain and create-if-absent) / get / has / delete / clear / complete paged listings, also has / get / delete of names that are only the directory part of keys, over hierarchical keys whose components prefix one another and contain bytes below '/', prefixes with and without trailing slash, delimiters, page sizes 1..1000, on afero MemMapFs and on a real directory (BasePathFs over OsFs); concurrent create-if-absent writers of one key; non-trivial = history with a listing that returned at least two names, or an exclusive-write race, distinct by content"
		emit := func(cs *c16Case) {
			key, class := "", cs.Kind+"/"+cs.Backend
			if cs.Kind == "excl" {
				key = fmt.Sprint("excl", cs.Writers)
			} else {
				for _, o := range cs.Ops {
					if o.Op == "list" && len(o.Keys) >= 2 {
						j, _ := json.Marshal(cs.Ops)
						key = string(j)
						if len(key) > 300 {
							key = key[:300]
						}
						break
					}
				}
			}
			c.Emit(cs, c16Coq(cs), key, class, "localfs")
		}
		if len(c.Replay) > 0 {
			for _, raw := range c.Replay {
				var cs c16Case
				if err := json.Unmarshal(raw, &cs); err != nil {
					panic(err)
				}
				if cs.Kind == "excl" {
					cs.Oks, cs.Final = nil, nil
					c.Pending(&cs)
					c16RunExcl(&cs)
				} else {
					c.Pending(&cs)
					c16RunHist(&cs)
				}
				emit(&cs)
			}
			return
		}
		r := c.Rng.Fork()
		n := 160
		if !c.Quick() {
			n = 3000
		}
		for i := 0; i < n; i++ {
			backend := "mem"
			if i%4 == 0 {
				backend = "os"
			}
			cs := c16Hist(r, r.Range(6, 30), backend)
			c.Pending(cs)
			c16RunHist(cs)
			emit(cs)
		}
		for i := 0; i < n/8; i++ {
			cs := &c16Case{Kind: "excl", Backend: "os"} // afero.MemMapFs does not make O_EXCL atomic; datamon runs on OsFs
			w := r.Range(2, 8)
			for j := 0; j < w; j++ {
				cs.Writers = append(cs.Writers, append([]byte{byte(j + 1)}, r.Bytes(r.Intn(5))...))
			}
			c.Pending(cs)
			c16RunExcl(cs)
			emit(cs)
		}
	}
}
