package main

import (
	"encoding/json"
	"fmt"
	"sort"

	"github.com/oneconcern/datamon/pkg/filetracker"

	"verifharness/coqfmt"
	"verifharness/gen"
)

// C22: write-range tracker. A case is a write history and a grid of probes.
type c22Case struct {
	Writes [][2]int64 `json:"writes"`
	Probes [][4]int64 `json:"probes"` // off, len, contiguous, mutable(0/1) as observed
}

func c22Run(writes [][2]int64, maxOff int64, lens []int64) c22Case {
	offs := make([]int64, 0, maxOff+1)
	for off := int64(0); off <= maxOff; off++ {
		offs = append(offs, off)
	}
	return c22RunAt(writes, offs, lens)
}

func c22RunAt(writes [][2]int64, offs []int64, lens []int64) c22Case {
	t := filetracker.VerifNewTracker()
	for _, w := range writes {
		t.TrackWrite(w[0], w[1])
	}
	cs := c22Case{Writes: writes}
	for _, off := range offs {
		for _, l := range lens {
			c, m := t.GetRangeToRead(off, l)
			mi := int64(0)
			if m {
				mi = 1
			}
			cs.Probes = append(cs.Probes, [4]int64{off, l, c, mi})
		}
	}
	return cs
}

func c22Coq(cs c22Case) string {
	ws := make([]string, len(cs.Writes))
	for i, w := range cs.Writes {
		ws[i] = coqfmt.Tuple(coqfmt.Z(w[0]), coqfmt.Z(w[1]))
	}
	ps := make([]string, len(cs.Probes))
	for i, p := range cs.Probes {
		ps[i] = coqfmt.Tuple(coqfmt.Z(p[0]), coqfmt.Z(p[1]), coqfmt.Tuple(coqfmt.Z(p[2]), coqfmt.Bool(p[3] == 1)))
	}
	return coqfmt.Tuple(coqfmt.List(ws), coqfmt.List(ps))
}

func c22Emit(c *Ctx, writes [][2]int64, maxOff int64, lens []int64) {
	c22EmitCase(c, c22Run(writes, maxOff, lens))
}

// writes whose offsets straddle the byte boundaries of the tracker's big-endian keys (2^8, 2^16, 2^32),
// probed around every write boundary with short and long lengths
func c22Wide(c *Ctx, rng *gen.Rand) {
	bases := []int64{256, 512, 65536, 1 << 24, 1 << 32, 255, 1000}
	n := rng.Range(2, 6)
	ws := make([][2]int64, n)
	marks := map[int64]bool{0: true}
	for i := range ws {
		b := bases[rng.Intn(len(bases))]
		off := b - 40 + int64(rng.Intn(80))
		if rng.Chance(1, 3) {
			off = int64(rng.Intn(1200))
		}
		if off < 0 {
			off = 0
		}
		l := int64([]int{0, 1, 5, 40, 300, 900, 257}[rng.Intn(7)])
		if i > 0 && rng.Chance(1, 4) {
			p := ws[rng.Intn(i)]
			off = p[0] + p[1]
		}
		ws[i] = [2]int64{off, l}
		marks[off], marks[off+l] = true, true
		marks[off+l/2] = true
	}
	for _, b := range bases {
		marks[b] = true
	}
	var offs []int64
	seen := map[int64]bool{}
	for m := range marks {
		for d := int64(-2); d <= 2; d++ {
			if o := m + d; o >= 0 && !seen[o] {
				seen[o] = true
				offs = append(offs, o)
			}
		}
	}
	sort.Slice(offs, func(i, j int) bool { return offs[i] < offs[j] })
	c22EmitCase(c, c22RunAt(ws, offs, []int64{1, 2, 100, 300}))
}

func c22EmitCase(c *Ctx, cs c22Case) {
	writes := cs.Writes
	// non-trivial: at least two writes that overlap or touch
	key := ""
	class := fmt.Sprintf("writes=%d", len(writes))
	touch := false
	for i := range writes {
		for j := 0; j < i; j++ {
			a, b := writes[i], writes[j]
			if a[1] > 0 && b[1] > 0 && a[0] <= b[0]+b[1] && b[0] <= a[0]+a[1] {
				touch = true
			}
		}
	}
	if touch {
		key = fmt.Sprint(writes)
	}
	c.Emit(cs, c22Coq(cs), key, class, "tracker")
}

func init() {
	props["C22"] = func(c *Ctx) {
		c.Header = "From Coq Require Import List ZArith.\nFrom DM Require Import Model.TrackerCheck.\nImport ListNotations.\nOpen Scope Z_scope."
		c.CaseTy = "tcase"
		c.Report = "report"
		c.Rule = "exhaustive write histories over a small offset range plus random longer ones; every history probed at every offset of the range with lengths 1, 2 and 100; histories with offsets around 2^8, 2^16, 2^24 and 2^32 and lengths up to 900, probed around every write boundary; non-trivial = a history with two writes that overlap or touch, distinct by write list"
		if len(c.Replay) > 0 {
			for _, raw := range c.Replay {
				var cs c22Case
				if err := json.Unmarshal(raw, &cs); err != nil {
					panic(err)
				}
				maxOff := int64(0)
				for _, w := range cs.Writes {
					if w[0]+w[1]+2 > maxOff {
						maxOff = w[0] + w[1] + 2
					}
				}
				c22Emit(c, cs.Writes, maxOff, []int64{1, 2, 100})
			}
			return
		}
		lens := []int64{1, 2, 100}
		// exhaustive: all histories of <= depth writes with off in 0..R-1 and len in 0..R
		R, depth := int64(4), 3
		if !c.Quick() {
			R, depth = 5, 4
		}
		var all [][2]int64
		for o := int64(0); o < R; o++ {
			for l := int64(0); l <= R; l++ {
				all = append(all, [2]int64{o, l})
			}
		}
		var rec func(prefix [][2]int64, d int)
		rec = func(prefix [][2]int64, d int) {
			if len(prefix) > 0 {
				c22Emit(c, append([][2]int64(nil), prefix...), 2*R+2, lens)
			}
			if d == 0 {
				return
			}
			for _, w := range all {
				if d < depth && len(prefix) >= 2 && c.Quick() && w[1] == 0 {
					continue // zero-length writes only in the first two positions in the quick tier
				}
				rec(append(prefix, w), d-1)
			}
		}
		if c.Quick() {
			// quick: full depth 2, depth 3 sampled
			depth = 2
			rec(nil, depth)
			rng := c.Rng.Fork()
			for i := 0; i < 1500; i++ {
				ws := randWrites(rng, 3, 4, 6, 6)
				c22Emit(c, ws, 14, lens)
			}
		} else {
			rec(nil, 3)
		}
		rng := c.Rng.Fork()
		n := 1500
		if !c.Quick() {
			n = 20000
		}
		for i := 0; i < n; i++ {
			ws := randWrites(rng, 4, 8, 24, 8)
			c22Emit(c, ws, 34, lens)
		}
		for i := 0; i < n/10; i++ {
			c22Wide(c, rng)
		}
	}
}

func randWrites(rng *gen.Rand, minN, maxN int, maxOff, maxLen int) [][2]int64 {
	n := rng.Range(minN, maxN)
	ws := make([][2]int64, n)
	for i := range ws {
		ws[i] = [2]int64{int64(rng.Intn(maxOff)), int64(rng.Range(0, maxLen))}
		if i > 0 && rng.Chance(1, 4) {
			// start exactly where an earlier write ended (the adjacency corner)
			p := ws[rng.Intn(i)]
			ws[i][0] = p[0] + p[1]
		}
	}
	return ws
}
