package main

import (
	"bufio"
	"bytes"
	"context"
	"encoding/json"
	"fmt"
	"os"
	"sort"
	"strings"
	"sync"
	"sync/atomic"
	"time"

	"github.com/oneconcern/datamon/pkg/cafs"
	context2 "github.com/oneconcern/datamon/pkg/context"
	"github.com/oneconcern/datamon/pkg/core"
	"github.com/oneconcern/datamon/pkg/model"
	"github.com/oneconcern/datamon/pkg/storage"

	"verifharness/gen"
	"verifharness/memstore"
	"verifharness/world"
)

// C13 / C14: purge. Histories of uploads and deletions over repositories sharing deduplicated blobs, an index
// build (interrupted and resumed, with transient store failures), uploads between index and deletion, then
// delete-unused (with transient failures).

type puStep struct {
	Op    string       `json:"op"` // upload | delete | purge
	Repo  string       `json:"repo"`
	Files []world.File `json:"files,omitempty"`
	Which int          `json:"which,omitempty"` // delete: index into the repo's live bundles
	ID    string       `json:"id,omitempty"`
}

type puAttempt struct {
	Resume  bool                  `json:"resume"`
	CrashAt int                   `json:"crashat"` // the n-th write of an index chunk fails, and every later one (0 = none)
	Faults  []*memstore.FaultRule `json:"faults,omitempty"`
	Err     string                `json:"err,omitempty"`
	Panic   bool                  `json:"panic,omitempty"`
}

type puBundle struct {
	Repo    string   `json:"repo"`
	ID      string   `json:"id"`
	Keys    []string `json:"keys"`    // root and leaf keys of its files
	Files   []puFile `json:"files"`
	Indexed bool     `json:"indexed"` // existed when the successful index build started
	Reads   bool     `json:"reads"`   // downloads completely with its original content after delete-unused
}

type puCase struct {
	Prop       string                `json:"prop"`
	Pre        []puStep              `json:"pre"`
	Chunk      uint64                `json:"chunk"`
	Attempts   []puAttempt           `json:"attempts"`
	Mid        []puStep              `json:"mid"`
	DelFaults  []*memstore.FaultRule `json:"delfaults,omitempty"`
	Extra      []world.File          `json:"extra,omitempty"`   // a bundle in a second context that shares the blob store
	PageCap    int                   `json:"pagecap,omitempty"` // the blob store caps its listing pages
	During     []world.File          `json:"during,omitempty"`  // a bundle whose upload starts while the index build prepares, and commits after it
	ResumeLockRefused bool           `json:"resumelockrefused"`
	FaultFree  bool                  `json:"faultfree"`
	Bundles    []puBundle            `json:"bundles"`
	Index      []string              `json:"index"`     // keys listed by the index chunks
	Before     []puBlob              `json:"before"`    // blob store before delete-unused
	After      []string              `json:"after"`     // blob store afterwards
	DelErr     string                `json:"delerr,omitempty"`
	BuildOk    bool                  `json:"buildok"`
	LockWins   int                   `json:"lockwins"`  // concurrent lock attempts that succeeded
	LockTries  int                   `json:"locktries"`
	ForceOk    bool                  `json:"forceok"`
	Sig        string                `json:"sig"`
}

type puFile struct {
	Root   string   `json:"root"`
	Leaves []string `json:"leaves"`
}

type puBlob struct {
	Key   string `json:"key"`
	Newer bool   `json:"newer"` // written (or refreshed) after the index time
}

func puShort(k string) string {
	if len(k) > 20 {
		return k[:20]
	}
	return k
}

func puKeys(w *world.World, repo, id string) ([]string, []puFile) {
	es, err := w.Entries(repo, id)
	if err != nil {
		panic(err)
	}
	set := map[string]bool{}
	var files []puFile
	for _, e := range es {
		root, err := cafs.KeyFromString(e.Hash)
		if err != nil {
			panic(err)
		}
		set[root.String()] = true
		f := puFile{Root: root.String()}
		leaves, err := cafs.LeavesForHash(w.Blob, root, 64, "")
		if err != nil {
			panic(fmt.Sprint("leaves: ", err))
		}
		for _, l := range leaves {
			set[l.String()] = true
			f.Leaves = append(f.Leaves, l.String())
		}
		files = append(files, f)
	}
	var out []string
	for k := range set {
		out = append(out, k)
	}
	sort.Strings(out)
	return out, files
}

// bundles committed from diamonds: their expected files include entries under .conflicts/
var exactBundles = map[string]bool{}

func puApply(w *world.World, steps []puStep, r *gen.Rand, live map[string][]string, orig map[string][]world.File, sec *int64, tmp string) {
	for i := range steps {
		s := &steps[i]
		switch s.Op {
		case "upload":
			*sec += 10
			s.ID = kid(r, *sec)
			if _, err := w.Upload(s.Repo, world.Consumable(s.Files), world.UploadOpts{LeafSize: 64, BundleID: s.ID, Message: "p"}); err != nil {
				panic(err)
			}
			live[s.Repo] = append(live[s.Repo], s.ID)
			orig[s.Repo+"/"+s.ID] = s.Files
		case "diamond": // a diamond of two splits with conflicting versions: the bundle holds the losing ones under .conflicts/
			*sec += 10
			did := kid(r, *sec)
			dd := model.NewDiamondDescriptor(model.DiamondID(did))
			if _, err := core.CreateDiamond(s.Repo, w.Stores(), core.DiamondDescriptor(dd), core.DiamondLogger(world.Nop)); err != nil {
				panic(err)
			}
			var alt []world.File
			for j, f := range s.Files {
				if j%2 == 0 {
					alt = append(alt, world.File{Name: f.Name, Data: append([]byte("the other version of "), f.Data...)})
				}
			}
			for j, files := range [][]world.File{s.Files, alt} {
				sd := model.NewSplitDescriptor(model.SplitID(fmt.Sprintf("split-%d", j)))
				got, err := core.CreateSplit(s.Repo, did, w.Stores(), core.SplitDescriptor(sd), core.SplitLogger(world.Nop))
				if err != nil {
					panic(err)
				}
				sp := core.NewSplit(s.Repo, did, w.Stores(), core.SplitDescriptor(&got), core.SplitConsumableStore(world.Consumable(files)), core.SplitLogger(world.Nop))
				sp.BundleDescriptor.LeafSize = 64
				if err := sp.Upload(); err != nil {
					panic(err)
				}
				time.Sleep(3 * time.Millisecond)
			}
			d := core.NewDiamond(s.Repo, w.Stores(), core.DiamondDescriptor(model.NewDiamondDescriptor(model.DiamondID(did))), core.DiamondLogger(world.Nop))
			d.BundleDescriptor.LeafSize = 64
			if err := d.Commit(); err != nil {
				panic(err)
			}
			s.ID = d.BundleID
			live[s.Repo] = append(live[s.Repo], s.ID)
			orig[s.Repo+"/"+s.ID] = c17Merged(s.Files, alt)
			exactBundles[s.Repo+"/"+s.ID] = true
		case "delete":
			l := live[s.Repo]
			if len(l) == 0 {
				continue
			}
			k := s.Which % len(l)
			s.ID = l[k]
			if err := core.DeleteBundle(s.Repo, w.Stores(), s.ID); err != nil {
				panic(err)
			}
			live[s.Repo] = append(append([]string{}, l[:k]...), l[k+1:]...)
			delete(orig, s.Repo+"/"+s.ID)
		case "purge": // an earlier, undisturbed purge cycle
			dir, _ := os.MkdirTemp(tmp, "kv")
			if _, err := core.PurgeBuildReverseIndex(w.Stores(), core.WithPurgeLocalStore(dir), core.WithPurgeLogger(world.Nop), core.WithPurgeIndexChunkSize(2)); err != nil {
				panic(err)
			}
			os.RemoveAll(dir)
			dir, _ = os.MkdirTemp(tmp, "kv")
			if _, err := core.PurgeDeleteUnused(w.Stores(), core.WithPurgeLocalStore(dir), core.WithPurgeLogger(world.Nop)); err != nil {
				panic(err)
			}
			os.RemoveAll(dir)
		}
	}
}

func puRun(cs *puCase, r *gen.Rand) {
	tmp := "/root/.cache/verif/tmp"
	os.MkdirAll(tmp, 0o755)
	w := world.New()
	for _, repo := range []string{"ra", "rb"} {
		if err := w.CreateRepo(repo); err != nil {
			panic(err)
		}
	}
	live := map[string][]string{}
	orig := map[string][]world.File{}
	sec := int64(1000)
	puApply(w, cs.Pre, r, live, orig, &sec, tmp)
	var w2 *world.World
	extraID := ""
	if cs.Extra != nil {
		w2 = world.New()
		w2.Blob = w.Blob // another context on the same blob store
		if err := w2.CreateRepo("rx"); err != nil {
			panic(err)
		}
		extraID = kid(r, 900)
		if _, err := w2.Upload("rx", world.Consumable(cs.Extra), world.UploadOpts{LeafSize: 64, BundleID: extraID, Message: "x"}); err != nil {
			panic(err)
		}
	}
	w.Blob.SetPageCap(cs.PageCap)
	indexed := map[string]bool{}
	cs.BuildOk = false
	var buildEnd time.Time
	_ = buildEnd
	buildStart := time.Now().UTC() // the index time of a chain of attempts is taken when the first one starts
	duringID := ""
	for ai := range cs.Attempts {
		a := &cs.Attempts[ai]
		a.Err, a.Panic = "", false
		if ai == len(cs.Attempts)-1 {
			for repo, ids := range live {
				for _, id := range ids {
					indexed[repo+"/"+id] = true
				}
			}
		}
		f := &memstore.Faults{}
		for _, rule := range a.Faults {
			cp := *rule
			cp.Fired = 0
			f.Rules = append(f.Rules, &cp)
		}
		if a.CrashAt > 0 {
			f.Rules = append(f.Rules, &memstore.FaultRule{Op: "put", Substr: "reverse-index", Skip: a.CrashAt - 1, Times: -1})
		}
		wa := *w
		wa.WrapMeta = func(s storage.Store) storage.Store { return &memstore.Flaky{Store: s, F: f, Name: "meta"} }
		wa.WrapBlob = func(s storage.Store) storage.Store { return &memstore.Flaky{Store: s, F: f, Name: "blob"} }
		dir, _ := os.MkdirTemp(tmp, "kv")
		bopts := []core.PurgeOption{core.WithPurgeLocalStore(dir), core.WithPurgeLogger(world.Nop),
			core.WithPurgeIndexChunkSize(cs.Chunk), core.WithPurgeResumeIndex(a.Resume), core.WithPurgeParallel(4)}
		if w2 != nil {
			w2a := *w2
			w2a.WrapMeta = func(s storage.Store) storage.Store { return &memstore.Flaky{Store: s, F: f, Name: "meta2"} }
			w2a.WrapBlob = wa.WrapBlob
			bopts = append(bopts, core.WithPurgeExtraContexts([]context2.Stores{w2a.Stores()}))
		}
		// an upload that starts while the build prepares (its blobs land then) and writes its metadata once the build is over
		var release chan struct{}
		var uploaded chan error
		if cs.During != nil && ai == len(cs.Attempts)-1 {
			release, uploaded = make(chan struct{}), make(chan error, 1)
			blobsDone := make(chan struct{})
			var once sync.Once
			f.Hook = func(store, op, key string) {
				if store != "meta" {
					return
				}
				once.Do(func() {
					hold := &memstore.Faults{}
					var first sync.Once
					hold.Hook = func(st, o, k string) {
						if st == "meta" && o == "put" && strings.HasPrefix(k, "bundles/") {
							first.Do(func() { close(blobsDone) })
							<-release
						}
					}
					wu := *w
					wu.WrapMeta = func(s storage.Store) storage.Store { return &memstore.Flaky{Store: s, F: hold, Name: "meta"} }
					go func() {
						duringID = kid(r, 9000)
						_, err := wu.Upload("rb", world.Consumable(cs.During), world.UploadOpts{LeafSize: 64, BundleID: duringID, Message: "during"})
						first.Do(func() { close(blobsDone) })
						uploaded <- err
					}()
					<-blobsDone
				})
			}
		}
		func() {
			defer func() {
				if p := recover(); p != nil {
					a.Panic, a.Err = true, fmt.Sprint(p)
				}
			}()
			_, err := core.PurgeBuildReverseIndex(wa.Stores(), bopts...)
			if err != nil {
				a.Err = err.Error()
			} else if ai == len(cs.Attempts)-1 {
				cs.BuildOk = true
			}
		}()
		os.RemoveAll(dir)
		buildEnd = time.Now().UTC()
		if release != nil {
			close(release)
			if err := <-uploaded; err != nil {
				panic(fmt.Sprint("upload during the build failed: ", err))
			}
			live["rb"] = append(live["rb"], duringID)
			orig["rb/"+duringID] = cs.During
		}
		for i, rule := range f.Rules {
			if i < len(a.Faults) {
				a.Faults[i].Fired = rule.Fired
			}
		}
	}
	// the index as stored
	cs.Index = nil
	var indexTime string
	snap := w.Meta.Snapshot()
	idx := map[string]bool{}
	for _, k := range w.Meta.SortedKeys() {
		if !strings.Contains(k, "reverse-index") || !strings.Contains(k, "chunk-") {
			continue
		}
		sc := bufio.NewScanner(bytes.NewReader(snap[k]))
		first := true
		for sc.Scan() {
			if first {
				first = false
				if sc.Text() > indexTime {
					indexTime = sc.Text()
				}
				continue
			}
			idx[sc.Text()] = true
		}
	}
	for k := range idx {
		cs.Index = append(cs.Index, k)
	}
	sort.Strings(cs.Index)
	puApply(w, cs.Mid, r, live, orig, &sec, tmp)
	// what every live bundle needs, and the blob store before
	cs.Bundles = nil
	for _, repo := range []string{"ra", "rb"} {
		for _, id := range live[repo] {
			keys, files := puKeys(w, repo, id)
			cs.Bundles = append(cs.Bundles, puBundle{Repo: repo, ID: id, Keys: keys, Files: files, Indexed: indexed[repo+"/"+id]})
		}
	}
	if w2 != nil {
		save := w.Blob
		_ = save
		w2keys, w2files := puKeys(w2, "rx", extraID)
		cs.Bundles = append(cs.Bundles, puBundle{Repo: "rx", ID: extraID, Keys: w2keys, Files: w2files, Indexed: true})
	}
	cs.Before, cs.After, cs.DelErr = nil, nil, ""
	// delete-unused
	if cs.BuildOk {
		f := &memstore.Faults{}
		for _, rule := range cs.DelFaults {
			cp := *rule
			cp.Fired = 0
			f.Rules = append(f.Rules, &cp)
		}
		wa := *w
		wa.WrapMeta = func(s storage.Store) storage.Store { return &memstore.Flaky{Store: s, F: f, Name: "meta"} }
		wa.WrapBlob = func(s storage.Store) storage.Store { return &memstore.Flaky{Store: s, F: f, Name: "blob"} }
		dir, _ := os.MkdirTemp(tmp, "kv")
		func() {
			defer func() {
				if p := recover(); p != nil {
					cs.DelErr = "panic: " + fmt.Sprint(p)
				}
			}()
			var err error
			// the blob store as the command finds it
			_, err = core.PurgeDeleteUnused(wa.Stores(), core.WithPurgeLocalStore(dir), core.WithPurgeLogger(world.Nop), core.WithPurgeParallel(4),
				core.WithPurgeDryRun(true))
			if err == nil {
				for _, k := range w.Blob.SortedKeys() {
					at, _ := w.Blob.GetAttr(context.Background(), k)
					// newer than the index: written after the index build had started
					cs.Before = append(cs.Before, puBlob{Key: k, Newer: at.Updated.After(buildStart)})
				}
				os.RemoveAll(dir)
				dir, _ = os.MkdirTemp(tmp, "kv")
				_, err = core.PurgeDeleteUnused(wa.Stores(), core.WithPurgeLocalStore(dir), core.WithPurgeLogger(world.Nop), core.WithPurgeParallel(4))
			}
			if err != nil {
				cs.DelErr = err.Error()
			}
		}()
		os.RemoveAll(dir)
		for i, rule := range f.Rules {
			cs.DelFaults[i].Fired = rule.Fired
		}
		cs.After = w.Blob.SortedKeys()
		for i := range cs.Bundles {
			b := &cs.Bundles[i]
			if b.Repo == "rx" {
				got, err := w2.Download(b.Repo, b.ID, 0, nil)
				b.Reads = err == nil && sameFiles(got, cs.Extra)
				continue
			}
			got, err := w.Download(b.Repo, b.ID, 0, nil)
			if exactBundles[b.Repo+"/"+b.ID] {
				b.Reads = err == nil && sameFilesExact(got, orig[b.Repo+"/"+b.ID])
			} else {
				b.Reads = err == nil && sameFiles(got, orig[b.Repo+"/"+b.ID])
			}
		}
	}
	// the purge lock: concurrent acquisitions
	cs.LockTries = r.Range(2, 6)
	cs.LockWins = 0
	var wg sync.WaitGroup
	var mu sync.Mutex
	start := make(chan struct{})
	for i := 0; i < cs.LockTries; i++ {
		wg.Add(1)
		go func() {
			defer wg.Done()
			<-start
			if core.PurgeLock(w.Stores(), core.WithPurgeLogger(world.Nop)) == nil {
				mu.Lock()
				cs.LockWins++
				mu.Unlock()
			}
		}()
	}
	close(start)
	wg.Wait()
	// once more with every job's write of the lock object held back until all jobs are about to write (or 100 ms have
	// passed): a lock taken by looking first and writing afterwards lets several of them in
	if cs.LockWins == 1 {
		w.Meta.Remove(model.PurgeLock())
		var arrived int32
		n := int32(cs.LockTries)
		f := &memstore.Faults{Hook: func(store, op, key string) {
			if op == "put" && strings.Contains(key, "purge") {
				atomic.AddInt32(&arrived, 1)
				for t := 0; t < 100 && atomic.LoadInt32(&arrived) < n; t++ {
					time.Sleep(time.Millisecond)
				}
			}
		}}
		wa := *w
		wa.WrapMeta = func(st storage.Store) storage.Store { return &memstore.Flaky{Store: st, F: f, Name: "meta"} }
		wins := 0
		var wg2 sync.WaitGroup
		start2 := make(chan struct{})
		for i := 0; i < cs.LockTries; i++ {
			wg2.Add(1)
			go func() {
				defer wg2.Done()
				<-start2
				if core.PurgeLock(wa.Stores(), core.WithPurgeLogger(world.Nop)) == nil {
					mu.Lock()
					wins++
					mu.Unlock()
				}
			}()
		}
		close(start2)
		wg2.Wait()
		cs.LockWins = wins
	}
	// the lock is held now: an acquisition that is not forced is refused, whatever other options it carries
	cs.ResumeLockRefused = core.PurgeLock(w.Stores(), core.WithPurgeLogger(world.Nop), core.WithPurgeResumeIndex(true), core.WithPurgeIndexChunkSize(3)) != nil
	cs.ForceOk = core.PurgeLock(w.Stores(), core.WithPurgeLogger(world.Nop), core.WithPurgeForce(true)) == nil
	_ = core.PurgeUnlock(w.Stores(), core.WithPurgeLogger(world.Nop))
}

func puCoq(cs *puCase) string {
	strs := func(l []string) string {
		out := make([]string, len(l))
		for i, s := range l {
			out[i] = S(puShort(s))
		}
		return "[" + strings.Join(out, "; ") + "]"
	}
	bs := make([]string, len(cs.Bundles))
	for i, b := range cs.Bundles {
		fs := make([]string, len(b.Files))
		for j, f := range b.Files {
			fs[j] = fmt.Sprintf("{| fk_root := %s; fk_leaves := %s |}", S(puShort(f.Root)), strs(f.Leaves))
		}
		bs[i] = fmt.Sprintf("{| pb_files := [%s]; pb_indexed := %v; pb_reads := %v |}", strings.Join(fs, "; "), b.Indexed, b.Reads)
	}
	bf := make([]string, len(cs.Before))
	for i, b := range cs.Before {
		bf[i] = fmt.Sprintf("(%s, %v)", S(puShort(b.Key)), b.Newer)
	}
	ok := cs.BuildOk && cs.DelErr == ""
	panicked := false
	atts := make([]string, len(cs.Attempts))
	for i, a := range cs.Attempts {
		panicked = panicked || a.Panic
		if a.CrashAt > 0 {
			atts[i] = fmt.Sprintf("(%v, Some %d%%nat)", a.Resume, a.CrashAt-1)
		} else {
			atts[i] = fmt.Sprintf("(%v, None)", a.Resume)
		}
	}
	return fmt.Sprintf("{| pc_bundles := [%s]; pc_chunk := %d%%nat; pc_attempts := [%s]; pc_comparable := %v; pc_index := %s; pc_before := [%s]; pc_after := %s; pc_success := %v; pc_panicked := %v; pc_faultfree := %v; pc_lock_tries := %d%%nat; pc_lock_wins := %d%%nat; pc_force_ok := %v; pc_unforced_refused := %v |}",
		strings.Join(bs, ";\n "), cs.Chunk, strings.Join(atts, "; "), true, strs(cs.Index), strings.Join(bf, "; "), strs(cs.After), ok, panicked, cs.FaultFree, cs.LockTries, cs.LockWins, cs.ForceOk, cs.ResumeLockRefused)
}

func puHasPurge(steps []puStep) bool {
	for _, s := range steps {
		if s.Op == "purge" {
			return true
		}
	}
	return false
}

var puContents = []string{"alpha", "bravo", "charlie-with-a-longer-content-that-spans-more-than-one-leaf-of-sixty-four-bytes-so-that-leaves-exist-0123456789",
	"delta", "", "echo-is-also-long-enough-to-need-two-leaves-xxxxxxxxxxxxxxxxxxxxxxxxxxxxxxxxxxxxxxxxxxxxxxxxxxxxxxxxxxxxxxxxxxxxxxxxxxx", "foxtrot"}

func puTree(r *gen.Rand) []world.File {
	var fs []world.File
	for i := 0; i < r.Range(1, 3); i++ {
		fs = append(fs, world.File{Name: fmt.Sprintf("f%d", i), Data: []byte(puContents[r.Intn(len(puContents))])})
	}
	return fs
}

func puGen(prop string, r *gen.Rand, i int) *puCase {
	cs := &puCase{Prop: prop, Chunk: uint64(r.Range(1, 5)), FaultFree: true}
	repos := []string{"ra", "rb"}
	for j := 0; j < r.Range(2, 6); j++ {
		op := "upload"
		if r.Chance(1, 4) { // the bundle of a diamond commit that kept losing versions under .conflicts/
			op = "diamond"
		}
		cs.Pre = append(cs.Pre, puStep{Op: op, Repo: repos[r.Intn(2)], Files: puTree(r)})
		if r.Chance(1, 4) {
			cs.Pre = append(cs.Pre, puStep{Op: "delete", Repo: repos[r.Intn(2)], Which: r.Intn(4)})
		}
	}
	if r.Chance(1, 5) {
		at := r.Intn(len(cs.Pre))
		cs.Pre = append(cs.Pre[:at:at], append([]puStep{{Op: "purge"}}, cs.Pre[at:]...)...)
	}
	if i%6 == 5 { // a second purge cycle over a smaller repository
		cs.Pre = []puStep{{Op: "upload", Repo: "ra", Files: []world.File{{Name: "a", Data: []byte(puContents[2])}, {Name: "b", Data: []byte(puContents[4])}, {Name: "c", Data: []byte("golf")}}},
			{Op: "purge"}, {Op: "delete", Repo: "ra", Which: 0}, {Op: "upload", Repo: "rb", Files: []world.File{{Name: "a", Data: []byte("hotel")}}}}
		cs.Chunk = 2
	}
	cs.Attempts = []puAttempt{{}}
	if prop == "C13" {
		switch i % 6 {
		case 0: // interrupted and resumed
			if i%12 == 0 { // ... over more than ten chunks
				var fs []world.File
				for k := 0; k < 9; k++ {
					fs = append(fs, world.File{Name: fmt.Sprintf("k%d", k), Data: []byte(fmt.Sprintf("distinct content %d of case %d", k, i))})
				}
				cs.Pre = append(cs.Pre, puStep{Op: "upload", Repo: "ra", Files: fs})
				cs.Chunk = 1
				cs.Attempts = []puAttempt{{CrashAt: r.Range(12, 15)}, {Resume: true}}
				cs.FaultFree = false
				break
			}
			n := r.Range(1, 2)
			cs.Attempts = nil
			for k := 0; k < n; k++ {
				cs.Attempts = append(cs.Attempts, puAttempt{Resume: k > 0, CrashAt: r.Range(1, 4)})
			}
			if i == 6 { // the first session dies before any chunk is uploaded
				cs.Attempts[0].CrashAt = 1
			}
			cs.Attempts = append(cs.Attempts, puAttempt{Resume: true})
			cs.FaultFree = false
		case 1: // an index chunk write fails once or twice, then goes through
			cs.Chunk = uint64(r.Range(1, 3))
			cs.Attempts[0].Faults = []*memstore.FaultRule{{Store: "meta", Op: "put", Substr: "reverse-index", Skip: r.Intn(2), Times: r.Range(1, 2)}}
			cs.FaultFree = false
		case 2: // reading a root blob fails once during the build; the first file has leaves
			cs.Pre = append([]puStep{{Op: "upload", Repo: "ra", Files: []world.File{{Name: "big", Data: []byte(puContents[2+2*r.Intn(2)] + fmt.Sprint(i))}}}}, cs.Pre...)
			cs.Attempts[0].Faults = []*memstore.FaultRule{{Store: "blob", Op: "get", Skip: r.Intn(2), Times: 1}}
			cs.FaultFree = false
		case 3: // attribute reads fail during the deletion; a bundle with new content was uploaded after the index
			cs.Mid = append(cs.Mid, puStep{Op: "upload", Repo: "rb", Files: []world.File{{Name: "new", Data: []byte(fmt.Sprint("new content ", i))}}})
			cs.DelFaults = []*memstore.FaultRule{{Store: "blob", Op: "getattr", Skip: r.Intn(2), Times: r.Range(1, 3)}}
			cs.FaultFree = false
		case 4: // deletes, listings or file-list reads fail
			switch r.Intn(3) {
			case 0:
				cs.DelFaults = []*memstore.FaultRule{{Store: "blob", Op: "delete", Skip: r.Intn(2), Times: r.Range(1, 2)}}
			case 1:
				cs.Attempts[0].Faults = []*memstore.FaultRule{{Store: "meta", Op: "get", Substr: "bundle-files", Skip: r.Intn(2), Times: 1}}
			default:
				cs.DelFaults = []*memstore.FaultRule{{Store: "meta", Op: "get", Substr: "reverse-index", Skip: r.Intn(2), Times: 1}}
			}
			cs.FaultFree = false
		}
	}
	if r.Chance(1, 3) { // a second context sharing the blob store
		cs.Extra = []world.File{{Name: "x/only-here", Data: []byte(fmt.Sprint("only in the second context ", i))}, {Name: "x/shared", Data: []byte(puContents[r.Intn(len(puContents))])}}
		if prop == "C13" && i%3 == 1 { // whose repositories cannot be listed at first
			cs.Attempts[len(cs.Attempts)-1].Faults = append(cs.Attempts[len(cs.Attempts)-1].Faults, &memstore.FaultRule{Store: "meta2", Op: "list", Times: 1})
			cs.FaultFree = false
		}
	}
	if r.Chance(1, 2) {
		cs.PageCap = r.Range(2, 9)
	}
	if prop == "C13" && r.Chance(1, 4) {
		cs.During = []world.File{{Name: "during/new", Data: []byte(fmt.Sprint("uploaded while the index was being prepared ", i))}}
		cs.FaultFree = false
	}
	// uploads between index and deletion: new content, content of live bundles, content orphaned earlier
	for j := 0; j < r.Intn(3); j++ {
		cs.Mid = append(cs.Mid, puStep{Op: "upload", Repo: repos[r.Intn(2)], Files: puTree(r)})
	}
	return cs
}

func puProp(prop string) propFn {
	return func(c *Ctx) {
		c.Header = "From Coq Require Import List String NArith.\nFrom DM Require Import Model.Purge Model.PurgeCheck.\nImport ListNotations.\nOpen Scope list_scope."
		c.CaseTy = "pcase"
		c.Report = map[string]string{"C13": "report13", "C14": "report14"}[prop]
		c.PerFile = 20
		c.Rule = map[string]string{
			"C13": "histories of uploads and bundle deletions over two repositories drawing file contents from six values (deduplicated blobs, some spanning several leaves; content orphaned by deletions re-used later), sometimes with an earlier purge cycle; the index build is interrupted at the n-th index chunk write and resumed (once or twice), or meets transient failures of chunk writes, blob reads, listings or file-list reads, or the deletion meets transient failures of attribute reads, deletes or listings; uploads between index and deletion; afterwards every live bundle is downloaded and compared; non-trivial = run in which a fault fired or a blob was deleted, distinct by case",
			"C14": "the same histories without faults, chunk sizes 1..5: index content against the keys of the scanned bundles, blob store after deletion against the expected set; 2..6 concurrent acquisitions of the purge lock, then a forced one; non-trivial = run in which a blob was deleted, distinct by case",
		}[prop]
		emit := func(cs *puCase) {
			key := ""
			fired := len(cs.After) < len(cs.Before)
			for _, a := range cs.Attempts {
				for _, f := range a.Faults {
					fired = fired || f.Fired > 0
				}
				fired = fired || a.CrashAt > 0
			}
			for _, f := range cs.DelFaults {
				fired = fired || f.Fired > 0
			}
			if fired {
				j, _ := json.Marshal([]interface{}{cs.Pre, cs.Attempts, cs.Mid, cs.DelFaults, cs.Chunk})
				key = string(j)
				if len(key) > 600 {
					key = key[len(key)-600:]
				}
			}
			c.Emit(cs, puCoq(cs), key, fmt.Sprintf("attempts=%d faultfree=%v success=%v", len(cs.Attempts), cs.FaultFree, cs.BuildOk && cs.DelErr == ""), "purge")
		}
		r := c.Rng.Fork()
		if len(c.Replay) > 0 {
			for _, raw := range c.Replay {
				var cs puCase
				if err := json.Unmarshal(raw, &cs); err != nil {
					panic(err)
				}
				c.Pending(&cs)
				puRun(&cs, r)
				emit(&cs)
			}
			return
		}
		n := 24
		if !c.Quick() {
			n = 300
		}
		for i := 0; i < n; i++ {
			cs := puGen(prop, r, i)
			c.Pending(cs)
			puRun(cs, r)
			emit(cs)
		}
	}
}

func init() {
	props["C13"] = puProp("C13")
	props["C14"] = puProp("C14")
}
