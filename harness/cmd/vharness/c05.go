package main

import (
	"context"
	"encoding/json"
	"fmt"
	"sort"
	"strings"

	"github.com/oneconcern/datamon/pkg/core"

	"verifharness/gen"
	"verifharness/world"
)

// C05: bundle diff and in-place update.
type c05Case struct {
	A, B    []world.File  `json:"a"`
	Leaf    uint32        `json:"leaf"`
	EA, EB  []world.Entry `json:"-"`
	DiffOk  bool          `json:"diffok"`
	Diff    [][2]string   `json:"diff,omitempty"` // kind(A/D/U), name
	UpdOk   bool          `json:"updok"`
	Updated [][2]string   `json:"updated,omitempty"`
	Fresh   [][2]string   `json:"fresh,omitempty"`
	Err     string        `json:"err,omitempty"`
}

type c05JSON struct {
	A    []world.File `json:"a"`
	B    []world.File `json:"b"`
	Leaf uint32       `json:"leaf"`
}

func c05List(files []world.File, py *pyRef, leaf uint32) [][2]string {
	out := make([][2]string, len(files))
	for i, f := range files {
		out[i] = [2]string{f.Name, py.key(int(leaf), f.Data)}
	}
	return out
}

func c05Run(cs *c05Case, py *pyRef) {
	w := world.New()
	if err := w.CreateRepo("repo"); err != nil {
		panic(err)
	}
	up := func(files []world.File) string {
		id, err := w.Upload("repo", world.Consumable(files), world.UploadOpts{LeafSize: cs.Leaf, Message: "c05"})
		if err != nil {
			panic(err)
		}
		return id
	}
	idA, idB := up(cs.A), up(cs.B)
	var err error
	if cs.EA, err = w.Entries("repo", idA); err != nil {
		panic(err)
	}
	if cs.EB, err = w.Entries("repo", idB); err != nil {
		panic(err)
	}
	sort.Slice(cs.EA, func(i, j int) bool { return cs.EA[i].Name < cs.EA[j].Name })
	sort.Slice(cs.EB, func(i, j int) bool { return cs.EB[i].Name < cs.EB[j].Name })
	// local copy of A
	local, cleanup := world.LocalDir() // files are written leaf by leaf with concurrent WriteAt
	defer cleanup()
	bA := core.NewBundle(core.Repo("repo"), core.ContextStores(w.Stores()), core.BundleID(idA), core.ConsumableStore(local), core.Logger(world.Nop))
	if err := core.Publish(context.Background(), bA); err != nil {
		panic(err)
	}
	remote := func() *core.Bundle {
		return core.NewBundle(core.Repo("repo"), core.ContextStores(w.Stores()), core.BundleID(idB), core.Logger(world.Nop))
	}
	localB := func() *core.Bundle { return core.NewBundle(core.ConsumableStore(local), core.Logger(world.Nop)) }
	d, err := core.Diff(context.Background(), localB(), remote())
	if err == nil {
		cs.DiffOk = true
		for _, e := range d.Entries {
			cs.Diff = append(cs.Diff, [2]string{e.Type.String(), e.Name})
		}
		sort.Slice(cs.Diff, func(i, j int) bool { return cs.Diff[i][1] < cs.Diff[j][1] })
	} else {
		cs.Err = err.Error()
	}
	if err := core.Update(context.Background(), remote(), localB()); err == nil {
		cs.UpdOk = true
		files, err := world.ReadAll(local)
		if err != nil {
			panic(err)
		}
		cs.Updated = c05List(files, py, cs.Leaf)
	} else {
		cs.Err += " update: " + err.Error()
	}
	fresh, err := w.Download("repo", idB, 0, nil)
	if err != nil {
		panic(err)
	}
	cs.Fresh = c05List(fresh, py, cs.Leaf)
}

func c05Coq(cs *c05Case) string {
	ents := func(es []world.Entry) string {
		out := make([]string, len(es))
		for i, e := range es {
			out[i] = fmt.Sprintf("{| e_name := %s; e_hash := %s; e_size := %d%%N |}", S(e.Name), S(e.Hash), e.Size)
		}
		return "[" + strings.Join(out, "; ") + "]"
	}
	pairs := func(l [][2]string) string {
		out := make([]string, len(l))
		for i, p := range l {
			out[i] = "(" + S(p[0]) + ", " + S(p[1]) + ")"
		}
		return "[" + strings.Join(out, "; ") + "]"
	}
	diff := "None"
	if cs.DiffOk {
		out := make([]string, len(cs.Diff))
		for i, p := range cs.Diff {
			out[i] = "(" + map[string]string{"A": "DAdd", "D": "DDel", "U": "DDif"}[p[0]] + ", " + S(p[1]) + ")"
		}
		diff = "(Some [" + strings.Join(out, "; ") + "])"
	}
	upd := "None"
	if cs.UpdOk {
		upd = "(Some " + pairs(cs.Updated) + ")"
	}
	return fmt.Sprintf("{| dc_a := %s; dc_b := %s; dc_diff := %s; dc_updated := %s; dc_fresh := %s |}", ents(cs.EA), ents(cs.EB), diff, upd, pairs(cs.Fresh))
}

func c05Pair(r *gen.Rand, L int) ([]world.File, []world.File) {
	a := c04Tree(r, r.Intn(12), L)
	var clean []world.File
	for _, f := range a { // no generated-path decoys here
		if !strings.HasPrefix(f.Name, ".") {
			clean = append(clean, f)
		}
	}
	a = clean
	var b []world.File
	switch r.Intn(6) {
	case 0: // identical
		b = append(b, a...)
	case 1: // disjoint
		for _, f := range c04Tree(r, r.Intn(8), L) {
			if !strings.HasPrefix(f.Name, ".") {
				b = append(b, world.File{Name: "other/" + f.Name, Data: f.Data})
			}
		}
	case 2: // empty target
	default: // same paths with same / different content, removals, additions, renames
		for _, f := range a {
			switch r.Intn(5) {
			case 0: // removed
			case 1: // changed: another length, or the same length with one byte altered
				d := append([]byte(nil), f.Data...)
				if len(d) > 0 && r.Bool() {
					d[r.Intn(len(d))] ^= byte(1 + r.Intn(255))
				} else {
					d = append(d, byte(r.Intn(256)))
				}
				b = append(b, world.File{Name: f.Name, Data: d})
			case 2: // renamed
				b = append(b, world.File{Name: f.Name + ".renamed", Data: f.Data})
			default:
				b = append(b, f)
			}
		}
		for i := 0; i < r.Intn(4); i++ {
			b = append(b, world.File{Name: fmt.Sprintf("new/n%d", i), Data: r.Bytes(r.Intn(2*L + 1))})
		}
	}
	if r.Chance(1, 10) {
		a = nil
	}
	if r.Chance(1, 5) { // a file becomes a directory, or a directory becomes a file
		if r.Bool() {
			a = append(a, world.File{Name: "shape/conf", Data: r.Bytes(r.Intn(L + 1))})
			b = append(b, world.File{Name: "shape/conf/main.yaml", Data: r.Bytes(r.Intn(L + 1))})
		} else {
			a = append(a, world.File{Name: "shape/dir/inner.txt", Data: r.Bytes(r.Intn(L + 1))}, world.File{Name: "shape/dir/deeper/x", Data: r.Bytes(3)})
			b = append(b, world.File{Name: "shape/dir", Data: r.Bytes(r.Intn(L + 1))})
		}
	}
	return a, b
}

func init() {
	props["C05"] = func(c *Ctx) {
		c.Header = "From Coq Require Import List String NArith.\nFrom DM Require Import Model.Meta Model.BundleCheck Model.Diff Model.DiffCheck.\nImport ListNotations.\nOpen Scope list_scope."
		c.CaseTy = "dcase"
		c.Report = "report"
		c.PerFile = 10
		c.Rule = "pairs of trees with controlled overlap (identical, disjoint, same path with same / different content, renamed files, additions, removals, a file that becomes a directory and a directory that becomes a file, empty source or target); core.Diff on a downloaded copy against the target bundle, core.Update of that copy, compared file by file (bundle metadata files included, bytes through independently computed keys) with a fresh download of the target; non-trivial = diff with at least one entry, distinct by diff"
		py := newPyRef()
		defer py.in.Close()
		emit := func(cs *c05Case) {
			key := ""
			if len(cs.Diff) > 0 {
				key = fmt.Sprint(cs.Diff)
			}
			kinds := map[string]bool{}
			for _, d := range cs.Diff {
				kinds[d[0]] = true
			}
			class := fmt.Sprintf("A=%v D=%v U=%v", kinds["A"], kinds["D"], kinds["U"])
			c.Emit(c05JSON{cs.A, cs.B, cs.Leaf}, c05Coq(cs), key, class, "diff")
		}
		if len(c.Replay) > 0 {
			for _, raw := range c.Replay {
				var j c05JSON
				if err := json.Unmarshal(raw, &j); err != nil {
					panic(err)
				}
				cs := &c05Case{A: j.A, B: j.B, Leaf: j.Leaf}
				c.Pending(cs)
				c05Run(cs, py)
				emit(cs)
			}
			return
		}
		r := c.Rng.Fork()
		n := 60
		if !c.Quick() {
			n = 1500
		}
		for i := 0; i < n; i++ {
			L := []int{64, 100, 128}[r.Intn(3)]
			a, b := c05Pair(r, L)
			cs := &c05Case{A: a, B: b, Leaf: uint32(L)}
			c.Pending(cs)
			c05Run(cs, py)
			emit(cs)
		}
	}
}
