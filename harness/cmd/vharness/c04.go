package main

import (
	"encoding/json"
	"fmt"
	"sort"
	"strings"

	"github.com/oneconcern/datamon/pkg/model"

	"verifharness/coqfmt"
	"verifharness/gen"
	"verifharness/world"
)

// C04: bundle upload then download reproduces the tree.

type c04Sel struct {
	Kind string  `json:"kind"` // all | prefix | suffix | not | or | one
	Arg  string  `json:"arg,omitempty"`
	A    *c04Sel `json:"a,omitempty"`
	B    *c04Sel `json:"b,omitempty"`
}

func (s *c04Sel) eval(n string) bool {
	switch s.Kind {
	case "all":
		return true
	case "prefix":
		return strings.HasPrefix(n, s.Arg)
	case "suffix":
		return strings.HasSuffix(n, s.Arg)
	case "not":
		return !s.A.eval(n)
	case "or":
		return s.A.eval(n) || s.B.eval(n)
	case "one":
		return n == s.Arg
	}
	return false
}

func (s *c04Sel) coq() string {
	switch s.Kind {
	case "all":
		return "SAll"
	case "prefix":
		return "(SPrefix " + S(s.Arg) + ")"
	case "suffix":
		return "(SSuffix " + S(s.Arg) + ")"
	case "not":
		return "(SNot " + s.A.coq() + ")"
	case "or":
		return "(SOr " + s.A.coq() + " " + s.B.coq() + ")"
	}
	return "(SOne " + S(s.Arg) + ")"
}

type c04Download struct {
	Sel   c04Sel      `json:"sel"`
	Ok    bool        `json:"ok"`
	Files [][2]string `json:"files,omitempty"` // name, key of the downloaded bytes
	Err   string      `json:"err,omitempty"`
}

type c04Case struct {
	Files       []world.File  `json:"files"`
	Keys        []string      `json:"keys,omitempty"`
	HasKeys     bool          `json:"haskeys"`
	Skip        bool          `json:"skip"`
	Leaf        uint32        `json:"leaf"`
	Concurrency int           `json:"concurrency"`
	Sels        []c04Sel      `json:"sels"`
	UpOk        bool          `json:"upok"`
	UpErr       string        `json:"uperr,omitempty"`
	Entries     []world.Entry `json:"entries,omitempty"`
	IndexSizes  []int         `json:"indexsizes,omitempty"`
	Count       uint64        `json:"count"`
	Downloads   []c04Download `json:"downloads,omitempty"`
	fileKeys    map[string]string
}

func c04Run(cs *c04Case, py *pyRef) {
	w := world.New()
	if err := w.CreateRepo("repo"); err != nil {
		panic(err)
	}
	cs.fileKeys = map[string]string{}
	short := func(h string) string { // big trees: keys abbreviated (consistently) to keep the case file small
		if len(cs.Files) > 100 && len(h) > 16 {
			return h[:16]
		}
		return h
	}
	for _, f := range cs.Files {
		cs.fileKeys[f.Name] = short(py.key(int(cs.Leaf), f.Data))
	}
	src := world.Consumable(cs.Files)
	o := world.UploadOpts{LeafSize: cs.Leaf, Concurrency: cs.Concurrency, SkipMissing: cs.Skip, Message: "c04"}
	if cs.HasKeys {
		o.Keys = cs.Keys
		if o.Keys == nil {
			o.Keys = []string{}
		}
	}
	id, err := w.Upload("repo", src, o)
	cs.UpOk = err == nil
	if err != nil {
		cs.UpErr = err.Error()
		return
	}
	// metadata as stored
	for _, mo := range world.Decode(w.Meta) {
		if mo.Kind == "bundle" {
			cs.Count = mo.Count
		}
	}
	for i := uint64(0); ; i++ {
		k := model.GetArchivePathToBundleFileList("repo", id, i)
		snap := w.Meta.Snapshot()
		data, ok := snap[k]
		if !ok {
			break
		}
		cs.IndexSizes = append(cs.IndexSizes, len(world.DecodeOne(k, data).Entries))
	}
	es, err := w.Entries("repo", id)
	if err != nil {
		cs.UpOk = false
		cs.UpErr = "metadata unreadable after upload: " + err.Error()
		return
	}
	for i := range es {
		es[i].Hash = short(es[i].Hash)
	}
	sort.SliceStable(es, func(i, j int) bool { return es[i].Name < es[j].Name })
	cs.Entries = es
	for _, sel := range cs.Sels {
		d := c04Download{Sel: sel}
		var files []world.File
		var err error
		if sel.Kind == "one" {
			files, err = w.DownloadFile("repo", id, sel.Arg)
		} else {
			s := sel
			files, err = w.Download("repo", id, cs.Concurrency, func(n string) (bool, error) { return s.eval(n), nil })
		}
		if err != nil {
			d.Err = err.Error()
		} else {
			d.Ok = true
			for _, f := range files {
				if strings.HasPrefix(f.Name, ".datamon/") {
					continue // the bundle's own metadata copied next to the files
				}
				d.Files = append(d.Files, [2]string{f.Name, short(py.key(int(cs.Leaf), f.Data))})
			}
		}
		cs.Downloads = append(cs.Downloads, d)
	}
	// a download into a directory that already holds, under the name of one of the files, other bytes of the same
	// length: refused, or else the directory ends up holding the bundle
	for _, f := range cs.Files {
		listed := false
		for _, e := range es {
			listed = listed || e.Name == f.Name
		}
		if !listed || len(f.Data) == 0 {
			continue
		}
		other := append([]byte(nil), f.Data...)
		other[len(other)/2] ^= 0x55
		if files, err := w.DownloadOver("repo", id, []world.File{{Name: f.Name, Data: other}}); err == nil {
			d := c04Download{Sel: c04Sel{Kind: "all"}, Ok: true}
			for _, g := range files {
				if !strings.HasPrefix(g.Name, ".datamon/") {
					d.Files = append(d.Files, [2]string{g.Name, short(py.key(int(cs.Leaf), g.Data))})
				}
			}
			cs.Downloads = append(cs.Downloads, d)
		}
		break
	}
}

func c04Coq(cs *c04Case) string {
	files := make([]string, len(cs.Files))
	for i, f := range cs.Files {
		files[i] = fmt.Sprintf("{| f_name := %s; f_size := %d%%N; f_hash := %s |}", S(f.Name), len(f.Data), S(cs.fileKeys[f.Name]))
	}
	keys := "None"
	if cs.HasKeys {
		ks := make([]string, len(cs.Keys))
		for i, k := range cs.Keys {
			ks[i] = S(k)
		}
		keys = "(Some [" + strings.Join(ks, "; ") + "])"
	}
	es := make([]string, len(cs.Entries))
	for i, e := range cs.Entries {
		es[i] = fmt.Sprintf("{| e_name := %s; e_hash := %s; e_size := %d%%N |}", S(e.Name), S(e.Hash), e.Size)
	}
	sizes := make([]string, len(cs.IndexSizes))
	for i, n := range cs.IndexSizes {
		sizes[i] = fmt.Sprintf("%d", n)
	}
	dls := make([]string, len(cs.Downloads))
	for i, d := range cs.Downloads {
		res := "None"
		if d.Ok {
			fs := make([]string, len(d.Files))
			for j, f := range d.Files {
				fs[j] = "(" + S(f[0]) + ", " + S(f[1]) + ")"
			}
			res = "(Some [" + strings.Join(fs, "; ") + "])"
		}
		dls[i] = "(" + d.Sel.coq() + ", " + res + ")"
	}
	return fmt.Sprintf("{| bc_files := [%s]; bc_keys := %s; bc_skip := %v; bc_E := defaultBundleEntriesPerFile; bc_up_ok := %v; bc_entries := [%s]; bc_index_sizes := [%s]%%nat; bc_count := %d%%N; bc_downloads := [%s] |}",
		strings.Join(files, "; "), keys, cs.Skip, cs.UpOk, strings.Join(es, "; "), strings.Join(sizes, ";"), cs.Count, strings.Join(dls, "; "))
}

var c04Dirs = []string{"", "a/", "a/b/", "a/b/c/d/e/f/", "dir with space/", "d.o.t/", ".hidden/", "uni/é日本/", "deco/cafe\u0301/", "deco/caf\u00e9/", "x/.datamonish/", "data/.datamon/", "sub/.conflicts/"}
var c04Decoys = []string{".datamon/x.yaml", ".datamon/deep/er/file", ".conflicts/split1/p.txt", ".checkpoints/s/q", ".datamon", ".conflicts", ".checkpoints/"}

func c04Tree(r *gen.Rand, n int, L int) []world.File {
	names := map[string]bool{}
	var files []world.File
	shared := r.Bytes(L + 3)
	for len(files) < n {
		name := c04Dirs[r.Intn(len(c04Dirs))] + []string{"f", "file name", "ü", ".dot", "f.yaml", "bundle.yaml", "z"}[r.Intn(7)] + fmt.Sprint(r.Intn(4 * n))
		if names[name] {
			continue
		}
		names[name] = true
		var data []byte
		switch r.Intn(8) {
		case 0:
			data = nil
		case 1:
			data = r.Bytes(1)
		case 2:
			data = r.Bytes(L)
		case 3:
			data = r.Bytes(L + 1)
		case 4:
			data = r.Bytes(2 * L)
		case 5:
			data = shared // duplicated content across files
		case 6:
			data = r.Bytes(3*L - 1)
		default:
			data = r.Bytes(r.Intn(3*L + 1))
		}
		files = append(files, world.File{Name: name, Data: data})
	}
	// ordinary files whose names only resemble the reserved ones (uploaded like any other)
	for _, nm := range []string{".datamon.yaml", ".datamon-backup/x", ".conflicts.txt", ".checkpoints-2020/y", ".datamonrc", ".checkpoints_old", "..conflicts", ".conflicts~"} {
		if r.Chance(1, 4) && !names[nm] {
			names[nm] = true
			files = append(files, world.File{Name: nm, Data: r.Bytes(r.Intn(L + 2))})
		}
	}
	// generated-path decoys (never uploaded)
	for _, d := range c04Decoys {
		if r.Chance(1, 2) {
			nm := strings.TrimSuffix(d, "/")
			ok := true
			for o := range names { // a decoy directory and a decoy file of the same name cannot coexist
				if strings.HasPrefix(o, nm+"/") || strings.HasPrefix(nm, o+"/") || o == nm {
					ok = false
				}
			}
			if ok {
				names[nm] = true
				files = append(files, world.File{Name: nm, Data: r.Bytes(r.Intn(5))})
			}
		}
	}
	sort.Slice(files, func(i, j int) bool { return files[i].Name < files[j].Name })
	return files
}

func c04Sels(r *gen.Rand, files []world.File) []c04Sel {
	sels := []c04Sel{{Kind: "all"}}
	pick := func() string {
		if len(files) == 0 {
			return "nothing"
		}
		return files[r.Intn(len(files))].Name
	}
	sels = append(sels, c04Sel{Kind: "one", Arg: pick()}, c04Sel{Kind: "one", Arg: "no/such/file"})
	sels = append(sels, c04Sel{Kind: "prefix", Arg: c04Dirs[r.Intn(len(c04Dirs))]})
	for _, f := range files { // names with a leading dot, selected by that dot
		if strings.HasPrefix(f.Name, ".") {
			sels = append(sels, c04Sel{Kind: "prefix", Arg: "."}, c04Sel{Kind: "not", A: &c04Sel{Kind: "prefix", Arg: "."}})
			break
		}
	}
	sels = append(sels, c04Sel{Kind: "not", A: &c04Sel{Kind: "or", A: &c04Sel{Kind: "suffix", Arg: fmt.Sprint(r.Intn(10))}, B: &c04Sel{Kind: "prefix", Arg: "a/"}}})
	return sels
}

func init() {
	props["C04"] = func(c *Ctx) {
		c.Header = "From Coq Require Import List String NArith.\nFrom DM Require Import Gen.Consts Model.Meta Model.Bundle Model.BundleCheck.\nImport ListNotations.\nOpen Scope list_scope."
		c.CaseTy = "bcase"
		c.Report = "report"
		c.PerFile = 6
		c.Rule = "trees of 0..2500 files (crossing the 1000 and 2000 entries-per-index-file boundaries), nested directories, names with spaces / unicode (composed and decomposed forms of the same text side by side) / dots, sizes 0..3 leaves incl. exact multiples, duplicated content, generated-path decoys at several depths; explicit key lists with repeated and missing keys, with and without skip-missing; leaf sizes 64 B..5 MiB (large leaves with tiny files); upload/download concurrency 1..20; downloads filtered by predicates of a small combinator language and single-file downloads; file bytes compared through their independently computed (hashlib) keys; non-trivial = successful upload of at least two entries, distinct by entry list"
		py := newPyRef()
		defer py.in.Close()
		emit := func(cs *c04Case) {
			key := ""
			if cs.UpOk && len(cs.Entries) >= 2 {
				j, _ := json.Marshal(cs.Entries)
				key = string(j)
				if len(key) > 400 {
					key = key[:400] + fmt.Sprint(len(cs.Entries))
				}
			}
			class := fmt.Sprintf("files=%s keys=%v skip=%v up=%v", bucket(len(cs.Files)), cs.HasKeys, cs.Skip, cs.UpOk)
			c.Emit(cs, c04Coq(cs), key, class, "bundle")
		}
		if len(c.Replay) > 0 {
			for _, raw := range c.Replay {
				var cs c04Case
				if err := json.Unmarshal(raw, &cs); err != nil {
					panic(err)
				}
				cs.Entries, cs.IndexSizes, cs.Downloads, cs.UpErr = nil, nil, nil, ""
				c.Pending(&cs)
				c04Run(&cs, py)
				emit(&cs)
			}
			return
		}
		r := c.Rng.Fork()
		sizes := []int{0, 1, 2, 5, 17, 40, 3, 8, 12, 25, 999, 1000, 1001, 2500}
		if !c.Quick() {
			for i := 0; i < 120; i++ {
				sizes = append(sizes, r.Intn(60))
			}
			sizes = append(sizes, 1999, 2000, 2001, 1500)
		}
		leafs := []uint32{64, 64, 100, 128, 4096, 2 << 20, 5 << 20}
		for i, n := range sizes {
			L := leafs[r.Intn(len(leafs))]
			dataL := int(L)
			if dataL > 200 {
				dataL = 40 // large leaves with tiny files
			}
			if n > 100 {
				dataL = 4
			}
			cs := &c04Case{Files: c04Tree(r, n, dataL), Leaf: L, Concurrency: []int{1, 2, 4, 20}[r.Intn(4)]}
			cs.Sels = c04Sels(r, cs.Files)
			if n > 100 {
				cs.Sels = cs.Sels[:3]
			}
			if n > 100 {
				c.closeShard() // big trees get a case file of their own
			}
			c.Pending(cs)
			c04Run(cs, py)
			emit(cs)
			if n > 100 {
				c.closeShard()
			}
			if n > 0 && n < 100 {
				// explicit key list over the same tree: a subset, repeats, missing names
				ks := &c04Case{Files: cs.Files, Leaf: L, Concurrency: cs.Concurrency, HasKeys: true, Skip: i%2 == 0}
				for _, f := range cs.Files {
					if r.Chance(2, 3) {
						ks.Keys = append(ks.Keys, f.Name)
					}
					if r.Chance(1, 6) {
						ks.Keys = append(ks.Keys, f.Name) // listed twice
					}
				}
				if r.Chance(1, 2) {
					ks.Keys = append(ks.Keys, "missing/file")
				}
				if r.Chance(1, 3) {
					ks.Keys = append(ks.Keys, ".datamon/not-there.yaml")
				}
				ks.Sels = c04Sels(r, cs.Files)[:2]
				c.Pending(ks)
				c04Run(ks, py)
				emit(ks)
			}
		}
	}
}

func bucket(n int) string {
	switch {
	case n == 0:
		return "0"
	case n < 10:
		return "1-9"
	case n < 100:
		return "10-99"
	case n <= 1000:
		return "100-1000"
	default:
		return ">1000"
	}
}

var _ = coqfmt.Bool
