package memstore

import (
	"context"
	"fmt"
	"io"
	"sync"
	"time"

	"github.com/oneconcern/datamon/pkg/storage"
)

// Sched runs several actors (goroutines using Gated stores) under a scheduler: every store call is
// classified; a call of the class the actor is already in passes; a call of a new class waits until
// the scheduler lets that actor proceed (or crashes it). One actor proceeds at a time, and the others
// sit at their gates, so the classes of different actors never overlap.
type Sched struct {
	mu       sync.Mutex
	cond     *sync.Cond
	classify func(actor int, op, key string) string // "" = not gated
	actors   []*schedActor
	Trace    []SchedEvent
}

// SchedEvent is one scheduling decision: the actor entering a class, with the outcome of the first
// call of the class (filled in when that call returns), or a crash.
type SchedEvent struct {
	Actor int    `json:"actor"`
	Class string `json:"class"` // "crash" for a crash
	Key   string `json:"key,omitempty"`
	Ok    bool   `json:"ok"`
	done  bool
}

type schedActor struct {
	class    string
	pending  []*gateReq
	finished bool
	crashed  bool
	running  int // calls in flight
}

type gateReq struct {
	class, key string
	ch         chan bool // true = proceed, false = crashed
}

func NewSched(n int, classify func(actor int, op, key string) string) *Sched {
	s := &Sched{classify: classify}
	s.cond = sync.NewCond(&s.mu)
	for i := 0; i < n; i++ {
		s.actors = append(s.actors, &schedActor{})
	}
	return s
}

// enter is called by a gated store before a call; it returns the trace index to report the outcome to
// (-1 if none) and whether the call may proceed.
func (s *Sched) enter(actor int, op, key string) (int, bool) {
	class := s.classify(actor, op, key)
	s.mu.Lock()
	a := s.actors[actor]
	if a.crashed {
		s.mu.Unlock()
		return -1, false
	}
	if class == "" || class == a.class {
		a.running++
		s.mu.Unlock()
		return -1, true
	}
	req := &gateReq{class: class, key: key, ch: make(chan bool, 1)}
	a.pending = append(a.pending, req)
	s.cond.Broadcast()
	s.mu.Unlock()
	ok := <-req.ch
	if !ok {
		return -1, false
	}
	s.mu.Lock()
	idx := -1
	// the first call of the class reports its outcome
	for i := len(s.Trace) - 1; i >= 0; i-- {
		if s.Trace[i].Actor == actor && s.Trace[i].Class == class {
			if !s.Trace[i].done {
				s.Trace[i].done = true
				idx = i
			}
			break
		}
	}
	a.running++
	s.mu.Unlock()
	return idx, true
}

func (s *Sched) leave(actor, idx int, err error) {
	s.mu.Lock()
	if idx >= 0 {
		s.Trace[idx].Ok = err == nil
	}
	s.actors[actor].running--
	s.cond.Broadcast()
	s.mu.Unlock()
}

// MarkCrashed records that an actor ended the way a crashed one does (called before Finish).
func (s *Sched) MarkCrashed(actor int) {
	s.mu.Lock()
	if !s.actors[actor].crashed {
		s.Trace = append(s.Trace, SchedEvent{Actor: actor, Class: "crash"})
	}
	s.mu.Unlock()
}

// Finish marks an actor as having returned.
func (s *Sched) Finish(actor int) {
	s.mu.Lock()
	s.actors[actor].finished = true
	s.cond.Broadcast()
	s.mu.Unlock()
}

// Run drives the actors to completion. decide picks among the actors waiting at a gate and may crash the one it picks.
func (s *Sched) Run(decide func(waiting []int, classes []string) (pick int, crash bool)) error {
	deadline := time.Now().Add(60 * time.Second)
	for {
		s.mu.Lock()
		// wait until every live actor is finished or waits at a gate with nothing in flight
		for {
			settled := true
			for _, a := range s.actors {
				if a.finished {
					continue
				}
				if a.running > 0 || len(a.pending) == 0 {
					settled = false
				}
			}
			if settled {
				break
			}
			if time.Now().After(deadline) {
				s.mu.Unlock()
				return fmt.Errorf("scheduler: actors did not settle")
			}
			// timed wait: an actor computing between calls does not signal
			s.mu.Unlock()
			time.Sleep(50 * time.Microsecond)
			s.mu.Lock()
		}
		var waiting []int
		var classes []string
		for i, a := range s.actors {
			if !a.finished && len(a.pending) > 0 {
				waiting = append(waiting, i)
				classes = append(classes, a.pending[0].class)
			}
		}
		if len(waiting) == 0 {
			s.mu.Unlock()
			return nil
		}
		pick, crash := decide(waiting, classes)
		a := s.actors[pick]
		req := a.pending[0]
		a.pending = a.pending[1:]
		if crash {
			a.crashed = true
			s.Trace = append(s.Trace, SchedEvent{Actor: pick, Class: "crash"})
			for _, r := range a.pending {
				r.ch <- false
			}
			a.pending = nil
			req.ch <- false
			// the actor unwinds on errors; wait for it to finish
			for !a.finished {
				s.mu.Unlock()
				time.Sleep(50 * time.Microsecond)
				s.mu.Lock()
				if time.Now().After(deadline) {
					s.mu.Unlock()
					return fmt.Errorf("scheduler: crashed actor did not finish")
				}
			}
			s.mu.Unlock()
			continue
		}
		a.class = req.class
		s.Trace = append(s.Trace, SchedEvent{Actor: pick, Class: req.class, Key: req.key})
		a.running++ // held until the released call has entered
		s.mu.Unlock()
		req.ch <- true
		s.mu.Lock()
		a.running--
		s.mu.Unlock()
		// give the released call time to register before looking again
		time.Sleep(20 * time.Microsecond)
	}
}

// Gated is a store whose calls go through a scheduler on behalf of one actor.
type Gated struct {
	storage.Store
	S     *Sched
	Actor int
}

var errGateCrashed = ErrCrashed

func (g *Gated) Get(ctx context.Context, k string) (io.ReadCloser, error) {
	idx, ok := g.S.enter(g.Actor, "get", k)
	if !ok {
		return nil, errGateCrashed
	}
	r, err := g.Store.Get(ctx, k)
	g.S.leave(g.Actor, idx, err)
	return r, err
}
func (g *Gated) Has(ctx context.Context, k string) (bool, error) {
	idx, ok := g.S.enter(g.Actor, "has", k)
	if !ok {
		return false, errGateCrashed
	}
	r, err := g.Store.Has(ctx, k)
	g.S.leave(g.Actor, idx, err)
	return r, err
}
func (g *Gated) Put(ctx context.Context, k string, r io.Reader, noOverwrite bool) error {
	idx, ok := g.S.enter(g.Actor, "put", k)
	if !ok {
		return errGateCrashed
	}
	err := g.Store.Put(ctx, k, r, noOverwrite)
	g.S.leave(g.Actor, idx, err)
	return err
}
func (g *Gated) Delete(ctx context.Context, k string) error {
	idx, ok := g.S.enter(g.Actor, "delete", k)
	if !ok {
		return errGateCrashed
	}
	err := g.Store.Delete(ctx, k)
	g.S.leave(g.Actor, idx, err)
	return err
}
func (g *Gated) KeysPrefix(ctx context.Context, token, prefix, delim string, count int) ([]string, string, error) {
	idx, ok := g.S.enter(g.Actor, "list", prefix)
	if !ok {
		return nil, "", errGateCrashed
	}
	ks, next, err := g.Store.KeysPrefix(ctx, token, prefix, delim, count)
	g.S.leave(g.Actor, idx, err)
	return ks, next, err
}
