// Package memstore: in-memory reference object store with the contract datamon's core is written
// against (GCS-like: delete of a missing key is an error, listings are sorted and paged, the
// continuation token is the first key of the next page).
package memstore

import (
	"bytes"
	"context"
	"io"
	"io/ioutil"
	"sort"
	"strings"
	"sync"
	"time"

	"github.com/oneconcern/datamon/pkg/storage"
	storagestatus "github.com/oneconcern/datamon/pkg/storage/status"
)

type obj struct {
	data    []byte
	updated time.Time
}

type Store struct {
	mu         sync.Mutex
	name       string
	objs       map[string]*obj
	clock      int64
	last       time.Time
	Trace      []string
	readerMode int
	skew       time.Duration // added to the wall clock: lets a harness make time pass
	pageCap    int           // when > 0: no listing page holds more keys than this, whatever the caller asks for
}

// SetPageCap makes every listing page hold at most n keys (object stores cap their pages).
func (s *Store) SetPageCap(n int) { s.mu.Lock(); s.pageCap = n; s.mu.Unlock() }

// Advance moves the store's clock forward.
func (s *Store) Advance(d time.Duration) {
	s.mu.Lock()
	s.skew += d
	s.mu.Unlock()
}

func New(name string) *Store { return &Store{name: name, objs: map[string]*obj{}} }

func (s *Store) tick() time.Time {
	t := time.Now().UTC().Add(s.skew)
	if !t.After(s.last) {
		t = s.last.Add(time.Nanosecond)
	}
	s.last = t
	return t
}
func (s *Store) String() string { return "mem://" + s.name }
func (s *Store) Has(_ context.Context, k string) (bool, error) {
	s.mu.Lock()
	defer s.mu.Unlock()
	_, ok := s.objs[k]
	return ok, nil
}

type rc struct{ *bytes.Reader }

func (rc) Close() error { return nil }

func (s *Store) Get(_ context.Context, k string) (io.ReadCloser, error) {
	s.mu.Lock()
	defer s.mu.Unlock()
	o, ok := s.objs[k]
	if !ok {
		return nil, storagestatus.ErrNotExists
	}
	data := append([]byte(nil), o.data...)
	switch s.readerMode {
	case 1:
		return &modeReader{data: data, max: 1}, nil
	case 2:
		return &modeReader{data: data, eofWithData: true}, nil
	case 3:
		return &modeReader{data: data, fileLike: true}, nil
	}
	return rc{bytes.NewReader(data)}, nil
}

// modeReader delivers at most max bytes per call (0 = no limit) and may report EOF with the last bytes.
type modeReader struct {
	data        []byte
	max         int
	eofWithData bool
	fileLike    bool // like os.File: a read into an empty slice returns (0, nil) even at the end
}

func (m *modeReader) Read(p []byte) (int, error) {
	if m.fileLike && len(p) == 0 {
		return 0, nil
	}
	if len(m.data) == 0 {
		return 0, io.EOF
	}
	if len(p) == 0 {
		return 0, nil
	}
	n := len(p)
	if m.max > 0 && n > m.max {
		n = m.max
	}
	if n > len(m.data) {
		n = len(m.data)
	}
	copy(p, m.data[:n])
	m.data = m.data[n:]
	if len(m.data) == 0 && m.eofWithData {
		return n, io.EOF
	}
	return n, nil
}
func (m *modeReader) Close() error { return nil }

func (s *Store) GetAttr(_ context.Context, k string) (storage.Attributes, error) {
	s.mu.Lock()
	defer s.mu.Unlock()
	o, ok := s.objs[k]
	if !ok {
		return storage.Attributes{}, storagestatus.ErrNotExists
	}
	return storage.Attributes{Created: o.updated, Updated: o.updated, Size: int64(len(o.data))}, nil
}
func (s *Store) GetAt(_ context.Context, k string) (io.ReaderAt, error) {
	s.mu.Lock()
	defer s.mu.Unlock()
	o, ok := s.objs[k]
	if !ok {
		return nil, storagestatus.ErrNotExists
	}
	return bytes.NewReader(append([]byte(nil), o.data...)), nil
}
func (s *Store) Touch(_ context.Context, k string) error {
	s.mu.Lock()
	defer s.mu.Unlock()
	o, ok := s.objs[k]
	if !ok {
		return storagestatus.ErrNotExists
	}
	o.updated = s.tick()
	return nil
}
func (s *Store) Put(_ context.Context, k string, r io.Reader, noOverwrite bool) error {
	b, err := ioutil.ReadAll(r)
	if err != nil {
		return err
	}
	s.mu.Lock()
	defer s.mu.Unlock()
	if _, ok := s.objs[k]; ok && noOverwrite {
		return storagestatus.ErrExists
	}
	s.objs[k] = &obj{data: b, updated: s.tick()}
	return nil
}
func (s *Store) Delete(_ context.Context, k string) error {
	s.mu.Lock()
	defer s.mu.Unlock()
	if _, ok := s.objs[k]; !ok {
		return storagestatus.ErrNotExists
	}
	delete(s.objs, k)
	return nil
}
func (s *Store) Clear(context.Context) error {
	s.mu.Lock()
	defer s.mu.Unlock()
	s.objs = map[string]*obj{}
	return nil
}
func (s *Store) Keys(ctx context.Context) ([]string, error) {
	ks, _, err := s.KeysPrefix(ctx, "", "", "", 1<<30)
	return ks, err
}

// token = first key of the next page (start-key semantics)
func (s *Store) KeysPrefix(_ context.Context, token, prefix, delim string, count int) ([]string, string, error) {
	s.mu.Lock()
	defer s.mu.Unlock()
	all := make([]string, 0, len(s.objs))
	for k := range s.objs {
		if strings.HasPrefix(k, prefix) {
			if delim != "" {
				if i := strings.Index(k[len(prefix):], delim); i >= 0 {
					k = k[:len(prefix)+i+len(delim)]
				}
			}
			all = append(all, k)
		}
	}
	sort.Strings(all)
	ded := all[:0]
	for i, k := range all {
		if i == 0 || k != all[i-1] {
			ded = append(ded, k)
		}
	}
	start := sort.SearchStrings(ded, token)
	ded = ded[start:]
	if s.pageCap > 0 && count > s.pageCap {
		count = s.pageCap
	}
	if len(ded) > count {
		return append([]string(nil), ded[:count]...), ded[count], nil
	}
	return append([]string(nil), ded...), "", nil
}

// Snapshot returns a copy of the store's contents.
func (s *Store) Snapshot() map[string][]byte {
	s.mu.Lock()
	defer s.mu.Unlock()
	m := make(map[string][]byte, len(s.objs))
	for k, o := range s.objs {
		m[k] = append([]byte(nil), o.data...)
	}
	return m
}

// SortedKeys returns every key in byte order.
func (s *Store) SortedKeys() []string {
	s.mu.Lock()
	defer s.mu.Unlock()
	ks := make([]string, 0, len(s.objs))
	for k := range s.objs {
		ks = append(ks, k)
	}
	sort.Strings(ks)
	return ks
}

// Set stores raw bytes under a key (harness use: corruption, seeding).
func (s *Store) Set(k string, data []byte) {
	s.mu.Lock()
	defer s.mu.Unlock()
	s.objs[k] = &obj{data: append([]byte(nil), data...), updated: s.tick()}
}

// Remove deletes a key if present (harness use).
func (s *Store) Remove(k string) {
	s.mu.Lock()
	defer s.mu.Unlock()
	delete(s.objs, k)
}

// Clone returns an independent copy of the store.
func (s *Store) Clone() *Store {
	s.mu.Lock()
	defer s.mu.Unlock()
	n := New(s.name)
	for k, o := range s.objs {
		n.objs[k] = &obj{data: append([]byte(nil), o.data...), updated: o.updated}
	}
	n.last = s.last
	return n
}

// ReaderMode selects how Get streams deliver their bytes: 0 = all available at once with a
// separate EOF (bytes.Reader), 1 = one byte per call, 2 = EOF reported together with the last bytes,
// 3 = bulk like 0 but a read into an empty slice returns (0, nil) even at the end (os.File).
func (s *Store) SetReaderMode(m int) { s.readerMode = m }
