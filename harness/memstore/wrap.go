package memstore

import (
	"context"
	"errors"
	"io"
	"sync"

	"github.com/oneconcern/datamon/pkg/storage"
)

// Crash is a crash schedule shared by the wrappers of one operation: the world stops at the
// At-th mutating store call (1-based, counted over all wrapped stores), with or without the
// effect of that call landing. Every call after the crash fails.
type Crash struct {
	mu       sync.Mutex
	At       int
	Landed   bool
	Lost     bool // the At-th call takes effect and reports a failure, and the world goes on: a lost response, not a crash
	count    int
	crashed  bool
	Trace    []string // store:kind:key of every mutating call that took effect
}

var ErrCrashed = errors.New("verif: process crashed")

// before returns (proceed, crashNow): proceed = perform the call; crashNow = fail after performing.
func (c *Crash) before(store, kind, key string) (bool, bool) {
	c.mu.Lock()
	defer c.mu.Unlock()
	if c.crashed {
		return false, false
	}
	c.count++
	if c.At > 0 && c.count == c.At && c.Lost {
		c.Trace = append(c.Trace, store+":"+kind+":"+key)
		return true, true
	}
	if c.At > 0 && c.count == c.At {
		c.crashed = true
		if c.Landed {
			c.Trace = append(c.Trace, store+":"+kind+":"+key)
			return true, true
		}
		return false, false
	}
	c.Trace = append(c.Trace, store+":"+kind+":"+key)
	return true, false
}

func (c *Crash) Crashed() bool { c.mu.Lock(); defer c.mu.Unlock(); return c.crashed }
func (c *Crash) Count() int    { c.mu.Lock(); defer c.mu.Unlock(); return c.count }

func (c *Crash) dead() bool { c.mu.Lock(); defer c.mu.Unlock(); return c.crashed }

// Crashy wraps a store with a crash schedule.
type Crashy struct {
	storage.Store
	Name string
	C    *Crash
}

func (s *Crashy) Put(ctx context.Context, k string, r io.Reader, noOverwrite bool) error {
	ok, crash := s.C.before(s.Name, "put", k)
	if !ok {
		return ErrCrashed
	}
	err := s.Store.Put(ctx, k, r, noOverwrite)
	if crash {
		return ErrCrashed
	}
	return err
}
func (s *Crashy) Delete(ctx context.Context, k string) error {
	ok, crash := s.C.before(s.Name, "delete", k)
	if !ok {
		return ErrCrashed
	}
	err := s.Store.Delete(ctx, k)
	if crash {
		return ErrCrashed
	}
	return err
}
func (s *Crashy) Touch(ctx context.Context, k string) error {
	ok, crash := s.C.before(s.Name, "touch", k)
	if !ok {
		return ErrCrashed
	}
	err := s.Store.Touch(ctx, k)
	if crash {
		return ErrCrashed
	}
	return err
}
func (s *Crashy) Has(ctx context.Context, k string) (bool, error) {
	if s.C.dead() {
		return false, ErrCrashed
	}
	return s.Store.Has(ctx, k)
}
func (s *Crashy) Get(ctx context.Context, k string) (io.ReadCloser, error) {
	if s.C.dead() {
		return nil, ErrCrashed
	}
	return s.Store.Get(ctx, k)
}
func (s *Crashy) GetAttr(ctx context.Context, k string) (storage.Attributes, error) {
	if s.C.dead() {
		return storage.Attributes{}, ErrCrashed
	}
	return s.Store.GetAttr(ctx, k)
}
func (s *Crashy) GetAt(ctx context.Context, k string) (io.ReaderAt, error) {
	if s.C.dead() {
		return nil, ErrCrashed
	}
	return s.Store.GetAt(ctx, k)
}
func (s *Crashy) Keys(ctx context.Context) ([]string, error) {
	if s.C.dead() {
		return nil, ErrCrashed
	}
	return s.Store.Keys(ctx)
}
func (s *Crashy) KeysPrefix(ctx context.Context, token, prefix, delim string, count int) ([]string, string, error) {
	if s.C.dead() {
		return nil, "", ErrCrashed
	}
	return s.Store.KeysPrefix(ctx, token, prefix, delim, count)
}
