package memstore

import (
	"bytes"
	"context"
	"crypto/sha256"
	"encoding/hex"
	"io"
	"io/ioutil"
	"strings"
	"sync"
	"sync/atomic"
	"time"

	"github.com/oneconcern/datamon/pkg/storage"
)

// PutRecord is one write seen by a Recorder.
type PutRecord struct {
	Op     int    `json:"op"`
	Store  string `json:"store"`
	Key    string `json:"key"`
	Digest string `json:"digest"` // of the bytes written
	Excl   bool   `json:"excl"`
	Ok     bool   `json:"ok"`
}

// PutLog is the ordered log of the writes of all recorders sharing it.
type PutLog struct {
	mu   sync.Mutex
	Puts []PutRecord
}

// Recorder logs the writes one operation makes to one store. The log entry and the write are made
// under one lock, so the order of the log is the order in which the writes took effect.
type Recorder struct {
	storage.Store
	Log   *PutLog
	Op    int
	Name  string
	Delay *int32 // when set: the number of writes still to be slowed down (a slow link), shared by the stores of one operation
	// Jitter delays every attribute read, existence test and touch (outside any lock), so that calls of
	// concurrent goroutines overlap instead of being served strictly one after the other
	Jitter time.Duration
	// writes to keys containing SlowSubstr take SlowFor longer
	SlowSubstr string
	SlowFor    time.Duration
}

func (r *Recorder) Touch(ctx context.Context, k string) error {
	time.Sleep(r.Jitter)
	return r.Store.Touch(ctx, k)
}

func (r *Recorder) GetAttr(ctx context.Context, k string) (storage.Attributes, error) {
	time.Sleep(r.Jitter)
	return r.Store.GetAttr(ctx, k)
}

func (r *Recorder) Has(ctx context.Context, k string) (bool, error) {
	time.Sleep(r.Jitter)
	return r.Store.Has(ctx, k)
}

func (r *Recorder) Put(ctx context.Context, k string, rd io.Reader, noOverwrite bool) error {
	b, err := ioutil.ReadAll(rd)
	if err != nil {
		return err
	}
	sum := sha256.Sum256(b)
	if r.Delay != nil && atomic.AddInt32(r.Delay, -1) >= 0 {
		time.Sleep(1200 * time.Millisecond)
	}
	if r.SlowFor > 0 && strings.Contains(k, r.SlowSubstr) {
		time.Sleep(r.SlowFor)
	}
	r.Log.mu.Lock()
	err = r.Store.Put(ctx, k, bytes.NewReader(b), noOverwrite)
	r.Log.Puts = append(r.Log.Puts, PutRecord{Op: r.Op, Store: r.Name, Key: k, Digest: hex.EncodeToString(sum[:8]), Excl: noOverwrite, Ok: err == nil})
	r.Log.mu.Unlock()
	return err
}

// Snapshot returns the log so far.
func (l *PutLog) Snapshot() []PutRecord {
	l.mu.Lock()
	defer l.mu.Unlock()
	return append([]PutRecord{}, l.Puts...)
}
