package memstore

import (
	"context"
	"errors"
	"io"
	"strings"
	"sync"

	"github.com/cenkalti/backoff/v4"
	"github.com/oneconcern/datamon/pkg/storage"
)

// FaultRule makes matching calls fail: the Skip first matches pass, the next Times matches fail
// (Times < 0: every later match fails, with an error that retry loops treat as final).
type FaultRule struct {
	Store  string `json:"store,omitempty"` // name of the wrapped store ("" = any)
	Op     string `json:"op"`     // get | getattr | put | delete | list | has
	Substr string `json:"substr"` // the key (or prefix) must contain this
	Skip   int    `json:"skip"`
	Times  int    `json:"times"`
	Fired  int    `json:"fired"` // failures injected (output)
}

// Faults is a set of rules shared by the wrappers of one command.
type Faults struct {
	mu    sync.Mutex
	Rules []*FaultRule
	Hook  func(store, op, key string) // called before every call, outside the lock
}

var ErrTransient = errors.New("verif: injected transient store failure")

func (f *Faults) check(store, op, key string) error {
	if f == nil {
		return nil
	}
	if f.Hook != nil {
		f.Hook(store, op, key)
	}
	f.mu.Lock()
	defer f.mu.Unlock()
	for _, r := range f.Rules {
		if r.Op != op || !strings.Contains(key, r.Substr) || (r.Store != "" && r.Store != store) {
			continue
		}
		if r.Skip > 0 {
			r.Skip--
			continue
		}
		if r.Times < 0 {
			r.Fired++
			return backoff.Permanent(ErrCrashed)
		}
		if r.Times > 0 {
			r.Times--
			r.Fired++
			return ErrTransient
		}
	}
	return nil
}

// Flaky wraps a store with injected failures.
type Flaky struct {
	storage.Store
	F    *Faults
	Name string
}

func (s *Flaky) Get(ctx context.Context, k string) (io.ReadCloser, error) {
	if err := s.F.check(s.Name, "get", k); err != nil {
		return nil, err
	}
	return s.Store.Get(ctx, k)
}
func (s *Flaky) GetAt(ctx context.Context, k string) (io.ReaderAt, error) {
	if err := s.F.check(s.Name, "get", k); err != nil {
		return nil, err
	}
	return s.Store.GetAt(ctx, k)
}
func (s *Flaky) GetAttr(ctx context.Context, k string) (storage.Attributes, error) {
	if err := s.F.check(s.Name, "getattr", k); err != nil {
		return storage.Attributes{}, err
	}
	return s.Store.GetAttr(ctx, k)
}
func (s *Flaky) Has(ctx context.Context, k string) (bool, error) {
	if err := s.F.check(s.Name, "has", k); err != nil {
		return false, err
	}
	return s.Store.Has(ctx, k)
}
func (s *Flaky) Put(ctx context.Context, k string, r io.Reader, noOverwrite bool) error {
	if err := s.F.check(s.Name, "put", k); err != nil {
		// a failed upload may have consumed part of its source
		_, _ = io.CopyN(io.Discard, r, 1<<16)
		return err
	}
	return s.Store.Put(ctx, k, r, noOverwrite)
}
func (s *Flaky) Delete(ctx context.Context, k string) error {
	if err := s.F.check(s.Name, "delete", k); err != nil {
		return err
	}
	return s.Store.Delete(ctx, k)
}
func (s *Flaky) KeysPrefix(ctx context.Context, token, prefix, delim string, count int) ([]string, string, error) {
	if err := s.F.check(s.Name, "list", prefix+"|"+token); err != nil {
		return nil, "", err
	}
	return s.Store.KeysPrefix(ctx, token, prefix, delim, count)
}
