module verifharness

go 1.15

require (
	github.com/blang/semver v3.5.1+incompatible
	github.com/cenkalti/backoff/v4 v4.2.0
	github.com/jacobsa/fuse v0.0.0-20220531202254-21122235c77a
	github.com/oneconcern/datamon v0.0.0
	github.com/segmentio/ksuid v1.0.4
	github.com/spf13/afero v1.9.3
	go.uber.org/zap v1.24.0
	gopkg.in/yaml.v2 v2.4.0
)

replace github.com/oneconcern/datamon => /repo

replace github.com/spf13/pflag => github.com/fredbi/pflag v1.0.6-0.20201106154427-e6824c13371a
