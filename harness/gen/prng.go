// Package gen: one splitmix64 stream drives every random choice of the harness.
package gen

type Rand struct{ s uint64 }

func New(seed uint64) *Rand { return &Rand{s: seed} }

func (r *Rand) U64() uint64 {
	r.s += 0x9e3779b97f4a7c15
	z := r.s
	z = (z ^ (z >> 30)) * 0xbf58476d1ce4e5b9
	z = (z ^ (z >> 27)) * 0x94d049bb133111eb
	return z ^ (z >> 31)
}

// Intn returns a value in [0,n).
func (r *Rand) Intn(n int) int {
	if n <= 0 {
		return 0
	}
	return int(r.U64() % uint64(n))
}

// Range returns a value in [lo,hi].
func (r *Rand) Range(lo, hi int) int { return lo + r.Intn(hi-lo+1) }

func (r *Rand) Bool() bool { return r.U64()&1 == 1 }

// Chance is true with probability num/den.
func (r *Rand) Chance(num, den int) bool { return r.Intn(den) < num }

func (r *Rand) Bytes(n int) []byte {
	b := make([]byte, n)
	for i := range b {
		b[i] = byte(r.U64())
	}
	return b
}

// Fork derives an independent stream (so sub-generators do not disturb each other).
func (r *Rand) Fork() *Rand { return New(r.U64()) }

func (r *Rand) Perm(n int) []int {
	p := make([]int, n)
	for i := range p {
		p[i] = i
	}
	for i := n - 1; i > 0; i-- {
		j := r.Intn(i + 1)
		p[i], p[j] = p[j], p[i]
	}
	return p
}
