// Package coqfmt prints Go values as Coq terms for the generated case files.
package coqfmt

import (
	"fmt"
	"strings"
)

func Z(v int64) string {
	if v < 0 {
		return fmt.Sprintf("(%d)%%Z", v)
	}
	return fmt.Sprintf("%d%%Z", v)
}

func N(v uint64) string { return fmt.Sprintf("%d%%N", v) }

func Nat(v int) string { return fmt.Sprintf("%d%%nat", v) }

func Bool(b bool) string {
	if b {
		return "true"
	}
	return "false"
}

// Str prints a Go string (a byte sequence) as a Coq string term: a literal when it is
// printable ASCII, otherwise (bs [..]) built from byte codes.
func Str(s string) string {
	printable := true
	for i := 0; i < len(s); i++ {
		if s[i] < 32 || s[i] > 126 {
			printable = false
			break
		}
	}
	if printable {
		return "\"" + strings.ReplaceAll(s, "\"", "\"\"") + "\"%string"
	}
	parts := make([]string, len(s))
	for i := 0; i < len(s); i++ {
		parts[i] = fmt.Sprintf("%d", s[i])
	}
	return "(bs [" + strings.Join(parts, ";") + "]%N)"
}

// Bytes prints a byte slice as a list of N.
func Bytes(b []byte) string {
	parts := make([]string, len(b))
	for i, x := range b {
		parts[i] = fmt.Sprintf("%d", x)
	}
	return "[" + strings.Join(parts, ";") + "]%N"
}

func List(items []string) string { return "[" + strings.Join(items, "; ") + "]" }

func Tuple(items ...string) string { return "(" + strings.Join(items, ", ") + ")" }

func Opt(present bool, v string) string {
	if present {
		return "(Some " + v + ")"
	}
	return "None"
}
