package world

import (
	"fmt"
	"strings"
	"time"

	"github.com/oneconcern/datamon/pkg/model"
	"gopkg.in/yaml.v2"

	"verifharness/memstore"
)

// Direct writers of well-formed metadata objects (used to build large or unusual store states
// quickly; the objects are serialised exactly as datamon serialises them).

func must(b []byte, err error) []byte {
	if err != nil {
		panic(err)
	}
	return b
}

func (w *World) PutRepo(name string) {
	w.Meta.Set(model.GetArchivePathToRepoDescriptor(name), must(yaml.Marshal(model.RepoDescriptor{Name: name, Description: "d",
		Timestamp: time.Unix(1600000000, 0).UTC(), Contributor: model.Contributor{Name: "v", Email: "v@example.com"}})))
}

// PutBundle writes index files then (if committed) the descriptor.
func (w *World) PutBundle(repo, id string, entries []Entry, perFile int, committed bool) {
	n := uint64(0)
	for i := 0; i < len(entries); i += perFile {
		e := i + perFile
		if e > len(entries) {
			e = len(entries)
		}
		var be model.BundleEntries
		for _, x := range entries[i:e] {
			be.BundleEntries = append(be.BundleEntries, model.BundleEntry{Hash: x.Hash, NameWithPath: x.Name, Size: x.Size})
		}
		w.Meta.Set(model.GetArchivePathToBundleFileList(repo, id, n), must(yaml.Marshal(be)))
		n++
	}
	if committed {
		bd := model.NewBundleDescriptor(model.Message("synthetic"))
		bd.ID = id
		bd.BundleEntriesFileCount = n
		w.Meta.Set(model.GetArchivePathToBundle(repo, id), must(yaml.Marshal(bd)))
	}
}

func (w *World) PutLabel(repo, name, bundle string) {
	w.VMeta.Set(model.GetArchivePathToLabel(repo, name), must(yaml.Marshal(model.LabelDescriptor{Name: name, BundleID: bundle,
		Timestamp: time.Unix(1600000000, 0).UTC()})))
}

func (w *World) PutDiamond(repo, id string, start time.Time, done bool, bundle string) {
	d := model.DiamondDescriptor{DiamondID: id, StartTime: start, State: model.DiamondInitialized, Mode: model.EnableConflicts}
	w.VMeta.Set(model.GetArchivePathToInitialDiamond(repo, id), must(yaml.Marshal(d)))
	if done {
		d.State, d.EndTime, d.BundleID = model.DiamondDone, start.Add(time.Minute), bundle
		w.VMeta.Set(model.GetArchivePathToFinalDiamond(repo, id), must(yaml.Marshal(d)))
	}
}

func (w *World) PutSplit(repo, did, sid, gen string, start time.Time, done bool, indexFiles int) {
	s := model.SplitDescriptor{SplitID: sid, StartTime: start, State: model.SplitRunning, GenerationID: gen}
	w.VMeta.Set(model.GetArchivePathToInitialSplit(repo, did, sid), must(yaml.Marshal(s)))
	for i := 0; i < indexFiles; i++ {
		be := model.BundleEntries{BundleEntries: []model.BundleEntry{{Hash: strings.Repeat("ab", 64), NameWithPath: fmt.Sprintf("f%d", i), Size: 1}}}
		w.VMeta.Set(model.GetArchivePathToSplitFileList(repo, did, sid, gen, uint64(i)), must(yaml.Marshal(be)))
	}
	if done {
		s.State, s.EndTime, s.SplitEntriesFileCount = model.SplitDone, start.Add(time.Second), uint64(indexFiles)
		w.VMeta.Set(model.GetArchivePathToFinalSplit(repo, did, sid), must(yaml.Marshal(s)))
	}
}

// CoqStore prints a store as a typed Coq term (Model/Meta.v mstore).
func CoqStore(st *memstore.Store, str func(string) string) string {
	objs := Decode(st)
	items := make([]string, len(objs))
	for i, o := range objs {
		var v string
		switch o.Kind {
		case "repo":
			v = "VRepo " + str(o.ID)
		case "bundle":
			v = fmt.Sprintf("VBundle %s %d%%N", str(o.ID), o.Count)
		case "index":
			es := make([]string, len(o.Entries))
			for j, e := range o.Entries {
				es[j] = fmt.Sprintf("{| e_name := %s; e_hash := %s; e_size := %d%%N |}", str(e.Name), str(e.Hash), e.Size)
			}
			v = "VIndex [" + strings.Join(es, "; ") + "]"
		case "label":
			v = "VLabel " + str(o.ID) + " " + str(o.Bundle)
		case "diamond":
			v = "VDiamond " + str(o.ID) + " " + str(o.State) + " " + str(o.Bundle)
		case "split":
			v = fmt.Sprintf("VSplit %s %s %s %d%%N", str(o.ID), str(o.State), str(o.Gen), o.Count)
		default:
			v = "VOther"
		}
		items[i] = "(" + str(o.Key) + ", " + v + ")"
	}
	return "[" + strings.Join(items, "; ") + "]"
}

// PutSplitLists writes a split with the given file lists (one index file each) under a generation.
func (w *World) PutSplitLists(repo, did, sid, gen string, start time.Time, done bool, lists [][]model.BundleEntry) {
	s := model.SplitDescriptor{SplitID: sid, StartTime: start, State: model.SplitRunning, GenerationID: gen}
	w.VMeta.Set(model.GetArchivePathToInitialSplit(repo, did, sid), must(yaml.Marshal(s)))
	for i, l := range lists {
		w.VMeta.Set(model.GetArchivePathToSplitFileList(repo, did, sid, gen, uint64(i)), must(yaml.Marshal(model.BundleEntries{BundleEntries: l})))
	}
	if done {
		s.State, s.EndTime, s.SplitEntriesFileCount = model.SplitDone, start.Add(time.Second), uint64(len(lists))
		w.VMeta.Set(model.GetArchivePathToFinalSplit(repo, did, sid), must(yaml.Marshal(s)))
	}
}
