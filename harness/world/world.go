// Package world sets up a complete datamon context on in-memory reference stores and offers the
// helpers shared by the harness drivers of the core properties (C04 .. C15).
package world

import (
	"bytes"
	"context"
	"fmt"
	"io/ioutil"
	"os"
	"sort"
	"strings"
	"time"

	context2 "github.com/oneconcern/datamon/pkg/context"
	"github.com/oneconcern/datamon/pkg/core"
	"github.com/oneconcern/datamon/pkg/model"
	"github.com/oneconcern/datamon/pkg/storage"
	"github.com/oneconcern/datamon/pkg/storage/localfs"
	"github.com/spf13/afero"
	"go.uber.org/zap"
	"gopkg.in/yaml.v2"

	"verifharness/memstore"
)

// World is one datamon context: five stores.
type World struct {
	Meta, VMeta, Blob, Wal, ReadLog *memstore.Store
	// optional wrappers put in front of the stores when building Stores()
	WrapMeta, WrapVMeta, WrapBlob func(storage.Store) storage.Store
}

func New() *World {
	return &World{Meta: memstore.New("meta"), VMeta: memstore.New("vmeta"), Blob: memstore.New("blob"),
		Wal: memstore.New("wal"), ReadLog: memstore.New("readlog")}
}

func (w *World) Clone() *World {
	return &World{Meta: w.Meta.Clone(), VMeta: w.VMeta.Clone(), Blob: w.Blob.Clone(), Wal: w.Wal.Clone(), ReadLog: w.ReadLog.Clone(),
		WrapMeta: w.WrapMeta, WrapVMeta: w.WrapVMeta, WrapBlob: w.WrapBlob}
}

func wrap(f func(storage.Store) storage.Store, s storage.Store) storage.Store {
	if f == nil {
		return s
	}
	return f(s)
}

func (w *World) Stores() context2.Stores {
	return context2.NewStores(w.Wal, w.ReadLog, wrap(w.WrapBlob, w.Blob), wrap(w.WrapMeta, w.Meta), wrap(w.WrapVMeta, w.VMeta))
}

var Nop = zap.NewNop()

func (w *World) CreateRepo(name string) error {
	return core.CreateRepo(model.RepoDescriptor{Name: name, Description: "verif", Timestamp: time.Unix(1600000000, 0).UTC(),
		Contributor: model.Contributor{Name: "v", Email: "v@example.com"}}, w.Stores())
}

// File is one file of a tree.
type File struct {
	Name string `json:"name"`
	Data []byte `json:"data"`
}

// Consumable returns an in-memory consumable store holding the files.
func Consumable(files []File) storage.Store {
	mem := afero.NewMemMapFs()
	_ = mem.MkdirAll("/c", 0o755) // an empty directory is a valid (empty) tree
	st := localfs.New(afero.NewBasePathFs(mem, "/c"), localfs.WithRetry(false), localfs.WithLogger(Nop))
	for _, f := range files {
		if err := st.Put(context.Background(), f.Name, bytes.NewReader(f.Data), storage.NoOverWrite); err != nil {
			panic(fmt.Sprintf("consumable put %q: %v", f.Name, err))
		}
	}
	return st
}

// ReadAll returns the regular files of a consumable store, sorted by name.
func ReadAll(st storage.Store) ([]File, error) {
	keys, err := st.Keys(context.Background())
	if err != nil {
		return nil, err
	}
	sort.Strings(keys)
	var out []File
	for _, k := range keys {
		rd, err := st.Get(context.Background(), k)
		if err != nil {
			return nil, err
		}
		b, err := ioutil.ReadAll(rd)
		rd.Close()
		if err != nil {
			return nil, err
		}
		out = append(out, File{Name: strings.TrimPrefix(k, "/"), Data: b})
	}
	return out, nil
}

// UploadOpts tunes an upload.
type UploadOpts struct {
	LeafSize    uint32
	Concurrency int
	SkipMissing bool
	Keys        []string // explicit key list (nil = all keys of the consumable store)
	BundleID    string
	Message     string
}

// Upload uploads the consumable store as a new bundle and returns its id.
func (w *World) Upload(repo string, src storage.Store, o UploadOpts) (string, error) {
	bd := model.NewBundleDescriptor(model.Message(o.Message))
	if o.LeafSize != 0 {
		bd.LeafSize = o.LeafSize
	}
	opts := []core.BundleOption{core.Repo(repo), core.ContextStores(w.Stores()), core.ConsumableStore(src), core.Logger(Nop),
		core.BundleDescriptor(bd), core.SkipMissing(o.SkipMissing), core.BundleWithRetry(false)}
	if o.Concurrency > 0 {
		opts = append(opts, core.ConcurrentFileUploads(o.Concurrency))
	}
	if o.BundleID != "" {
		opts = append(opts, core.BundleID(o.BundleID))
	}
	b := core.NewBundle(opts...)
	var err error
	if o.Keys != nil {
		keys := o.Keys
		err = core.UploadSpecificKeys(context.Background(), b, func() ([]string, error) { return keys, nil })
	} else {
		err = core.Upload(context.Background(), b)
	}
	return b.BundleID, err
}

// Entry is a canonical bundle entry.
type Entry struct {
	Name string `json:"name"`
	Hash string `json:"hash"`
	Size uint64 `json:"size"`
}

// Entries returns the entries of a bundle as listed by its metadata (DownloadMetadata), in stored order.
func (w *World) Entries(repo, id string) ([]Entry, error) {
	b := core.NewBundle(core.Repo(repo), core.ContextStores(w.Stores()), core.BundleID(id), core.Logger(Nop))
	if err := core.DownloadMetadata(context.Background(), b); err != nil {
		return nil, err
	}
	out := make([]Entry, len(b.BundleEntries))
	for i, e := range b.BundleEntries {
		out[i] = Entry{e.NameWithPath, e.Hash, e.Size}
	}
	return out, nil
}

// LocalDir returns a consumable store on a fresh directory of the local file system, and a function that removes it.
func LocalDir() (storage.Store, func()) {
	_ = os.MkdirAll("/root/.cache/verif/tmp", 0o755)
	tmp, err := os.MkdirTemp("/root/.cache/verif/tmp", "dir")
	if err != nil {
		panic(err)
	}
	return localfs.New(afero.NewBasePathFs(afero.NewOsFs(), tmp), localfs.WithRetry(false), localfs.WithLogger(Nop)), func() { os.RemoveAll(tmp) }
}

// Download publishes a bundle (optionally filtered) into a fresh directory of the local file system
// (the leaves of a file are written concurrently with WriteAt, which an in-memory afero file does not support).
func (w *World) Download(repo, id string, concurrency int, pred func(string) (bool, error)) ([]File, error) {
	_ = os.MkdirAll("/root/.cache/verif/tmp", 0o755)
	tmp, err := os.MkdirTemp("/root/.cache/verif/tmp", "dl")
	if err != nil {
		return nil, err
	}
	defer os.RemoveAll(tmp)
	dst := localfs.New(afero.NewBasePathFs(afero.NewOsFs(), tmp), localfs.WithRetry(false), localfs.WithLogger(Nop))
	opts := []core.BundleOption{core.Repo(repo), core.ContextStores(w.Stores()), core.BundleID(id), core.ConsumableStore(dst), core.Logger(Nop)}
	if concurrency > 0 {
		opts = append(opts, core.ConcurrentFileDownloads(concurrency))
	}
	b := core.NewBundle(opts...)
	if pred != nil {
		err = core.PublishSelectBundleEntries(context.Background(), b, pred)
	} else {
		err = core.Publish(context.Background(), b)
	}
	if err != nil {
		return nil, err
	}
	return ReadAll(dst)
}

// DownloadOver publishes a bundle into a directory that already holds the given files.
func (w *World) DownloadOver(repo, id string, pre []File) ([]File, error) {
	_ = os.MkdirAll("/root/.cache/verif/tmp", 0o755)
	tmp, err := os.MkdirTemp("/root/.cache/verif/tmp", "dlo")
	if err != nil {
		return nil, err
	}
	defer os.RemoveAll(tmp)
	dst := localfs.New(afero.NewBasePathFs(afero.NewOsFs(), tmp), localfs.WithRetry(false), localfs.WithLogger(Nop))
	for _, f := range pre {
		if err := dst.Put(context.Background(), f.Name, bytes.NewReader(f.Data), storage.OverWrite); err != nil {
			return nil, err
		}
	}
	b := core.NewBundle(core.Repo(repo), core.ContextStores(w.Stores()), core.BundleID(id), core.ConsumableStore(dst), core.Logger(Nop))
	if err := core.Publish(context.Background(), b); err != nil {
		return nil, err
	}
	return ReadAll(dst)
}

// MetaObj is the canonical, decoded form of one metadata object.
type MetaObj struct {
	Key     string  `json:"key"`
	Kind    string  `json:"kind"` // repo | bundle | index | label | diamond | split | other
	ID      string  `json:"id,omitempty"`
	Count   uint64  `json:"count,omitempty"`
	Entries []Entry `json:"entries,omitempty"`
	Bundle  string  `json:"bundle,omitempty"` // label / diamond: bundle id
	State   string  `json:"state,omitempty"`
	Gen     string  `json:"gen,omitempty"`
	Raw     int     `json:"raw,omitempty"` // byte length for other
}

// Decode turns a store snapshot into canonical objects sorted by key.
func Decode(st *memstore.Store) []MetaObj {
	snap := st.Snapshot()
	keys := make([]string, 0, len(snap))
	for k := range snap {
		keys = append(keys, k)
	}
	sort.Strings(keys)
	out := make([]MetaObj, 0, len(keys))
	for _, k := range keys {
		out = append(out, DecodeOne(k, snap[k]))
	}
	return out
}

func DecodeOne(k string, data []byte) MetaObj {
	o := MetaObj{Key: k, Kind: "other", Raw: len(data)}
	apc, err := model.GetArchivePathComponents(k)
	if err != nil {
		return o
	}
	switch {
	case strings.HasPrefix(k, "repos/"):
		var d model.RepoDescriptor
		if yaml.Unmarshal(data, &d) == nil {
			o.Kind, o.ID = "repo", d.Name
		}
	case strings.HasPrefix(k, "labels/"):
		var d model.LabelDescriptor
		if yaml.Unmarshal(data, &d) == nil {
			o.Kind, o.ID, o.Bundle = "label", d.Name, d.BundleID
		}
	case strings.HasPrefix(k, "bundles/") && apc.ArchiveFileName == "bundle.yaml":
		var d model.BundleDescriptor
		if yaml.Unmarshal(data, &d) == nil {
			o.Kind, o.ID, o.Count = "bundle", d.ID, d.BundleEntriesFileCount
		}
	case strings.HasPrefix(k, "bundles/") || (strings.HasPrefix(k, "diamonds/") && apc.GenerationID != ""):
		var d model.BundleEntries
		if yaml.Unmarshal(data, &d) == nil {
			o.Kind = "index"
			for _, e := range d.BundleEntries {
				o.Entries = append(o.Entries, Entry{e.NameWithPath, e.Hash, e.Size})
			}
		}
	case strings.HasPrefix(k, "diamonds/") && apc.SplitID != "":
		var d model.SplitDescriptor
		if yaml.Unmarshal(data, &d) == nil {
			o.Kind, o.ID, o.State, o.Gen, o.Count = "split", d.SplitID, string(d.State), d.GenerationID, d.SplitEntriesFileCount
		}
	case strings.HasPrefix(k, "diamonds/"):
		var d model.DiamondDescriptor
		if yaml.Unmarshal(data, &d) == nil {
			o.Kind, o.ID, o.State, o.Bundle = "diamond", d.DiamondID, string(d.State), d.BundleID
		}
	}
	return o
}

// DownloadFile publishes one file of a bundle into a fresh in-memory directory.
func (w *World) DownloadFile(repo, id, file string) ([]File, error) {
	dst := Consumable(nil)
	b := core.NewBundle(core.Repo(repo), core.ContextStores(w.Stores()), core.BundleID(id), core.ConsumableStore(dst), core.Logger(Nop))
	if err := core.PublishFile(context.Background(), b, file); err != nil {
		return nil, err
	}
	return ReadAll(dst)
}
