"""Per-property configuration of the check driver."""

COMMON_TRUSTED = [
    "Coq 8.16.1 kernel (coqc); vm_compute is used to evaluate case files and witnesses; native_compute is not used",
    "no axioms declared; every property theorem is followed by Print Assumptions and its output is parsed on every run",
    "hand-written Gallina models (coq/Model) tied to /repo by the correspondence check: vharness (Go, -tags verif) runs the real code, the model is evaluated on the same cases inside Coq",
    "Go harness, reference in-memory object store (memstore) and its wrappers, case printers (coqfmt), the check driver",
    "translator go2v for constants and path builders (coq/Gen), regenerated from /repo on every run",
]

PROPS = {
    "C22": dict(
        model="Model/Tracker.v",
        oracle="TrackerCheck.probe_ok",
        theorems_named="C22_refines_bitmap / C22_oracle_sound / C22_oracle_accepts_model",
        assumptions=[
            "offsets are non-negative and lengths non-negative (file I/O); negative offsets are outside the statement",
            "the immutable radix tree is an ordered map from big-endian offsets to flags; Walk visits keys in increasing order over the pre-transaction tree",
        ],
        trusted=["pkg/filetracker/export_verif.go accessor (build tag verif)"],
        level_text="C22_refines_bitmap is proved in Coq for every history of writes, every probe offset and length (induction over the history with the alternating-marker invariant); the tracker model is the radix-tree walk as coded and is compared with the real trackWrite/getRangeToRead on exhaustive small histories and random longer ones on every run; the bitmap oracle is additionally evaluated on the implementation's own answers",
        level_note="assumes non-negative offsets/lengths and the ordered-map reading of the immutable radix tree; trusted: Coq kernel, harness, accessor file pkg/filetracker/export_verif.go",
        explanation="theorem over all write histories; correspondence = exhaustive small histories and random longer ones probed at every offset",
    ),
    "C21": dict(
        model="Model/Param.v",
        oracle="ParamCheck.case_spec_ok (reference decoder dec_string on the implementation's strings)",
        theorems_named="C21_fuse_roundtrip / C21_pg_roundtrip / C21_enc_dec / C21_never_refuses",
        assumptions=[
            "strings are sequences of Unicode code points (valid UTF-8); rune arithmetic past U+D7FF (surrogates) is not modelled",
            "the reference decoder is the documented format as implemented by hack/fuse-demo/wrap_datamon.sh (first two characters = separators, empty items dropped, bare name = true, '.' refused)",
            "bundle / database names are distinct (a Go map keyed by name holds the result)",
        ],
        trusted=[],
        level_text="C21_fuse_roundtrip and C21_pg_roundtrip are proved for every parameter set over arbitrary code points: whenever the encoder model succeeds every generated variable decodes to exactly the flags and non-empty parameters given; C21_never_refuses shows the separator test cannot fire after separator selection; the encoder model is compared with FUSEParamsToEnvVars / PGParamsToEnvVars on directed (every boundary code point) and random parameter sets each run and the reference decoder is run on the implementation's own strings",
        level_note="assumes valid UTF-8 values and distinct bundle/database names; the shell decoder itself is modelled (dec_string), not executed; trusted: Coq kernel, harness",
        explanation="round-trip theorem over all parameter sets; correspondence on directed boundary and random sets",
    ),
    "C20": dict(
        model="Gen/Paths.v (translated builders) + Model/PathsParse.v",
        oracle="PathsCheck.case_spec_ok (expected components / reserved-location spec / decimal round trip)",
        theorems_named="C20_parse_build / C20_disjoint / C20_consumable_* / C20_generated / C20_valid_names_noslash",
        assumptions=[
            "component validity: names without '/', diamond and generation ids accepted by ksuid.Parse restricted to base-62 strings (the library does not validate the alphabet; other 27-byte strings are not generated)",
            "Go regexps are modelled by the prefix/suffix tests they denote; their agreement with regexp is part of the correspondence, not a theorem",
            "descriptor YAML round trip is validated on randomly populated descriptors, not proved (library behaviour)",
            "Unicode classes of non-ASCII runes come from a small table in the harness; the ASCII part of the alphabets is in the model",
        ],
        trusted=["go2v translation of pkg/model builders (single-return fmt.Sprint / + expressions)"],
        level_text="C20_parse_build is proved for every builder and all valid components (any names without '/', any index in N, KSUID ids): the parser returns exactly the components; C20_disjoint/C20_expected_comps_injective give injectivity across and within kinds; consumable-store paths round-trip for every index below 2^64; generated-path detection equals the reserved-location spec for every string. The builders are regenerated from pkg/model by the translator each run, the parser model is compared with the Go parser on built, mutated and hostile paths, and YAML round trips are validated (not proved)",
        level_note="YAML and Unicode tables are outside the model (validated only); regexps modelled by the string tests they denote; trusted: Coq kernel, go2v, harness",
        explanation="parse/build theorems over all components; correspondence on generated and hostile paths",
    ),
}
