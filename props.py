"""Per-property configuration of the check driver."""

COMMON_TRUSTED = [
    "Coq 8.16.1 kernel (coqc); vm_compute is used to evaluate case files and witnesses; native_compute is not used",
    "no axioms declared; every property theorem is followed by Print Assumptions and its output is parsed on every run",
    "hand-written Gallina models (coq/Model) tied to /repo by the correspondence check: vharness (Go, -tags verif) runs the real code, the model is evaluated on the same cases inside Coq",
    "Go harness, reference in-memory object store (memstore) and its wrappers, case printers (coqfmt), the check driver",
    "translator go2v for constants and path builders (coq/Gen), regenerated from /repo on every run",
]

PROPS = {
    "C22": dict(
        model="Model/Tracker.v",
        oracle="TrackerCheck.probe_ok",
        theorems_named="C22_refines_bitmap / C22_oracle_sound / C22_oracle_accepts_model",
        assumptions=[
            "offsets are non-negative and lengths non-negative (file I/O); negative offsets are outside the statement",
            "the immutable radix tree is an ordered map from big-endian offsets to flags; Walk visits keys in increasing order over the pre-transaction tree",
        ],
        trusted=["pkg/filetracker/export_verif.go accessor (build tag verif)"],
        level_text="C22_refines_bitmap is proved in Coq for every history of writes, every probe offset and length (induction over the history with the alternating-marker invariant); the tracker model is the radix-tree walk as coded and is compared with the real trackWrite/getRangeToRead on exhaustive small histories and random longer ones on every run; the bitmap oracle is additionally evaluated on the implementation's own answers",
        level_note="assumes non-negative offsets/lengths and the ordered-map reading of the immutable radix tree; trusted: Coq kernel, harness, accessor file pkg/filetracker/export_verif.go",
        explanation="theorem over all write histories; correspondence = exhaustive small histories and random longer ones probed at every offset",
    ),
    "C21": dict(
        model="Model/Param.v",
        oracle="ParamCheck.case_spec_ok (reference decoder dec_string on the implementation's strings)",
        theorems_named="C21_fuse_roundtrip / C21_pg_roundtrip / C21_enc_dec / C21_never_refuses",
        assumptions=[
            "strings are sequences of Unicode code points (valid UTF-8); rune arithmetic past U+D7FF (surrogates) is not modelled",
            "the reference decoder is the documented format as implemented by hack/fuse-demo/wrap_datamon.sh (first two characters = separators, empty items dropped, bare name = true, '.' refused)",
            "bundle / database names are distinct (a Go map keyed by name holds the result)",
        ],
        trusted=[],
        level_text="C21_fuse_roundtrip and C21_pg_roundtrip are proved for every parameter set over arbitrary code points: whenever the encoder model succeeds every generated variable decodes to exactly the flags and non-empty parameters given; C21_never_refuses shows the separator test cannot fire after separator selection; the encoder model is compared with FUSEParamsToEnvVars / PGParamsToEnvVars on directed (every boundary code point) and random parameter sets each run and the reference decoder is run on the implementation's own strings",
        level_note="assumes valid UTF-8 values and distinct bundle/database names; the shell decoder itself is modelled (dec_string), not executed; trusted: Coq kernel, harness",
        explanation="round-trip theorem over all parameter sets; correspondence on directed boundary and random sets",
    ),
    "C20": dict(
        model="Gen/Paths.v (translated builders) + Model/PathsParse.v",
        oracle="PathsCheck.case_spec_ok (expected components / reserved-location spec / decimal round trip)",
        theorems_named="C20_parse_build / C20_disjoint / C20_consumable_* / C20_generated / C20_valid_names_noslash",
        assumptions=[
            "component validity: names without '/', diamond and generation ids accepted by ksuid.Parse restricted to base-62 strings (the library does not validate the alphabet; other 27-byte strings are not generated)",
            "Go regexps are modelled by the prefix/suffix tests they denote; their agreement with regexp is part of the correspondence, not a theorem",
            "descriptor YAML round trip is validated on randomly populated descriptors, not proved (library behaviour)",
            "Unicode classes of non-ASCII runes come from a small table in the harness; the ASCII part of the alphabets is in the model",
        ],
        trusted=["go2v translation of pkg/model builders (single-return fmt.Sprint / + expressions)"],
        level_text="C20_parse_build is proved for every builder and all valid components (any names without '/', any index in N, KSUID ids): the parser returns exactly the components; C20_disjoint/C20_expected_comps_injective give injectivity across and within kinds; consumable-store paths round-trip for every index below 2^64; generated-path detection equals the reserved-location spec for every string. The builders are regenerated from pkg/model by the translator each run, the parser model is compared with the Go parser on built, mutated and hostile paths, and YAML round trips are validated (not proved)",
        level_note="YAML and Unicode tables are outside the model (validated only); regexps modelled by the string tests they denote; trusted: Coq kernel, go2v, harness",
        explanation="parse/build theorems over all components; correspondence on generated and hostile paths",
    ),
    "C01": dict(
        model="Model/Cafs.v (writer, layout, Read / ReadAt / WriteTo)",
        oracle="CafsCheck.c01_ok (every read style returns the content / its window; Written = length)",
        theorems_named="C01_put / C01_chunking_irrelevant / C01_layout / C01_read_*",
        assumptions=[
            "leaf size > 0; the hash H is arbitrary for the writer theorems; C01_roundtrip assumes 64-byte digests, nocoll for the content, and a store holding no conflicting non-empty blob under the object's keys (clean)",
            "one Write call = one chunk as io.Copy hands it over (32 KiB reads, or everything at once for a WriterTo source)",
            "leaf streams follow the io.Reader contract: at least one byte per call when space and data remain, EOF with the last bytes or on a separate call (oracle-quantified)",
            "LRU cache, free list and prefetcher of the reader are not modelled; only their visible results are compared (cold caches, prefetch 0..3)",
            "the evaluated cases use leaf sizes 64..128 so that the Gallina BLAKE2b stays cheap; the theorems have no size bound",
        ],
        trusted=["Gallina BLAKE2b (Model/Blake2b.v) used only to evaluate case files", "python3 hashlib reference (tools/blake_tree.py)"],
        level_text="C01_put is proved for every leaf size, every chunking of the source and every store: the writer terminates, reports the content length and lays the content out in full leaves plus one short last leaf; the read theorems (sequential Read for every buffer-size sequence and every legal stream behaviour, ReadAt for every offset/length, both WriteTo paths) state that the stored object reads back as the content; the model (writer loop, reader state machine, verification convention) is compared with cafs.Fs Put/Get/GetAt on boundary-size contents, chunkings, stream modes, buffer sequences and a ReadAt grid on every run",
        level_note="cache/prefetch/free-list machinery and goroutine scheduling are outside the model; trusted: Coq kernel, harness, memstore",
        explanation="writer and reader theorems over all contents, chunkings, buffers; correspondence on boundary-size objects",
    ),
    "C02": dict(
        model="Model/Cafs.v (put, tree_key) with H = Model/Blake2b.v in the case files",
        oracle="CafsCheck.c02_ok (key = Gallina BLAKE2b tree key = hashlib key; Found iff root present; prior blobs unchanged)",
        theorems_named="C02_key_function / C02_duplicate / C02_others_intact / C02_injective",
        assumptions=[
            "collision freedom appears as the explicit hypothesis nocoll (no input collides with an honest input of the content, jointly in tree parameters and data) where a statement needs it; a cryptographic assumption, not an axiom, and satisfiable by 64-byte hashes (C01_premises_satisfiable) unlike global injectivity",
            "parallel flushes are modelled in index order; the final store as a map does not depend on their completion order because the keys written are pairwise distinct under H_inj",
            "memstore reports no CRC32C, so the CRC branch of existsAndValidBlob is not exercised",
        ],
        trusted=["Gallina BLAKE2b (Model/Blake2b.v)", "python3 hashlib reference (tools/blake_tree.py)"],
        level_text="C02_key_function is proved for every content, chunking and prior store: the key is tree_key(content, L); C02_duplicate / C02_others_intact / C02_injective give duplicate detection, frame and injectivity under collision freedom; on every run histories of repeated / overlapping / prefix Puts into one shared store are executed on the real cafs and the keys are compared three ways (implementation, Gallina BLAKE2b tree model, Python hashlib) together with the store contents before and after",
        level_note="collision freedom is assumed, BLAKE2b itself is executed (vector-checked), not verified; trusted: Coq kernel, harness, hashlib",
        explanation="key-function theorem over all contents and chunkings; three-way key comparison on shared-store histories",
    ),
    "C03": dict(
        model="Model/Cafs.v (leaves_for_hash, verify_leaf, Read / ReadAt / WriteTo) with H = Model/Blake2b.v in the case files",
        oracle="CafsCheck.c03_ok (every probe on a damaged store either fails or returns the right bytes)",
        theorems_named="C03_read_at / C03_read_seq / C03_write_to_at",
        assumptions=[
            "nocoll: no input collides with an honest input of the content (jointly in tree parameters and data), and 64-byte digests: explicit, satisfiable hypotheses of the theorems (cryptographic assumption)",
            "a sequential Read hands bytes of a leaf to the caller before that leaf is verified; the statement is about reads that reach EOF without error (io.Copy semantics)",
            "readers are created on cold key and leaf caches (a warm cache serves verified content)",
            "bundle download = WriteTo through a WriterAt per file; the bundle-level path is exercised by the C04 harness",
        ],
        trusted=["Gallina BLAKE2b (Model/Blake2b.v) used to evaluate case files"],
        level_text="C03_read_at, C03_read_seq and C03_write_to_at are proved for an arbitrary blob store (any damage whatsoever) under collision freedom: whenever a read style succeeds the bytes are the content (its window for ReadAt; the destination file for the download path, leaves copied in any order); the verification logic of the model (root blob check, leaf key convention) is compared with the real cafs on every kind of single-blob damage through Read, ReadAt and both WriteTo paths on each run",
        level_note="collision freedom assumed; caches cold; trusted: Coq kernel, harness, memstore",
        explanation="soundness theorems over all stores; correspondence on single-blob damages",
    ),
}
