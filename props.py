"""Per-property configuration of the check driver."""

COMMON_TRUSTED = [
    "Coq 8.16.1 kernel (coqc); vm_compute is used to evaluate case files and witnesses; native_compute is not used",
    "no axioms declared; every property theorem is followed by Print Assumptions and its output is parsed on every run",
    "hand-written Gallina models (coq/Model) tied to /repo by the correspondence check: vharness (Go, -tags verif) runs the real code, the model is evaluated on the same cases inside Coq",
    "Go harness, reference in-memory object store (memstore) and its wrappers, case printers (coqfmt), the check driver",
    "translator go2v for constants and path builders (coq/Gen), regenerated from /repo on every run",
]

PROPS = {
    "C22": dict(
        model="Model/Tracker.v",
        oracle="TrackerCheck.probe_ok",
        theorems_named="C22_refines_bitmap / C22_oracle_sound / C22_oracle_accepts_model",
        assumptions=[
            "offsets are non-negative and lengths non-negative (file I/O); negative offsets are outside the statement",
            "the immutable radix tree is an ordered map from big-endian offsets to flags; Walk visits keys in increasing order over the pre-transaction tree",
        ],
        trusted=["pkg/filetracker/export_verif.go accessor (build tag verif)"],
        level_text="C22_refines_bitmap is proved in Coq for every history of writes, every probe offset and length (induction over the history with the alternating-marker invariant); the tracker model is the radix-tree walk as coded and is compared with the real trackWrite/getRangeToRead on exhaustive small histories and random longer ones on every run; the bitmap oracle is additionally evaluated on the implementation's own answers",
        level_note="assumes non-negative offsets/lengths and the ordered-map reading of the immutable radix tree; trusted: Coq kernel, harness, accessor file pkg/filetracker/export_verif.go",
        explanation="theorem over all write histories; correspondence = exhaustive small histories and random longer ones probed at every offset",
    ),
}
