#!/usr/bin/env python3
"""Independent reference for datamon's object keys: BLAKE2b unlimited-fanout tree mode over
leaf-size chunks with the format's node-offset convention (full leaves: offset i+1, no last-node
flag; trailing partial leaf: offset i with the flag; root: depth 1, offset 0, last node).
Line protocol: "<leafsize> <hex content>" -> "<hex key>"."""
import hashlib
import sys


def tree_key(L, data):
    keys = b""
    n = (len(data) + L - 1) // L
    for i in range(n):
        leaf = data[i * L:(i + 1) * L]
        if len(leaf) == L:
            h = hashlib.blake2b(leaf, digest_size=64, fanout=0, depth=2, leaf_size=L, node_offset=i + 1, node_depth=0, inner_size=64, last_node=False)
        else:
            h = hashlib.blake2b(leaf, digest_size=64, fanout=0, depth=2, leaf_size=L, node_offset=i, node_depth=0, inner_size=64, last_node=True)
        keys += h.digest()
    return hashlib.blake2b(keys, digest_size=64, fanout=0, depth=2, leaf_size=L, node_offset=0, node_depth=1, inner_size=64, last_node=True).hexdigest()


for line in sys.stdin:
    parts = line.split()
    if not parts:
        continue
    L = int(parts[0])
    data = bytes.fromhex(parts[1]) if len(parts) > 1 else b""
    print(tree_key(L, data), flush=True)
