#!/bin/bash
# build_corpus_parallel.sh K: K builders side by side, each on its own snapshot of /verif (HEAD) and of /repo (HEAD)
# and its own cache directory under /root/.cache/corpusw; the corpus files are merged into /verif/corpus at the end.
K=${1:-4}; W=/root/.cache/corpusw
git -C /verif worktree prune; git -C /repo worktree prune; rm -rf $W; mkdir -p $W
for i in $(seq 0 $((K-1))); do
  git -C /verif worktree add -q --detach $W/v$i HEAD
  git -C /repo worktree add -q --detach $W/r$i HEAD
  (cd $W/v$i/harness && GOFLAGS=-mod=mod go mod edit -replace github.com/oneconcern/datamon=$W/r$i)
  (cd $W/v$i && XDG_CACHE_HOME=$W/c$i CORPUS_V=$W/v$i CORPUS_R=$W/r$i CORPUS_PART=$i/$K python3 tools/build_corpus.py > $W/log$i 2>&1) &
done
wait
python3 - <<PY
import glob, json, os
merged = {}
for f in sorted(glob.glob("$W/v*/corpus/C*.json")):
    p = os.path.basename(f)[:-5]
    for c in json.load(open(f))["cases"]:
        lst = merged.setdefault(p, [])
        lst[:] = [x for x in lst if x.get("from") != c.get("from")] + [c]
os.makedirs("/verif/corpus", exist_ok=True)
for p, lst in merged.items():
    lst.sort(key=lambda c: c.get("from", ""))
    json.dump({"cases": lst}, open("/verif/corpus/%s.json" % p, "w"))
    print(p, len(lst))
PY
cat $W/log* | grep -v "kept" | sort
for i in $(seq 0 $((K-1))); do git -C /verif worktree remove --force $W/v$i; git -C /repo worktree remove --force $W/r$i; done
git -C /verif worktree prune; git -C /repo worktree prune
