#!/bin/bash
# confirm_seed.sh <worktree> <seed-dir containing patch.diff, demo_test.go, meta.json> <go package dir rel. to repo> <seed id>
# Confirms in the scratch worktree: with the patch the package builds and its existing tests pass, the demo fails;
# without the patch the demo passes. On success copies the seed to /verif/seeded/<id>/.
set -u
WT=$1; SD=$2; PKG=$3; ID=$4
export GOFLAGS=-mod=mod GOPROXY=off GOSUMDB=off GOTOOLCHAIN=local
cd "$WT" || exit 2
git checkout -q -- . ; rm -f "$PKG"/zz_demo_test.go
git apply "$SD/patch.diff" || { echo "patch does not apply"; exit 1; }
go build ./... >/dev/null 2>&1 || { echo "patched tree does not build"; git checkout -q -- .; exit 1; }
go test -count=1 "./$PKG/" >/tmp/seed_$ID.log 2>&1 || { echo "existing tests fail with patch"; tail -5 /tmp/seed_$ID.log; git checkout -q -- .; exit 1; }
cp "$SD/demo_test.go" "$PKG/zz_demo_test.go"
if go test -count=1 "./$PKG/" >/tmp/seed_$ID.log 2>&1; then echo "demo passes WITH patch (should fail)"; rm -f "$PKG"/zz_demo_test.go; git checkout -q -- .; exit 1; fi
git checkout -q -- .
if ! go test -count=1 "./$PKG/" >/tmp/seed_$ID.log 2>&1; then echo "demo fails WITHOUT patch"; tail -5 /tmp/seed_$ID.log; rm -f "$PKG"/zz_demo_test.go; exit 1; fi
rm -f "$PKG"/zz_demo_test.go
mkdir -p /verif/seeded/$ID && cp "$SD/patch.diff" "$SD/demo_test.go" "$SD/meta.json" /verif/seeded/$ID/
echo "confirmed $ID"
