#!/bin/bash
# confirm_seed.sh <worktree> <seed-dir containing patch.diff, demo_test.go, meta.json> <go package dir rel. to repo> <seed id>
# Confirms in the scratch worktree: with the patch the tree builds and the existing tests pass, the demo fails;
# without the patch the demo passes. On success copies the seed to /verif/seeded/<id>/.
# pkg/core: its own test files need the git-ignored, generated pkg/storage/mockstorage (absent offline); a stub is
# put in place for the demo and "existing tests" are the packages of the offline baseline.
set -u
WT=$1; SD=$2; PKG=$3; ID=$4
export GOFLAGS=-mod=mod GOPROXY=off GOSUMDB=off GOTOOLCHAIN=local
cd "$WT" || exit 2
git checkout -q -- . ; rm -f "$PKG"/zz_demo_test.go
EXIST="./$PKG/"; RUN="${SEED_RUN:-}"; TAGS="${SEED_TAGS:-}"
if [ "$PKG" = "pkg/core" ]; then
  EXIST="./pkg/model/ ./pkg/cafs/ ./pkg/storage/localfs/"; RUN="-run Demo"
  if [ ! -f pkg/storage/mockstorage/store.go ]; then mkdir -p pkg/storage/mockstorage && cp /verif/tools/mockstorage_store.go.txt pkg/storage/mockstorage/store.go; fi
fi
git apply "$SD/patch.diff" || { echo "patch does not apply"; exit 1; }
go build ./... >/dev/null 2>&1 || { echo "patched tree does not build"; git checkout -q -- .; exit 1; }
go test -count=1 ${SEED_EXIST:-$EXIST} >/tmp/seed_$ID.log 2>&1 || { echo "existing tests fail with patch"; tail -5 /tmp/seed_$ID.log; git checkout -q -- .; exit 1; }
cp "$SD/demo_test.go" "$PKG/zz_demo_test.go"
if go test $TAGS -count=1 $RUN "./$PKG/" >/tmp/seed_$ID.log 2>&1; then echo "demo passes WITH patch (should fail)"; rm -f "$PKG"/zz_demo_test.go; git checkout -q -- .; exit 1; fi
grep -q "setup failed\|build failed" /tmp/seed_$ID.log && { echo "demo does not build"; tail -5 /tmp/seed_$ID.log; rm -f "$PKG"/zz_demo_test.go; git checkout -q -- .; exit 1; }
git checkout -q -- .
if ! go test $TAGS -count=1 $RUN "./$PKG/" >/tmp/seed_$ID.log 2>&1; then echo "demo fails WITHOUT patch"; tail -5 /tmp/seed_$ID.log; rm -f "$PKG"/zz_demo_test.go; exit 1; fi
rm -f "$PKG"/zz_demo_test.go /tmp/seed_$ID.log
mkdir -p /verif/seeded/$ID && cp "$SD/patch.diff" "$SD/demo_test.go" "$SD/meta.json" /verif/seeded/$ID/
echo "confirmed $ID"
