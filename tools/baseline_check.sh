#!/bin/bash
# Runs the repository's test suite (guard off) and compares with the 221 stable tests of BASELINE.json.
cd /repo && export GOFLAGS=-mod=mod GOPROXY=off GOSUMDB=off GOTOOLCHAIN=local
go test -vet=off -count=1 -json -timeout 25m ./... 2>/dev/null > /tmp/gt.json
python3 - <<'PY'
import json
base=set(json.load(open('/root/.vp/BASELINE.json'))['stable_pass'])
res={}
for l in open('/tmp/gt.json'):
    try: e=json.loads(l)
    except Exception: continue
    if e.get('Action') in('pass','fail') and e.get('Test'):
        res[e['Package']+'::'+e['Test']]=e['Action']
missing=[t for t in base if res.get(t)!='pass']
print('baseline',len(base),'passing now',sum(1 for t in base if res.get(t)=='pass'),'missing',missing[:10])
PY
rm -f /tmp/gt.json
