#!/usr/bin/env python3
"""build_corpus.py: for every confirmed seeded change (seeded/<id>) and every reverse of a fix (regress/*.diff), apply it
to /repo, run the check that detects it, keep the smallest failing case in corpus/<property>.json, undo the change.
/repo must be clean and nothing else may use /repo or /verif meanwhile.  Cases already present (same origin) are replaced."""
import glob, json, os, re, subprocess, sys

V = os.environ.get("CORPUS_V", "/verif")   # a snapshot of /verif (git worktree) when several builders run side by side
R = os.environ.get("CORPUS_R", "/repo")    # its own copy of /repo
PART = os.environ.get("CORPUS_PART", "0/1")  # this builder takes the jobs i mod K


def sh(cmd, **kw):
    return subprocess.run(cmd, shell=True, stdout=subprocess.PIPE, stderr=subprocess.STDOUT, text=True, **kw)


def main():
    only = set(sys.argv[1:])
    jobs = []
    for d in sorted(glob.glob(V + "/seeded/*/meta.json")):
        m = json.load(open(d))
        sid = os.path.basename(os.path.dirname(d))
        db = m.get("detected_by")
        chk = (db.get("check") if isinstance(db, dict) else None) or m["property"]
        jobs.append((sid, chk, os.path.join(os.path.dirname(d), "patch.diff")))
    for d in sorted(glob.glob(V + "/regress/*.diff")):
        name = os.path.basename(d)[:-5]
        for chk in re.findall(r"C\d\d", name.split("_")[0]):
            jobs.append(("fix-" + name, chk, d))
    if sh("git -C %s status --porcelain" % R).stdout.strip():
        sys.exit("/repo is not clean")
    corpus = {}
    for f in glob.glob(V + "/corpus/C*.json"):
        corpus[os.path.basename(f)[:-5]] = json.load(open(f))["cases"]
    pi, pk = [int(x) for x in PART.split("/")]
    for n, (sid, chk, patch) in enumerate(jobs):
        if n % pk != pi:
            continue
        if only and sid not in only and chk not in only:
            continue
        r = sh("git -C %s apply %s" % (R, patch))
        if r.returncode != 0:
            print(sid, chk, "patch does not apply", flush=True)
            continue
        try:
            out = sh("cd %s && VERIF_REPO=%s ./check %s --tier quick" % (V, R, chk)).stdout
        finally:
            sh("git -C %s checkout -- . && git -C %s clean -fdq -- pkg cmd" % (R, R))
        m = re.search(r"VIOLATION property=\S+ replay=(\S+)", out)
        if not m:
            print(sid, chk, "NOT DETECTED", flush=True)
            continue
        doc = json.load(open(m.group(1)))
        cases = doc.get("cases") or []
        if not cases:
            print(sid, chk, "detected (%s) without a case" % doc.get("kind"), flush=True)
            continue
        case = min(cases, key=lambda c: len(json.dumps(c)))
        if len(json.dumps(case)) > 400000:
            print(sid, chk, "detected (%s), case too large for the corpus" % doc.get("kind"), flush=True)
            continue
        lst = [c for c in corpus.get(chk, []) if c.get("from") != sid]
        if isinstance(case, dict):
            case = dict(case)
            case["from"] = sid
        lst.append(case)
        corpus[chk] = lst
        os.makedirs(V + "/corpus", exist_ok=True)
        json.dump({"cases": lst}, open(V + "/corpus/%s.json" % chk, "w"))
        print(sid, chk, "detected (%s), case of %d bytes kept" % (doc.get("kind"), len(json.dumps(case))), flush=True)


if __name__ == "__main__":
    main()
