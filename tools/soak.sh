#!/bin/bash
# soak.sh <seeds...>: every quick check with several seeds, in a snapshot (vp run --with-repo), to look for alarms on
# the unchanged tree that depend on the seed or on timing. Uses its own cache directory and its own copy of /repo.
export XDG_CACHE_HOME=${SOAK_CACHE:-/root/.cache/soak}
if [ -n "$VP_RUN_REPO" ]; then
  export VERIF_REPO=$VP_RUN_REPO
  (cd harness && GOFLAGS=-mod=mod go mod edit -replace github.com/oneconcern/datamon=$VP_RUN_REPO)
fi
for s in "$@"; do
  for p in C01 C02 C03 C04 C05 C06 C07 C08 C09 C10 C11 C12 C13 C14 C15 C16 C17 C18 C19 C20 C21 C22; do
    t0=$(date +%s)
    out=$(VERIF_SEED=$s ./check $p --tier ${SOAK_TIER:-quick} 2>&1 | grep "VIOLATION" | head -3)
    echo "seed=$s $p $(( $(date +%s)-t0 ))s $out"
  done
done
