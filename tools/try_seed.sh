#!/bin/bash
# try_seed.sh <property> <patch.diff> [tier]: apply a seeded patch to /repo (stashing local edits), run the check, restore.
P=$1; D=$2; T=${3:-quick}
cd /repo || exit 2
ST=0
if ! git diff --quiet; then git stash -q; ST=1; fi
if git apply "$D"; then (cd /verif && ./check $P --tier $T; echo "rc=$?"); else echo "patch does not apply"; fi
git checkout -q -- .
[ $ST = 1 ] && git stash pop -q
git status --short | head -5
