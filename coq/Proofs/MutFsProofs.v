(* C18: facts about the reference tree the mutable mount is compared with. *)
From Coq Require Import List String Ascii NArith Bool Arith Lia.
From DM Require Import Base.Util Base.Str Model.Mount Model.MutFs Proofs.MountProofs.
Import ListNotations.
Open Scope list_scope.

(* an operation that is refused changes nothing *)
Theorem refused_changes_nothing : forall t o e, snd (step t o) = RErr e -> fst (step t o) = t.
Proof.
  intros t o e H. destruct o; cbn [step] in *;
  repeat match goal with
         | |- context [match ?x with _ => _ end] => destruct x eqn:?; cbn [fst snd] in *; try discriminate; try reflexivity
         | H : context [match ?x with _ => _ end] |- _ => destruct x eqn:?; cbn [fst snd] in *; try discriminate; try reflexivity
         end.
Qed.

(* lookups, reads and listings change nothing *)
Theorem queries_change_nothing : forall t o,
  match o with FLookup _ | FRead _ _ _ | FReaddir _ => True | _ => False end -> fst (step t o) = t.
Proof.
  intros t o H. destruct o; try contradiction; cbn [step];
  repeat match goal with |- context [match ?x with _ => _ end] => destruct x; cbn [fst]; try reflexivity end.
Qed.

Lemma path_eqb_eq : forall a b, path_eqb a b = true <-> a = b.
Proof.
  induction a as [|x a IH]; intros [|y b]; cbn; try (split; [discriminate|discriminate]); [tauto|].
  rewrite andb_true_iff, String.eqb_eq, IH. split; [intros [-> ->]; reflexivity|intros H; inversion H; auto].
Qed.

Lemma path_eqb_refl : forall a, path_eqb a a = true.
Proof. intros. now apply path_eqb_eq. Qed.

Lemma find_remove_other : forall p q t, p <> q ->
  find (fun e : list string * node => path_eqb (fst e) q) (remove p t) = find (fun e => path_eqb (fst e) q) t.
Proof.
  intros p q t H. unfold remove. induction t as [|[a n] t IH]; cbn; [reflexivity|].
  destruct (path_eqb a p) eqn:E; cbn.
  - apply path_eqb_eq in E. subst a. destruct (path_eqb p q) eqn:E2; [apply path_eqb_eq in E2; congruence|exact IH].
  - destruct (path_eqb a q); [reflexivity|exact IH].
Qed.

Lemma find_remove_same : forall p t, find (fun e : list string * node => path_eqb (fst e) p) (remove p t) = None.
Proof.
  intros p t. unfold remove. induction t as [|[a n] t IH]; cbn; [reflexivity|].
  destruct (path_eqb a p) eqn:E; cbn; [exact IH|]. now rewrite E.
Qed.

Lemma find_app : forall {A} (f : A -> bool) a b, find f (a ++ b) = match find f a with Some x => Some x | None => find f b end.
Proof. induction a as [|x a IH]; intros b; cbn; [reflexivity|]. destruct (f x); auto. Qed.

Lemma find_app_none : forall {A} (f : A -> bool) a b, find f a = None -> find f (a ++ b) = find f b.
Proof. intros. rewrite find_app. now rewrite H. Qed.

Lemma get_put_same : forall p n t, p <> [] -> get p (put p n t) = Some n.
Proof.
  intros p n t Hp. unfold get, put. destruct p as [|x p]; [congruence|].
  rewrite find_app_none by apply find_remove_same. cbn. now rewrite String.eqb_refl, path_eqb_refl.
Qed.

Lemma get_put_other : forall p q n t, p <> q -> get q (put p n t) = get q t.
Proof.
  intros p q n t H. unfold get, put. destruct q as [|y q]; [reflexivity|].
  rewrite find_app. rewrite find_remove_other by exact H.
  destruct (find _ t); [reflexivity|]. cbn [find fst]. destruct (path_eqb p (y :: q)) eqn:E; [apply path_eqb_eq in E; congruence|reflexivity].
Qed.

(* a successful create (mkdir) makes exactly that file (directory) appear *)
Theorem create_adds_one : forall t p, snd (step t (FCreate p)) = ROk ->
  get p (fst (step t (FCreate p))) = Some (NFile []) /\ forall q, q <> p -> get q (fst (step t (FCreate p))) = get q t.
Proof.
  intros t p H. cbn [step] in *. destruct (parent_check p t) eqn:Ec; [discriminate|].
  destruct (get p t) eqn:Eg; [discriminate|]. cbn [fst].
  assert (Hp : p <> []) by (intros ->; discriminate).
  split; [now apply get_put_same|]. intros q Hq. apply get_put_other. congruence.
Qed.

Theorem mkdir_adds_one : forall t p, snd (step t (FMkdir p)) = ROk ->
  get p (fst (step t (FMkdir p))) = Some NDir /\ forall q, q <> p -> get q (fst (step t (FMkdir p))) = get q t.
Proof.
  intros t p H. cbn [step] in *. destruct (parent_check p t) eqn:Ec; [discriminate|].
  destruct (get p t) eqn:Eg; [discriminate|]. cbn [fst].
  assert (Hp : p <> []) by (intros ->; discriminate).
  split; [now apply get_put_same|]. intros q Hq. apply get_put_other. congruence.
Qed.

(* a successful unlink removes exactly that file *)
Theorem unlink_removes_one : forall t p, snd (step t (FUnlink p)) = ROk ->
  get p (fst (step t (FUnlink p))) = None /\ forall q, q <> p -> get q (fst (step t (FUnlink p))) = get q t.
Proof.
  intros t p H. cbn [step] in *. destruct p as [|x p]; [discriminate|].
  destruct (get (x :: p) t) as [[|d]|] eqn:Eg; try discriminate. cbn [fst]. split.
  - unfold get. now rewrite find_remove_same.
  - intros q Hq. unfold get. destruct q; [reflexivity|]. rewrite find_remove_other by congruence. reflexivity.
Qed.

(* what is written is what is read back *)
Lemma zeros_length : forall n, List.length (zeros n) = n.
Proof. induction n; cbn; auto. Qed.

Theorem write_then_read : forall old off data,
  read_bytes (write_at old off data) off (List.length data) = data.
Proof.
  intros old off data. unfold read_bytes, write_at.
  set (padded := old ++ zeros (off - List.length old)).
  assert (Hl : off <= List.length padded) by (unfold padded; rewrite app_length, zeros_length; lia).
  rewrite skipn_app. rewrite firstn_length, Nat.min_l by exact Hl. rewrite Nat.sub_diag. cbn [skipn].
  rewrite skipn_all2 by (rewrite firstn_length; lia). cbn [app].
  rewrite firstn_app, Nat.sub_diag. cbn [firstn]. rewrite app_nil_r. apply firstn_all.
Qed.

(* bytes outside the written range are kept *)
Theorem write_keeps_prefix : forall old off data i, i < off -> i < List.length old ->
  nth i (write_at old off data) 0%N = nth i old 0%N.
Proof.
  intros old off data i H1 H2. unfold write_at. rewrite app_nth1.
  - rewrite nth_firstn_lt' by exact H1. now rewrite app_nth1.
  - rewrite firstn_length, app_length, zeros_length. lia.
Qed.
