(* C19: the log keeps what was appended, in token order; a listing returns the entries of its window. *)
From Coq Require Import List NArith Bool Arith String Lia Sorted.
From DM Require Import Base.Util Gen.Consts Model.Wal.
Import ListNotations.
Open Scope N_scope.

Definition tok_lt (a b : N * string) : Prop := fst a < fst b.
Definition sorted (l : list (N * string)) : Prop := StronglySorted tok_lt l.

Lemma append_only_adds : forall l t p e, In e (append_entry t p l) -> e = (t, p) \/ In e l.
Proof.
  induction l as [|[t0 q] l IH]; intros t p e H; cbn [append_entry] in H.
  - destruct H as [<-|[]]. now left.
  - destruct (t <? t0); [destruct H as [<-|H]; auto|]. destruct (t =? t0); [now right|].
    destruct H as [<-|H]; [right; now left|]. destruct (IH _ _ _ H); auto. right. now right.
Qed.

Lemma append_keeps : forall l t p e, In e l -> In e (append_entry t p l).
Proof.
  induction l as [|[t0 q] l IH]; intros t p e H; [destruct H|]. cbn [append_entry].
  destruct (t <? t0); [now right|]. destruct (t =? t0); [exact H|].
  destruct H as [<-|H]; [now left|right; now apply IH].
Qed.

Lemma append_new : forall l t p, (forall q, ~ In (t, q) l) -> In (t, p) (append_entry t p l).
Proof.
  induction l as [|[t0 q] l IH]; intros t p H; cbn [append_entry]; [now left|].
  destruct (t <? t0); [now left|]. destruct (t =? t0) eqn:E.
  - apply N.eqb_eq in E. subst. exfalso. apply (H q). now left.
  - right. apply IH. intros q' Hq. apply (H q'). now right.
Qed.

Lemma append_sorted : forall l t p, sorted l -> sorted (append_entry t p l).
Proof.
  induction l as [|[t0 q] l IH]; intros t p H; cbn [append_entry]; [repeat constructor|].
  apply StronglySorted_inv in H. destruct H as [Hs Hall].
  destruct (t <? t0) eqn:E1.
  - apply N.ltb_lt in E1. constructor; [constructor; auto|]. constructor; [exact E1|].
    eapply Forall_impl; [|exact Hall]. intros a Ha. unfold tok_lt in *. cbn [fst] in *. lia.
  - destruct (t =? t0) eqn:E2; [constructor; auto|]. apply N.ltb_ge in E1. apply N.eqb_neq in E2.
    constructor; [now apply IH|]. apply Forall_forall. intros e He. apply append_only_adds in He.
    destruct He as [->|He]; [unfold tok_lt; cbn; lia|]. rewrite Forall_forall in Hall. now apply Hall.
Qed.

(* ---- any history of appends ---- *)
Lemma fold_append_sorted : forall es l, sorted l -> sorted (fold_left (fun l e => append_entry (fst e) (snd e) l) es l).
Proof. induction es as [|e es IH]; intros l H; cbn [fold_left]; [exact H|]. apply IH. now apply append_sorted. Qed.

Theorem log_sorted : forall es, sorted (add_all es).
Proof. intros. unfold add_all. apply fold_append_sorted. constructor. Qed.

Lemma fold_append_keeps : forall es l e, In e l -> In e (fold_left (fun l e => append_entry (fst e) (snd e) l) es l).
Proof. induction es as [|x es IH]; intros l e H; cbn [fold_left]; [exact H|]. apply IH. now apply append_keeps. Qed.

Lemma fold_append_only : forall es l e, In e (fold_left (fun l e => append_entry (fst e) (snd e) l) es l) -> In e es \/ In e l.
Proof.
  induction es as [|x es IH]; intros l e H; cbn [fold_left] in H; [now right|].
  apply IH in H. destruct H as [H|H]; [left; now right|]. apply append_only_adds in H.
  destruct H as [->|H]; [left; left; now destruct x|now right].
Qed.

Lemma fold_append_all : forall es l, NoDup (map fst es) ->
  (forall x, In x es -> forall q, ~ In (fst x, q) l) ->
  forall e, In e es -> In e (fold_left (fun l e => append_entry (fst e) (snd e) l) es l).
Proof.
  induction es as [|x es IH]; intros l Hnd Hfresh e He; [destruct He|].
  cbn [map] in Hnd. apply NoDup_cons_iff in Hnd. destruct Hnd as [Hx Hnd]. cbn [fold_left].
  destruct He as [<-|He].
  - apply fold_append_keeps. destruct x as [t p]. cbn [fst snd]. apply append_new. intros q. apply (Hfresh (t, p)). now left.
  - apply IH; [exact Hnd| |exact He]. intros y Hy q Hq. apply append_only_adds in Hq. destruct Hq as [Hq|Hq].
    + apply Hx. apply in_map_iff. exists y. split; [|exact Hy]. destruct x as [t p]. cbn [fst snd] in Hq. inversion Hq. reflexivity.
    + apply (Hfresh y (or_intror Hy) q). exact Hq.
Qed.

(* with unique tokens the log holds exactly the appended entries, token and payload unchanged *)
Theorem log_holds_appended : forall es e, NoDup (map fst es) -> (In e (add_all es) <-> In e es).
Proof.
  intros es e Hnd. split.
  - intros H. apply fold_append_only in H. destruct H as [H|[]]. exact H.
  - intros H. apply fold_append_all; auto.
Qed.

(* ---- listings ---- *)
Lemma In_firstn : forall {A} n (l : list A) x, In x (firstn n l) -> In x l.
Proof. intros A n l x H. rewrite <- (firstn_skipn n l). apply in_or_app. now left. Qed.

Lemma filter_sorted : forall (f : N * string -> bool) l, sorted l -> sorted (filter f l).
Proof.
  induction l as [|a l IH]; intros H; cbn [filter]; [constructor|]. apply StronglySorted_inv in H. destruct H as [Hs Hall].
  destruct (f a); [|now apply IH]. constructor; [now apply IH|]. apply Forall_forall. intros x Hx. apply filter_In in Hx.
  rewrite Forall_forall in Hall. now apply Hall.
Qed.

Lemma firstn_sorted : forall n l, sorted l -> sorted (firstn n l).
Proof.
  induction n as [|n IH]; intros l H; [constructor|]. destruct l as [|a l]; [constructor|]. cbn [firstn].
  apply StronglySorted_inv in H. destruct H as [Hs Hall]. constructor; [now apply IH|].
  apply Forall_forall. intros x Hx. rewrite Forall_forall in Hall. apply Hall. eapply In_firstn; eauto.
Qed.

(* a listing is in token order without duplicates *)
Theorem listing_sorted : forall from max l, sorted l -> sorted (list_entries from max l).
Proof. intros. unfold list_entries. apply firstn_sorted, filter_sorted. exact H. Qed.

(* it returns stored entries of its window only *)
Theorem listing_sound : forall from max l e, In e (list_entries from max l) -> In e l /\ list_start from <= fst e.
Proof.
  intros from max l e H. unfold list_entries in H. apply In_firstn in H. apply filter_In in H.
  destruct H as [H1 H2]. split; [exact H1|]. now apply N.leb_le.
Qed.

(* and all of them when they fit in the maximum *)
Theorem listing_complete : forall from max l e,
  Nat.le (List.length (filter (fun e : N * string => list_start from <=? fst e) l)) (Nat.min max walMaxEntriesPerList) ->
  In e l -> list_start from <= fst e -> In e (list_entries from max l).
Proof.
  intros from max l e Hlen He Hs. unfold list_entries. rewrite firstn_all2 by exact Hlen.
  apply filter_In. split; [exact He|]. now apply N.leb_le.
Qed.

(* when cut, the entries returned are those with the smallest tokens *)
Theorem listing_prefix : forall from max l, exists rest,
  filter (fun e : N * string => list_start from <=? fst e) l = list_entries from max l ++ rest.
Proof. intros. unfold list_entries. eexists. symmetry. apply firstn_skipn. Qed.

(* every entry appended in the look-back window before the given token is in the window *)
Lemma two128_pos : 0 < two128.
Proof. unfold two128. apply N.neq_0_lt_0. apply N.pow_nonzero. discriminate. Qed.

Theorem lookback_in_window : forall from tok, time_of from - lookback <= time_of tok -> list_start from <= tok.
Proof.
  intros from tok H. unfold list_start, time_of in *. pose proof two128_pos.
  apply N.le_trans with (tok / two128 * two128).
  - apply N.mul_le_mono_r. exact H.
  - rewrite N.mul_comm. apply N.mul_div_le. lia.
Qed.

(* tokens issued in a later second sort after tokens issued earlier *)
Theorem tokens_follow_time : forall t1 r1 t2 r2, t1 < t2 -> token_of t1 r1 < token_of t2 r2.
Proof.
  intros t1 r1 t2 r2 H. unfold token_of. pose proof two128_pos.
  assert (r1 mod two128 < two128) by (apply N.mod_lt; lia).
  apply N.lt_le_trans with ((t1 + 1) * two128); [rewrite N.mul_add_distr_r, N.mul_1_l; lia|].
  apply N.le_trans with (t2 * two128); [apply N.mul_le_mono_r; lia|apply N.le_add_r].
Qed.

Theorem time_of_token : forall t r, time_of (token_of t r) = t.
Proof.
  intros t r. unfold time_of, token_of. pose proof two128_pos.
  rewrite N.div_add_l by lia. rewrite N.div_small by (apply N.mod_lt; lia). lia.
Qed.
