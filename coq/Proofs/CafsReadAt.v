(* ReadAt: whatever the store holds, a successful read returns the requested window of the
   content (soundness, under collision freedom); on a store holding the object it succeeds. *)
From Coq Require Import List NArith Arith Bool Lia.
From DM Require Import Model.Cafs Proofs.CafsWriter Proofs.CafsStore.
Import ListNotations.

Lemma Forall2_skipn : forall {A B} (P : A -> B -> Prop) a b j,
  Forall2 P a b -> Forall2 P (skipn j a) (skipn j b).
Proof.
  intros A B P a b j Hf. revert j. induction Hf; intros j; destruct j; cbn; auto.
Qed.

Section ReadAt.
Variable H : N -> N -> N -> bool -> list N -> list N.
Variable L : nat.
Hypothesis Lpos : 0 < L.
Hypothesis H_len : forall l o d b x, length (H l o d b x) = KS.

Lemma firstn_skipn_app_enough : forall (m o : nat) (d t : list N),
  length (firstn m (skipn o d)) = m -> firstn m (skipn o (d ++ t)) = firstn m (skipn o d).
Proof.
  intros m o d t Hm. destruct (le_lt_dec o (length d)) as [Ho|Ho].
  - rewrite skipn_app. replace (o - length d) with 0 by lia. cbn [skipn].
    rewrite firstn_app. rewrite firstn_length in Hm.
    replace (m - length (skipn o d)) with 0 by lia. cbn [firstn]. now rewrite app_nil_r.
  - rewrite skipn_all2 in Hm by lia. destruct m; [reflexivity|]. cbn in Hm. lia.
Qed.

(* the loop, from leaf index i with honest remaining leaves lt *)
Lemma skipn_eq_cons : forall (lv : list (list N)) i d lt,
  skipn i lv = d :: lt -> nth_error lv i = Some d /\ skipn (S i) lv = lt.
Proof.
  induction lv as [|x lv IH]; intros i d lt E; [destruct i; discriminate|].
  destruct i; cbn in *; [inversion E; auto|]. now apply IH.
Qed.

Lemma read_at_loop_sound : forall lv, nocoll H L lv -> forall lt s n i offset want acc r,
  lt = skipn i lv ->
  shape L lt -> n = i + length lt -> (lt = [] \/ offset <= L) ->
  (offset <= L) ->
  read_at_loop H L s n (keys_of_leaves H L i lt) i offset want acc = Ok r ->
  r = acc ++ firstn (want - length acc) (skipn offset (concat lt)).
Proof.
  intros lv Hnc.
  induction lt as [|d lt IH]; intros s n i offset want acc r Hlt Hs Hn _ Ho Hr.
  - cbn in Hr. inversion Hr; subst. cbn. rewrite skipn_nil, firstn_nil. now rewrite app_nil_r.
  - rewrite keys_of_leaves_cons in Hr. cbn [read_at_loop] in Hr.
    destruct (shape_tail L Lpos d lt Hs) as [Hs' [Hd Hfull]].
    destruct (lookup (hkey H L i d) s) as [d'|] eqn:El; [|discriminate].
    destruct (verify_leaf H L n i (hkey H L i d) d') eqn:Ev; cbn [negb] in Hr; [|discriminate].
    destruct (skipn_eq_cons lv i d lt (eq_sym Hlt)) as [Hnth Hlt'].
    assert (d' = d).
    { apply (verify_honest H L lv n i d d' Hnc Hnth); [|exact Ev]. intros Hne. destruct lt as [|x lt']; [cbn in Hn; lia|].
      exfalso. apply Hne, Hfull. discriminate. }
    subst d'. cbn [concat].
    destruct (Nat.eqb_spec (length (acc ++ firstn (want - length acc) (skipn offset d))) want) as [E|E].
    + inversion Hr; subst r. f_equal. symmetry. apply firstn_skipn_app_enough.
      rewrite app_length in E. destruct (le_lt_dec (length acc) want); [lia|].
      replace (want - length acc) with 0 in * by lia. reflexivity.
    + cbn [length] in Hn. apply (IH s n (S i) 0 want) in Hr; auto; try lia.
      rewrite Hr. cbn [skipn]. rewrite <- app_assoc. f_equal.
      set (m := want - length acc) in *. set (A := skipn offset d) in *.
      assert (Hshort : length (firstn m A) < m \/ want < length acc).
      { rewrite app_length in E. rewrite firstn_length in *. lia. }
      destruct Hshort as [Hshort|Hbig].
      * assert (HA : firstn m A = A) by (apply firstn_all2; rewrite firstn_length in Hshort; lia).
        rewrite HA, app_length.
        assert (Hsk : skipn offset (d ++ concat lt) = A ++ concat lt).
        { destruct (le_lt_dec offset (length d)) as [Hod|Hod].
          - rewrite skipn_app. replace (offset - length d) with 0 by lia. reflexivity.
          - (* offset beyond a short leaf: it is the last one *)
            destruct lt as [|x lt']; [|assert (length d = L) by (apply Hfull; discriminate); lia].
            cbn [concat]. rewrite !app_nil_r. reflexivity. }
        rewrite Hsk, firstn_app, HA. f_equal. f_equal. unfold m. lia.
      * replace m with 0 by (unfold m; lia). cbn [firstn]. rewrite app_nil_r.
        replace (want - length acc) with 0 by lia. reflexivity.
Qed.

Lemma concat_full_length : forall ls : list (list N), Forall (fun l => length l = L) ls ->
  length (concat ls) = length ls * L.
Proof.
  induction ls as [|l ls IH]; intros F; cbn; [reflexivity|].
  apply Forall_cons_iff in F. destruct F as [Fl F]. rewrite app_length, IH; auto.
Qed.

Lemma shape_firstn_full : forall lt i, shape L lt -> i < length lt ->
  Forall (fun l => length l = L) (firstn i lt) /\ shape L (skipn i lt).
Proof.
  intros lt i. revert lt. induction i as [|i IH]; intros lt Hs Hi.
  - cbn. split; [constructor|exact Hs].
  - destruct lt as [|d lt]; [cbn in Hi; lia|]. cbn in Hi.
    destruct (shape_tail L Lpos d lt Hs) as [Hs' [Hd Hfull]].
    destruct (IH lt Hs') as [A B]; [lia|]. cbn [firstn skipn]. split; auto.
    constructor; auto. apply Hfull. destruct lt; [cbn in Hi; lia|discriminate].
Qed.

Lemma keys_of_leaves_skipn : forall lt i j,
  skipn j (keys_of_leaves H L i lt) = keys_of_leaves H L (i + j) (skipn j lt).
Proof.
  induction lt as [|d lt IH]; intros i j.
  - destruct j; cbn; reflexivity.
  - destruct j; cbn [skipn keys_of_leaves].
    + now rewrite Nat.add_0_r.
    + rewrite IH. f_equal. lia.
Qed.

Theorem read_at_sound : forall s c off want r, nocoll H L (split_leaves L c) ->
  read_at H L (tree_key H L c) s off want = Ok r -> r = firstn want (skipn off c).
Proof.
  intros s c off want r Hnc Hr. unfold read_at in Hr.
  destruct (leaves_for_hash H L (tree_key H L c) s) as [ks|] eqn:El; [|discriminate].
  apply (leaves_for_hash_sound H L Lpos H_len) in El; [|exact Hnc]. subst ks.
  set (lv := split_leaves L c) in *.
  assert (Hc : concat lv = c) by (apply split_leaves_concat; auto).
  assert (Hsh : shape L lv) by (apply split_shape; auto).
  rewrite keys_length in Hr.
  pose proof (Nat.div_mod_eq off L) as Hdm. pose proof (Nat.mod_upper_bound off L ltac:(lia)) as Hmod.
  destruct (Nat.leb_spec (length lv) (off / L)) as [Hge|Hlt].
  - inversion Hr; subst r.
    (* off is at or beyond the end *)
    assert (length c <= off).
    { rewrite <- Hc. destruct Hsh as [ls [b [E [F B]]]]. rewrite E in *. rewrite concat_app, app_length.
      rewrite concat_full_length by auto. rewrite app_length in Hge.
      assert (Hq : (off / L) * L <= off) by lia.
      destruct b as [|x b']; cbn [length concat app] in *; rewrite ?app_nil_r in *.
      - assert (length ls * L <= (off / L) * L) by (apply Nat.mul_le_mono_r; lia). lia.
      - assert ((length ls + 1) * L <= (off / L) * L) by (apply Nat.mul_le_mono_r; lia). lia. }
    now rewrite skipn_all2, firstn_nil by lia.
  - rewrite keys_of_leaves_skipn in Hr. cbn [Nat.add] in Hr.
    destruct (shape_firstn_full lv (off / L) Hsh Hlt) as [Ffull Hsk].
    apply (read_at_loop_sound lv Hnc) in Hr; auto; try lia.
    + rewrite Hr. cbn [app length]. rewrite Nat.sub_0_r. f_equal.
      rewrite <- Hc. rewrite <- (firstn_skipn (off / L) lv) at 2. rewrite concat_app.
      rewrite skipn_app. rewrite concat_full_length by auto.
      rewrite firstn_length. replace (Nat.min (off / L) (length lv)) with (off / L) by lia.
      assert (Hq : off / L * L <= off) by lia.
      rewrite (skipn_all2 (n:=off)).
      2:{ rewrite concat_full_length by auto. rewrite firstn_length.
          replace (Nat.min (off / L) (length lv)) with (off / L) by lia. exact Hq. }
      cbn [app]. f_equal. lia.
    + rewrite skipn_length. lia.
Qed.

(* completeness on a store that holds the object *)
Lemma read_at_loop_complete : forall lt s n i offset want acc,
  shape L lt -> n = i + length lt ->
  Forall2 (fun k d => lookup k s = Some d) (keys_of_leaves H L i lt) lt ->
  exists r, read_at_loop H L s n (keys_of_leaves H L i lt) i offset want acc = Ok r.
Proof.
  induction lt as [|d lt IH]; intros s n i offset want acc Hs Hn Hf.
  - cbn. eauto.
  - rewrite keys_of_leaves_cons in *. inversion Hf as [|? ? ? ? Hl Hf']; subst. cbn [read_at_loop]. rewrite Hl.
    destruct (shape_tail L Lpos d lt Hs) as [Hs' [Hd Hfull]].
    rewrite verify_accepts; auto.
    + cbn [negb]. destruct (Nat.eqb _ want); [eauto|]. apply IH; auto. cbn in *. lia.
    + intros Hne. destruct lt as [|x lt']; [cbn in *; lia|]. exfalso. apply Hne, Hfull. discriminate.
    + destruct lt as [|x lt']; [right; cbn in *; lia|left; apply Hfull; discriminate].
Qed.

Theorem read_at_complete : forall s c off want, holds H L s c ->
  exists r, read_at H L (tree_key H L c) s off want = Ok r.
Proof.
  intros s c off want Hh. unfold read_at.
  rewrite (leaves_for_hash_complete H L Lpos H_len s c Hh).
  destruct Hh as [_ Hf]. set (lv := split_leaves L c) in *.
  rewrite keys_length. destruct (Nat.leb_spec (length lv) (off / L)) as [Hge|Hlt]; [eauto|].
  rewrite keys_of_leaves_skipn. cbn [Nat.add].
  destruct (shape_firstn_full lv (off / L) (split_shape L Lpos c) Hlt) as [_ Hsk].
  apply read_at_loop_complete; auto.
  - rewrite skipn_length. lia.
  - replace (off / L) with (0 + off / L) at 1 by lia. rewrite <- keys_of_leaves_skipn.
    now apply Forall2_skipn.
Qed.

End ReadAt.
