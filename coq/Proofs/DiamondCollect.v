(* C12: a commit's bundle holds exactly what the commit collected, and it collected exactly the runs
   recorded as completing their split at that moment. *)
From Coq Require Import List NArith Bool Arith Lia.
From DM Require Import Model.Diamond Proofs.DiamondProofs.
Import ListNotations.
Open Scope list_scope.

(* the collection step takes the completed splits as they are recorded at that moment *)
Theorem collect_exact : forall i st c w ds, i < List.length (d_actors st) ->
  nth_error (d_actors st) i = Some (ACommit CCollect c w) -> d_done st = ds -> ds <> [] ->
  nth_error (d_actors (fst (step i st))) i = Some (ACommit CWriteLists ds w) /\
  d_done (fst (step i st)) = ds /\ d_bundles (fst (step i st)) = d_bundles st.
Proof.
  intros i st c w ds Hi Ha Hd Hne. unfold step. rewrite Ha, Hd. destruct ds as [|x ds']; [congruence|].
  cbn [fst]. split; [now apply nth_set_actor_same|split; [cbn [set_actor d_done]; exact Hd|reflexivity]].
Qed.

Definition past_collect (pc : cpc) : bool :=
  match pc with CWriteLists | CWriteBundle | CWriteDone | CFin => true | _ => false end.

Lemma set_actor_length : forall i a st, i < List.length (d_actors st) -> List.length (d_actors (set_actor i a st)) = List.length (d_actors st).
Proof.
  intros i a st H. unfold set_actor. cbn [d_actors]. rewrite app_length. cbn [List.length].
  rewrite firstn_length_le by lia. rewrite skipn_length. lia.
Qed.

(* from then on the collection never changes, whatever anybody does *)
Theorem collection_frozen_step : forall j st i pc c w,
  nth_error (d_actors st) i = Some (ACommit pc c w) -> past_collect pc = true ->
  exists pc' w', nth_error (d_actors (fst (step j st))) i = Some (ACommit pc' c w') /\ past_collect pc' = true.
Proof.
  intros j st i pc c w Ha Hpc.
  assert (Hi : i < List.length (d_actors st)) by (apply nth_error_Some; congruence).
  destruct (Nat.eq_dec j i) as [->|Hne].
  - unfold step. rewrite Ha. destruct pc; try discriminate; cbn [fst].
    + eexists; eexists; split; [apply nth_set_actor_same; cbn [d_actors]; exact Hi|reflexivity].
    + eexists; eexists; split; [apply nth_set_actor_same; cbn [d_actors]; exact Hi|reflexivity].
    + destruct (d_term st); cbn [fst]; eexists; eexists; (split; [apply nth_set_actor_same; cbn [d_actors]; exact Hi|reflexivity]).
    + eexists; eexists; split; [exact Ha|reflexivity].
  - exists pc, w. split; [|exact Hpc]. rewrite <- Ha.
    destruct (nth_error (d_actors st) j) as [a|] eqn:Ej.
    + assert (Hj : j < List.length (d_actors st)) by (apply nth_error_Some; congruence).
      step_cases j st; try reflexivity; try (rewrite nth_set_actor_other; [reflexivity|cbn [d_actors]; exact Hj|exact Hne]).
    + unfold step. rewrite Ej. reflexivity.
Qed.

Lemma collection_frozen_crash : forall j st i pc c w,
  nth_error (d_actors st) i = Some (ACommit pc c w) -> past_collect pc = true ->
  exists pc' w', nth_error (d_actors (crash j st)) i = Some (ACommit pc' c w') /\ past_collect pc' = true.
Proof.
  intros j st i pc c w Ha Hpc.
  assert (Hi : i < List.length (d_actors st)) by (apply nth_error_Some; congruence).
  destruct (Nat.eq_dec j i) as [->|Hne].
  - unfold crash. rewrite Ha. exists CFin, w. split; [now apply nth_set_actor_same|reflexivity].
  - exists pc, w. split; [|exact Hpc]. rewrite <- Ha. unfold crash.
    destruct (nth_error (d_actors st) j) as [[| |]|] eqn:Ej; try reflexivity;
      (apply nth_set_actor_other; [apply nth_error_Some; congruence|exact Hne]).
Qed.

Theorem collection_frozen : forall es st i pc c w,
  nth_error (d_actors st) i = Some (ACommit pc c w) -> past_collect pc = true ->
  exists pc' w', nth_error (d_actors (run es st)) i = Some (ACommit pc' c w') /\ past_collect pc' = true.
Proof.
  induction es as [|[j|j] es IH]; intros st i pc c w Ha Hpc; [exists pc, w; auto| |]; unfold run; cbn [fold_left apply_event].
  - destruct (collection_frozen_step j st i pc c w Ha Hpc) as [pc' [w' [Ha' Hpc']]]. eapply IH; eauto.
  - destruct (collection_frozen_crash j st i pc c w Ha Hpc) as [pc' [w' [Ha' Hpc']]]. eapply IH; eauto.
Qed.

(* every bundle descriptor holds the collection of the commit that wrote it *)
Definition binv (st : dstate) : Prop :=
  forall b srcs, In (b, srcs) (d_bundles st) ->
  exists pc w, nth_error (d_actors st) b = Some (ACommit pc srcs w) /\ past_collect pc = true.

Lemma binv_step : forall j st, binv st -> binv (fst (step j st)).
Proof.
  intros j st H b srcs Hin.
  destruct (nth_error (d_actors st) j) as [a|] eqn:Ej; [|unfold step in *; rewrite Ej in *; now apply H].
  assert (Hj : j < List.length (d_actors st)) by (apply nth_error_Some; congruence).
  (* a bundle that was there before: its commit's collection is frozen *)
  assert (Old : In (b, srcs) (d_bundles st) ->
                exists pc w, nth_error (d_actors (fst (step j st))) b = Some (ACommit pc srcs w) /\ past_collect pc = true).
  { intros Hold. destruct (H b srcs Hold) as [pc [w [Ha Hpc]]]. eapply collection_frozen_step; eauto. }
  (* the only step that adds a bundle is the commit's own descriptor write *)
  unfold step in Hin. rewrite Ej in Hin.
  destruct a as [[] c w|[] w|s g [] w]; cbn [fst] in Hin;
    repeat match type of Hin with
           | context [match d_term st with _ => _ end] => destruct (d_term st) eqn:?
           | context [match d_done st with _ => _ end] => destruct (d_done st) eqn:?
           | context [match done_of ?s st with _ => _ end] => destruct (done_of s st) eqn:?
           | context [if existsb ?f ?l then _ else _] => destruct (existsb f l) eqn:?
           end; cbn [fst set_actor d_bundles] in Hin; try (now apply Old).
  destruct Hin as [E|Hin]; [|now apply Old].
  inversion E; subst b srcs. unfold step. rewrite Ej. cbn [fst].
  exists CWriteDone, true. split; [apply nth_set_actor_same; cbn [d_actors]; exact Hj|reflexivity].
Qed.

Lemma binv_crash : forall j st, binv st -> binv (crash j st).
Proof.
  intros j st H b srcs Hin.
  assert (Hb : In (b, srcs) (d_bundles st)).
  { unfold crash in Hin. destruct (nth_error (d_actors st) j) as [[| |]|]; exact Hin. }
  destruct (H b srcs Hb) as [pc [w [Ha Hpc]]]. eapply collection_frozen_crash; eauto.
Qed.

Theorem bundle_is_the_collection : forall actors es b srcs,
  In (b, srcs) (d_bundles (run es (init actors))) ->
  exists pc w, nth_error (d_actors (run es (init actors))) b = Some (ACommit pc srcs w) /\ past_collect pc = true.
Proof.
  intros actors es. assert (G : forall es st, binv st -> binv (run es st)).
  { induction es0 as [|[j|j] es0 IH]; intros st H; [exact H| |]; unfold run; cbn [fold_left apply_event]; apply IH;
      [now apply binv_step|now apply binv_crash]. }
  apply G. intros b srcs Hin. cbn in Hin. destruct Hin.
Qed.
