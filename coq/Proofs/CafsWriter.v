(* Proofs about the cafs writer: every Write terminates, the flushed leaves and the buffer
   always hold exactly the bytes written so far, and the resulting layout is a function of the
   content alone. *)
From Coq Require Import List NArith Arith Bool Lia.
From DM Require Import Model.Cafs.
Import ListNotations.

Section WriterProofs.
Variable H : N -> N -> N -> bool -> list N -> list N.
Variable L : nat.
Hypothesis Lpos : 0 < L.

Definition wcontent (s : wst) : list N := concat (w_leaves s) ++ w_buf s.
Definition winv (s : wst) : Prop := length (w_buf s) < L /\ Forall (fun l => length l = L) (w_leaves s).

Lemma write_loop_spec : forall fuel s p, length p < fuel -> winv s ->
  exists s', write_loop L fuel s p = Ok s' /\ wcontent s' = wcontent s ++ p /\ winv s'.
Proof.
  induction fuel as [|f IH]; intros s p Hf Hi; [lia|].
  cbn [write_loop]. destruct p as [|a p'] eqn:Ep.
  - exists s. rewrite app_nil_r. auto.
  - rewrite <- Ep in *. destruct Hi as [Hb Hl].
    set (writable := Nat.min (L - length (w_buf s)) (length p)).
    assert (Hp : 0 < length p) by (subst p; cbn; lia).
    assert (Hw : 0 < writable <= L - length (w_buf s)) by (unfold writable; lia).
    assert (Hwp : writable <= length p) by (unfold writable; lia).
    assert (Hfl : length (firstn writable p) = writable) by (rewrite firstn_length; lia).
    assert (Hrest : length (skipn writable p) < f) by (rewrite skipn_length; lia).
    destruct (Nat.eqb_spec (length (w_buf s ++ firstn writable p)) L) as [He|Hne].
    + destruct (IH {| w_leaves := w_leaves s ++ [w_buf s ++ firstn writable p]; w_buf := [] |} (skipn writable p) Hrest)
        as [s' [H1 [H2 H3]]].
      { split; cbn; [lia|]. apply Forall_app; split; auto. }
      exists s'. split; [exact H1|]. split; [|exact H3].
      rewrite H2. unfold wcontent; cbn. rewrite concat_app; cbn.
      rewrite !app_nil_r, <- !app_assoc. f_equal. f_equal. apply firstn_skipn.
    + destruct (IH {| w_leaves := w_leaves s; w_buf := w_buf s ++ firstn writable p |} (skipn writable p) Hrest)
        as [s' [H1 [H2 H3]]].
      { split; cbn; auto. rewrite app_length in *. lia. }
      exists s'. split; [exact H1|]. split; [|exact H3].
      rewrite H2. unfold wcontent; cbn. rewrite <- !app_assoc. f_equal. f_equal. apply firstn_skipn.
Qed.

Lemma write_spec : forall s p, winv s ->
  exists s', write L s p = Ok s' /\ wcontent s' = wcontent s ++ p /\ winv s'.
Proof. intros. unfold write. apply write_loop_spec; auto. Qed.

Lemma write_all_spec : forall chunks s, winv s ->
  exists s', write_all L s chunks = Ok s' /\ wcontent s' = wcontent s ++ concat chunks /\ winv s'.
Proof.
  induction chunks as [|p t IH]; intros s Hi; cbn [write_all concat].
  - exists s. rewrite app_nil_r. auto.
  - destruct (write_spec s p Hi) as [s1 [H1 [H2 H3]]]. rewrite H1.
    destruct (IH s1 H3) as [s2 [H4 [H5 H6]]]. exists s2. split; [exact H4|]. split; [|exact H6].
    rewrite H5, H2. now rewrite app_assoc.
Qed.

(* the layout is determined by the content *)
Lemma split_fuel_spec : forall ls b fuel,
  Forall (fun l => length l = L) ls -> length b < L -> length (concat ls ++ b) <= fuel ->
  split_fuel L fuel (concat ls ++ b) = ls ++ (match b with [] => [] | _ => [b] end).
Proof.
  induction ls as [|l ls IH]; intros b fuel Hl Hb Hf.
  - cbn [concat app]. destruct b as [|x b'].
    + destruct fuel; reflexivity.
    + destruct fuel; [cbn in Hf; lia|]. cbn [split_fuel].
      rewrite firstn_all2 by lia. rewrite skipn_all2 by lia.
      destruct fuel; reflexivity.
  - apply Forall_cons_iff in Hl. destruct Hl as [Hll Hls]. cbn [concat] in *. rewrite <- app_assoc in *.
    assert (Hlen : 0 < length l) by lia.
    destruct fuel; [rewrite !app_length in Hf; lia|].
    cbn [split_fuel]. destruct (l ++ concat ls ++ b) eqn:E.
    { destruct l; cbn in *; [lia|discriminate]. }
    rewrite <- E. rewrite firstn_app, firstn_all2 by lia.
    replace (length l - length l) with 0 by lia. replace (L - length l) with 0 by lia.
    cbn [firstn]. rewrite app_nil_r.
    rewrite skipn_app, skipn_all2 by lia. replace (L - length l) with 0 by lia. cbn [skipn app].
    rewrite IH; auto. rewrite <- E in Hf. rewrite ?app_length in *. lia.
Qed.

Lemma split_leaves_spec : forall ls b,
  Forall (fun l => length l = L) ls -> length b < L ->
  split_leaves L (concat ls ++ b) = ls ++ (match b with [] => [] | _ => [b] end).
Proof. intros. unfold split_leaves. apply split_fuel_spec; auto. Qed.

Lemma full_keys_of_leaves : forall ls i, Forall (fun l => length l = L) ls ->
  full_keys H L i ls = keys_of_leaves H L i ls.
Proof.
  induction ls as [|l ls IH]; intros i Hl; cbn; [reflexivity|].
  apply Forall_cons_iff in Hl. destruct Hl as [Hll Hls]. rewrite Hll, Nat.eqb_refl. now rewrite IH.
Qed.

Lemma keys_of_leaves_app : forall a b i,
  keys_of_leaves H L i (a ++ b) = keys_of_leaves H L i a ++ keys_of_leaves H L (i + length a) b.
Proof.
  induction a as [|x a IH]; intros b i; cbn.
  - now rewrite Nat.add_0_r.
  - rewrite IH. replace (S i + length a) with (i + S (length a)) by lia. reflexivity.
Qed.

Lemma leaf_keys_of_leaves : forall ls b,
  Forall (fun l => length l = L) ls -> length b < L ->
  leaf_keys H L ls b = keys_of_leaves H L 0 (split_leaves L (concat ls ++ b)).
Proof.
  intros ls b Hl Hb. rewrite split_leaves_spec by auto. unfold leaf_keys.
  rewrite keys_of_leaves_app, full_keys_of_leaves by auto. f_equal.
  destruct b as [|x b']; [reflexivity|]. cbn [keys_of_leaves Nat.add].
  destruct (Nat.eqb_spec (length (x :: b')) L) as [E|E]; [lia|reflexivity].
Qed.

(* Put: terminates, reports the content length, and its key is the tree key of the content,
   whatever the chunking and whatever the store held *)
Theorem put_key : forall chunks s,
  exists r, put H L chunks s = Ok r /\
    pr_written r = length (concat chunks) /\
    pr_key r = tree_key H L (concat chunks) /\
    pr_keys r = keys_of_leaves H L 0 (split_leaves L (concat chunks)).
Proof.
  intros chunks s. unfold put.
  destruct (write_all_spec chunks {| w_leaves := []; w_buf := [] |}) as [w [H1 [H2 [H3 H4]]]].
  { split; cbn; [lia|constructor]. }
  rewrite H1. eexists. split; [reflexivity|]. cbn [pr_written pr_key pr_keys].
  unfold wcontent in H2. cbn in H2.
  split; [reflexivity|]. rewrite <- H2. unfold tree_key.
  rewrite <- leaf_keys_of_leaves by auto. auto.
Qed.

Theorem put_chunking_irrelevant : forall chunks s,
  match put H L chunks s, put H L [concat chunks] s with
  | Ok r1, Ok r2 => pr_key r1 = pr_key r2 /\ pr_keys r1 = pr_keys r2 /\ pr_written r1 = pr_written r2
  | _, _ => False
  end.
Proof.
  intros chunks s.
  destruct (put_key chunks s) as [r1 [E1 [A1 [B1 C1]]]].
  destruct (put_key [concat chunks] s) as [r2 [E2 [A2 [B2 C2]]]].
  rewrite E1, E2. cbn [concat] in *. rewrite app_nil_r in *.
  rewrite A1, A2, B1, B2, C1, C2. auto.
Qed.

(* shape of the layout *)
Lemma split_fuel_shape : forall fuel c, length c <= fuel ->
  concat (split_fuel L fuel c) = c /\
  Forall (fun l => 0 < length l <= L) (split_fuel L fuel c).
Proof.
  induction fuel as [|f IH]; intros c Hc.
  - destruct c; [cbn; auto|cbn in Hc; lia].
  - cbn [split_fuel]. destruct c as [|x c'] eqn:E; [cbn; auto|]. rewrite <- E in *.
    assert (Hlen : 0 < length c) by (subst c; cbn; lia).
    destruct (IH (skipn L c)) as [A B]; [rewrite skipn_length; lia|].
    split.
    + cbn [concat]. rewrite A. apply firstn_skipn.
    + constructor; auto. rewrite firstn_length. lia.
Qed.

Lemma split_leaves_concat : forall c, concat (split_leaves L c) = c.
Proof. intros. unfold split_leaves. apply split_fuel_shape. lia. Qed.

End WriterProofs.
