(* Proofs about Model/LocalFS.v: finite-map laws, exactness and order of listings, completeness
   of paging for every page size, exclusive creation. *)
From Coq Require Import List String Ascii NArith Bool Arith Lia Sorted.
From DM Require Import Base.Str Base.StrOrder Base.Paging Base.Listing Model.LocalFS.
Import ListNotations.
Open Scope list_scope.

(* ---- finite map laws ---- *)
Lemma lget_lremove_same : forall k s, lget k (lremove k s) = None.
Proof.
  induction s as [|[k' v] s IH]; cbn; [reflexivity|].
  destruct (String.eqb k k') eqn:E; [exact IH|]. cbn. now rewrite E.
Qed.

Lemma lget_lremove_other : forall k k' s, k <> k' -> lget k' (lremove k s) = lget k' s.
Proof.
  induction s as [|[k0 v] s IH]; intros Hne; cbn; [reflexivity|].
  destruct (String.eqb k k0) eqn:E.
  - apply String.eqb_eq in E. subst k0.
    destruct (String.eqb k' k) eqn:E'; [apply String.eqb_eq in E'; congruence|]. now apply IH.
  - cbn. destruct (String.eqb k' k0); [reflexivity|]. now apply IH.
Qed.

Theorem get_after_put : forall k v e s r s', lput k v e s = (r, s') ->
  (r = LOk -> lget k s' = Some v) /\ (r = LExists -> s' = s /\ e = true /\ lget k s <> None) /\ r <> LNotFound.
Proof.
  intros k v e s r s' Hp. unfold lput in Hp. destruct (lget k s) as [old|] eqn:Eg.
  - destruct e; inversion Hp; subst.
    + split; [discriminate|]. split; [|discriminate]. intros _. repeat split; auto. discriminate.
    + split; [intros _; cbn; now rewrite String.eqb_refl|]. split; discriminate.
  - inversion Hp; subst. split; [intros _; cbn; now rewrite String.eqb_refl|]. split; discriminate.
Qed.

Theorem put_frame : forall k v e s r s' k', lput k v e s = (r, s') -> k <> k' -> lget k' s' = lget k' s.
Proof.
  intros k v e s r s' k' Hp Hne. unfold lput in Hp. destruct (lget k s) as [old|].
  - destruct e; inversion Hp; subst; [reflexivity|]. cbn.
    destruct (String.eqb k' k) eqn:E; [apply String.eqb_eq in E; congruence|]. now apply lget_lremove_other.
  - inversion Hp; subst. cbn. destruct (String.eqb k' k) eqn:E; [apply String.eqb_eq in E; congruence|reflexivity].
Qed.

Theorem put_if_absent_iff : forall k v s,
  fst (lput k v true s) = LOk <-> lget k s = None.
Proof.
  intros k v s. unfold lput. destruct (lget k s); cbn; split; intros; try discriminate; auto.
Qed.

Theorem clear_spec : forall s k v e, lget k (lclear s) = None /\ lput k v e (lclear s) = (LOk, [(k, v)]).
Proof. intros. unfold lclear, lput. cbn. split; reflexivity. Qed.

Theorem delete_spec : forall k s k', lget k' (ldelete k s) = if String.eqb k' k then None else lget k' s.
Proof.
  intros k s k'. unfold ldelete. destruct (String.eqb k' k) eqn:E.
  - apply String.eqb_eq in E. subst. apply lget_lremove_same.
  - apply lget_lremove_other. intros ->. now rewrite String.eqb_refl in E.
Qed.

(* ---- listings ---- *)
Theorem list_all_sorted : forall p d s, StronglySorted slt (list_all p d s).
Proof. intros. unfold list_all. apply list_keys_sorted. Qed.

Theorem list_all_exact : forall p d s x,
  In x (list_all p d s) <-> exists k, In k (map fst s) /\ starts_with p k = true /\ x = cut p d k.
Proof. intros. unfold list_all. apply list_keys_exact. Qed.

Lemma exact_seek_suffix : forall pre k suf,
  StronglySorted slt (pre ++ k :: suf) -> exact_seek k (pre ++ k :: suf) = k :: suf.
Proof. intros. unfold exact_seek. now rewrite find_eq_suffix. Qed.

(* for every page size >= 1, following the continuation tokens from the first page to the last
   yields the listing: each name once, in order *)
Theorem paging_exact : forall p d s count, 0 < count ->
  all_pages exact_seek (S (List.length (list_all p d s))) None count (list_all p d s) = Some (list_all p d s).
Proof. intros. apply paging_complete; auto using exact_seek_suffix, list_all_sorted. Qed.

(* without a delimiter the listing is exactly the stored keys that have the prefix *)
Corollary list_all_keys : forall p s x,
  In x (list_all p EmptyString s) <-> In x (map fst s) /\ starts_with p x = true.
Proof.
  intros p s x. rewrite list_all_exact. unfold cut. cbn. split.
  - intros [k [H1 [H2 ->]]]. auto.
  - intros [H1 H2]. exists x. auto.
Qed.

(* ---- create-if-absent: whatever the order in which the writers' O_EXCL opens take effect,
   the first one wins and its bytes stay ---- *)
Fixpoint excl_writers (k : string) (ws : list (list N)) (s : lfs) : list lres * lfs :=
  match ws with
  | [] => ([], s)
  | w :: t => let '(r, s') := lput k w true s in let '(rs, s'') := excl_writers k t s' in (r :: rs, s'')
  end.

Lemma excl_all_fail : forall k ws s, lget k s <> None ->
  fst (excl_writers k ws s) = map (fun _ => LExists) ws /\ snd (excl_writers k ws s) = s.
Proof.
  induction ws as [|w ws IH]; intros s Hn; cbn; [auto|].
  pose proof Hn as Hn0. unfold lput. destruct (lget k s) eqn:E; [|congruence].
  assert (Hn1 : lget k s <> None) by (rewrite E; discriminate).
  destruct (excl_writers k ws s) as [rs s''] eqn:Ex. specialize (IH s Hn1). rewrite Ex in IH. cbn in *.
  destruct IH as [-> ->]. auto.
Qed.

Theorem excl_one_winner : forall k w ws s, lget k s = None ->
  fst (excl_writers k (w :: ws) s) = LOk :: map (fun _ => LExists) ws /\
  lget k (snd (excl_writers k (w :: ws) s)) = Some w.
Proof.
  intros k w ws s Hn. cbn. unfold lput. rewrite Hn.
  destruct (excl_writers k ws ((k, w) :: s)) as [rs s''] eqn:Ex.
  assert (Hne : lget k ((k, w) :: s) <> None) by (cbn; rewrite String.eqb_refl; discriminate).
  destruct (excl_all_fail k ws _ Hne) as [A B]. rewrite Ex in A, B. cbn in *. subst.
  split; [reflexivity|]. cbn. now rewrite String.eqb_refl.
Qed.

(* non-vacuity / sanity: a store with prefix-related names *)
Example listing_example :
  list_all "bundles/repo/" "/" [("bundles/repo/b1/bundle.yaml", []); ("bundles/repo2/b9/bundle.yaml", []);
                                ("bundles/repo/b1/bundle-files-0.yaml", []); ("bundles/repo/a b/x", [])]%string
  = ["bundles/repo/a b/"; "bundles/repo/b1/"]%string.
Proof. vm_compute. reflexivity. Qed.

(* deleting a name that is not a key - for instance the directory part of keys - changes nothing *)
Lemma lremove_absent : forall k s, lget k s = None -> lremove k s = s.
Proof.
  induction s as [|[k' v] s IH]; intros H; [reflexivity|]. cbn in *.
  destruct (String.eqb k k'); [discriminate|]. now rewrite IH.
Qed.

Theorem delete_nonkey : forall k s, lget k s = None -> ldelete k s = s.
Proof. intros. unfold ldelete. now apply lremove_absent. Qed.
