(* C12: invariants of the diamond protocol model, over every set of actors and every schedule. *)
From Coq Require Import List String NArith Bool Arith Lia.
From DM Require Import Base.Util Model.Diamond.
Import ListNotations.
Open Scope list_scope.

(* ---- the store part of a state ---- *)
Definition store_eq (a b : dstate) : Prop :=
  d_term a = d_term b /\ d_running a = d_running b /\ d_done a = d_done b /\ d_lists a = d_lists b /\
  d_blists a = d_blists b /\ d_bundles a = d_bundles b.

Lemma set_actor_store : forall i a st, store_eq (set_actor i a st) st.
Proof. intros. unfold store_eq, set_actor. cbn. tauto. Qed.

Ltac step_cases i st :=
  unfold step; destruct (nth_error (d_actors st) i) as [[[] ca wa|[] wa|sa ga [] wa]|] eqn:Ea; cbn [fst snd];
  repeat match goal with
         | |- context [match d_term st with _ => _ end] => destruct (d_term st) eqn:?
         | |- context [match d_done st with _ => _ end] => destruct (d_done st) eqn:?
         | |- context [match done_of ?s st with _ => _ end] => destruct (done_of s st) eqn:?
         | |- context [if existsb ?f ?l then _ else _] => destruct (existsb f l) eqn:?
         end; cbn [fst snd].

(* ---- the final descriptor of the diamond is written at most once ---- *)
Lemma step_term_stable : forall i st t, d_term st = Some t -> d_term (fst (step i st)) = Some t.
Proof. intros i st t H. step_cases i st; cbn; congruence. Qed.

Lemma crash_store : forall i st, store_eq (crash i st) st.
Proof. intros. unfold crash. destruct (nth_error (d_actors st) i) as [[]|]; try apply set_actor_store. unfold store_eq; tauto. Qed.

Lemma event_term_stable : forall e st t, d_term st = Some t -> d_term (apply_event st e) = Some t.
Proof.
  intros [i|i] st t H; cbn [apply_event]; [now apply step_term_stable|].
  destruct (crash_store i st) as [E _]. congruence.
Qed.

Theorem terminal_written_once : forall es st t, d_term st = Some t -> d_term (run es st) = Some t.
Proof.
  induction es as [|e es IH]; intros st t H; [exact H|]. unfold run. cbn [fold_left]. apply IH. now apply event_term_stable.
Qed.

(* ---- the run recorded as completing a split never changes ---- *)
Lemma step_done_stable : forall i st s g, done_of s st = Some g -> done_of s (fst (step i st)) = Some g.
Proof.
  intros i st s g H. step_cases i st; try exact H.
  (* the only write of a final split descriptor: refused unless none is recorded *)
  unfold done_of in *. cbn [d_done set_actor find fst]. destruct (Nat.eqb sa s) eqn:E; [|exact H].
  apply Nat.eqb_eq in E. subst sa. unfold done_of in *. congruence.
Qed.

Lemma event_done_stable : forall e st s g, done_of s st = Some g -> done_of s (apply_event st e) = Some g.
Proof.
  intros [i|i] st s g H; cbn [apply_event]; [now apply step_done_stable|].
  destruct (crash_store i st) as [_ [_ [E _]]]. unfold done_of in *. now rewrite E.
Qed.

Theorem split_completed_once : forall es st s g, done_of s st = Some g -> done_of s (run es st) = Some g.
Proof.
  induction es as [|e es IH]; intros st s g H; [exact H|]. unfold run. cbn [fold_left]. apply IH. now apply event_done_stable.
Qed.

Lemma step_done_in_stable : forall i st p, In p (d_done st) -> In p (d_done (fst (step i st))).
Proof. intros i st p H. step_cases i st; cbn [d_done set_actor]; auto; try (now right); try congruence. Qed.

Lemma event_done_in_stable : forall e st p, In p (d_done st) -> In p (d_done (apply_event st e)).
Proof.
  intros [i|i] st p H; cbn [apply_event]; [now apply step_done_in_stable|].
  destruct (crash_store i st) as [_ [_ [E _]]]. now rewrite E.
Qed.

(* ---- the invariant ---- *)
Definition commit_sources_ok (st : dstate) (a : actor) : Prop :=
  match a with
  | ACommit (CWriteLists | CWriteBundle | CWriteDone) c _ => forall p, In p c -> In p (d_done st)
  | _ => True
  end.

Record Inv (st : dstate) : Prop := {
  inv_lists : forall p, In p (d_done st) -> In p (d_lists st);               (* a recorded run wrote all its file lists *)
  inv_bundles : forall b srcs p, In (b, srcs) (d_bundles st) -> In p srcs -> In p (d_done st);
  inv_actors : forall a, In a (d_actors st) -> commit_sources_ok st a;
  inv_split_writes : forall s g, In (ASplit s g SWriteSplitDone true) (d_actors st) \/ In (ASplit s g SWriteSplitDone false) (d_actors st) ->
                     In (s, g) (d_lists st)
}.

Lemma In_firstn_skipn_l : forall {A} n (l : list A) x, In x (firstn n l) -> In x l.
Proof. intros A n l x H. rewrite <- (firstn_skipn n l). apply in_or_app. now left. Qed.
Lemma In_firstn_skipn_r : forall {A} n (l : list A) x, In x (skipn n l) -> In x l.
Proof. intros A n l x H. rewrite <- (firstn_skipn n l). apply in_or_app. now right. Qed.

Lemma in_set_actor : forall i a st x, In x (d_actors (set_actor i a st)) -> x = a \/ In x (d_actors st).
Proof.
  intros i a st x H. unfold set_actor in H. cbn [d_actors] in H. apply in_app_or in H. destruct H as [H|[H|H]].
  - right. eapply In_firstn_skipn_l; eauto.
  - left. now symmetry.
  - right. eapply In_firstn_skipn_r; eauto.
Qed.

Lemma sources_ok_mono : forall st st' a, (forall p, In p (d_done st) -> In p (d_done st')) ->
  commit_sources_ok st a -> commit_sources_ok st' a.
Proof. intros st st' [[] c w| |] Hm H; cbn in *; auto. Qed.

(* an update that only changes actor i, to an actor that is fine *)
Lemma inv_actor_only : forall i a st, Inv st -> commit_sources_ok st a ->
  (forall s g w, a = ASplit s g SWriteSplitDone w -> In (s, g) (d_lists st)) ->
  Inv (set_actor i a st).
Proof.
  intros i a st [I1 I2 I3 I4] Ha Hs. constructor; cbn [d_done d_lists d_bundles set_actor].
  - exact I1.
  - exact I2.
  - intros x Hx. apply in_set_actor in Hx. destruct Hx as [->|Hx].
    + destruct a as [[] c w| |]; cbn in *; auto.
    + specialize (I3 x Hx). destruct x as [[] c w| |]; cbn in *; auto.
  - intros s g [H|H]; apply in_set_actor in H; destruct H as [H|H]; eauto.
Qed.

Theorem step_inv : forall i st, Inv st -> Inv (fst (step i st)).
Proof.
  intros i st I. pose proof I as [I1 I2 I3 I4].
  unfold step. destruct (nth_error (d_actors st) i) as [a|] eqn:Ea; [|exact I].
  assert (Hin : In a (d_actors st)) by (eapply nth_error_In; eauto).
  destruct a as [[] c w|[] w|s g [] w]; cbn [fst snd];
  repeat match goal with
         | |- context [match d_term st with _ => _ end] => destruct (d_term st) eqn:?
         | |- context [match d_done st with _ => _ end] => destruct (d_done st) eqn:?
         | |- context [match done_of ?s st with _ => _ end] => destruct (done_of s st) eqn:?
         | |- context [if existsb ?f ?l then _ else _] => destruct (existsb f l) eqn:?
         end; cbn [fst snd];
  try exact I;
  try (apply inv_actor_only; [exact I|cbn; auto|intros; discriminate]).
  - (* collect: residual of the generic case *) intros q Hq. match goal with H : d_done st = _ |- _ => rewrite H end. exact Hq.
  - (* bundle file lists *)
    match goal with |- Inv (set_actor i ?a ?st') => assert (I' : Inv st') end.
    { constructor; cbn; auto. }
    apply inv_actor_only; [exact I'| |intros; discriminate]. apply (I3 _ Hin).
  - (* bundle descriptor *)
    match goal with |- Inv (set_actor i ?a ?st') => assert (I' : Inv st') end.
    { constructor; cbn; auto. intros b srcs q [Hb|Hb] Hq; [|eauto]. inversion Hb; subst. apply (I3 _ Hin). exact Hq. }
    apply inv_actor_only; [exact I'| |intros; discriminate]. apply (I3 _ Hin).
  - (* diamond done *)
    match goal with |- Inv (set_actor i ?a ?st') => assert (I' : Inv st') end.
    { constructor; cbn; auto. }
    apply inv_actor_only; [exact I'|cbn; auto|intros; discriminate].
  - (* cancel *)
    match goal with |- Inv (set_actor i ?a ?st') => assert (I' : Inv st') end.
    { constructor; cbn; auto. }
    apply inv_actor_only; [exact I'|cbn; auto|intros; discriminate].
  - (* split running descriptor *)
    match goal with |- Inv (set_actor i ?a ?st') => assert (I' : Inv st') end.
    { constructor; cbn; auto. }
    apply inv_actor_only; [exact I'|cbn; auto|intros; discriminate].
  - (* split file lists *)
    match goal with |- Inv (set_actor i ?a ?st') => assert (I' : Inv st') end.
    { constructor; cbn [d_done d_lists d_bundles d_actors]; auto.
      - intros q Hq. right. auto.
      - intros s0 g0 H. right. auto. }
    apply inv_actor_only; [exact I'|cbn; auto|]. intros s0 g0 w0 E. inversion E; subst. cbn. now left.
  - (* split done *)
    match goal with |- Inv (set_actor i ?a ?st') => assert (I' : Inv st') end.
    { constructor; cbn [d_done d_lists d_bundles d_actors].
      - intros q [<-|Hq]; [|auto]. apply I4. destruct w; auto.
      - intros b srcs q Hb Hq. right. eauto.
      - intros x Hx. eapply sources_ok_mono; [|apply (I3 x Hx)]. intros q Hq. now right.
      - exact I4. }
    apply inv_actor_only; [exact I'|cbn; auto|intros; discriminate].
Qed.

Lemma crash_inv : forall i st, Inv st -> Inv (crash i st).
Proof.
  intros i st I. unfold crash. destruct (nth_error (d_actors st) i) as [[]|]; try exact I;
    (apply inv_actor_only; [exact I|cbn; auto|intros; discriminate]).
Qed.

Theorem run_inv : forall es st, Inv st -> Inv (run es st).
Proof.
  induction es as [|[i|i] es IH]; intros st I; [exact I| |]; unfold run; cbn [fold_left apply_event]; apply IH;
    [now apply step_inv|now apply crash_inv].
Qed.

Lemma init_inv : forall actors, (forall a, In a actors -> exists a', next_action a = Some KReady /\ a' = a) -> Inv (init actors).
Proof.
  intros actors H. constructor; cbn; try tauto.
  - intros a Ha. destruct (H a Ha) as [_ [Hn _]]. destruct a as [[] c w| |]; cbn in *; auto; discriminate.
  - intros s g [Ha|Ha]; destruct (H _ Ha) as [_ [Hn _]]; discriminate.
Qed.

(* ---- consequences for every reachable state ---- *)
Definition all_fresh (actors : list actor) : Prop := forall a, In a actors -> next_action a = Some KReady.

Lemma init_inv' : forall actors, all_fresh actors -> Inv (init actors).
Proof. intros actors H. apply init_inv. intros a Ha. exists a. auto. Qed.

(* every bundle descriptor names only runs recorded as completing their split, whose file lists are complete *)
Theorem bundle_sources_recorded : forall actors es b srcs s g, all_fresh actors ->
  In (b, srcs) (d_bundles (run es (init actors))) -> In (s, g) srcs ->
  In (s, g) (d_done (run es (init actors))) /\ In (s, g) (d_lists (run es (init actors))).
Proof.
  intros actors es b srcs s g Hf Hb Hs. pose proof (run_inv es _ (init_inv' _ Hf)) as [I1 I2 _ _].
  split; [eapply I2; eauto|apply I1; eapply I2; eauto].
Qed.

(* bundle descriptors are never removed or changed *)
Lemma step_bundles_stable : forall i st b, In b (d_bundles st) -> In b (d_bundles (fst (step i st))).
Proof. intros i st b H. step_cases i st; cbn [d_bundles set_actor]; auto; try (now right). Qed.

Theorem bundles_stable : forall es st b, In b (d_bundles st) -> In b (d_bundles (run es st)).
Proof.
  induction es as [|[i|i] es IH]; intros st b H; [exact H| |]; unfold run; cbn [fold_left apply_event]; apply IH.
  - now apply step_bundles_stable.
  - destruct (crash_store i st) as [_ [_ [_ [_ [_ E]]]]]. now rewrite E.
Qed.

(* ---- actors are addressed by position ---- *)
Lemma nth_set_actor_same : forall i a st, i < List.length (d_actors st) -> nth_error (d_actors (set_actor i a st)) i = Some a.
Proof.
  intros i a st H. unfold set_actor. cbn [d_actors]. rewrite nth_error_app2; rewrite firstn_length_le by lia; [|lia].
  now rewrite Nat.sub_diag.
Qed.

Lemma nth_replace_other : forall {A} (l : list A) i j a, i < List.length l -> i <> j ->
  nth_error (firstn i l ++ a :: skipn (S i) l) j = nth_error l j.
Proof.
  induction l as [|x l IH]; intros i j a Hi Hij; [cbn in Hi; lia|].
  destruct i as [|i]; destruct j as [|j]; cbn; try reflexivity; try lia.
  apply IH; cbn in Hi; lia.
Qed.

Lemma nth_set_actor_other : forall i j a st, i < List.length (d_actors st) -> i <> j ->
  nth_error (d_actors (set_actor i a st)) j = nth_error (d_actors st) j.
Proof. intros. unfold set_actor. cbn [d_actors]. now apply nth_replace_other. Qed.

(* ---- commits, cancellations and new split runs are refused once the diamond is terminated ---- *)
Theorem refused_once_terminated : forall i st a t, d_term st = Some t -> nth_error (d_actors st) i = Some a ->
  next_action a = Some KReady ->
  snd (step i st) = false /\ store_eq (fst (step i st)) st /\
  exists a', nth_error (d_actors (fst (step i st))) i = Some a' /\ next_action a' = None.
Proof.
  intros i st a t Ht Ha Hn. assert (Hi : i < List.length (d_actors st)) by (apply nth_error_Some; congruence).
  unfold step. rewrite Ha. destruct a as [[] c w|[] w|s g [] w]; try discriminate Hn; rewrite Ht; cbn [fst snd];
    (split; [reflexivity|split; [apply set_actor_store|eexists; split; [now apply nth_set_actor_same|reflexivity]]]).
Qed.

(* ---- a completed split cannot be rerun ---- *)
Theorem rerun_refused : forall i st s g w g0, done_of s st = Some g0 -> nth_error (d_actors st) i = Some (ASplit s g SReadSplit w) ->
  snd (step i st) = false /\ store_eq (fst (step i st)) st /\
  nth_error (d_actors (fst (step i st))) i = Some (ASplit s g SFin w).
Proof.
  intros i st s g w g0 Hd Ha. assert (Hi : i < List.length (d_actors st)) by (apply nth_error_Some; congruence).
  unfold step. rewrite Ha, Hd. cbn [fst snd]. split; [reflexivity|]. split; [apply set_actor_store|now apply nth_set_actor_same].
Qed.

(* ---- a commit that starts after the diamond is terminated never produces a bundle ---- *)
Definition quiet_commit (i : nat) (st : dstate) : Prop :=
  d_term st <> None /\
  (exists c w, nth_error (d_actors st) i = Some (ACommit CReady c w) \/ nth_error (d_actors st) i = Some (ACommit CFin c w)) /\
  (forall srcs, ~ In (i, srcs) (d_bundles st)).

Lemma quiet_commit_event : forall e i st, quiet_commit i st -> quiet_commit i (apply_event st e).
Proof.
  intros e i st [Ht [[c [w Ha]] Hb]].
  assert (Hi : i < List.length (d_actors st)) by (destruct Ha as [Ha|Ha]; apply nth_error_Some; congruence).
  destruct (d_term st) as [t|] eqn:Et; [|congruence].
  split; [rewrite (event_term_stable e st t Et); discriminate|].
  destruct e as [j|j]; cbn [apply_event].
  - destruct (Nat.eq_dec j i) as [->|Hj].
    + (* the quiet commit itself moves: refused, or already finished *)
      unfold step. destruct Ha as [Ha|Ha]; rewrite Ha; rewrite ?Et; cbn [fst].
      * split; [exists c, w; right; now apply nth_set_actor_same|exact Hb].
      * split; [exists c, w; now right|exact Hb].
    + (* another actor moves: it cannot write a bundle under index i *)
      split.
      * exists c, w. unfold step. destruct (nth_error (d_actors st) j) as [a|] eqn:Ej; [|exact Ha].
        destruct a as [[] c' w'|[] w'|s g [] w']; cbn [fst];
        repeat match goal with
               | |- context [match d_term st with _ => _ end] => rewrite Et
               | |- context [match d_done st with _ => _ end] => destruct (d_done st) eqn:?
               | |- context [match done_of ?s st with _ => _ end] => destruct (done_of s st) eqn:?
               | |- context [if existsb ?f ?l then _ else _] => destruct (existsb f l) eqn:?
               end; cbn [fst]; try exact Ha;
        try (rewrite nth_set_actor_other; cbn [d_actors]; [exact Ha|apply nth_error_Some; congruence|exact Hj]).
      * intros srcs Hin. unfold step in Hin. destruct (nth_error (d_actors st) j) as [a|] eqn:Ej; [|now apply (Hb srcs)].
        destruct a as [[] c' w'|[] w'|s g [] w']; cbn [fst] in Hin;
        repeat match type of Hin with
               | context [match d_term st with _ => _ end] => rewrite Et in Hin
               | context [match d_done st with _ => _ end] => destruct (d_done st) eqn:?
               | context [match done_of ?s st with _ => _ end] => destruct (done_of s st) eqn:?
               | context [if existsb ?f ?l then _ else _] => destruct (existsb f l) eqn:?
               end; cbn [fst d_bundles set_actor] in Hin; try (now apply (Hb srcs)).
        destruct Hin as [Hin|Hin]; [inversion Hin; congruence|now apply (Hb srcs)].
  - destruct (crash_store j st) as [_ [_ [_ [_ [_ Eb]]]]]. split; [|intros srcs; rewrite Eb; apply Hb].
    exists c, w. unfold crash. destruct (nth_error (d_actors st) j) as [a|] eqn:Ej; [|exact Ha].
    destruct (Nat.eq_dec j i) as [->|Hj].
    + destruct Ha as [Ha|Ha]; rewrite Ha in Ej; inversion Ej; subst a; right; now apply nth_set_actor_same.
    + destruct a; (rewrite nth_set_actor_other; [exact Ha|apply nth_error_Some; congruence|exact Hj]).
Qed.

Theorem late_commit_writes_no_bundle : forall es i st t c w, d_term st = Some t ->
  nth_error (d_actors st) i = Some (ACommit CReady c w) -> (forall srcs, ~ In (i, srcs) (d_bundles st)) ->
  forall srcs, ~ In (i, srcs) (d_bundles (run es st)).
Proof.
  intros es i st t c w Ht Ha Hb.
  assert (Q : quiet_commit i st) by (split; [congruence|split; [exists c, w; now left|exact Hb]]).
  clear Ht Ha Hb. revert st Q. induction es as [|e es IH]; intros st Q; [apply Q|].
  unfold run. cbn [fold_left]. apply IH. now apply quiet_commit_event.
Qed.

(* ---- at most one bundle: false of the protocol as implemented ---- *)
(* two commits that both pass the ready check before either writes the final descriptor *)
Theorem at_most_one_bundle_refuted :
  exists actors es, all_fresh actors /\ List.length (d_bundles (run es (init actors))) = 2.
Proof.
  exists [fresh_split 0 0; fresh_commit; fresh_commit].
  exists (map EStep [0; 0; 0; 0; 0; 1; 2; 1; 2; 1; 2; 1; 2; 1; 2]).
  split; [intros a [<-|[<-|[<-|[]]]]; reflexivity|vm_compute; reflexivity].
Qed.

(* a commit interrupted between the bundle descriptor and the final descriptor, then retried *)
Theorem at_most_one_bundle_refuted_by_retry :
  exists actors es, all_fresh actors /\ List.length (d_bundles (run es (init actors))) = 2.
Proof.
  exists [fresh_split 0 0; fresh_commit; fresh_commit].
  exists (map EStep [0; 0; 0; 0; 0; 1; 1; 1; 1] ++ [ECrash 1] ++ map EStep [2; 2; 2; 2; 2]).
  split; [intros a [<-|[<-|[<-|[]]]]; reflexivity|vm_compute; reflexivity].
Qed.
