(* Sequential Read: for every sequence of buffer sizes and every legal behaviour of the leaf
   streams, a read that reaches EOF without error has delivered exactly the content
   (whatever the store holds, under collision freedom). *)
From Coq Require Import List NArith Arith Bool Lia.
From DM Require Import Model.Cafs Proofs.CafsWriter Proofs.CafsStore Proofs.CafsReadAt.
Import ListNotations.

Lemma leaf_read_spec : forall c space o out eof rem,
  leaf_read c space o = (out, eof, rem) ->
  c = out ++ rem /\ (eof = true -> rem = []) /\ length out <= space /\
  (c <> [] -> 0 < space -> 0 < length out).
Proof.
  intros c space o out eof rem Hl. unfold leaf_read in Hl.
  destruct c as [|x c'] eqn:Ec.
  - inversion Hl; subst. cbn. repeat split; auto; try lia. congruence.
  - rewrite <- Ec in *. destruct (Nat.eqb_spec space 0) as [Es|Es].
    + inversion Hl; subst. cbn. repeat split; auto; try lia; discriminate.
    + set (n := Nat.max 1 (Nat.min (fst o) (Nat.min space (length c)))) in *.
      assert (Hc : 0 < length c) by (subst c; cbn; lia).
      assert (Hn : 1 <= n <= space /\ n <= length c) by (unfold n; lia).
      inversion Hl; subst out rem. clear Hl.
      split; [symmetry; apply firstn_skipn|]. split.
      * intros He. destruct (skipn n c) eqn:E; [reflexivity|]. subst eof. discriminate.
      * rewrite firstn_length. split; lia.
Qed.

Lemma skipn_cons_nth : forall (l : list (list N)) i, i < length l -> skipn i l = nth i l [] :: skipn (S i) l.
Proof.
  induction l as [|x l IH]; intros i Hi; [cbn in Hi; lia|].
  destruct i; [reflexivity|]. cbn [skipn nth]. apply IH. cbn in Hi. lia.
Qed.

Lemma firstn_S_nth : forall (l : list (list N)) i, i < length l -> firstn (S i) l = firstn i l ++ [nth i l []].
Proof.
  induction l as [|x l IH]; intros i Hi; [cbn in Hi; lia|].
  destruct i; [reflexivity|]. cbn [firstn nth app]. f_equal. apply IH. cbn in Hi. lia.
Qed.

Section ReadSeq.
Variable H : N -> N -> N -> bool -> list N -> list N.
Variable L : nat.
Hypothesis Lpos : 0 < L.
Hypothesis H_len : forall l o d b x, length (H l o d b x) = KS.

Variable s : bstore.
Variable lv : list (list N).
Hypothesis Hshape : shape L lv.
Hypothesis H_nc : nocoll H L lv.
Let n := length lv.

(* reader state st, having delivered D so far, is consistent with the honest leaves lv *)
Definition inv (st : rst) (D : list N) : Prop :=
  let i := r_idx st in
  i <= n /\ r_todo st = keys_of_leaves H L i (skipn i lv) /\
  match r_cur st with
  | None => r_leaf st = [] /\ D = concat (firstn i lv) /\ (r_last st = true -> i = n) /\
            (i = n -> r_last st = true \/ n = 0)
  | Some rem => i < n /\ D = concat (firstn i lv) ++ r_leaf st /\
                lookup (hkey H L i (nth i lv [])) s = Some (r_leaf st ++ rem)
  end.

Lemma leaf_is_last_or_full : forall i, i < n -> length (nth i lv []) <> L -> S i = n.
Proof.
  intros i Hi Hne. unfold n in *. clear - Hshape Hi Hne Lpos. revert i Hi Hne.
  induction lv as [|d l IH]; intros i Hi Hne; [cbn in Hi; lia|].
  destruct (shape_tail L Lpos d l Hshape) as [Hs' [Hd Hfull]].
  destruct i as [|i]; cbn [nth length] in *.
  - destruct l; [reflexivity|]. exfalso. apply Hne, Hfull. discriminate.
  - f_equal. apply IH; auto. lia.
Qed.

Lemma read_loop_sound : forall fuel st k acc orc D res st' orc',
  inv st (D ++ acc) ->
  read_loop H L fuel s n st k acc orc = (res, st', orc') ->
  match res with
  | RData a => inv st' (D ++ a)
  | REof a => D ++ a = concat lv
  | _ => True
  end.
Proof.
  induction fuel as [|f IH]; intros st k acc orc D res st' orc' Hinv Hr.
  - cbn in Hr. inversion Hr; subst. exact I.
  - cbn [read_loop] in Hr. destruct Hinv as [Hin [Htodo Hcur]].
    destruct (r_todo st) as [|key rest] eqn:Et; [inversion Hr; subst; exact I|].
    (* the current index is below n *)
    assert (Hi : r_idx st < n).
    { destruct (le_lt_dec n (r_idx st)); [|assumption].
      rewrite skipn_all2 in Htodo by (unfold n in *; lia). discriminate. }
    rewrite (skipn_cons_nth lv (r_idx st) Hi), keys_of_leaves_cons in Htodo.
    injection Htodo as Hkey Hrest. set (i := r_idx st) in *. set (d := nth i lv []) in *.
    (* the blob being read and what has been delivered of it *)
    assert (Hblob : exists c, (match r_cur st with Some c0 => Some c0 | None => lookup key s end) = Some c ->
                     True) by (exists []; auto).
    clear Hblob.
    destruct (match r_cur st with Some c0 => Some c0 | None => lookup key s end) as [c|] eqn:Ec;
      [|inversion Hr; subst; exact I].
    assert (Hc : lookup (hkey H L i d) s = Some (r_leaf st ++ c) /\ D ++ acc = concat (firstn i lv) ++ r_leaf st).
    { destruct (r_cur st) as [rem|] eqn:Er.
      - inversion Ec; subst c. destruct Hcur as [_ [HD Hl]]. auto.
      - destruct Hcur as [Hleaf [HD _]]. rewrite Hleaf. cbn [app]. rewrite app_nil_r. subst key. auto. }
    destruct Hc as [Hlook HD].
    destruct (leaf_read c (k - length acc) (match orc with x :: _ => x | [] => (k, false) end)) as [[out eof] rem'] eqn:Elr.
    destruct (leaf_read_spec _ _ _ _ _ _ Elr) as [Hsplit [Heof [Hspace _]]].
    destruct eof.
    + (* end of this leaf: verification *)
      specialize (Heof eq_refl). subst rem'. rewrite app_nil_r in Hsplit. subst c.
      destruct (verify_leaf H L n i key (r_leaf st ++ out)) eqn:Ev; cbn [negb] in Hr;
        [|inversion Hr; subst; exact I].
      assert (Hd : r_leaf st ++ out = d).
      { subst key. apply (verify_honest H L lv n i d _ H_nc); auto.
        - unfold d. apply nth_error_nth'. exact Hi.
        - intros Hne. now apply leaf_is_last_or_full. }
      assert (HD' : D ++ acc ++ out = concat (firstn (S i) lv)).
      { rewrite app_assoc, HD, <- app_assoc, Hd. rewrite firstn_S_nth by assumption.
        rewrite concat_app. cbn. now rewrite app_nil_r. }
      destruct (Nat.eqb_spec (S i) n) as [Elast|Elast].
      * destruct (Nat.eqb (length out) k); inversion Hr; subst res st' orc'.
        -- unfold inv. cbn [r_idx r_todo r_cur r_leaf r_last tl].
           split; [lia|]. split; [exact Hrest|]. split; [reflexivity|]. split; [exact HD'|]. split; [auto|]. intros _. left. reflexivity.
        -- rewrite HD', Elast. unfold n. now rewrite firstn_all.
      * apply (IH _ _ _ _ D) in Hr; [exact Hr|].
        unfold inv. cbn [r_idx r_todo r_cur r_leaf r_last tl].
        split; [lia|]. split; [exact Hrest|]. split; [reflexivity|]. split; [exact HD'|]. split.
        -- intros Hf. discriminate.
        -- intros Hf. contradiction.
    + (* more of this leaf remains *)
      assert (Hinv' : inv {| r_todo := key :: rest; r_idx := i; r_cur := Some rem';
                             r_leaf := r_leaf st ++ out; r_last := r_last st |} (D ++ acc ++ out)).
      { unfold inv. cbn [r_idx r_todo r_cur r_leaf r_last]. fold i.
        split; [lia|]. split.
        - rewrite (skipn_cons_nth lv i Hi), keys_of_leaves_cons. fold d. rewrite <- Hkey. f_equal. exact Hrest.
        - split; [exact Hi|]. split.
          + rewrite app_assoc, HD. now rewrite <- app_assoc.
          + fold d. rewrite <- app_assoc, <- Hsplit. exact Hlook. }
      destruct (Nat.leb k (length (acc ++ out))).
      * inversion Hr; subst res st' orc'. exact Hinv'.
      * apply (IH _ _ _ _ D) in Hr; [exact Hr|exact Hinv'].
Qed.

Lemma read_call_sound : forall st k orc D res st' orc',
  inv st D -> read_call H L s n st k orc = (res, st', orc') ->
  match res with
  | RData a => inv st' (D ++ a)
  | REof a => D ++ a = concat lv
  | _ => True
  end.
Proof.
  intros st k orc D res st' orc' Hinv Hr. unfold read_call in Hr.
  destruct (r_cur st) as [rem|] eqn:Ec.
  - destruct (Nat.eqb_spec n 0) as [En|En].
    + destruct Hinv as [_ [_ Hc]]. rewrite Ec in Hc. lia.
    + apply (read_loop_sound _ _ _ _ _ D) in Hr; [exact Hr|now rewrite app_nil_r].
  - destruct (r_last st) eqn:El.
    + destruct Hinv as [_ [_ Hc]]. rewrite Ec in Hc. destruct Hc as [_ [HD [Hl _]]].
      inversion Hr; subst res. rewrite app_nil_r, HD, (Hl El). unfold n. now rewrite firstn_all.
    + destruct (Nat.eqb_spec n 0) as [En|En].
      * destruct Hinv as [Hi [_ Hc]]. rewrite Ec in Hc. destruct Hc as [_ [HD _]].
        inversion Hr; subst res. rewrite app_nil_r, HD. unfold n in En.
        destruct lv; [|discriminate]. now rewrite firstn_nil.
      * apply (read_loop_sound _ _ _ _ _ D) in Hr; [exact Hr|now rewrite app_nil_r].
Qed.

Lemma read_all_sound : forall bufs st orc D r,
  inv st D -> read_all H L s n st bufs orc D = Ok r -> r = concat lv.
Proof.
  induction bufs as [|k bufs IH]; intros st orc D r Hinv Hr; [discriminate|].
  cbn [read_all] in Hr.
  destruct (read_call H L s n st k orc) as [[res st'] orc'] eqn:Ec.
  pose proof (read_call_sound _ _ _ _ _ _ _ Hinv Ec) as Hs.
  destruct res; try discriminate.
  - eapply IH; eauto.
  - inversion Hr; subst. exact Hs.
Qed.

End ReadSeq.

Section ReadSeqTop.
Variable H : N -> N -> N -> bool -> list N -> list N.
Variable L : nat.
Hypothesis Lpos : 0 < L.
Hypothesis H_len : forall l o d b x, length (H l o d b x) = KS.

Theorem read_seq_sound : forall s c bufs orc r, nocoll H L (split_leaves L c) ->
  read_seq H L (tree_key H L c) s bufs orc = Ok r -> r = c.
Proof.
  intros s c bufs orc r Hnc Hr. unfold read_seq in Hr.
  destruct (leaves_for_hash H L (tree_key H L c) s) as [ks|] eqn:El; [|discriminate].
  apply (leaves_for_hash_sound H L Lpos H_len) in El; [|exact Hnc]. subst ks.
  rewrite keys_length in Hr.
  transitivity (concat (split_leaves L c)); [|apply (split_leaves_concat L Lpos c)].
  eapply (read_all_sound H L Lpos s (split_leaves L c) (split_shape L Lpos c) Hnc); [|exact Hr].
  unfold inv. cbn. split; [lia|]. split; [reflexivity|]. split; [reflexivity|]. split; [reflexivity|]. split; [discriminate|]. intros E. right. now rewrite <- E.
Qed.

End ReadSeqTop.
