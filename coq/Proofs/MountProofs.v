(* C17: the children of a directory are exactly what the paths of the bundle imply, once each; a
   listing resumed at the offsets returned yields every child exactly once; a read returns the bytes
   of its range. *)
From Coq Require Import List String Ascii NArith Bool Arith Lia.
From DM Require Import Base.Util Base.Str Model.ListOps Model.Mount Proofs.MergeProofs.
Import ListNotations.
Open Scope list_scope.

Lemma uniq_names_In : forall l n, (exists b, In (n, b) (uniq_names l)) <-> (exists b, In (n, b) l).
Proof.
  induction l as [|[m c] l IH]; intros n; cbn [uniq_names]; [tauto|].
  split.
  - intros [b [H|H]]; [exists b; now left|]. apply filter_In in H. destruct H as [H _].
    destruct (proj1 (IH n) (ex_intro _ b H)) as [b' Hb']. exists b'. now right.
  - intros [b [H|H]]; [exists b; now left|].
    destruct (String.eqb m n) eqn:E.
    + apply String.eqb_eq in E. subst. exists c. now left.
    + destruct (proj2 (IH n) (ex_intro _ b H)) as [b' Hb']. exists b'. right. apply filter_In. split; [exact Hb'|].
      cbn. now rewrite E.
Qed.

Lemma uniq_names_nodup : forall l, NoDup (map fst (uniq_names l)).
Proof.
  induction l as [|[m c] l IH]; cbn [uniq_names map fst]; constructor.
  - intros H. apply in_map_iff in H. destruct H as [[m' c'] [E H]]. cbn in E. subst m'.
    apply filter_In in H. destruct H as [_ H]. cbn in H. rewrite String.eqb_refl in H. discriminate.
  - clear -IH. induction (uniq_names l) as [|[x y] t IHt]; cbn; [constructor|].
    cbn [map fst] in IH. apply NoDup_cons_iff in IH. destruct IH as [Hx Ht].
    destruct (negb (String.eqb m x)); cbn [map fst]; [|now apply IHt].
    constructor; [|now apply IHt]. intros H. apply Hx. apply in_map_iff in H. destruct H as [e [E He]].
    apply filter_In in He. apply in_map_iff. exists e. tauto.
Qed.

(* no name is listed twice *)
Theorem children_nodup : forall d paths, NoDup (map fst (children d paths)).
Proof. intros. unfold children. apply uniq_names_nodup. Qed.

Lemma is_prefix_app : forall d p, is_prefix d p = true <-> exists rest, p = d ++ rest.
Proof.
  induction d as [|x d IH]; intros p; cbn [is_prefix].
  - split; [intros _; now exists p|reflexivity].
  - destruct p as [|y p]; [split; [discriminate|intros [r H]; discriminate]|].
    rewrite andb_true_iff, String.eqb_eq, IH. split.
    + intros [-> [r ->]]. now exists r.
    + intros [r H]. inversion H. split; [reflexivity|now exists r].
Qed.

Lemma skipn_app_exact : forall {A} (d r : list A), skipn (List.length d) (d ++ r) = r.
Proof. induction d; intros; cbn; auto. Qed.

(* a name is listed in a directory exactly when some file of the bundle lies at or below it *)
Theorem children_exact : forall d paths n,
  (exists b, In (n, b) (children d paths)) <-> (exists p, In p paths /\ is_prefix (d ++ [n]) p = true).
Proof.
  intros d paths n. unfold children. rewrite uniq_names_In. split.
  - intros [b H]. apply omap_In in H. destruct H as [p [Hp Hc]]. exists p. split; [exact Hp|].
    unfold child_of in Hc. destruct (is_prefix d p) eqn:E; [|discriminate].
    apply is_prefix_app in E. destruct E as [r ->]. rewrite skipn_app_exact in Hc.
    destruct r as [|m r]; [discriminate|]. inversion Hc; subst. apply is_prefix_app. exists r. now rewrite <- app_assoc.
  - intros [p [Hp H]]. apply is_prefix_app in H. destruct H as [r ->]. rewrite <- app_assoc in Hp. cbn [app] in Hp.
    exists (match r with [] => false | _ => true end). apply omap_In. exists (d ++ n :: r). split; [exact Hp|].
    unfold child_of. assert (E : is_prefix d (d ++ n :: r) = true) by (apply is_prefix_app; eauto).
    now rewrite E, skipn_app_exact.
Qed.

(* ---- listings resumed at the offsets returned ---- *)
Fixpoint resume {A} (l : list A) (off : nat) (ks : list nat) : list A :=
  match ks with
  | [] => []
  | k :: t => readdir_from l off k ++ resume l (off + Nat.min k (List.length l - off)) t
  end.

Lemma skipn_skipn' : forall {A} (l : list A) a b, skipn a (skipn b l) = skipn (b + a) l.
Proof.
  intros A l a b. revert l. induction b as [|b IH]; intros l; [reflexivity|].
  destruct l as [|x l]; cbn [skipn plus]; [now destruct a|apply IH].
Qed.

Lemma nth_firstn_lt' : forall {A} (l : list A) n i d, i < n -> nth i (firstn n l) d = nth i l d.
Proof.
  intros A l. induction l as [|x l IH]; intros n i d H; [now rewrite firstn_nil|].
  destruct n as [|n]; [lia|]. destruct i as [|i]; cbn; [reflexivity|]. apply IH. lia.
Qed.

Lemma nth_skipn' : forall {A} (l : list A) off i d, nth i (skipn off l) d = nth (off + i) l d.
Proof.
  intros A l off. revert l. induction off as [|off IH]; intros l i d; [reflexivity|].
  destruct l as [|x l]; cbn [skipn plus nth]; [now destruct i|apply IH].
Qed.

Lemma firstn_skipn_split : forall {A} (l : list A) off k,
  skipn off l = readdir_from l off k ++ skipn (off + Nat.min k (List.length l - off)) l.
Proof.
  intros A l off k. unfold readdir_from. rewrite <- (firstn_skipn k (skipn off l)) at 1. f_equal.
  rewrite skipn_skipn'. destruct (Nat.le_ge_cases k (List.length l - off)) as [H|H].
  - rewrite Nat.min_l by exact H. reflexivity.
  - rewrite Nat.min_r by exact H. rewrite !skipn_all2; auto; lia.
Qed.

(* whatever the sizes of the caller's buffers: the chunks, in order, are a prefix of the remaining
   children, and all of them once the buffers sum up to enough *)
Theorem resume_complete : forall {A} (l : list A) ks off,
  List.length l - off <= fold_right Nat.add 0 ks -> resume l off ks = skipn off l.
Proof.
  intros A l ks. induction ks as [|k ks IH]; intros off H; cbn [resume fold_right] in *.
  - rewrite skipn_all2; [reflexivity|lia].
  - rewrite (firstn_skipn_split l off k). f_equal. apply IH.
    destruct (Nat.le_ge_cases k (List.length l - off)) as [Hk|Hk]; [rewrite Nat.min_l by exact Hk|rewrite Nat.min_r by exact Hk]; lia.
Qed.

Corollary listing_from_start_complete : forall {A} (l : list A) ks,
  List.length l <= fold_right Nat.add 0 ks -> resume l 0 ks = l.
Proof. intros A l ks H. rewrite resume_complete by lia. reflexivity. Qed.

(* ---- reads ---- *)
Theorem read_length : forall data off len, List.length (read_bytes data off len) = Nat.min len (List.length data - off).
Proof. intros. unfold read_bytes. rewrite firstn_length, skipn_length. reflexivity. Qed.

Theorem read_nth : forall data off len i, i < List.length (read_bytes data off len) ->
  nth i (read_bytes data off len) 0%N = nth (off + i) data 0%N.
Proof.
  intros data off len i H. rewrite read_length in H. unfold read_bytes.
  rewrite nth_firstn_lt' by lia. apply nth_skipn'.
Qed.
