(* C09, rename: every committed bundle of the old name is found intact under the new name. *)
From Coq Require Import List String Ascii NArith Bool Arith Lia.
From DM Require Import Base.Str Gen.Paths Model.PathsParse Model.PathsCheck Model.Meta Model.Bundle Model.ListOps
  Model.RepoOps Proofs.PathsProofs Proofs.RepoProofs Proofs.AtomicProofs Proofs.DeleteFiles.
Import ListNotations.
Open Scope list_scope.

(* keys of one repository's bundles are not keys of another's *)
Lemma other_repo_not_under : forall r r' id id' k, noslash r = true -> noslash r' = true -> r <> r' ->
  under_bundle r' id' k = true -> under_bundle r id k = false.
Proof.
  intros r r' id id' k Hr Hr' Hne H. destruct (under_bundle r id k) eqn:E0; [|reflexivity]. exfalso. apply Hne.
  unfold under_bundle, GetArchivePathPrefixToBundles in *. apply starts_with_drop in H. rewrite H in E0.
  rewrite !app_assoc_s in E0. rewrite sw_app_l in E0.
  rewrite <- !app_assoc_s in E0. apply sw_app_weaken in E0. apply sw_app_weaken in E0.
  rewrite !app_assoc_s in E0.
  eapply sw_elem; eauto.
Qed.

Lemma under_not_repo_descriptor : forall r id k r0, under_bundle r id k = true -> k <> GetArchivePathToRepoDescriptor r0.
Proof.
  intros r id k r0 H E. subst k. unfold under_bundle, GetArchivePathPrefixToBundles, GetArchivePathToRepoDescriptor, getArchivePathToBundles in H.
  cbn in H. discriminate.
Qed.

Notation fl r id j := (GetArchivePathToBundleFileList r id (N.of_nat j)).

Lemma mget_mput_fresh : forall k v e m, mget k m = None -> mget k (snd (mput k v e m)) = Some v.
Proof. intros k v e m H. unfold mput. rewrite H. cbn. now rewrite String.eqb_refl. Qed.

Lemma copy_indexes_frame : forall n r r' id i m k, under_bundle r' id k = false ->
  mget k (copy_indexes n r r' id (N.of_nat i) m) = mget k m.
Proof.
  induction n as [|n IH]; intros r r' id i m k Hk; cbn [copy_indexes]; [reflexivity|].
  rewrite N_of_nat_S, IH by exact Hk.
  destruct (mget (GetArchivePathToBundleFileList r id (N.of_nat i)) m); [|reflexivity].
  apply mget_mput_other. intros E. rewrite <- E, filelist_under in Hk. discriminate.
Qed.

Lemma copy_indexes_frame_low : forall n r r' id i0 m i, i < i0 ->
  mget (fl r' id i) (copy_indexes n r r' id (N.of_nat i0) m) = mget (fl r' id i) m.
Proof.
  induction n as [|n IH]; intros r r' id i0 m i Hi; cbn [copy_indexes]; [reflexivity|].
  rewrite N_of_nat_S, IH by lia.
  destruct (mget (GetArchivePathToBundleFileList r id (N.of_nat i0)) m); [|reflexivity].
  apply mget_mput_other. intros E. apply filelist_key_inj in E. lia.
Qed.

Lemma copy_indexes_copies : forall n r r' id i m, noslash r = true -> noslash r' = true -> r <> r' ->
  (forall j, j < n -> mget (fl r' id (i + j)) m = None) ->
  forall j, j < n -> mget (fl r' id (i + j)) (copy_indexes n r r' id (N.of_nat i) m) = mget (fl r id (i + j)) m.
Proof.
  induction n as [|n IH]; intros r r' id i m Hr Hr' Hne Hfree j Hj; [lia|].
  cbn [copy_indexes]. rewrite N_of_nat_S.
  set (m' := match mget (fl r id i) m with
             | Some v => snd (mput (fl r' id i) v true m)
             | None => m end).
  assert (Hsrc : forall x, mget (fl r id x) m' = mget (fl r id x) m).
  { intros x. unfold m'. destruct (mget (fl r id i) m); [|reflexivity].
    apply mget_mput_other. intros E.
    pose proof (filelist_under r id (N.of_nat x)) as U. rewrite <- E in U.
    rewrite (other_repo_not_under r r' id id _ Hr Hr' Hne (filelist_under r' id (N.of_nat i))) in U. discriminate. }
  destruct j as [|j].
  - rewrite Nat.add_0_r. rewrite copy_indexes_frame_low by lia.
    specialize (Hfree 0 ltac:(lia)). rewrite Nat.add_0_r in Hfree.
    unfold m'. destruct (mget (fl r id i) m) as [v|] eqn:Es; [now apply mget_mput_fresh|exact Hfree].
  - assert (Hfree' : forall x, x < n -> mget (fl r' id (S i + x)) m' = None).
    { intros x Hx. replace (S i + x) with (i + S x) by lia. unfold m'. destruct (mget (fl r id i) m).
      - rewrite mget_mput_other; [apply Hfree; lia|]. intros E. apply filelist_key_inj in E. lia.
      - apply Hfree. lia. }
    replace (i + S j) with (S i + j) by lia.
    rewrite (IH r r' id (S i) m' Hr Hr' Hne Hfree' j ltac:(lia)). apply Hsrc.
Qed.

Lemma copy_indexes_frame_notfl : forall n r r' id i m k, (forall j, k <> GetArchivePathToBundleFileList r' id j) ->
  mget k (copy_indexes n r r' id i m) = mget k m.
Proof.
  induction n as [|n IH]; intros r r' id i m k Hk; cbn [copy_indexes]; [reflexivity|].
  rewrite IH by exact Hk.
  destruct (mget (GetArchivePathToBundleFileList r id i) m); [|reflexivity].
  apply mget_mput_other. intros E. apply (Hk i). now symmetry.
Qed.

(* one bundle of the old repository copied to the new name *)
Definition copy_bundle (r r' : string) (m : mstore) (id : string) : mstore :=
  match mget (GetArchivePathToBundle r id) m with
  | Some (VBundle _ c) =>
      copy_indexes (N.to_nat c) r r' id 0%N (snd (mput (GetArchivePathToBundle r' id) (VBundle id c) true m))
  | _ => m
  end.

Lemma copy_bundle_frame : forall r r' m id k, under_bundle r' id k = false -> mget k (copy_bundle r r' m id) = mget k m.
Proof.
  intros r r' m id k Hk. unfold copy_bundle.
  destruct (mget (GetArchivePathToBundle r id) m) as [[| idb c | | | | |]|]; try reflexivity.
  change 0%N with (N.of_nat 0). rewrite copy_indexes_frame by exact Hk.
  apply mget_mput_other. intros E. rewrite <- E, descriptor_under in Hk. discriminate.
Qed.

Lemma copy_bundle_copies : forall r r' m id ls, noslash r = true -> noslash r' = true -> noslash id = true -> r <> r' ->
  stored r id ls m -> (forall k, under_bundle r' id k = true -> mget k m = None) ->
  stored r' id ls (copy_bundle r r' m id).
Proof.
  intros r r' m id ls Hr Hr' Hid Hne [Hd Hl] Hfree. unfold copy_bundle. rewrite Hd, Nat2N.id.
  set (m0 := snd (mput (GetArchivePathToBundle r' id) (VBundle id (N.of_nat (List.length ls))) true m)).
  assert (Hdk : forall j, GetArchivePathToBundle r' id <> fl r' id j).
  { intros j E0. symmetry in E0. revert E0. now apply filelist_not_descriptor. }
  split.
  - rewrite copy_indexes_frame_notfl by (intros j E0; symmetry in E0; revert E0; now apply filelist_not_descriptor).
    unfold m0. apply mget_mput_fresh. apply Hfree. apply descriptor_under.
  - intros j Hj. change 0%N with (N.of_nat 0). change j with (0 + j).
    rewrite copy_indexes_copies; auto.
    + cbn [plus]. unfold m0. rewrite mget_mput_other; [now apply Hl|].
      intros E. pose proof (descriptor_under r' id) as U. rewrite E in U.
      rewrite (other_repo_not_under r' r id id _ Hr' Hr (fun e => Hne (eq_sym e)) (filelist_under r id (N.of_nat j))) in U. discriminate.
    + intros x Hx. cbn [plus]. unfold m0. rewrite mget_mput_other by apply Hdk. apply Hfree. apply filelist_under.
Qed.

Lemma stored_frame' : forall r id ls m m', (forall k, under_bundle r id k = true -> mget k m' = mget k m) ->
  stored r id ls m -> stored r id ls m'.
Proof. exact stored_frame. Qed.

Lemma copy_bundles_frame : forall ids r r' m k, (forall id, In id ids -> under_bundle r' id k = false) ->
  mget k (fold_left (copy_bundle r r') ids m) = mget k m.
Proof.
  induction ids as [|id ids IH]; intros r r' m k H; cbn [fold_left]; [reflexivity|].
  rewrite IH by (intros; apply H; now right). apply copy_bundle_frame. apply H. now left.
Qed.

Lemma copy_bundles_copies : forall ids r r' m id ls,
  noslash r = true -> noslash r' = true -> r <> r' -> NoDup ids -> (forall x, In x ids -> noslash x = true) ->
  In id ids -> stored r id ls m -> (forall k, under_bundle r' id k = true -> mget k m = None) ->
  stored r' id ls (fold_left (copy_bundle r r') ids m).
Proof.
  induction ids as [|x ids IH]; intros r r' m id ls Hr Hr' Hne Hnd Hns Hin Hst Hfree; [destruct Hin|].
  apply NoDup_cons_iff in Hnd. destruct Hnd as [Hx Hnd]. cbn [fold_left].
  assert (Hidns : noslash id = true) by (apply Hns; exact Hin).
  destruct Hin as [->|Hin].
  - (* copied now; the later copies write under other bundle ids *)
    apply (stored_frame' r' id ls (copy_bundle r r' m id)).
    + intros k Hk. apply copy_bundles_frame. intros y Hy.
      apply (other_bundle_not_under r' y id k); auto.
      * apply Hns. now right.
      * intros ->. contradiction.
    + apply copy_bundle_copies; auto.
  - (* copied later: this step writes under another id of the new repository only *)
    assert (Hxid : x <> id) by (intros ->; contradiction).
    assert (Hxns : noslash x = true) by (apply Hns; now left).
    apply IH; auto.
    + intros y Hy. apply Hns. now right.
    + apply (stored_frame' r id ls m); [|exact Hst]. intros k Hk. apply copy_bundle_frame.
      apply (other_repo_not_under r' r x id k); auto.
    + intros k Hk. rewrite copy_bundle_frame; [now apply Hfree|].
      apply (other_bundle_not_under r' x id k); auto.
Qed.

(* rename: every committed bundle of the old name, stored as the file lists ls, is stored under the
   new name with the same file lists once the rename is over - provided nothing was stored under that
   bundle id of the new name before *)
Theorem rename_moves_bundle : forall r r' w id ls,
  noslash r = true -> noslash r' = true -> r <> r' ->
  repo_exists r w = true -> repo_exists r' w = false ->
  NoDup (bundles_of r w) -> (forall x, In x (bundles_of r w) -> noslash x = true) -> In id (bundles_of r w) ->
  stored r id ls (w_meta w) -> (forall k, under_bundle r' id k = true -> mget k (w_meta w) = None) ->
  stored r' id ls (w_meta (snd (rename_repo r r' w))).
Proof.
  intros r r' w id ls Hr Hr' Hne Hex Hnex Hnd Hns Hin Hst Hfree.
  unfold rename_repo. rewrite Hex, Hnex. cbn [negb orb].
  set (m0 := snd (mput (GetArchivePathToRepoDescriptor r') (VRepo r') true (w_meta w))).
  assert (Hm0 : forall k id0 rr, under_bundle rr id0 k = true -> mget k m0 = mget k (w_meta w)).
  { intros k id0 rr Hk. unfold m0. apply mget_mput_other. intros E. symmetry in E. revert E. eapply under_not_repo_descriptor; eauto. }
  match goal with |- stored _ _ _ (w_meta (snd (delete_repo r ?W))) => set (w1 := W) end.
  apply (stored_frame' r' id ls (w_meta w1)).
  - intros k Hk. apply delete_repo_meta_frame.
    + intros id0. apply (other_repo_not_under r r' id0 id k); auto.
    + eapply under_not_repo_descriptor; eauto.
  - unfold w1. cbn [w_meta].
    change (fold_left _ (bundles_of r w) m0) with (fold_left (copy_bundle r r') (bundles_of r w) m0).
    apply copy_bundles_copies; auto.
    + apply (stored_frame' r id ls (w_meta w)); [|exact Hst]. intros k Hk. eapply Hm0; eauto.
    + intros k Hk. rewrite (Hm0 k id r' Hk). now apply Hfree.
Qed.

(* the premises are met by a concrete repository, and the bundle is found under the new name only *)
Example rename_example :
  let e := fun n => {| e_name := n; e_hash := "h"; e_size := 1%N |} in
  let w0 := {| w_meta := []; w_vmeta := [] |} in
  let w1 := snd (create_repo "r" w0) in
  let w2 := snd (upload "r" "b1" [e "a"; e "b"; e "c"]%string 2 w1) in
  let w := snd (set_label "r" "v1" "b1" w2) in
  let ls := [[e "a"; e "b"]; [e "c"]]%string in
  repo_exists "r" w = true /\ repo_exists "s" w = false /\ bundles_of "r" w = ["b1"%string] /\
  (forall j, j < 2 -> mget (GetArchivePathToBundleFileList "r" "b1" (N.of_nat j)) (w_meta w) = Some (VIndex (nth j ls []))) /\
  mget (GetArchivePathToBundle "r" "b1") (w_meta w) = Some (VBundle "b1" 2) /\
  let w' := snd (rename_repo "r" "s" w) in
  bundles_of "s" w' = ["b1"%string] /\ bundles_of "r" w' = [] /\ repo_exists "r" w' = false /\
  mget (GetArchivePathToBundleFileList "s" "b1" 1) (w_meta w') = Some (VIndex [e "c"]%string) /\
  labels_of "s" EmptyString w' = [("v1", "b1")]%string.
Proof.
  cbv zeta. repeat split; try (vm_compute; reflexivity).
  intros j Hj. destruct j as [|[|j]]; [vm_compute; reflexivity|vm_compute; reflexivity|lia].
Qed.
