(* C09, delete-files: DeleteEntriesFromRepo leaves every bundle holding exactly its other entries,
   in a layout the reader accepts, and touches nothing outside the bundle. *)
From Coq Require Import List String Ascii NArith Bool Arith Lia.
From DM Require Import Base.Str Gen.Paths Model.PathsParse Model.PathsCheck Model.Meta Model.Bundle Model.ListOps Model.RepoOps Model.Atomic Proofs.PathsProofs
  Proofs.BundleProofs Proofs.RepoProofs Proofs.AtomicProofs.
Import ListNotations.
Open Scope list_scope.

(* ---- layout ---- *)
Lemma chunk_fuel_enough : forall f1 f2 E l, 0 < E -> List.length l <= f1 -> List.length l <= f2 ->
  chunk_fuel f1 E l = chunk_fuel f2 E l.
Proof.
  induction f1 as [|f1 IH]; intros f2 E l HE H1 H2.
  - destruct l; [|cbn in H1; lia]. destruct f2; reflexivity.
  - destruct l as [|x l'] eqn:El; [destruct f2; reflexivity|]. rewrite <- El in *.
    assert (Hlen : 0 < List.length l) by (subst l; cbn; lia).
    destruct f2 as [|f2]; [lia|]. cbn [chunk_fuel]. rewrite El. rewrite <- El. f_equal.
    apply IH; auto; rewrite skipn_length; lia.
Qed.

Lemma chunk_app_full : forall E (a b : list entry), 0 < E -> List.length a = E -> chunk E (a ++ b) = a :: chunk E b.
Proof.
  intros E a b HE Ha. unfold chunk. rewrite app_length, Ha.
  destruct E as [|E']; [lia|]. cbn [plus chunk_fuel].
  destruct (a ++ b) as [|x t] eqn:Eab; [destruct a; cbn in *; [lia|discriminate]|]. rewrite <- Eab.
  rewrite firstn_app, Ha, Nat.sub_diag, firstn_O, app_nil_r, <- Ha, firstn_all.
  rewrite skipn_app, Nat.sub_diag, skipn_all, skipn_O. cbn [app]. f_equal.
  apply chunk_fuel_enough; lia.
Qed.

Lemma chunk_concat_prefix : forall E (pre : list (list entry)) rest, 0 < E ->
  Forall (fun l => List.length l = E) pre -> chunk E (List.concat pre ++ rest) = pre ++ chunk E rest.
Proof.
  intros E pre rest HE F. induction F as [|a pre Ha F IH]; [reflexivity|].
  cbn [List.concat app]. rewrite <- app_assoc, chunk_app_full by auto. now rewrite IH.
Qed.

Lemma filter_length_bound : forall {A} (f : A -> bool) l, List.length (filter f l) <= List.length l.
Proof. intros A f l. induction l as [|x l IH]; cbn; [lia|]. destruct (f x); cbn; lia. Qed.

Lemma filter_length_same : forall {A} (f : A -> bool) l, List.length (filter f l) = List.length l -> filter f l = l.
Proof.
  intros A f l. induction l as [|x l IH]; cbn; [reflexivity|]. destruct (f x); cbn; intros H.
  - f_equal. apply IH. lia.
  - pose proof (filter_length_bound f l). lia.
Qed.

(* ---- what the stored bundle looks like ---- *)
Definition stored (r id : string) (ls : list (list entry)) (m : mstore) : Prop :=
  mget (GetArchivePathToBundle r id) m = Some (VBundle id (N.of_nat (List.length ls))) /\
  forall j, j < List.length ls -> mget (GetArchivePathToBundleFileList r id (N.of_nat j)) m = Some (VIndex (nth j ls [])).

(* the reader's requirement: every list but the last is full, the last one is not overfull *)
Definition wf_layout (E : nat) (ls : list (list entry)) : Prop :=
  (forall j, S j < List.length ls -> List.length (nth j ls []) = E) /\ (ls <> [] -> List.length (last ls []) <= E).

Lemma N_of_nat_S : forall i, (N.of_nat i + 1)%N = N.of_nat (S i).
Proof. intros. lia. Qed.

Lemma read_indexes_stored : forall ls r id i m,
  (forall j, j < List.length ls -> mget (GetArchivePathToBundleFileList r id (N.of_nat (i + j))) m = Some (VIndex (nth j ls []))) ->
  read_indexes (List.length ls) r id (N.of_nat i) m = Some ls.
Proof.
  induction ls as [|l ls IH]; intros r id i m H; [reflexivity|].
  cbn [List.length read_indexes]. pose proof (H 0 ltac:(cbn; lia)) as H0. rewrite Nat.add_0_r in H0. cbn [nth] in H0.
  rewrite H0, N_of_nat_S, IH; [reflexivity|].
  intros j Hj. specialize (H (S j) ltac:(cbn; lia)). cbn [nth] in H. now replace (S i + j) with (i + S j) by lia.
Qed.

(* ---- first_modified ---- *)
Lemma first_modified_none : forall E paths ls i, first_modified E paths ls i = None ->
  Forall (fun l => keep_entries paths l = l) ls /\ (forall j, S j < List.length ls -> List.length (nth j ls []) = E).
Proof.
  intros E paths ls. induction ls as [|l t IH]; intros i H; [split; [constructor|cbn; lia]|].
  cbn [first_modified] in H.
  destruct (Nat.eqb (List.length (keep_entries paths l)) (List.length l)) eqn:E1; cbn [negb orb] in H; [|discriminate].
  apply Nat.eqb_eq in E1. apply filter_length_same in E1.
  destruct t as [|l2 t'] eqn:Et.
  - split; [constructor; auto|cbn; lia].
  - rewrite <- Et in *. destruct (Nat.eqb (List.length l) E) eqn:E2; cbn [negb] in H; [|subst t; discriminate].
    assert (Hn : first_modified E paths t (S i) = None) by (subst t; exact H).
    destruct (IH _ Hn) as [A B]. apply Nat.eqb_eq in E2. split; [constructor; auto|].
    intros j Hj. destruct j as [|j]; cbn [nth]; [exact E2|]. apply B. cbn in Hj. lia.
Qed.

Lemma first_modified_some : forall E paths ls i f, first_modified E paths ls i = Some f ->
  i <= f /\ f - i < List.length ls /\
  Forall (fun l => keep_entries paths l = l /\ List.length l = E) (firstn (f - i) ls).
Proof.
  intros E paths ls. induction ls as [|l t IH]; intros i f H; [discriminate|].
  cbn [first_modified] in H.
  destruct (negb (Nat.eqb (List.length (keep_entries paths l)) (List.length l))
            || match t with [] => false | _ :: _ => negb (Nat.eqb (List.length l) E) end) eqn:C.
  - inversion H; subst. rewrite Nat.sub_diag. cbn. repeat split; [lia|lia|constructor].
  - apply orb_false_iff in C. destruct C as [C1 C2]. apply negb_false_iff, Nat.eqb_eq in C1. apply filter_length_same in C1.
    destruct (IH _ _ H) as [A [B F]]. 
    assert (Ht : t <> []) by (intros ->; discriminate).
    assert (C3 : List.length l = E).
    { destruct t; [congruence|]. apply negb_false_iff, Nat.eqb_eq in C2. exact C2. }
    replace (f - i) with (S (f - S i)) by lia. cbn [firstn List.length].
    repeat split; [lia|lia|constructor; auto].
Qed.

(* ---- writes and deletes of file lists ---- *)
Notation fl r id j := (GetArchivePathToBundleFileList r id (N.of_nat j)).

Lemma fl_inj : forall r id i j, fl r id i = fl r id j -> i = j.
Proof. intros r id i j H. apply filelist_key_inj in H. lia. Qed.

Lemma overwrite_indexes_frame : forall cs r id i m k,
  (forall j, j < List.length cs -> k <> fl r id (i + j)) ->
  mget k (overwrite_indexes r id (N.of_nat i) cs m) = mget k m.
Proof.
  induction cs as [|c cs IH]; intros r id i m k H; [reflexivity|].
  cbn [overwrite_indexes]. rewrite N_of_nat_S, IH.
  - apply mget_mput_other. intros E. apply (H 0); [cbn; lia|]. now rewrite Nat.add_0_r.
  - intros j Hj. replace (S i + j) with (i + S j) by lia. apply H. cbn. lia.
Qed.

Lemma overwrite_indexes_get : forall cs r id i m j, j < List.length cs ->
  mget (fl r id (i + j)) (overwrite_indexes r id (N.of_nat i) cs m) = Some (VIndex (nth j cs [])).
Proof.
  induction cs as [|c cs IH]; intros r id i m j Hj; [cbn in Hj; lia|].
  cbn [overwrite_indexes]. rewrite N_of_nat_S. destruct j as [|j]; cbn [nth].
  - rewrite overwrite_indexes_frame.
    + rewrite Nat.add_0_r. apply mget_mput_same.
    + intros j _ E. apply fl_inj in E. lia.
  - replace (i + S j) with (S i + j) by lia. apply IH. cbn in Hj. lia.
Qed.

Lemma drop_indexes_frame : forall n r id i m k,
  (forall j, j < n -> k <> fl r id (i + j)) -> mget k (drop_indexes n r id (N.of_nat i) m) = mget k m.
Proof.
  induction n as [|n IH]; intros r id i m k H; [reflexivity|].
  cbn [drop_indexes]. rewrite N_of_nat_S, IH.
  - apply mget_mdelete_other. intros E. apply (H 0); [lia|]. now rewrite Nat.add_0_r.
  - intros j Hj. replace (S i + j) with (i + S j) by lia. apply H. lia.
Qed.

Lemma drop_indexes_gone : forall n r id i m j, j < n -> mget (fl r id (i + j)) (drop_indexes n r id (N.of_nat i) m) = None.
Proof.
  induction n as [|n IH]; intros r id i m j Hj; [lia|].
  cbn [drop_indexes]. rewrite N_of_nat_S. destruct j as [|j].
  - rewrite drop_indexes_frame.
    + rewrite Nat.add_0_r. apply mget_mdelete_same.
    + intros j _ E. apply fl_inj in E. lia.
  - replace (i + S j) with (S i + j) by lia. apply IH. lia.
Qed.

(* ---- the layout written back ---- *)
Lemma last_in_Forall' : forall (P : list entry -> Prop) (cs : list (list entry)), cs <> [] -> Forall P cs -> P (last cs []).
Proof. exact last_in_Forall. Qed.

Lemma relayout_spec : forall E l, 0 < E ->
  wf_layout E (relayout E l) /\ List.concat (relayout E l) = l /\ relayout E l <> [].
Proof.
  intros E l HE. unfold relayout. pose proof (chunk_concat E l HE) as Hc.
  destruct (chunk E l) as [|c cs] eqn:Ec.
  - cbn in Hc. subst l. repeat split; cbn; [lia|lia|discriminate].
  - rewrite <- Ec in *. repeat split; auto.
    + intros j Hj. unfold chunk in *. apply chunk_fuel_full; auto.
    + intros Hne. unfold chunk in *.
      destruct (chunk_fuel_spec (List.length l) E l HE (Nat.le_refl _)) as [_ F].
      apply (last_in_Forall' (fun c => 0 < List.length c <= E)) in F; auto. lia.
    + rewrite Ec. discriminate.
Qed.

Lemma keep_concat : forall paths (ls : list (list entry)),
  keep_entries paths (List.concat ls) = List.concat (map (keep_entries paths) ls).
Proof. intros. unfold keep_entries. symmetry. apply concat_filter_map. Qed.

Lemma map_id_Forall : forall {A} (f : A -> A) l, Forall (fun x => f x = x) l -> map f l = l.
Proof. intros A f l F. induction F as [|x l H F IH]; cbn; congruence. Qed.

Lemma relayout_prefix : forall E paths (ls : list (list entry)) f, 0 < E -> f <= List.length ls ->
  Forall (fun l => keep_entries paths l = l /\ List.length l = E) (firstn f ls) ->
  firstn f (relayout E (keep_entries paths (List.concat ls))) = firstn f ls /\
  f <= List.length (relayout E (keep_entries paths (List.concat ls))).
Proof.
  intros E paths ls f HE Hf F.
  destruct f as [|f']; [split; [reflexivity|lia]|]. set (f := S f') in *.
  assert (Hfull : Forall (fun l => List.length l = E) (firstn f ls)) by (eapply Forall_impl; [|exact F]; cbn; tauto).
  assert (Hlen : List.length (firstn f ls) = f) by (rewrite firstn_length; lia).
  assert (Heq : relayout E (keep_entries paths (List.concat ls)) =
                firstn f ls ++ chunk E (keep_entries paths (List.concat (skipn f ls)))).
  { rewrite <- (firstn_skipn f ls) at 1. rewrite concat_app. unfold keep_entries at 1. rewrite filter_app.
    fold (keep_entries paths (List.concat (firstn f ls))). fold (keep_entries paths (List.concat (skipn f ls))).
    rewrite (keep_concat paths (firstn f ls)).
    rewrite (map_id_Forall (keep_entries paths) (firstn f ls)) by (eapply Forall_impl; [|exact F]; cbn; tauto).
    unfold relayout. rewrite (chunk_concat_prefix E _ _ HE Hfull).
    destruct (firstn f ls ++ chunk E (keep_entries paths (List.concat (skipn f ls)))) as [|c cs] eqn:Eapp; [|reflexivity].
    apply app_eq_nil in Eapp. destruct Eapp as [E0 _]. rewrite E0 in Hlen. cbn in Hlen. subst f. lia. }
  rewrite Heq. split.
  - rewrite firstn_app, Hlen, Nat.sub_diag, firstn_O, app_nil_r. rewrite <- Hlen at 1. apply firstn_all.
  - rewrite app_length, Hlen. lia.
Qed.

Lemma nth_skipn_at : forall {A} (l : list A) f j d, nth j (skipn f l) d = nth (f + j) l d.
Proof.
  intros A l f. revert l. induction f as [|f IH]; intros l j d; [reflexivity|].
  destruct l as [|x l]; cbn [skipn plus nth]; [now destruct j|apply IH].
Qed.

Lemma nth_firstn_eq : forall {A} (a b : list A) f j d, firstn f a = firstn f b -> j < f -> nth j a d = nth j b d.
Proof.
  intros A a b f. revert a b. induction f as [|f IH]; intros a b j d H Hj; [lia|].
  destruct a as [|x a], b as [|y b]; cbn [firstn] in H; try discriminate; [reflexivity|].
  inversion H; subst. destruct j as [|j]; cbn [nth]; [reflexivity|]. apply IH; [assumption|lia].
Qed.

(* one bundle: what delete-files leaves *)
Theorem scrub_bundle_exact : forall E r id ls paths m,
  0 < E -> noslash r = true -> noslash id = true ->
  stored r id ls m -> Forall (fun l => List.length l <= E) ls ->
  exists ls' m',
    scrub_bundle E r id (N.of_nat (List.length ls)) paths m = Some m' /\
    stored r id ls' m' /\ wf_layout E ls' /\
    List.concat ls' = keep_entries paths (List.concat ls) /\
    (forall j, List.length ls' <= j -> j < List.length ls -> mget (fl r id j) m' = None) /\
    (forall k, under_bundle r id k = false -> mget k m' = mget k m).
Proof.
  intros E r id ls paths m HE Hr Hid [Hdesc Hlists] Hmax.
  unfold scrub_bundle. rewrite Nat2N.id.
  change 0%N with (N.of_nat 0). rewrite (read_indexes_stored ls r id 0 m) by (intros j Hj; cbn [plus]; auto).
  destruct (first_modified E paths ls 0) as [f|] eqn:Efm.
  - (* some list changes *)
    destruct (first_modified_some _ _ _ _ _ Efm) as [_ [Hf Hpre]]. rewrite Nat.sub_0_r in Hf, Hpre.
    set (cs := relayout E (keep_entries paths (List.concat ls))).
    destruct (relayout_spec E (keep_entries paths (List.concat ls)) HE) as [Hwf [Hcat Hne]]. fold cs in Hwf, Hcat, Hne.
    assert (Hf' : (f <= List.length ls)%nat) by (clear -Hf; lia).
    destruct (relayout_prefix E paths ls f HE Hf' Hpre) as [Hfirst Hfle]. fold cs in Hfirst, Hfle.
    set (m1 := overwrite_indexes r id (N.of_nat f) (skipn f cs) m).
    assert (Hdk : forall j, GetArchivePathToBundle r id <> fl r id j).
    { intros j E0. symmetry in E0. revert E0. now apply filelist_not_descriptor. }
    assert (Hm1_desc : mget (GetArchivePathToBundle r id) m1 = mget (GetArchivePathToBundle r id) m).
    { unfold m1. apply overwrite_indexes_frame. intros j _. apply Hdk. }
    assert (Hm1_low : forall j, j < f -> mget (fl r id j) m1 = Some (VIndex (nth j cs []))).
    { intros j Hj. unfold m1. rewrite overwrite_indexes_frame.
      - rewrite (nth_firstn_eq cs ls f j [] Hfirst Hj). apply Hlists. lia.
      - intros j' _ E0. apply fl_inj in E0. lia. }
    assert (Hm1_high : forall j, f <= j -> j < List.length cs -> mget (fl r id j) m1 = Some (VIndex (nth j cs []))).
    { intros j Hj1 Hj2. unfold m1. replace j with (f + (j - f)) at 1 by lia.
      rewrite overwrite_indexes_get by (rewrite skipn_length; lia).
      rewrite nth_skipn_at. replace (f + (j - f)) with j by lia. reflexivity. }
    assert (Hm1_all : forall j, j < List.length cs -> mget (fl r id j) m1 = Some (VIndex (nth j cs []))).
    { intros j Hj. destruct (Nat.lt_ge_cases j f); auto. }
    assert (Hm1_frame : forall k, under_bundle r id k = false -> mget k m1 = mget k m).
    { intros k Hk. unfold m1. apply overwrite_indexes_frame. intros j _ E0. subst k. now rewrite filelist_under in Hk. }
    destruct (Nat.eqb (List.length cs) (List.length ls)) eqn:Ecnt.
    + apply Nat.eqb_eq in Ecnt. exists cs, m1.
      split; [reflexivity|]. split; [split|].
      * rewrite Hm1_desc, Hdesc, Ecnt. reflexivity.
      * exact Hm1_all.
      * split; [exact Hwf|]. split; [exact Hcat|]. split; [|exact Hm1_frame].
        intros j Hj1 Hj2. lia.
    + apply Nat.eqb_neq in Ecnt.
      set (m2 := snd (mput (GetArchivePathToBundle r id) (VBundle id (N.of_nat (List.length cs))) false m1)).
      exists cs, (drop_indexes (List.length ls - List.length cs) r id (N.of_nat (List.length cs)) m2).
      split; [reflexivity|]. split; [split|].
      * rewrite drop_indexes_frame by (intros j _; apply Hdk). unfold m2. apply mget_mput_same.
      * intros j Hj. rewrite drop_indexes_frame by (intros j' _ E0; apply fl_inj in E0; lia).
        unfold m2. rewrite mget_mput_other by apply Hdk. auto.
      * split; [exact Hwf|]. split; [exact Hcat|]. split.
        -- intros j Hj1 Hj2. replace j with (List.length cs + (j - List.length cs)) by lia.
           apply drop_indexes_gone. lia.
        -- intros k Hk. rewrite drop_indexes_frame.
           ++ unfold m2. rewrite mget_mput_other; auto. intros E0. subst k. now rewrite descriptor_under in Hk.
           ++ intros j _ E0. subst k. now rewrite filelist_under in Hk.
  - (* nothing to do *)
    destruct (first_modified_none _ _ _ _ Efm) as [Hsame Hfull].
    exists ls, m. split; [reflexivity|]. split; [split; assumption|]. split; [split|].
    + exact Hfull.
    + intros Hne. apply (last_in_Forall' (fun l => List.length l <= E)); auto.
    + split; [|split; [intros j Hj1 Hj2; lia|reflexivity]].
      rewrite keep_concat, (map_id_Forall (keep_entries paths) ls Hsame). reflexivity.
Qed.

(* the reader accepts what is left and gets exactly the other entries *)
Corollary scrub_bundle_reads_back : forall E r id ls paths m,
  0 < E -> noslash r = true -> noslash id = true ->
  stored r id ls m -> Forall (fun l => List.length l <= E) ls ->
  exists (ls' : list (list entry)) m', scrub_bundle E r id (N.of_nat (List.length ls)) paths m = Some m' /\
    mget (GetArchivePathToBundle r id) m' = Some (VBundle id (N.of_nat (List.length ls'))) /\
    unpack_lists E (List.length ls') 0
      (fun j => match mget (fl r id j) m' with Some (VIndex es) => Some es | _ => None end)
    = Some (keep_entries paths (List.concat ls)).
Proof.
  intros E r id ls paths m HE Hr Hid Hst Hmax.
  destruct (scrub_bundle_exact E r id ls paths m HE Hr Hid Hst Hmax) as [ls' [m' [Hs [[Hd Hl] [[Hfull Hlast] [Hcat _]]]]]].
  exists ls', m'. repeat split; auto. rewrite <- Hcat.
  assert (G : forall c idx get, (forall j, j < c -> get (idx + j) = nth_error ls' (idx + j)) ->
              unpack_lists E c idx get = unpack_lists E c idx (nth_error ls')).
  { induction c as [|c IH]; intros idx get H; [reflexivity|]. cbn [unpack_lists].
    pose proof (H 0 ltac:(lia)) as H0. rewrite Nat.add_0_r in H0. rewrite H0.
    destruct (nth_error ls' idx); [|reflexivity].
    rewrite (IH (S idx) get); [reflexivity|]. intros j Hj. replace (S idx + j) with (idx + S j) by lia. apply H. lia. }
  rewrite G.
  - apply unpack_suffix; auto. intros j Hj. cbn [plus]. now apply nth_error_nth'.
  - intros j Hj. cbn [plus]. rewrite (Hl j Hj). symmetry. now apply nth_error_nth'.
Qed.

(* ---- the whole repository ---- *)
Lemma sw_elem : forall a b rest, noslash a = true -> noslash b = true ->
  starts_with (a ++ "/") (b ++ "/" ++ rest) = true -> a = b.
Proof.
  induction a as [|x a IH]; intros b rest Ha Hb H.
  - destruct b as [|y b]; [reflexivity|]. cbn [append starts_with] in H. cbn [noslash] in Hb.
    apply andb_true_iff in H. destruct H as [H _]. apply Ascii.eqb_eq in H. subst y.
    unfold is_slash in Hb. rewrite Ascii.eqb_refl in Hb. discriminate.
  - destruct b as [|y b].
    + cbn [append starts_with] in H. cbn [noslash] in Ha. apply andb_true_iff in H. destruct H as [H _].
      apply Ascii.eqb_eq in H. subst x. unfold is_slash in Ha. rewrite Ascii.eqb_refl in Ha. discriminate.
    + cbn [append starts_with] in H. cbn [noslash] in Ha, Hb.
      apply andb_true_iff in H. apply andb_true_iff in Ha. apply andb_true_iff in Hb.
      destruct H as [H1 H2], Ha as [_ Ha], Hb as [_ Hb].
      apply Ascii.eqb_eq in H1. subst y. f_equal. exact (IH b rest Ha Hb H2).
Qed.

Lemma other_bundle_not_under : forall r id id' k, noslash id = true -> noslash id' = true -> id <> id' ->
  under_bundle r id' k = true -> under_bundle r id k = false.
Proof.
  intros r id id' k Hi Hi' Hne H. destruct (under_bundle r id k) eqn:E0; [|reflexivity]. exfalso. apply Hne.
  unfold under_bundle in *. apply starts_with_drop in H. rewrite H in E0.
  rewrite !app_assoc_s in E0. rewrite sw_app_l in E0.
  eapply sw_elem; eauto.
Qed.

Lemma stored_frame : forall r id ls m m', (forall k, under_bundle r id k = true -> mget k m' = mget k m) ->
  stored r id ls m -> stored r id ls m'.
Proof.
  intros r id ls m m' H [A B]. split.
  - rewrite H; [exact A|apply descriptor_under].
  - intros j Hj. rewrite H; [now apply B|apply filelist_under].
Qed.

(* every bundle of the repository: exactly its other entries are left, in a layout the reader accepts;
   nothing outside those bundles changes *)
Theorem scrub_bundles_exact : forall E r paths ids m (lay : string -> list (list entry)),
  0 < E -> noslash r = true -> NoDup ids -> (forall id, In id ids -> noslash id = true) ->
  (forall id, In id ids -> stored r id (lay id) m /\ Forall (fun l => List.length l <= E) (lay id)) ->
  exists m', scrub_bundles E r paths ids m = (ROk, m') /\
    (forall id, In id ids -> exists ls', stored r id ls' m' /\ wf_layout E ls' /\
                                          List.concat ls' = keep_entries paths (List.concat (lay id))) /\
    (forall k, (forall id, In id ids -> under_bundle r id k = false) -> mget k m' = mget k m).
Proof.
  intros E r paths ids. induction ids as [|id t IH]; intros m lay HE Hr Hnd Hns Hst.
  - exists m. split; [reflexivity|]. split; [intros id []|reflexivity].
  - apply NoDup_cons_iff in Hnd. destruct Hnd as [Hnotin Hnd].
    destruct (Hst id (or_introl eq_refl)) as [Hs Hmax].
    assert (Hid : noslash id = true) by (apply Hns; now left).
    destruct (scrub_bundle_exact E r id (lay id) paths m HE Hr Hid Hs Hmax) as [ls' [m1 [Hrun [Hs1 [Hwf [Hcat [_ Hfr]]]]]]].
    cbn [scrub_bundles]. destruct Hs as [Hd Hl]. rewrite Hd, Hrun.
    assert (Hother : forall id', In id' t -> forall k, under_bundle r id' k = true -> under_bundle r id k = false).
    { intros id' Hin k Hk. apply (other_bundle_not_under r id id' k); auto.
      - apply Hns. now right.
      - intros ->. contradiction. }
    destruct (IH m1 lay HE Hr Hnd (fun i Hi => Hns i (or_intror Hi))) as [m' [Hrun' [Hall Hfr']]].
    { intros id' Hin. destruct (Hst id' (or_intror Hin)) as [Hs' Hmax']. split; [|exact Hmax'].
      apply (stored_frame r id' (lay id') m m1); [|exact Hs'].
      intros k Hk. apply Hfr. eapply Hother; eauto. }
    exists m'. split; [exact Hrun'|]. split.
    + intros i [<-|Hin]; [|now apply Hall].
      exists ls'. split; [|split; assumption].
      apply (stored_frame r id ls' m1 m'); [|exact Hs1].
      intros k Hk. apply Hfr'. intros id' Hin'.
      destruct (under_bundle r id' k) eqn:E0; [|reflexivity].
      rewrite (Hother id' Hin' k E0) in Hk. discriminate.
    + intros k Hk. rewrite Hfr' by (intros i Hi; apply Hk; now right). apply Hfr. apply Hk. now left.
Qed.

(* the premises are met by a concrete bundle with two file lists, and the result is the expected one:
   the surviving entries move up, the descriptor says one list, the second list is gone *)
Example delete_files_example :
  let e := fun n => {| e_name := n; e_hash := "h"; e_size := 1%N |} in
  let ls := [[e "a"; e "b"]; [e "c"]]%string in
  let m := [(GetArchivePathToBundle "r" "b", VBundle "b" 2);
            (GetArchivePathToBundleFileList "r" "b" 0, VIndex (nth 0 ls []));
            (GetArchivePathToBundleFileList "r" "b" 1, VIndex (nth 1 ls []));
            (GetArchivePathToBundle "r" "other", VBundle "other" 0)]%string in
  stored "r" "b" ls m /\ Forall (fun l => List.length l <= 2) ls /\
  match scrub_bundle 2 "r" "b" 2 ["a"%string] m with
  | Some m' => mget (GetArchivePathToBundle "r" "b") m' = Some (VBundle "b" 1) /\
               mget (GetArchivePathToBundleFileList "r" "b" 0) m' = Some (VIndex [e "b"; e "c"]%string) /\
               mget (GetArchivePathToBundleFileList "r" "b" 1) m' = None /\
               mget (GetArchivePathToBundle "r" "other") m' = Some (VBundle "other" 0)
  | None => False
  end.
Proof.
  cbv zeta. split; [split; [reflexivity|]|split].
  - intros j Hj. destruct j as [|[|j]]; [reflexivity|reflexivity|cbn in Hj; lia].
  - repeat constructor.
  - vm_compute. repeat split; reflexivity.
Qed.
