(* Proofs about the metadata path builders (Gen/Paths.v) and parsers (Model/PathsParse.v). *)
From Coq Require Import List String Ascii Arith NArith Bool Lia Decimal DecimalString.
From DM Require Import Base.Str Gen.Paths Model.PathsParse.
Import ListNotations.
Open Scope string_scope.

(* ---- string toolkit ---- *)
Lemma length_app : forall a b, String.length (a ++ b) = String.length a + String.length b.
Proof. induction a as [|c a IH]; intros b; cbn; [reflexivity|]. now rewrite IH. Qed.

Lemma drop_app : forall a b, drop (String.length a) (a ++ b) = b.
Proof. induction a as [|c a IH]; intros b; cbn; [reflexivity|apply IH]. Qed.

Lemma take_app : forall a b, take (String.length a) (a ++ b) = a.
Proof. induction a as [|c a IH]; intros b; cbn; [now destruct b|]. now rewrite IH. Qed.

Lemma strip_prefix_app : forall p s, strip_prefix p (p ++ s) = Some s.
Proof. intros. unfold strip_prefix. now rewrite starts_with_app, drop_app. Qed.

Lemma strip_suffix_app : forall a suf, strip_suffix suf (a ++ suf) = Some a.
Proof.
  intros. unfold strip_suffix, ends_with. rewrite length_app.
  replace (String.length a + String.length suf - String.length suf) with (String.length a) by lia.
  rewrite drop_app, take_app, String.eqb_refl.
  replace (Nat.leb (String.length suf) (String.length a + String.length suf)) with true; [reflexivity|].
  symmetry. apply Nat.leb_le. lia.
Qed.

Lemma app_assoc_s : forall a b c : string, (a ++ b) ++ c = a ++ b ++ c.
Proof. induction a as [|x a IH]; intros; cbn; [reflexivity|]. now rewrite IH. Qed.

Lemma all_chars_app : forall f a b, all_chars f (a ++ b) = all_chars f a && all_chars f b.
Proof. induction a as [|c a IH]; intros b; cbn; [reflexivity|]. now rewrite IH, andb_assoc. Qed.

(* ---- decimal strings ---- *)
Lemma digits_string_of_uint : forall d, all_chars is_digit (NilEmpty.string_of_uint d) = true.
Proof. induction d; cbn; auto. Qed.

Lemma dec_digits : forall n, all_chars is_digit (dec n) = true.
Proof.
  intros n. unfold dec, NilZero.string_of_uint. destruct (N.to_uint n); try apply digits_string_of_uint.
  reflexivity.
Qed.

Lemma dec_nonempty : forall n, String.eqb (dec n) "" = false.
Proof.
  intros n. unfold dec, NilZero.string_of_uint. pose proof (to_uint_nonnil n) as H.
  destruct (N.to_uint n); try congruence; reflexivity.
Qed.

Lemma digits_noslash : forall s, all_chars is_digit s = true -> noslash s = true.
Proof.
  induction s as [|c s IH]; intros H; cbn in *; [reflexivity|].
  apply andb_prop in H. destruct H as [Hc Hs]. rewrite (IH Hs), andb_true_r.
  unfold is_slash. destruct (Ascii.eqb c "/") eqn:E; [|reflexivity].
  apply Ascii.eqb_eq in E. subst c. discriminate.
Qed.

Lemma index_file_ok : forall n, index_of_file (bundleFilesIndexPrefix ++ dec n ++ ".yaml") = Some (dec n).
Proof.
  intros n. unfold index_of_file. rewrite strip_prefix_app, strip_suffix_app.
  now rewrite dec_nonempty, dec_digits.
Qed.

Lemma is_index_file_ok : forall n, is_index_file (bundleFilesIndexPrefix ++ dec n ++ ".yaml") = true.
Proof. intros. unfold is_index_file. now rewrite index_file_ok. Qed.

Lemma index_file_noslash : forall n, noslash (bundleFilesIndexPrefix ++ dec n ++ ".yaml") = true.
Proof.
  intros. rewrite !noslash_app. rewrite (digits_noslash _ (dec_digits n)). reflexivity.
Qed.

Lemma index_file_not_empty : forall n, String.eqb (bundleFilesIndexPrefix ++ dec n ++ ".yaml") "" = false.
Proof. reflexivity. Qed.

(* ---- ksuids ---- *)
Lemma base62_noslash : forall s, all_chars is_base62 s = true -> noslash s = true.
Proof.
  induction s as [|c s IH]; intros H; cbn in *; [reflexivity|].
  apply andb_prop in H. destruct H as [Hc Hs]. rewrite (IH Hs), andb_true_r.
  unfold is_slash. destruct (Ascii.eqb c "/") eqn:E; [|reflexivity].
  apply Ascii.eqb_eq in E. subst c. discriminate.
Qed.

Lemma ksuid_noslash : forall s, is_ksuid s = true -> noslash s = true.
Proof.
  intros s H. unfold is_ksuid in H. apply andb_prop in H. destruct H as [H _].
  apply andb_prop in H. destruct H as [_ H]. now apply base62_noslash.
Qed.

Lemma ksuid_length : forall s, is_ksuid s = true -> String.length s = 27.
Proof.
  intros s H. unfold is_ksuid in H. apply andb_prop in H. destruct H as [H _].
  apply andb_prop in H. destruct H as [H _]. now apply Nat.eqb_eq.
Qed.

Lemma ksuid_neq : forall s x, is_ksuid s = true -> String.length x <> 27 -> String.eqb s x = false.
Proof.
  intros s x H Hx. destruct (String.eqb s x) eqn:E; [|reflexivity].
  apply String.eqb_eq in E. subst x. rewrite (ksuid_length _ H) in Hx. congruence.
Qed.

(* ---- splitting built paths ---- *)
Ltac split_path :=
  repeat first
    [ rewrite splitn_cons by (auto using ksuid_noslash, index_file_noslash)
    | rewrite splitn_last by (auto using ksuid_noslash, index_file_noslash) ].

Lemma lit_split : forall lit n rest, noslash lit = true ->
  splitn (S (S n)) ((lit ++ "/") ++ rest) = lit :: splitn (S n) rest.
Proof. intros. rewrite app_assoc_s. now apply splitn_cons. Qed.

Lemma app_nil_r_s : forall s : string, s ++ "" = s.
Proof. induction s as [|c s IH]; cbn; [reflexivity|]. now rewrite IH. Qed.

Lemma app_nil_l_s : forall s : string, "" ++ s = s.
Proof. reflexivity. Qed.

Ltac norm_path := cbn [join]; rewrite ?app_assoc_s, ?app_nil_r_s, ?app_nil_l_s.

Theorem parse_build_repo : forall repo, noslash repo = true ->
  get_components (GetArchivePathToRepoDescriptor repo) =
  Some {| c_repo := repo; c_bundle := ""; c_file := repoDescriptorFile; c_label := ""; c_context := "";
          c_diamond := ""; c_split := ""; c_gen := ""; c_final := false |}.
Proof.
  intros repo H. unfold get_components, GetArchivePathToRepoDescriptor. norm_path.
  rewrite (lit_split "repos") by reflexivity. split_path. reflexivity.
Qed.

Theorem parse_build_label : forall repo label, noslash repo = true -> noslash label = true ->
  get_components (GetArchivePathToLabel repo label) =
  Some {| c_repo := repo; c_bundle := ""; c_file := labelDescriptorFile; c_label := label; c_context := "";
          c_diamond := ""; c_split := ""; c_gen := ""; c_final := false |}.
Proof.
  intros repo label H1 H2.
  unfold get_components, GetArchivePathToLabel, GetArchivePathPrefixToLabels, getArchivePathToLabels. norm_path.
  rewrite (lit_split "labels") by reflexivity. split_path. reflexivity.
Qed.

Theorem parse_build_bundle : forall repo b, noslash repo = true -> noslash b = true ->
  get_components (GetArchivePathToBundle repo b) =
  Some {| c_repo := repo; c_bundle := b; c_file := bundleDescriptorFile; c_label := ""; c_context := "";
          c_diamond := ""; c_split := ""; c_gen := ""; c_final := false |}.
Proof.
  intros repo b H1 H2. unfold get_components, GetArchivePathToBundle, getArchivePathToBundles. norm_path.
  rewrite (lit_split "bundles") by reflexivity. split_path. reflexivity.
Qed.

Theorem parse_build_bundle_filelist : forall repo b n, noslash repo = true -> noslash b = true ->
  get_components (GetArchivePathToBundleFileList repo b n) =
  Some {| c_repo := repo; c_bundle := b; c_file := bundleFilesIndexPrefix ++ dec n ++ ".yaml"; c_label := ""; c_context := "";
          c_diamond := ""; c_split := ""; c_gen := ""; c_final := false |}.
Proof.
  intros repo b n H1 H2. unfold get_components, GetArchivePathToBundleFileList, getArchivePathToBundles. norm_path.
  rewrite (lit_split "bundles") by reflexivity. split_path.
  cbn [nth_s nth List.length Nat.ltb Nat.leb String.eqb Ascii.eqb Bool.eqb].
  rewrite is_index_file_ok, !orb_true_r. reflexivity.
Qed.

Theorem parse_build_diamond : forall repo d (final : bool), noslash repo = true -> is_ksuid d = true ->
  get_components (if final then GetArchivePathToFinalDiamond repo d else GetArchivePathToInitialDiamond repo d) =
  Some {| c_repo := repo; c_bundle := ""; c_label := ""; c_context := "";
          c_file := if final then diamondFinalDescriptorFile else diamondInitialDescriptorFile;
          c_diamond := d; c_split := ""; c_gen := ""; c_final := final |}.
Proof.
  intros repo d final H1 H2. unfold get_components.
  destruct final; unfold GetArchivePathToFinalDiamond, GetArchivePathToInitialDiamond, getArchivePathToDiamonds; norm_path;
    rewrite (lit_split "diamonds") by reflexivity; split_path;
    cbn [nth_s nth List.length Nat.ltb Nat.leb String.eqb Ascii.eqb Bool.eqb]; rewrite H2; reflexivity.
Qed.

Theorem parse_build_split : forall repo d s (final : bool),
  noslash repo = true -> is_ksuid d = true -> noslash s = true -> s <> "" ->
  get_components (if final then GetArchivePathToFinalSplit repo d s else GetArchivePathToInitialSplit repo d s) =
  Some {| c_repo := repo; c_bundle := ""; c_label := ""; c_context := "";
          c_file := if final then splitFinalDescriptorFile else splitInitialDescriptorFile;
          c_diamond := d; c_split := s; c_gen := ""; c_final := final |}.
Proof.
  intros repo d s final H1 H2 H3 H4. unfold get_components.
  assert (Hs : String.eqb s "" = false) by (apply String.eqb_neq; exact H4).
  destruct final; unfold GetArchivePathToFinalSplit, GetArchivePathToInitialSplit, getArchivePathToDiamonds; norm_path;
    rewrite (lit_split "diamonds") by reflexivity; split_path;
    cbn [nth_s nth List.length Nat.ltb Nat.leb String.eqb Ascii.eqb Bool.eqb]; rewrite H2, Hs; reflexivity.
Qed.

Theorem parse_build_split_filelist : forall repo d s g n,
  noslash repo = true -> is_ksuid d = true -> noslash s = true -> s <> "" -> is_ksuid g = true ->
  get_components (GetArchivePathToSplitFileList repo d s g n) =
  Some {| c_repo := repo; c_bundle := ""; c_label := ""; c_context := "";
          c_file := splitFilesIndexPrefix ++ dec n ++ ext;
          c_diamond := d; c_split := s; c_gen := g; c_final := false |}.
Proof.
  intros repo d s g n H1 H2 H3 H4 H5. unfold get_components.
  assert (Hs : String.eqb s "" = false) by (apply String.eqb_neq; exact H4).
  unfold GetArchivePathToSplitFileList, getArchivePathToDiamonds. norm_path.
  rewrite (lit_split "diamonds") by reflexivity.
  change (splitFilesIndexPrefix ++ dec n ++ ext) with (bundleFilesIndexPrefix ++ dec n ++ ".yaml").
  split_path.
  cbn [nth_s nth List.length Nat.ltb Nat.leb]. rewrite H2. cbn [negb].
  replace ("splits" =? "")%string with false by reflexivity.
  replace ("splits" =? diamondInitialDescriptorFile)%string with false by reflexivity.
  replace ("splits" =? diamondFinalDescriptorFile)%string with false by reflexivity.
  cbn [orb]. rewrite Hs.
  rewrite (ksuid_neq g "" H5) by (cbn; lia).
  rewrite (ksuid_neq g splitInitialDescriptorFile H5) by (cbn; lia).
  rewrite (ksuid_neq g splitFinalDescriptorFile H5) by (cbn; lia).
  cbn [orb]. rewrite H5, is_index_file_ok. reflexivity.
Qed.

(* ---- consumable store paths ---- *)

Lemma split_last_nodash : forall pat s, nodash s = true -> starts_with "-" pat = true -> split_last pat s = None.
Proof.
  induction s as [|c s IH]; intros H Hp; [reflexivity|].
  cbn in H. apply andb_prop in H. destruct H as [Hc Hs]. cbn [split_last]. rewrite (IH Hs Hp).
  destruct pat as [|a pat]; [discriminate|]. cbn [starts_with] in Hp. rewrite andb_true_r in Hp.
  apply Ascii.eqb_eq in Hp. subst a. cbn [starts_with]. rewrite Ascii.eqb_sym. apply negb_true_iff in Hc. now rewrite Hc.
Qed.

Lemma digits_nodash : forall s, all_chars is_digit s = true -> nodash s = true.
Proof.
  induction s as [|c s IH]; intros H; cbn in *; [reflexivity|].
  apply andb_prop in H. destruct H as [Hc Hs]. rewrite (IH Hs), andb_true_r.
  destruct (Ascii.eqb c "-") eqn:E; [|reflexivity]. apply Ascii.eqb_eq in E. subst c. discriminate.
Qed.

Lemma starts_with_dash_false : forall p i, nodash i = true -> nodash p = false -> starts_with p i = false.
Proof.
  induction p as [|a p IH]; intros i Hi Hp; [discriminate|].
  destruct i as [|c i]; [reflexivity|]. cbn in *.
  apply andb_prop in Hi. destruct Hi as [Hc Hi].
  destruct (Ascii.eqb a c) eqn:E; [|reflexivity]. apply Ascii.eqb_eq in E. subst c.
  rewrite Hc in Hp. cbn in Hp. cbn. now apply IH.
Qed.

Lemma split_last_cons_none : forall pat c t,
  split_last pat t = None -> starts_with pat (String c t) = false -> split_last pat (String c t) = None.
Proof. intros pat c t H1 H2. cbn [split_last]. now rewrite H1, H2. Qed.

Lemma split_last_step : forall pat c t,
  split_last pat (String c t) =
  match split_last pat t with
  | Some (a, b) => Some (String c a, b)
  | None => if starts_with pat (String c t) then Some ("", drop (String.length pat) (String c t)) else None
  end.
Proof. reflexivity. Qed.

Lemma split_last_built : forall b i, nodash b = true -> nodash i = true ->
  split_last "-bundle-files-" (b ++ "-bundle-files-" ++ i) = Some (b, i).
Proof.
  induction b as [|c b IH]; intros i Hb Hi.
  - assert (Hn : split_last "-bundle-files-" ("bundle-files-" ++ i) = None).
    { pose proof (split_last_nodash "-bundle-files-" i Hi eq_refl) as H0.
      cbn ["++"%string].
      repeat (apply split_last_cons_none; [|first [reflexivity | cbn; apply (starts_with_dash_false "bundle-files-" i Hi eq_refl)]]).
      exact H0. }
    change ("" ++ "-bundle-files-" ++ i) with (String "-" ("bundle-files-" ++ i)).
    rewrite split_last_step, Hn.
    change (String "-" ("bundle-files-" ++ i)) with ("-bundle-files-" ++ i).
    rewrite starts_with_app, drop_app. reflexivity.
  - cbn in Hb. apply andb_prop in Hb. destruct Hb as [_ Hb].
    change ((String c b ++ "-bundle-files-" ++ i)) with (String c (b ++ "-bundle-files-" ++ i)).
    cbn [split_last]. now rewrite (IH i Hb Hi).
Qed.

Theorem consumable_descriptor_roundtrip : forall b, nodash b = true ->
  consumable_meta (consumable_path_to_bundle b) = Some (MetaDescriptor b).
Proof.
  intros b H. unfold consumable_meta, consumable_path_to_bundle.
  rewrite strip_prefix_app, strip_suffix_app.
  change ("-" ++ bundleFilesIndexPrefix) with "-bundle-files-".
  now rewrite (split_last_nodash "-bundle-files-" b H eq_refl).
Qed.

Theorem consumable_filelist_roundtrip : forall b n, nodash b = true -> (n < two64)%N ->
  consumable_meta (consumable_path_to_filelist b n) = Some (MetaFileList b n).
Proof.
  intros b n H Hn. unfold consumable_meta, consumable_path_to_filelist.
  rewrite strip_prefix_app.
  replace (b ++ "-bundle-files-" ++ dec n ++ ".yaml") with ((b ++ "-bundle-files-" ++ dec n) ++ ".yaml")
    by (now rewrite !app_assoc_s).
  rewrite strip_suffix_app.
  change ("-" ++ bundleFilesIndexPrefix) with "-bundle-files-".
  rewrite split_last_built; auto using digits_nodash, dec_digits.
  rewrite dec_nonempty, dec_digits, undec_dec. cbn [negb andb].
  apply N.ltb_lt in Hn. now rewrite Hn.
Qed.

(* ---- reverse index chunk files ---- *)
Theorem reverse_index_roundtrip : forall n,
  index_of_file ("bundle-files-" ++ dec n ++ ".yaml") = Some (dec n) /\ undec (dec n) = Some n.
Proof. intros. split; [apply index_file_ok|apply undec_dec]. Qed.

(* ---- generated paths ---- *)
Lemma starts_with_drop : forall p s, starts_with p s = true -> s = p ++ drop (String.length p) s.
Proof.
  induction p as [|a p IH]; intros s H; [reflexivity|].
  destruct s as [|b s]; [discriminate|]. cbn in H. apply andb_prop in H. destruct H as [H1 H2].
  apply Ascii.eqb_eq in H1. subst b. cbn. f_equal. now apply IH.
Qed.

Lemma eqb_app_l : forall L a b, String.eqb (L ++ a) (L ++ b) = String.eqb a b.
Proof. induction L as [|c L IH]; intros; cbn; [reflexivity|]. now rewrite Ascii.eqb_refl, IH. Qed.

Lemma sw_app_l : forall L x r, starts_with (L ++ x) (L ++ r) = starts_with x r.
Proof. induction L as [|c L IH]; intros; cbn; [reflexivity|]. now rewrite Ascii.eqb_refl, IH. Qed.

Lemma sw_app_weaken : forall L x p, starts_with (L ++ x) p = true -> starts_with L p = true.
Proof.
  induction L as [|c L IH]; intros x p H; [reflexivity|].
  destruct p as [|d p]; [discriminate|]. cbn in *. apply andb_prop in H. destruct H as [H1 H2].
  rewrite H1. cbn. eapply IH; eauto.
Qed.

Lemma under_prefix : forall L D p,
  match strip_prefix L p with Some r => under D r | None => false end = under (L ++ D) p.
Proof.
  intros L D p. unfold strip_prefix. destruct (starts_with L p) eqn:E.
  - pose proof (starts_with_drop L p E) as Hp. set (r := drop (String.length L) p) in *.
    rewrite Hp. unfold under. rewrite eqb_app_l, app_assoc_s, sw_app_l. reflexivity.
  - unfold under. destruct (String.eqb p (L ++ D)) eqn:E1.
    + apply String.eqb_eq in E1. subst p. now rewrite starts_with_app in E.
    + destruct (starts_with ((L ++ D) ++ "/") p) eqn:E2; [|reflexivity].
      rewrite app_assoc_s in E2. apply sw_app_weaken in E2. congruence.
Qed.

Theorem is_generated_spec : forall p, is_generated p = is_reserved_spec p.
Proof.
  intros p. unfold is_generated, is_reserved_spec, strip_lead.
  change "./.datamon" with ("./" ++ ".datamon"). change "/.datamon" with ("/" ++ ".datamon").
  change "./.conflicts" with ("./" ++ ".conflicts"). change "/.conflicts" with ("/" ++ ".conflicts").
  change "./.checkpoints" with ("./" ++ ".checkpoints"). change "/.checkpoints" with ("/" ++ ".checkpoints").
  rewrite <- !under_prefix.
  destruct (strip_prefix "./" p) as [r1|]; destruct (strip_prefix "/" p) as [r2|]; cbn -[under];
  repeat match goal with |- context [under ?d ?q] => destruct (under d q) end; reflexivity.
Qed.

(* ---- all builders at once ---- *)
From DM Require Import Model.PathsCheck.

Ltac bools := repeat match goal with H : _ && _ = true |- _ => apply andb_prop in H; destruct H end.

Theorem parse_build_all : forall k, valid_kind k = true -> get_components (build k) = expected_comps k.
Proof.
  intros k H. destruct k; cbn [valid_kind] in H; try discriminate; bools; cbn [build expected_comps].
  - now apply parse_build_repo.
  - now apply parse_build_label.
  - now apply parse_build_bundle.
  - now apply parse_build_bundle_filelist.
  - now apply parse_build_diamond.
  - apply parse_build_split; auto. intros ->. discriminate.
  - apply parse_build_split_filelist; auto. intros ->. discriminate.
Qed.

Theorem build_injective : forall k1 k2, valid_kind k1 = true -> valid_kind k2 = true ->
  build k1 = build k2 -> expected_comps k1 = expected_comps k2.
Proof.
  intros k1 k2 H1 H2 E. rewrite <- (parse_build_all k1 H1), <- (parse_build_all k2 H2). now rewrite E.
Qed.

Lemma dec_inj : forall a b, dec a = dec b -> a = b.
Proof. intros a b H. pose proof (undec_dec a) as Ha. rewrite H, undec_dec in Ha. now inversion Ha. Qed.

Lemma app_inv_head_s : forall a b c : string, a ++ b = a ++ c -> b = c.
Proof. induction a as [|x a IH]; intros b c H; cbn in H; [exact H|]. inversion H. now apply IH. Qed.

Lemma app_inv_tail_s : forall (a b c : string), String.length a = String.length b -> a ++ c = b ++ c -> a = b.
Proof.
  induction a as [|x a IH]; intros b c Hl H; destruct b as [|y b]; cbn in *; try discriminate; [reflexivity|].
  inversion H; subst. f_equal. apply (IH b c); auto.
Qed.

Lemma index_name_inj : forall i j, bundleFilesIndexPrefix ++ dec i ++ ".yaml" = bundleFilesIndexPrefix ++ dec j ++ ".yaml" -> i = j.
Proof.
  intros i j H. apply app_inv_head_s in H.
  assert (Hi := index_file_ok i). assert (Hj := index_file_ok j).
  assert (E : Some (dec i) = Some (dec j)).
  { rewrite <- Hi, <- Hj. unfold bundleFilesIndexPrefix. now rewrite H. }
  inversion E. now apply dec_inj.
Qed.

Theorem expected_comps_injective : forall k1 k2, valid_kind k1 = true -> valid_kind k2 = true ->
  expected_comps k1 = expected_comps k2 -> k1 = k2.
Proof.
  intros k1 k2 H1 H2 E.
  destruct k1; cbn [valid_kind] in H1; try discriminate;
  destruct k2; cbn [valid_kind] in H2; try discriminate;
  cbn [expected_comps] in E; inversion E; subst; try reflexivity;
  bools;
  repeat match goal with
  | H : bundleFilesIndexPrefix ++ dec _ ++ ".yaml" = _ |- _ => first [discriminate H | apply index_name_inj in H; subst]
  | H : _ = bundleFilesIndexPrefix ++ dec _ ++ ".yaml" |- _ => discriminate H
  | H : splitFilesIndexPrefix ++ dec _ ++ ext = _ |- _ => first [discriminate H | apply index_name_inj in H; subst]
  | H : (if ?f then _ else _) = _ |- _ => destruct f; try discriminate H
  | H : dec ?i ++ ".yaml" = dec ?j ++ ".yaml" |- _ =>
      assert (i = j) by (apply index_name_inj; unfold bundleFilesIndexPrefix; now rewrite H); subst; clear H
  | H : dec ?i ++ ext = dec ?j ++ ext |- _ =>
      assert (i = j) by (apply index_name_inj; unfold bundleFilesIndexPrefix; change ".yaml" with ext; now rewrite H); subst; clear H
  end; try reflexivity; try discriminate;
  repeat match goal with f : bool |- _ => destruct f end; try reflexivity; try discriminate.
Qed.

Lemma repo_char_noslash : forall c, repo_char_ok c = true -> is_slash c = false.
Proof.
  intros c H. unfold is_slash. destruct (Ascii.eqb c "/") eqn:E; [|reflexivity].
  apply Ascii.eqb_eq in E. subst c. discriminate.
Qed.

Theorem valid_names_noslash : forall s,
  (repo_name_ok s = true -> noslash s = true) /\ (label_name_ok s = true -> noslash s = true).
Proof.
  intros s. split; intros H; unfold repo_name_ok, label_name_ok in H; apply andb_prop in H; destruct H as [_ H];
  induction s as [|c s IH]; cbn in *; auto; apply andb_prop in H; destruct H as [Hc Hs]; rewrite (IH Hs), andb_true_r.
  - now rewrite (repo_char_noslash c Hc).
  - unfold label_char_ok in Hc. apply orb_prop in Hc. destruct Hc as [Hc|Hc].
    + now rewrite (repo_char_noslash c Hc).
    + apply Ascii.eqb_eq in Hc. subst c. reflexivity.
Qed.
