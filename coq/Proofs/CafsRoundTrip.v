(* Put followed by each read style gives back the content. *)
From Coq Require Import List NArith Arith Bool Lia.
From DM Require Import Model.Cafs Proofs.CafsWriter Proofs.CafsStore Proofs.CafsReadAt Proofs.CafsReadSeq
  Proofs.CafsReadSeqComplete Proofs.CafsWriteTo Proofs.CafsPut.
Import ListNotations.

Section RoundTrip.
Variable H : N -> N -> N -> bool -> list N -> list N.
Variable L : nat.
Hypothesis Lpos : 0 < L.
Hypothesis H_len : forall l o d b x, length (H l o d b x) = KS.

Lemma write_to_at_complete : forall s c jobs f,
  holds H L s c ->
  (forall j, In j jobs -> In j (index_from 0 (keys_of_leaves H L 0 (split_leaves L c)))) ->
  exists f', write_to_at H L s (length (split_leaves L c)) jobs f = Ok f'.
Proof.
  intros s c jobs. set (lv := split_leaves L c).
  assert (Hsh : shape L lv) by (apply split_shape; auto).
  induction jobs as [|[i k] jobs IH]; intros f Hh Hsub; cbn [write_to_at]; [eauto|].
  assert (Hj : honest_jobs H L lv [(i, k)]).
  { pose proof (honest_index_from H L Lpos lv 0 [] eq_refl) as Hall. cbn [app] in Hall.
    unfold honest_jobs in *. rewrite Forall_forall in Hall. constructor; [|constructor].
    apply Hall. apply Hsub. now left. }
  apply Forall_cons_iff in Hj. destruct Hj as [[d [Hd Hk]] _]. cbn [fst snd] in *. subst k.
  assert (Hi : i < length lv) by (apply nth_error_Some; congruence).
  assert (Hn : nth i lv [] = d) by (now apply nth_error_nth).
  pose proof (holds_honest H L Lpos s c Hh i Hi) as Hl. fold lv in Hl. rewrite Hn in Hl. rewrite Hl.
  rewrite verify_accepts.
  - apply IH; auto. intros j Hin. apply Hsub. now right.
  - intros Hne. rewrite <- Hn in Hne. apply (leaf_is_last_or_full L Lpos lv Hsh i Hi Hne).
  - destruct (Nat.eq_dec (length d) L); [now left|right]. rewrite <- Hn in n.
    apply (leaf_is_last_or_full L Lpos lv Hsh i Hi n).
Qed.

(* C01, full statement on the model *)
Theorem cafs_roundtrip : forall chunks s,
  nocoll H L (split_leaves L (concat chunks)) ->
  clean s (blob_writes H L (split_leaves L (concat chunks))) ->
  exists r, put H L chunks s = Ok r /\
    let c := concat chunks in let s' := pr_store r in let key := pr_key r in
    pr_written r = length c /\
    (forall off want, read_at H L key s' off want = Ok (firstn want (skipn off c))) /\
    (forall bufs orc, Forall (fun k => 0 < k) bufs -> length c < length bufs ->
       read_seq H L key s' bufs orc = Ok c) /\
    (forall jobs, (forall j, In j jobs <-> In j (index_from 0 (pr_keys r))) ->
       exists f', write_to_at H L s' (length (pr_keys r)) jobs [] = Ok f' /\
                  forall x, file_get f' x = nth_error c x).
Proof.
  intros chunks s Hnc Hc. destruct (put_key H L Lpos chunks s) as [r [Hp [Hw [Hk Hks]]]].
  exists r. split; [exact Hp|]. cbn zeta.
  assert (Hh : holds H L (pr_store r) (concat chunks)) by (eapply put_holds; eauto).
  split; [exact Hw|]. rewrite Hk. split; [|split].
  - intros off want. edestruct (read_at_complete H L) as [x Hx]; eauto.
    rewrite Hx. f_equal. eapply read_at_sound; eauto.
  - intros bufs orc Hpos Hlen. eapply read_seq_complete; eauto.
  - intros jobs Hperm. rewrite Hks in *. rewrite keys_length.
    destruct (write_to_at_complete _ _ jobs [] Hh) as [f' Hf]; [intros j Hin; now apply Hperm|].
    exists f'. split; [exact Hf|]. eapply write_to_at_content; eauto.
Qed.

End RoundTrip.
