(* Non-vacuity: the hypotheses of the cafs theorems are satisfiable.  A concrete hash with 64-byte
   digests for which no input collides with an honest input of the content [1;2;3] at leaf size 2,
   and an empty store, meet every premise of the round-trip theorem. *)
From Coq Require Import List NArith Arith Bool Lia.
From DM Require Import Model.Cafs Proofs.CafsWriter Proofs.CafsStore Proofs.CafsPut.
Import ListNotations.

Definition K1 : list N := repeat 1%N 64.
Definition K2 : list N := repeat 2%N 64.

Definition tag0 (o d : N) (b : bool) (x : list N) : N :=
  if N.eqb d 0 && N.eqb o 1 && negb b && bytes_eqb x [1;2]%N then 1%N
  else if N.eqb d 0 && N.eqb o 1 && b && bytes_eqb x [3]%N then 2%N
  else if N.eqb d 1 && N.eqb o 0 && b && bytes_eqb x (K1 ++ K2) then 3%N
  else 0%N.

Definition H0 (l o d : N) (b : bool) (x : list N) : list N := repeat (tag0 o d b x) 64.

Lemma H0_len : forall l o d b x, length (H0 l o d b x) = KS.
Proof. intros. unfold H0. now rewrite repeat_length. Qed.

Lemma and4 : forall a b c d : bool, a && b && c && d = true -> a = true /\ b = true /\ c = true /\ d = true.
Proof. intros a b c d. destruct a, b, c, d; cbn; auto; discriminate. Qed.

Lemma tag0_cases : forall o d b x,
  (tag0 o d b x = 1%N /\ d = 0%N /\ o = 1%N /\ b = false /\ x = [1;2]%N) \/
  (tag0 o d b x = 2%N /\ d = 0%N /\ o = 1%N /\ b = true /\ x = [3]%N) \/
  (tag0 o d b x = 3%N /\ d = 1%N /\ o = 0%N /\ b = true /\ x = K1 ++ K2) \/
  tag0 o d b x = 0%N.
Proof.
  intros o d b x. unfold tag0.
  destruct (N.eqb d 0 && N.eqb o 1 && negb b && bytes_eqb x [1; 2]%N) eqn:E1.
  { left. apply and4 in E1. destruct E1 as [A [B [C D]]].
    apply N.eqb_eq in A. apply N.eqb_eq in B. apply negb_true_iff in C. apply bytes_eqb_eq in D. auto. }
  destruct (N.eqb d 0 && N.eqb o 1 && b && bytes_eqb x [3]%N) eqn:E2.
  { right; left. apply and4 in E2. destruct E2 as [A [B [C D]]].
    apply N.eqb_eq in A. apply N.eqb_eq in B. apply bytes_eqb_eq in D. auto. }
  destruct (N.eqb d 1 && N.eqb o 0 && b && bytes_eqb x (K1 ++ K2)) eqn:E3.
  { right; right; left. apply and4 in E3. destruct E3 as [A [B [C D]]].
    apply N.eqb_eq in A. apply N.eqb_eq in B. apply bytes_eqb_eq in D. auto. }
  auto.
Qed.

Lemma repeat_inj64 : forall a b : N, repeat a 64 = repeat b 64 -> a = b.
Proof. intros a b E. cbn in E. now inversion E. Qed.

Definition c0 : list N := [1; 2; 3]%N.

Lemma split_c0 : split_leaves 2 c0 = [[1;2]; [3]]%N.
Proof. reflexivity. Qed.

Lemma keys_c0 : keys_of_leaves H0 2 0 (split_leaves 2 c0) = [K1; K2].
Proof. reflexivity. Qed.

Example hypotheses_satisfiable :
  (forall l o d b x, length (H0 l o d b x) = KS) /\
  nocoll H0 2 (split_leaves 2 c0) /\
  clean [] (blob_writes H0 2 (split_leaves 2 c0)).
Proof.
  split; [exact H0_len|]. split.
  - intros o d b x o' d' b' x' Hh E. unfold H0 in E. apply repeat_inj64 in E.
    assert (Ht : tag0 o d b x <> 0%N).
    { rewrite split_c0 in Hh. destruct Hh as [[-> [-> [-> ->]]]|[-> [i [Hn Hc]]]].
      - vm_compute. discriminate.
      - destruct i as [|[|i]]; cbn in Hn; try (destruct i; discriminate); inversion Hn; subst x;
        destruct Hc as [[Hl [-> ->]]|[Hl [-> ->]]]; cbn in Hl; try lia; vm_compute; discriminate. }
    destruct (tag0_cases o d b x) as [[T [-> [-> [-> ->]]]]|[[T [-> [-> [-> ->]]]]|[[T [-> [-> [-> ->]]]]|T]]]; try congruence;
    destruct (tag0_cases o' d' b' x') as [[T' [-> [-> [-> ->]]]]|[[T' [-> [-> [-> ->]]]]|[[T' [-> [-> [-> ->]]]]|T']]];
      try (rewrite T, T' in E; discriminate); auto.
  - intros k v Hin. now left.
Qed.
