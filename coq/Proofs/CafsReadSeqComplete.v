(* Sequential Read on a store that holds the object: with positive buffer sizes and enough
   calls, the read reaches EOF without error (completeness; soundness is in CafsReadSeq.v). *)
From Coq Require Import List NArith Arith Bool Lia.
From DM Require Import Model.Cafs Proofs.CafsWriter Proofs.CafsStore Proofs.CafsReadAt Proofs.CafsReadSeq.
Import ListNotations.

Section Complete.
Variable H : N -> N -> N -> bool -> list N -> list N.
Variable L : nat.
Hypothesis Lpos : 0 < L.
Variable s : bstore.
Variable lv : list (list N).
Hypothesis Hshape : shape L lv.
Let n := length lv.
(* the store holds every leaf under its honest key *)
Hypothesis Hhonest : forall i, i < n -> lookup (hkey H L i (nth i lv [])) s = Some (nth i lv []).

Definition mu (st : rst) (space : nat) : nat :=
  2 * space + 2 * (n - r_idx st) + (match r_cur st with Some _ => 1 | None => 0 end).

Lemma leaf_nonempty : forall i, i < n -> nth i lv [] <> [].
Proof.
  intros i Hi. unfold n in *. clear - Hshape Hi Lpos. revert i Hi.
  induction lv as [|d l IH]; intros i Hi; [cbn in Hi; lia|].
  destruct (shape_tail L Lpos d l Hshape) as [Hs' [Hd _]].
  destruct i; cbn [nth]; [intros ->; cbn in Hd; lia|]. apply IH; auto. cbn in Hi. lia.
Qed.

Definition good (res : rres) (k : nat) (D : list N) (st' : rst) : Prop :=
  match res with
  | RData a => length a = k /\ inv H L s lv st' (D ++ a)
  | REof a => D ++ a = concat lv
  | _ => False
  end.

Lemma read_loop_complete : forall fuel st k acc orc D,
  inv H L s lv st (D ++ acc) -> r_idx st < n -> length acc <= k -> 0 < k ->
  mu st (k - length acc) < fuel ->
  let '(res, st', _) := read_loop H L fuel s n st k acc orc in good res k D st'.
Proof.
  induction fuel as [|f IH]; intros st k acc orc D Hinv Hi Hacc Hk Hmu; [lia|].
  cbn [read_loop]. pose proof Hinv as Hinv0. destruct Hinv as [Hin [Htodo Hcur]].
  set (i := r_idx st) in *.
  rewrite (skipn_cons_nth lv i Hi), keys_of_leaves_cons in Htodo. set (d := nth i lv []) in *.
  rewrite Htodo.
  assert (Hc : (match r_cur st with Some c0 => Some c0 | None => lookup (hkey H L i d) s end) =
               Some (match r_cur st with Some c0 => c0 | None => d end)).
  { destruct (r_cur st); [reflexivity|]. apply Hhonest; exact Hi. }
  rewrite Hc. set (c := match r_cur st with Some c0 => c0 | None => d end) in *.
  assert (Hfull : r_leaf st ++ c = d /\ D ++ acc = concat (firstn i lv) ++ r_leaf st).
  { unfold c. destruct (r_cur st) as [rem|] eqn:Er.
    - destruct Hcur as [_ [HD Hl]]. fold i in Hl. fold d in Hl.
      pose proof (Hhonest i Hi) as Hh. fold d in Hh. split; [congruence|exact HD].
    - destruct Hcur as [Hleaf [HD _]]. rewrite Hleaf. cbn. split; [reflexivity|now rewrite app_nil_r]. }
  destruct Hfull as [Hd HD].
  destruct (leaf_read c (k - length acc) (match orc with x :: _ => x | [] => (k, false) end)) as [[out eof] rem'] eqn:Elr.
  destruct (leaf_read_spec _ _ _ _ _ _ Elr) as [Hsplit [Heof [Hspace Hprog]]].
  destruct eof.
  - specialize (Heof eq_refl). subst rem'. rewrite app_nil_r in Hsplit. subst c.
    rewrite Hsplit in Hd. rewrite Hd.
    assert (Hv : verify_leaf H L n i (hkey H L i d) d = true).
    { apply verify_accepts.
      - intros Hne. apply (leaf_is_last_or_full L Lpos lv Hshape i Hi Hne).
      - destruct (Nat.eq_dec (length d) L); [now left|right].
        apply (leaf_is_last_or_full L Lpos lv Hshape i Hi); auto. }
    rewrite Hv. cbn [negb].
    assert (HD' : D ++ acc ++ out = concat (firstn (S i) lv)).
    { rewrite app_assoc, HD, <- app_assoc, Hd. rewrite firstn_S_nth by assumption.
      rewrite concat_app. cbn. now rewrite app_nil_r. }
    assert (Hst' : forall lastb, (lastb = true -> S i = n) -> (lastb = false -> S i <> n) ->
               inv H L s lv {| r_todo := tl (hkey H L i d :: keys_of_leaves H L (S i) (skipn (S i) lv));
                               r_idx := S i; r_cur := None; r_leaf := []; r_last := lastb |} (D ++ acc ++ out)).
    { intros lastb Hl Hl'. unfold inv. cbn [r_idx r_todo r_cur r_leaf r_last tl].
      split; [unfold n in *; lia|]. split; [reflexivity|]. split; [reflexivity|]. split; [exact HD'|]. split; [exact Hl|].
      intros E. destruct lastb; [now left|]. exfalso. apply (Hl' eq_refl). exact E. }
    destruct (Nat.eqb_spec (S i) n) as [Elast|Elast].
    + destruct (Nat.eqb_spec (length out) k) as [Ek|Ek]; cbn [good].
      * split; [rewrite app_length; lia|]. apply Hst'; auto. discriminate.
      * rewrite HD', Elast. unfold n. now rewrite firstn_all.
    + specialize (IH {| r_todo := tl (hkey H L i d :: keys_of_leaves H L (S i) (skipn (S i) lv));
                        r_idx := S i; r_cur := None; r_leaf := []; r_last := false |} k (acc ++ out) (tl orc) D).
      apply IH; auto.
      * apply Hst'; [discriminate|auto].
      * cbn [r_idx]. unfold n in *. lia.
      * rewrite app_length. lia.
      * unfold mu in *. cbn [r_idx r_cur]. fold i in Hmu. rewrite app_length.
        destruct (r_cur st); lia.
  - assert (Hinv' : inv H L s lv {| r_todo := hkey H L i d :: keys_of_leaves H L (S i) (skipn (S i) lv); r_idx := i;
                                    r_cur := Some rem'; r_leaf := r_leaf st ++ out; r_last := r_last st |} (D ++ acc ++ out)).
    { unfold inv. cbn [r_idx r_todo r_cur r_leaf r_last].
      split; [lia|]. split; [now rewrite (skipn_cons_nth lv i Hi), keys_of_leaves_cons|].
      split; [exact Hi|]. split.
      - rewrite app_assoc, HD. now rewrite <- app_assoc.
      - fold d. rewrite <- app_assoc, <- Hsplit, Hd. apply Hhonest; exact Hi. }
    destruct (Nat.leb_spec k (length (acc ++ out))) as [Hfull|Hmore]; cbn [good].
    + split; [rewrite app_length in *; lia|]. exact Hinv'.
    + specialize (IH {| r_todo := hkey H L i d :: keys_of_leaves H L (S i) (skipn (S i) lv); r_idx := i;
                        r_cur := Some rem'; r_leaf := r_leaf st ++ out; r_last := r_last st |} k (acc ++ out) (tl orc) D).
      apply IH; auto.
      * rewrite app_length in *. lia.
      * (* progress: at least one byte was delivered *)
        assert (Hcne : c <> []).
        { unfold c. destruct (r_cur st) as [rem|] eqn:Er.
          - intros ->. cbn in Elr. inversion Elr.
          - apply leaf_nonempty; exact Hi. }
        assert (0 < length out) by (apply Hprog; auto; rewrite app_length in Hmore; lia).
        unfold mu in *. cbn [r_idx r_cur]. fold i in Hmu. rewrite app_length.
        destruct (r_cur st); lia.
Qed.

Lemma inv_prefix : forall st D, inv H L s lv st D -> length D <= length (concat lv).
Proof.
  intros st D [Hin [_ Hcur]]. set (i := r_idx st) in *.
  assert (Hf : forall j, length (concat (firstn j lv)) <= length (concat lv)).
  { intros j. rewrite <- (firstn_skipn j lv) at 2. rewrite concat_app, app_length. lia. }
  destruct (r_cur st) as [rem|].
  - destruct Hcur as [Hi [HD Hl]]. rewrite (Hhonest i Hi) in Hl. inversion Hl as [Hd].
    assert (length (D ++ rem) <= length (concat lv)).
    { rewrite HD, <- app_assoc, <- Hd. specialize (Hf (S i)). rewrite (firstn_S_nth lv i Hi) in Hf.
      rewrite concat_app in Hf. cbn in Hf. now rewrite app_nil_r in Hf. }
    rewrite app_length in *. lia.
  - destruct Hcur as [_ [HD _]]. rewrite HD. apply Hf.
Qed.

Lemma read_call_complete : forall st k orc D, inv H L s lv st D -> 0 < k ->
  let '(res, st', _) := read_call H L s n st k orc in good res k D st'.
Proof.
  intros st k orc D Hinv Hk. unfold read_call. pose proof Hinv as [Hin [_ Hcur]].
  destruct (r_cur st) as [rem|] eqn:Ec.
  - destruct Hcur as [Hi _]. destruct (Nat.eqb_spec n 0) as [En|En]; [lia|].
    pose proof (read_loop_complete (2 * k + 2 * n + 4) st k [] orc D) as Hl.
    rewrite app_nil_r in Hl. apply Hl; auto; cbn [length]; try lia.
    unfold mu. rewrite Ec. lia.
  - destruct Hcur as [_ [HD [Hl1 Hl2]]]. destruct (r_last st) eqn:El.
    + cbn [good]. rewrite app_nil_r, HD, (Hl1 eq_refl). unfold n. now rewrite firstn_all.
    + destruct (Nat.eqb_spec n 0) as [En|En].
      * cbn [good]. rewrite app_nil_r, HD. unfold n in En. destruct lv; [|discriminate]. now rewrite firstn_nil.
      * assert (Hi : r_idx st < n).
        { destruct (Nat.eq_dec (r_idx st) n) as [E|E]; [|lia]. destruct (Hl2 E); [discriminate|contradiction]. }
        pose proof (read_loop_complete (2 * k + 2 * n + 4) st k [] orc D) as Hl.
        rewrite app_nil_r in Hl. apply Hl; auto; cbn [length]; try lia.
        unfold mu. rewrite Ec. lia.
Qed.

Lemma read_all_complete : forall bufs st orc D,
  inv H L s lv st D -> Forall (fun k => 0 < k) bufs ->
  length (concat lv) - length D < length bufs ->
  read_all H L s n st bufs orc D = Ok (concat lv).
Proof.
  induction bufs as [|k bufs IH]; intros st orc D Hinv Hpos Hlen; [cbn in Hlen; lia|].
  apply Forall_cons_iff in Hpos. destruct Hpos as [Hk Hpos]. cbn [read_all].
  pose proof (read_call_complete st k orc D Hinv Hk) as Hc.
  destruct (read_call H L s n st k orc) as [[res st'] orc']. destruct res; cbn [good] in Hc; try contradiction.
  - destruct Hc as [Hlk Hinv']. apply IH; auto.
    pose proof (inv_prefix st' _ Hinv') as Hp. rewrite app_length in *. cbn [length] in Hlen. lia.
  - now rewrite Hc.
Qed.

End Complete.

Section RoundTrip.
Variable H : N -> N -> N -> bool -> list N -> list N.
Variable L : nat.
Hypothesis Lpos : 0 < L.
Hypothesis H_len : forall l o d b x, length (H l o d b x) = KS.

Lemma Forall2_keys_nth : forall (s : bstore) lv j,
  Forall2 (fun k d => lookup k s = Some d) (keys_of_leaves H L j lv) lv ->
  forall i, i < length lv -> lookup (hkey H L (j + i) (nth i lv [])) s = Some (nth i lv []).
Proof.
  induction lv as [|d lv IH]; intros j Hf i Hi; [cbn in Hi; lia|].
  rewrite keys_of_leaves_cons in Hf. inversion Hf as [|? ? ? ? Hd Hf']; subst.
  destruct i as [|i]; cbn [nth].
  - rewrite Nat.add_0_r. exact Hd.
  - replace (j + S i) with (S j + i) by lia. apply IH; auto. cbn in Hi. lia.
Qed.

Lemma holds_honest : forall s c, holds H L s c ->
  forall i, i < length (split_leaves L c) ->
  lookup (hkey H L i (nth i (split_leaves L c) [])) s = Some (nth i (split_leaves L c) []).
Proof. intros s c [_ Hf] i Hi. apply (Forall2_keys_nth s _ 0 Hf i Hi). Qed.

(* reading back a stored object with any positive buffer sizes and enough calls *)
Theorem read_seq_complete : forall s c bufs orc, holds H L s c ->
  Forall (fun k => 0 < k) bufs -> length c < length bufs ->
  read_seq H L (tree_key H L c) s bufs orc = Ok c.
Proof.
  intros s c bufs orc Hh Hpos Hlen. unfold read_seq.
  rewrite (leaves_for_hash_complete H L Lpos H_len s c Hh), keys_length.
  rewrite <- (split_leaves_concat L Lpos c) at 3.
  apply (read_all_complete H L Lpos s (split_leaves L c) (split_shape L Lpos c)); auto.
  - intros i Hi. apply (holds_honest s c Hh i Hi).
  - unfold inv. cbn. split; [lia|]. split; [reflexivity|]. split; [reflexivity|]. split; [reflexivity|].
    split; [discriminate|]. intros E. right. now rewrite <- E.
  - cbn [length]. rewrite split_leaves_concat by auto. lia.
Qed.

End RoundTrip.
