(* C18: the reference tree stays a tree under every operation: no path twice, no node at the root path,
   and every node's parent is a directory of the tree. *)
From Coq Require Import List String Ascii NArith Bool Arith Lia.
From DM Require Import Base.Util Base.Str Model.Mount Model.MutFs Proofs.MountProofs Proofs.MutFsProofs.
Import ListNotations.
Open Scope list_scope.

Definition wf (t : list (list string * node)) : Prop :=
  NoDup (map fst t) /\
  (forall e, In e t -> fst e <> []) /\
  (forall e, In e t -> parent (fst e) = [] \/ In (parent (fst e), NDir) t).

Lemma forallb_filter_id : forall {A} (f : A -> bool) l, forallb f l = true -> filter f l = l.
Proof. induction l as [|a l IH]; cbn; [reflexivity|]. intros H. apply andb_prop in H. destruct H as [Ha Hl]. now rewrite Ha, IH. Qed.

Lemma NoDup_app_one' : forall (l : list (list string)) x, NoDup l -> ~ In x l -> NoDup (l ++ [x]).
Proof.
  induction l as [|a l IH]; intros x Hnd Hx; cbn [app]; [constructor; [intros []|constructor]|].
  apply NoDup_cons_iff in Hnd. destruct Hnd as [Ha Hnd]. constructor.
  - intros Hin. apply in_app_or in Hin. destruct Hin as [Hin|[<-|[]]]; [contradiction|]. apply Hx. now left.
  - apply IH; auto. intros Hin. apply Hx. now right.
Qed.

Lemma NoDup_map_inj_pair : forall (t : list (list string * node)) p a b, NoDup (map fst t) -> In (p, a) t -> In (p, b) t -> a = b.
Proof.
  induction t as [|[q m] t IH]; intros p a b Hnd Ha Hb; [destruct Ha|].
  cbn [map fst] in Hnd. apply NoDup_cons_iff in Hnd. destruct Hnd as [Hq Hnd].
  destruct Ha as [Ha|Ha]; destruct Hb as [Hb|Hb].
  - congruence.
  - inversion Ha; subst. exfalso. apply Hq. apply in_map_iff. now exists (p, b).
  - inversion Hb; subst. exfalso. apply Hq. apply in_map_iff. now exists (p, a).
  - eapply IH; eauto.
Qed.

Lemma get_In : forall t p n, NoDup (map fst t) -> p <> [] -> (get p t = Some n <-> In (p, n) t).
Proof.
  intros t p n Hnd Hp. unfold get. destruct p as [|x p]; [congruence|]. clear Hp.
  induction t as [|[a m] t IH]; cbn [find fst]; [split; [discriminate|intros []]|].
  cbn [map fst] in Hnd. apply NoDup_cons_iff in Hnd. destruct Hnd as [Ha Hnd].
  destruct (path_eqb a (x :: p)) eqn:E.
  - apply path_eqb_eq in E. subst a. cbn [option_map snd]. split.
    + intros H. inversion H. now left.
    + intros [H|H]; [now inversion H|]. exfalso. apply Ha. apply in_map_iff. now exists (x :: p, n).
  - rewrite IH by exact Hnd. split; [now right|]. intros [H|H]; [|exact H]. inversion H; subst. rewrite path_eqb_refl in E. discriminate.
Qed.

Lemma get_none_notin : forall t p, p <> [] -> get p t = None -> ~ In p (map fst t).
Proof.
  intros t p Hp H Hin. unfold get in H. destruct p as [|x p]; [congruence|].
  apply in_map_iff in Hin. destruct Hin as [[a n] [E Hin]]. cbn in E. subst a.
  induction t as [|[a m] t IH]; [destruct Hin|]. cbn [find fst] in H. destruct (path_eqb a (x :: p)) eqn:E; [discriminate|].
  destruct Hin as [Hin|Hin]; [inversion Hin; subst; rewrite path_eqb_refl in E; discriminate|auto].
Qed.

Lemma parent_app_one : forall d n, parent (d ++ [n]) = d.
Proof. intros. unfold parent. apply removelast_last. Qed.

Lemma nonempty_split : forall (p : list string), p <> [] -> p = parent p ++ [base p].
Proof. intros p H. unfold parent, base. now apply app_removelast_last. Qed.

(* what parent_check establishes *)
Lemma ancestor_err_none : forall fuel k p t, ancestor_err fuel k p t = None -> List.length p - k <= fuel ->
  forall j, k <= j -> j < List.length p -> get (firstn j p) t = Some NDir.
Proof.
  induction fuel as [|f IH]; intros k p t H Hf j Hk Hj; [lia|]. cbn [ancestor_err] in H.
  destruct (Nat.leb (List.length p) k) eqn:E; [apply Nat.leb_le in E; lia|].
  destruct (get (firstn k p) t) as [[|d]|] eqn:Eg; try discriminate.
  destruct (Nat.eq_dec j k) as [->|Hne]; [exact Eg|]. apply (IH (S k) p t H); lia.
Qed.

Lemma parent_check_parent_dir : forall p t, parent_check p t = None -> parent p = [] \/ get (parent p) t = Some NDir.
Proof.
  intros p t H. unfold parent_check in H. destruct p as [|x p]; [discriminate|].
  destruct (Nat.eq_dec (List.length (x :: p)) 1) as [E|E].
  - left. destruct p; [reflexivity|cbn in E; lia].
  - right. unfold parent. rewrite removelast_firstn_len.
    apply (ancestor_err_none (List.length (x :: p)) 1 (x :: p) t H); cbn [List.length] in *; lia.
Qed.

(* ---- the operations that touch one path ---- *)
Lemma wf_put_new : forall t p n, wf t -> p <> [] -> get p t = None ->
  (parent p = [] \/ In (parent p, NDir) t) -> wf (put p n t).
Proof.
  intros t p n [Hnd [Hne Hpar]] Hp Hg Hpp. unfold put.
  assert (Hrem : remove p t = t).
  { unfold remove. apply forallb_filter_id. apply forallb_forall. intros e He. apply negb_true_iff.
    destruct (path_eqb (fst e) p) eqn:E; [|reflexivity]. apply path_eqb_eq in E.
    exfalso. apply (get_none_notin t p Hp Hg). rewrite <- E. now apply in_map. }
  rewrite Hrem. split; [|split].
  - rewrite map_app. cbn [map fst]. apply NoDup_app_one'; [exact Hnd|now apply get_none_notin].
  - intros e He. apply in_app_or in He. destruct He as [He|[<-|[]]]; [now apply Hne|exact Hp].
  - intros e He. apply in_app_or in He. destruct He as [He|[<-|[]]].
    + destruct (Hpar e He) as [H|H]; [now left|right; apply in_or_app; now left].
    + cbn [fst]. destruct Hpp as [H|H]; [now left|right; apply in_or_app; now left].
Qed.

Lemma wf_create_like : forall t p n, wf t -> parent_check p t = None -> get p t = None -> wf (put p n t).
Proof.
  intros t p n W Hc Hg. assert (Hp : p <> []) by (intros ->; discriminate).
  apply wf_put_new; auto. destruct (parent_check_parent_dir p t Hc) as [H|H]; [now left|].
  destruct (list_eq_dec string_dec (parent p) []) as [E|E]; [now left|]. right. apply get_In; auto. apply W.
Qed.

(* replacing the content of a file *)
Lemma wf_set_file : forall t p d0 d, wf t -> p <> [] -> In (p, NFile d0) t ->
  wf (map (fun e => if path_eqb (fst e) p then (p, NFile d) else e) t).
Proof.
  intros t p d0 d [Hnd [Hne Hpar]] Hp Hin.
  assert (Hfst : map fst (map (fun e : list string * node => if path_eqb (fst e) p then (p, NFile d) else e) t) = map fst t).
  { rewrite map_map. apply map_ext. intros e. destruct (path_eqb (fst e) p) eqn:E; [apply path_eqb_eq in E; now rewrite E|reflexivity]. }
  split; [now rewrite Hfst|split].
  - intros e He. apply in_map_iff in He. destruct He as [e0 [<- He0]]. destruct (path_eqb (fst e0) p); [exact Hp|now apply Hne].
  - intros e He. apply in_map_iff in He. destruct He as [e0 [<- He0]].
    assert (Hpe : parent (fst (if path_eqb (fst e0) p then (p, NFile d) else e0)) = parent (fst e0)).
    { destruct (path_eqb (fst e0) p) eqn:E; [apply path_eqb_eq in E; now rewrite E|reflexivity]. }
    rewrite Hpe. destruct (Hpar e0 He0) as [H|H]; [now left|right].
    apply in_map_iff. exists (parent (fst e0), NDir). split; [|exact H]. cbn [fst].
    destruct (path_eqb (parent (fst e0)) p) eqn:E; [|reflexivity].
    (* the parent would be the file p: impossible, p holds a file and paths are unique *)
    apply path_eqb_eq in E. exfalso. rewrite E in H.
    assert (NDir = NFile d0); [|discriminate].
    eapply NoDup_map_inj_pair; eauto.
Qed.

(* removing a node nobody hangs under *)
Lemma in_remove : forall p t e, In e (remove p t) <-> In e t /\ fst e <> p.
Proof.
  intros p t e. unfold remove. rewrite filter_In. split; intros [H1 H2]; split; auto.
  - intros E. rewrite E, path_eqb_refl in H2. discriminate.
  - apply negb_true_iff. destruct (path_eqb (fst e) p) eqn:E; [apply path_eqb_eq in E; contradiction|reflexivity].
Qed.

Lemma wf_remove : forall t p, wf t -> (forall e, In e t -> parent (fst e) <> p \/ fst e = p) -> wf (remove p t).
Proof.
  intros t p [Hnd [Hne Hpar]] Hleaf. split; [|split].
  - unfold remove. clear -Hnd. induction t as [|a t IH]; cbn; [constructor|]. cbn [map] in Hnd. apply NoDup_cons_iff in Hnd. destruct Hnd as [Ha Hnd].
    destruct (negb (path_eqb (fst a) p)); [|now apply IH]. cbn [map]. constructor; [|now apply IH].
    intros Hin. apply Ha. apply in_map_iff in Hin. destruct Hin as [e [E He]]. apply filter_In in He. apply in_map_iff. exists e. tauto.
  - intros e He. apply in_remove in He. apply Hne. tauto.
  - intros e He. apply in_remove in He. destruct He as [He Hep]. destruct (Hpar e He) as [H|H]; [now left|right].
    apply in_remove. split; [exact H|]. cbn [fst]. destruct (Hleaf e He) as [H1|H1]; [exact H1|contradiction].
Qed.

Lemma is_prefix_refl : forall p, is_prefix p p = true.
Proof. induction p as [|x p IH]; cbn; [reflexivity|]. now rewrite String.eqb_refl. Qed.

Lemma parent_strictly_below : forall p x, x <> [] -> parent x = p -> strictly_below p x = true.
Proof.
  intros p x Hx E. unfold strictly_below. rewrite (nonempty_split x Hx), E. apply andb_true_intro. split.
  - apply is_prefix_app. eauto.
  - apply Nat.ltb_lt. rewrite app_length. cbn. lia.
Qed.

Lemma no_children_leaf : forall t p, (forall e, In e t -> fst e <> []) -> has_children p t = false ->
  forall e, In e t -> parent (fst e) <> p \/ fst e = p.
Proof.
  intros t p Hne H e He. left. intros E. unfold has_children in H.
  assert (existsb (fun e => strictly_below p (fst e)) t = true); [|congruence].
  apply existsb_exists. exists e. split; [exact He|]. apply parent_strictly_below; auto.
Qed.

(* nothing hangs under a file *)
Lemma file_leaf : forall t p d, wf t -> In (p, NFile d) t -> forall e, In e t -> parent (fst e) <> p \/ fst e = p.
Proof.
  intros t p d [Hnd [Hne Hpar]] Hin e He. left. intros E. destruct (Hpar e He) as [H|H].
  - rewrite E in H. apply (Hne _ Hin). cbn [fst]. exact H.
  - rewrite E in H. assert (NDir = NFile d) by (eapply NoDup_map_inj_pair; eauto). discriminate.
Qed.

(* ---- one step, all operations but rename ---- *)
Theorem step_wf_simple : forall t o, wf t -> (match o with FRename _ _ => False | _ => True end) -> wf (fst (step t o)).
Proof.
  intros t o W Ho. pose proof W as [Hnd [Hne Hpar]]. destruct o; try contradiction; cbn [step].
  - (* create *) destruct (parent_check p t) eqn:Ec; [exact W|]. destruct (get p t) eqn:Eg; [exact W|]. cbn [fst]. apply wf_create_like; assumption.
  - (* mkdir *) destruct (parent_check p t) eqn:Ec; [exact W|]. destruct (get p t) eqn:Eg; [exact W|]. cbn [fst]. apply wf_create_like; assumption.
  - (* write *) destruct p as [|x p]; [exact W|]. destruct (get (x :: p) t) as [[|old]|] eqn:Eg; try exact W. cbn [fst].
    apply (wf_set_file t (x :: p) old _ W); [discriminate|]. apply get_In; [exact Hnd|discriminate|exact Eg].
  - (* truncate *) destruct p as [|x p]; [exact W|]. destruct (get (x :: p) t) as [[|old]|] eqn:Eg; try exact W. cbn [fst].
    apply (wf_set_file t (x :: p) old _ W); [discriminate|]. apply get_In; [exact Hnd|discriminate|exact Eg].
  - (* unlink *) destruct p as [|x p]; [exact W|]. destruct (get (x :: p) t) as [[|old]|] eqn:Eg; try exact W. cbn [fst].
    apply wf_remove; [exact W|]. apply (file_leaf t (x :: p) old W). apply get_In; [exact Hnd|discriminate|exact Eg].
  - (* rmdir *) destruct p as [|x p]; [exact W|]. destruct (get (x :: p) t) as [[|old]|] eqn:Eg; try exact W.
    destruct (has_children (x :: p) t) eqn:Eh; [exact W|]. cbn [fst]. apply wf_remove; [exact W|]. now apply no_children_leaf.
  - (* lookup *) destruct (get p t) as [[|d]|]; exact W.
  - (* read *) destruct (get p t) as [[|d]|]; exact W.
  - (* readdir *) destruct (get p t) as [[|d]|]; exact W.
Qed.

(* ---- rename ---- *)
Lemma is_prefix_split : forall p x, is_prefix p x = true -> x = p ++ skipn (List.length p) x.
Proof. intros p x H. apply is_prefix_app in H. destruct H as [r ->]. now rewrite skipn_app_exact. Qed.

Lemma parent_app : forall (a r : list string), r <> [] -> parent (a ++ r) = a ++ parent r.
Proof. intros a r H. unfold parent. now apply removelast_app. Qed.

(* every directory on the way to a node is in the tree *)
Lemma ancestors_present : forall t, wf t -> forall n (r a : list string) m, List.length r = n -> r <> [] -> a <> [] ->
  In (a ++ r, m) t -> In (a, NDir) t.
Proof.
  intros t [Hnd [Hne Hpar]]. induction n as [|n IH]; intros r a m Hl Hr Ha Hin; [destruct r; [congruence|discriminate]|].
  destruct (Hpar _ Hin) as [H|H]; cbn [fst] in H.
  - rewrite parent_app in H by exact Hr. apply app_eq_nil in H. tauto.
  - rewrite parent_app in H by exact Hr. destruct (list_eq_dec string_dec (parent r) []) as [E|E].
    + now rewrite E, app_nil_r in H.
    + apply (IH (parent r) a NDir); auto. unfold parent. rewrite removelast_firstn_len, firstn_length. lia.
Qed.

Definition mv (p q : list string) (e : list string * node) : list string * node :=
  if is_prefix p (fst e) then (move_path p q (fst e), snd e) else e.

Lemma NoDup_map_transfer : forall {A B C} (g : A -> B) (h : A -> C) (l : list A),
  NoDup (map h l) -> (forall a b, In a l -> In b l -> g a = g b -> h a = h b) -> NoDup (map g l).
Proof.
  intros A B C g h l. induction l as [|x l IH]; intros Hnd Hinj; cbn [map]; [constructor|].
  cbn [map] in Hnd. apply NoDup_cons_iff in Hnd. destruct Hnd as [Hx Hnd]. constructor.
  - intros Hin. apply in_map_iff in Hin. destruct Hin as [y [E Hy]]. apply Hx. apply in_map_iff. exists y. split; [|exact Hy].
    symmetry. apply Hinj; [now left|now right|now symmetry].
  - apply IH; [exact Hnd|]. intros a b Ha Hb. apply Hinj; now right.
Qed.

Lemma is_prefix_trans : forall a b c, is_prefix a b = true -> is_prefix b c = true -> is_prefix a c = true.
Proof.
  intros a b c H1 H2. apply is_prefix_app in H1. apply is_prefix_app in H2. destruct H1 as [r1 ->]. destruct H2 as [r2 ->].
  apply is_prefix_app. exists (r1 ++ r2). now rewrite app_assoc.
Qed.

Lemma is_prefix_parent : forall p x, x <> [] -> is_prefix p (parent x) = true -> is_prefix p x = true.
Proof.
  intros p x Hx H. eapply is_prefix_trans; [exact H|]. apply is_prefix_app. exists [base x]. now apply nonempty_split.
Qed.

(* the heart of it: moving a subtree to a place with nothing at or below it *)
Lemma wf_move : forall t p q, wf t -> p <> [] -> q <> [] ->
  In (p, NDir) t \/ (exists d, In (p, NFile d) t) ->
  (forall e, In e t -> is_prefix q (fst e) = false) ->
  is_prefix p q = false ->
  (parent q = [] \/ In (parent q, NDir) t) ->
  wf (map (mv p q) t).
Proof.
  intros t p q W Hp Hq Hpin Hfree Hpq Hqpar. pose proof W as [Hnd [Hne Hpar]].
  assert (Hmvfst : forall e, is_prefix p (fst e) = true -> fst (mv p q e) = q ++ skipn (List.length p) (fst e)).
  { intros e H. unfold mv. now rewrite H. }
  assert (Hmvid : forall e, is_prefix p (fst e) = false -> mv p q e = e).
  { intros e H. unfold mv. now rewrite H. }
  split; [|split].
  - (* no path twice *)
    rewrite map_map. apply (NoDup_map_transfer (fun e => fst (mv p q e)) fst t Hnd).
    intros a b Ha Hb E. destruct (is_prefix p (fst a)) eqn:Pa; destruct (is_prefix p (fst b)) eqn:Pb.
    + rewrite (Hmvfst a Pa), (Hmvfst b Pb) in E. apply app_inv_head in E.
      rewrite (is_prefix_split p (fst a) Pa), (is_prefix_split p (fst b) Pb). now rewrite E.
    + exfalso. rewrite (Hmvfst a Pa), (Hmvid b Pb) in E. specialize (Hfree b Hb). rewrite <- E in Hfree.
      assert (is_prefix q (q ++ skipn (List.length p) (fst a)) = true) by (apply is_prefix_app; eauto). congruence.
    + exfalso. rewrite (Hmvid a Pa), (Hmvfst b Pb) in E. specialize (Hfree a Ha). rewrite E in Hfree.
      assert (is_prefix q (q ++ skipn (List.length p) (fst b)) = true) by (apply is_prefix_app; eauto). congruence.
    + now rewrite (Hmvid a Pa), (Hmvid b Pb) in E.
  - (* no node at the root path *)
    intros e He. apply in_map_iff in He. destruct He as [e0 [<- He0]]. destruct (is_prefix p (fst e0)) eqn:P.
    + rewrite (Hmvfst e0 P). intros E. apply app_eq_nil in E. tauto.
    + rewrite (Hmvid e0 P). now apply Hne.
  - (* parents *)
    intros e He. apply in_map_iff in He. destruct He as [e0 [<- He0]]. destruct (is_prefix p (fst e0)) eqn:P.
    + rewrite (Hmvfst e0 P). destruct (list_eq_dec string_dec (skipn (List.length p) (fst e0)) []) as [Er|Er].
      * (* the moved node itself *)
        rewrite Er, app_nil_r. destruct Hqpar as [H|H]; [now left|right].
        apply in_map_iff. exists (parent q, NDir). split; [|exact H]. apply Hmvid. cbn [fst].
        destruct (is_prefix p (parent q)) eqn:E; [|reflexivity]. rewrite (is_prefix_parent p q Hq E) in Hpq. discriminate.
      * (* below it: the parent moves along *)
        right. rewrite parent_app by exact Er.
        assert (Hx : fst e0 = p ++ skipn (List.length p) (fst e0)) by now apply is_prefix_split.
        destruct (Hpar e0 He0) as [H|H].
        -- rewrite Hx, parent_app in H by exact Er. apply app_eq_nil in H. tauto.
        -- apply in_map_iff. exists (parent (fst e0), NDir). split; [|exact H].
           rewrite Hx at 1. rewrite parent_app by exact Er. unfold mv. cbn [fst snd].
           assert (Pp : is_prefix p (p ++ parent (skipn (List.length p) (fst e0))) = true) by (apply is_prefix_app; eauto).
           rewrite Pp. unfold move_path. now rewrite skipn_app_exact.
    + rewrite (Hmvid e0 P). destruct (Hpar e0 He0) as [H|H]; [now left|right].
      apply in_map_iff. exists (parent (fst e0), NDir). split; [|exact H]. apply Hmvid. cbn [fst].
      destruct (is_prefix p (parent (fst e0))) eqn:E; [|reflexivity].
      rewrite (is_prefix_parent p (fst e0) (Hne e0 He0) E) in P. discriminate.
Qed.

Lemma free_when_absent : forall t q, wf t -> q <> [] -> get q t = None -> forall e, In e t -> is_prefix q (fst e) = false.
Proof.
  intros t q W Hq Hg e He. destruct (is_prefix q (fst e)) eqn:P; [|reflexivity]. exfalso.
  pose proof W as [Hnd [Hne Hpar]]. pose proof (is_prefix_split q (fst e) P) as Hx.
  destruct (list_eq_dec string_dec (skipn (List.length q) (fst e)) []) as [Er|Er].
  - rewrite Er, app_nil_r in Hx. apply (get_none_notin t q Hq Hg). rewrite <- Hx. now apply in_map.
  - assert (In (q, NDir) t).
    { destruct e as [x m]. cbn [fst] in *. rewrite Hx in He. eapply (ancestors_present t W _ _ q m eq_refl Er Hq He). }
    apply (get_none_notin t q Hq Hg). apply in_map_iff. now exists (q, NDir).
Qed.

Lemma free_after_remove_file : forall t q d, wf t -> q <> [] -> In (q, NFile d) t -> forall e, In e (remove q t) -> is_prefix q (fst e) = false.
Proof.
  intros t q d W Hq Hin e He. apply in_remove in He. destruct He as [He Hne']. destruct (is_prefix q (fst e)) eqn:P; [|reflexivity]. exfalso.
  pose proof W as [Hnd _]. pose proof (is_prefix_split q (fst e) P) as Hx.
  destruct (list_eq_dec string_dec (skipn (List.length q) (fst e)) []) as [Er|Er]; [rewrite Er, app_nil_r in Hx; congruence|].
  assert (In (q, NDir) t).
  { destruct e as [x m]. cbn [fst] in *. rewrite Hx in He. eapply (ancestors_present t W _ _ q m eq_refl Er Hq He). }
  assert (NDir = NFile d) by (eapply NoDup_map_inj_pair; eauto). discriminate.
Qed.

Lemma free_after_remove_empty_dir : forall t q, q <> [] -> has_children q t = false -> forall e, In e (remove q t) -> is_prefix q (fst e) = false.
Proof.
  intros t q Hq Hc e He. apply in_remove in He. destruct He as [He Hne']. destruct (is_prefix q (fst e)) eqn:P; [|reflexivity]. exfalso.
  unfold has_children in Hc. assert (existsb (fun e => strictly_below q (fst e)) t = true); [|congruence].
  apply existsb_exists. exists e. split; [exact He|]. unfold strictly_below. rewrite P. cbn [andb]. apply Nat.ltb_lt.
  pose proof (is_prefix_split q (fst e) P) as Hx. destruct (skipn (List.length q) (fst e)) as [|y r] eqn:Er.
  - rewrite app_nil_r in Hx. congruence.
  - rewrite Hx, app_length. cbn. lia.
Qed.

Theorem step_wf : forall t o, wf t -> wf (fst (step t o)).
Proof.
  intros t o W. destruct o; try (apply step_wf_simple; [exact W|exact I]).
  pose proof W as [Hnd [Hne Hpar]]. cbn [step].
  destruct p as [|x p]; [exact W|]. set (P := x :: p) in *. assert (HP : P <> []) by discriminate.
  destruct (get P t) as [n|] eqn:Egp; [|exact W].
  destruct (parent_check q t) as [e|] eqn:Ec; [destruct e; exact W|].
  destruct (path_eqb P q) eqn:Epq; [exact W|]. destruct (is_prefix P q) eqn:Epre; [exact W|].
  assert (Hq : q <> []) by (intros ->; discriminate).
  assert (Hpq : P <> q) by (intros E; rewrite E, path_eqb_refl in Epq; discriminate).
  assert (HPin : In (P, n) t) by (apply get_In; auto).
  assert (Hqpar : parent q = [] \/ In (parent q, NDir) t).
  { destruct (parent_check_parent_dir q t Ec) as [H|H]; [now left|].
    destruct (list_eq_dec string_dec (parent q) []) as [E|E]; [now left|right; apply get_In; auto]. }
  assert (Hpin : In (P, NDir) t \/ (exists d, In (P, NFile d) t)) by (destruct n; eauto).
  assert (Hparq : parent q <> q).
  { intros E. pose proof (nonempty_split q Hq) as Hs. rewrite E in Hs. apply (f_equal (@List.length string)) in Hs. rewrite app_length in Hs. cbn in Hs. lia. }
  (* the same reasoning once the target is out of the way *)
  assert (Hmove : forall t0, wf t0 -> (forall e, In e t0 <-> In e t /\ (fst e <> q \/ False)) \/ t0 = t ->
            (forall e, In e t0 -> is_prefix q (fst e) = false) ->
            wf (map (fun e => if is_prefix P (fst e) then (move_path P q (fst e), snd e) else e) t0)).
  { intros t0 W0 Hrel Hfree. change (wf (map (mv P q) t0)). apply wf_move; auto.
    - destruct Hrel as [Hrel| ->]; [|exact Hpin]. destruct Hpin as [H|[d H]]; [left|right; exists d]; apply Hrel; split; auto.
    - destruct Hrel as [Hrel| ->]; [|exact Hqpar]. destruct Hqpar as [H|H]; [now left|right]. apply Hrel. split; [exact H|]. left. exact Hparq. }
  destruct n as [|dp]; destruct (get q t) as [[|dq]|] eqn:Egq; cbn [fst]; try exact W.
  - (* directory over directory *)
    destruct (has_children q t) eqn:Eh; [exact W|]. cbn [fst]. apply Hmove.
    + apply wf_remove; [exact W|]. now apply no_children_leaf.
    + left. intros e. rewrite in_remove. tauto.
    + now apply free_after_remove_empty_dir.
  - (* directory to a free name *) apply Hmove; [exact W|now right|now apply free_when_absent].
  - (* file over file *) apply Hmove.
    + apply wf_remove; [exact W|]. apply (file_leaf t q dq W). apply get_In; auto.
    + left. intros e. rewrite in_remove. tauto.
    + apply (free_after_remove_file t q dq W Hq). apply get_In; auto.
  - (* file to a free name *) apply Hmove; [exact W|now right|now apply free_when_absent].
Qed.

Theorem run_wf : forall ops t, wf t -> wf (run ops t).
Proof. induction ops as [|o ops IH]; intros t W; [exact W|]. unfold run. cbn [fold_left]. apply IH. now apply step_wf. Qed.

Lemma wf_empty : wf [].
Proof. split; [constructor|split; intros e []]. Qed.
