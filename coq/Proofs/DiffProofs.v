(* Proofs about Model/Diff.v: the diff is exact and updating reproduces the target. *)
From Coq Require Import List String Ascii NArith Bool Arith Lia.
From DM Require Import Base.Str Model.Meta Model.Diff.
Import ListNotations.
Open Scope list_scope.

Lemma NoDup_app_intro : forall {A} (a b : list A),
  NoDup a -> NoDup b -> (forall x, In x a -> In x b -> False) -> NoDup (a ++ b).
Proof.
  induction a as [|x a IH]; intros b Ha Hb Hd; cbn; [exact Hb|].
  apply NoDup_cons_iff in Ha. destruct Ha as [Hx Ha]. constructor.
  - intros Hin. apply in_app_or in Hin. destruct Hin as [Hin|Hin]; [tauto|]. apply (Hd x); [now left|exact Hin].
  - apply IH; auto. intros y H1 H2. apply (Hd y); [now right|exact H2].
Qed.

Lemma find_entry_some : forall n es e, find_entry n es = Some e -> In e es /\ e_name e = n.
Proof.
  induction es as [|x es IH]; intros e H; [discriminate|]. cbn in H.
  destruct (String.eqb n (e_name x)) eqn:E.
  - inversion H; subst. apply String.eqb_eq in E. split; [now left|auto].
  - destruct (IH e H). split; [now right|auto].
Qed.

Lemma find_entry_none : forall n es, find_entry n es = None <-> ~ In n (map e_name es).
Proof.
  induction es as [|x es IH]; cbn; [tauto|].
  destruct (String.eqb n (e_name x)) eqn:E.
  - apply String.eqb_eq in E. split; [discriminate|]. intros H. exfalso. apply H. now left.
  - apply String.eqb_neq in E. rewrite IH. split; intros H; [intros [C|C]; [congruence|tauto]|tauto].
Qed.

Lemma find_entry_self : forall es e, NoDup (map e_name es) -> In e es -> find_entry (e_name e) es = Some e.
Proof.
  induction es as [|x es IH]; intros e Hnd Hin; [destruct Hin|].
  cbn in Hnd. apply NoDup_cons_iff in Hnd. destruct Hnd as [Hx Hnd]. cbn.
  destruct Hin as [->|Hin]; [now rewrite String.eqb_refl|].
  destruct (String.eqb (e_name e) (e_name x)) eqn:E.
  - apply String.eqb_eq in E. exfalso. apply Hx. rewrite <- E. now apply in_map.
  - now apply IH.
Qed.

(* what the diff must contain *)
Definition in_spec (a b : list entry) (x : dkind * string) : Prop :=
  match fst x with
  | DAdd => In (snd x) (map e_name b) /\ ~ In (snd x) (map e_name a)
  | DDel => In (snd x) (map e_name a) /\ ~ In (snd x) (map e_name b)
  | DDif => exists ea eb, In ea a /\ In eb b /\ e_name ea = snd x /\ e_name eb = snd x /\ e_hash ea <> e_hash eb
  end.

Theorem diff_exact : forall a b x, NoDup (map e_name a) -> NoDup (map e_name b) ->
  In x (diff a b) <-> in_spec a b x.
Proof.
  intros a b [k n] Ha Hb. unfold diff, in_spec. cbn [fst snd]. rewrite in_app_iff, !in_flat_map. split.
  - intros [[e [Hin Hx]]|[e [Hin Hx]]].
    + destruct (find_entry (e_name e) b) as [e'|] eqn:Ef.
      * destruct (String.eqb (e_hash e) (e_hash e')) eqn:Eh; [destruct Hx|].
        destruct Hx as [Hx|[]]. inversion Hx; subst. apply String.eqb_neq in Eh.
        destruct (find_entry_some _ _ _ Ef) as [Hb' Hn]. exists e, e'. auto.
      * destruct Hx as [Hx|[]]. inversion Hx; subst. split; [now apply in_map|now apply find_entry_none].
    + destruct (find_entry (e_name e) a) eqn:Ef; [destruct Hx|].
      destruct Hx as [Hx|[]]. inversion Hx; subst. split; [now apply in_map|now apply find_entry_none].
  - destruct k.
    + intros [Hin Hnot]. right. apply in_map_iff in Hin. destruct Hin as [e [Hn He]]. exists e. split; auto.
      subst n. apply find_entry_none in Hnot. rewrite Hnot. now left.
    + intros [Hin Hnot]. left. apply in_map_iff in Hin. destruct Hin as [e [Hn He]]. exists e. split; auto.
      subst n. apply find_entry_none in Hnot. rewrite Hnot. now left.
    + intros [ea [eb [Hia [Hib [Hna [Hnb Hh]]]]]]. left. exists ea. split; auto.
      rewrite Hna, <- Hnb, (find_entry_self b eb Hb Hib).
      destruct (String.eqb (e_hash ea) (e_hash eb)) eqn:E; [apply String.eqb_eq in E; congruence|].
      rewrite Hnb. now left.
Qed.

(* each path occurs at most once in the diff *)
Theorem diff_names_nodup : forall a b, NoDup (map e_name a) -> NoDup (map e_name b) ->
  NoDup (map snd (diff a b)).
Proof.
  intros a b Ha Hb. unfold diff. rewrite map_app. apply NoDup_app_intro.
  - clear Hb. induction a as [|e a IH]; cbn; [constructor|].
    cbn in Ha. apply NoDup_cons_iff in Ha. destruct Ha as [He Ha]. specialize (IH Ha).
    assert (Hsub : forall n, In n (map snd (flat_map (fun e0 => match find_entry (e_name e0) b with
                     | Some e' => if String.eqb (e_hash e0) (e_hash e') then [] else [(DDif, e_name e0)]
                     | None => [(DDel, e_name e0)] end) a)) -> In n (map e_name a)).
    { clear. induction a as [|x a IH]; cbn; [tauto|]. intros n. rewrite map_app, in_app_iff. intros [H|H]; [|right; now apply IH].
      left. destruct (find_entry (e_name x) b); [destruct (String.eqb _ _)|]; cbn in H; tauto. }
    rewrite map_app. apply NoDup_app_intro; auto.
    + destruct (find_entry (e_name e) b); [destruct (String.eqb _ _)|]; cbn; repeat constructor; tauto.
    + intros n H1 H2. apply Hsub in H2.
      destruct (find_entry (e_name e) b); [destruct (String.eqb _ _)|]; cbn in H1; try tauto;
        destruct H1 as [<-|[]]; tauto.
  - clear Ha. induction b as [|e b IH]; cbn; [constructor|].
    cbn in Hb. apply NoDup_cons_iff in Hb. destruct Hb as [He Hb]. specialize (IH Hb).
    assert (Hsub : forall n, In n (map snd (flat_map (fun e0 => match find_entry (e_name e0) a with
                     | Some _ => [] | None => [(DAdd, e_name e0)] end) b)) -> In n (map e_name b)).
    { clear. induction b as [|x b IH]; cbn; [tauto|]. intros n. rewrite map_app, in_app_iff. intros [H|H]; [|right; now apply IH].
      left. destruct (find_entry (e_name x) a); cbn in H; tauto. }
    rewrite map_app. apply NoDup_app_intro; auto.
    + destruct (find_entry (e_name e) a); cbn; repeat constructor; tauto.
    + intros n H1 H2. apply Hsub in H2. destruct (find_entry (e_name e) a); cbn in H1; try tauto.
      destruct H1 as [<-|[]]; tauto.
  - (* first part names are in a and (for Del) not in b; second part names are not in a *)
    intros n H1 H2.
    assert (In n (map e_name a)).
    { clear - H1. induction a as [|x a IH]; cbn in *; [tauto|]. rewrite map_app, in_app_iff in H1. destruct H1 as [H|H]; [|right; now apply IH].
      left. destruct (find_entry (e_name x) b); [destruct (String.eqb _ _)|]; cbn in H; tauto. }
    assert (~ In n (map e_name a)).
    { clear - H2. induction b as [|x b IH]; cbn in *; [tauto|]. rewrite map_app, in_app_iff in H2. destruct H2 as [H|H]; [|now apply IH].
      destruct (find_entry (e_name x) a) eqn:E; cbn in H; [tauto|]. destruct H as [<-|[]]. now apply find_entry_none. }
    tauto.
Qed.

(* ---- update ---- *)
Lemma dget_dremove_same : forall n d, dget n (dremove n d) = None.
Proof. induction d as [|[k v] d IH]; cbn; [reflexivity|]. destruct (String.eqb n k) eqn:E; [exact IH|]. cbn. now rewrite E. Qed.

Lemma dget_dremove_other : forall n m d, n <> m -> dget n (dremove m d) = dget n d.
Proof.
  induction d as [|[k v] d IH]; intros Hne; cbn; [reflexivity|].
  destruct (String.eqb m k) eqn:E.
  - apply String.eqb_eq in E. subst k. destruct (String.eqb n m) eqn:E'; [apply String.eqb_eq in E'; congruence|]. now apply IH.
  - cbn. destruct (String.eqb n k); [reflexivity|]. now apply IH.
Qed.

Lemma dget_dir_of : forall n es, dget n (dir_of es) = option_map e_hash (find_entry n es).
Proof. induction es as [|e es IH]; cbn; [reflexivity|]. destruct (String.eqb n (e_name e)); [reflexivity|exact IH]. Qed.

Lemma apply_one_other : forall b d x n, n <> snd x -> dget n (apply_one b d x) = dget n d.
Proof.
  intros b d [k m] n Hne. unfold apply_one. cbn [fst snd] in *.
  destruct k; [destruct (find_entry m b)| |destruct (find_entry m b)]; cbn [dget]; auto;
    try (destruct (String.eqb n m) eqn:E; [apply String.eqb_eq in E; congruence|]);
    try now apply dget_dremove_other.
Qed.

Lemma fold_other : forall b xs d n, ~ In n (map snd xs) -> dget n (fold_left (apply_one b) xs d) = dget n d.
Proof.
  induction xs as [|x xs IH]; intros d n Hn; cbn; [reflexivity|].
  cbn in Hn. rewrite IH by tauto. apply apply_one_other. intros E. apply Hn. left. now rewrite E.
Qed.

Lemma fold_hit' : forall b xs d k n, NoDup (map snd xs) -> In (k, n) xs ->
  forall d0, (forall m, dget m d0 = dget m d0) ->
  dget n (fold_left (apply_one b) xs d) =
  match k, find_entry n b with
  | DDel, _ => None
  | _, Some e => Some (e_hash e)
  | _, None => dget n d
  end.
Proof.
  induction xs as [|x xs IH]; intros d k n Hnd Hin d0 _; [destruct Hin|].
  cbn [map] in Hnd. apply NoDup_cons_iff in Hnd. destruct Hnd as [Hx Hnd]. cbn [fold_left].
  destruct Hin as [->|Hin].
  - cbn [snd] in Hx. rewrite fold_other by exact Hx. unfold apply_one. cbn [fst snd].
    destruct k; [destruct (find_entry n b)| |destruct (find_entry n b)]; cbn [dget]; rewrite ?String.eqb_refl; auto using dget_dremove_same.
  - assert (Hne : n <> snd x). { intros ->. apply Hx. change (snd x) with (snd (k, snd x)). now apply in_map. }
    rewrite (IH _ k n Hnd Hin d (fun _ => eq_refl)).
    destruct k; [destruct (find_entry n b)| |destruct (find_entry n b)]; auto using apply_one_other.
Qed.

(* updating a local copy of bundle a to bundle b gives exactly the files of b *)
Theorem update_exact : forall a b, NoDup (map e_name a) -> NoDup (map e_name b) ->
  forall n, dget n (update a b (dir_of a)) = dget n (dir_of b).
Proof.
  intros a b Ha Hb n. unfold update.
  pose proof (diff_names_nodup a b Ha Hb) as Hnd.
  destruct (in_dec string_dec n (map snd (diff a b))) as [Hin|Hnin].
  - apply in_map_iff in Hin. destruct Hin as [[k m] [Hm Hin]]. cbn in Hm. subst m.
    rewrite (fold_hit' b _ _ k n Hnd Hin (dir_of a) (fun _ => eq_refl)).
    apply (diff_exact a b (k, n) Ha Hb) in Hin. unfold in_spec in Hin. cbn [fst snd] in Hin.
    rewrite !dget_dir_of. destruct k.
    + destruct Hin as [Hib Hna]. apply in_map_iff in Hib. destruct Hib as [e [<- He]].
      now rewrite (find_entry_self b e Hb He).
    + destruct Hin as [_ Hnb]. apply find_entry_none in Hnb. now rewrite Hnb.
    + destruct Hin as [ea [eb [_ [Hib [_ [<- _]]]]]]. now rewrite (find_entry_self b eb Hb Hib).
  - rewrite fold_other by exact Hnin. rewrite !dget_dir_of.
    (* not in the diff: same entry on both sides, or absent from both *)
    destruct (find_entry n a) as [ea|] eqn:Ea; destruct (find_entry n b) as [eb|] eqn:Eb; cbn; auto.
    + destruct (find_entry_some _ _ _ Ea) as [Hia Hna]. destruct (find_entry_some _ _ _ Eb) as [Hib Hnb].
      destruct (string_dec (e_hash ea) (e_hash eb)) as [->|Hne]; [reflexivity|].
      exfalso. apply Hnin. change n with (snd (DDif, n)). apply in_map. apply (diff_exact a b (DDif, n) Ha Hb). unfold in_spec; cbn [fst snd].
      exists ea, eb. auto.
    + destruct (find_entry_some _ _ _ Ea) as [Hia Hna]. exfalso. apply Hnin. change n with (snd (DDel, n)). apply in_map.
      apply (diff_exact a b (DDel, n) Ha Hb). unfold in_spec; cbn [fst snd]. split; [rewrite <- Hna; now apply in_map|now apply find_entry_none].
    + destruct (find_entry_some _ _ _ Eb) as [Hib Hnb]. exfalso. apply Hnin. change n with (snd (DAdd, n)). apply in_map.
      apply (diff_exact a b (DAdd, n) Ha Hb). unfold in_spec; cbn [fst snd]. split; [rewrite <- Hnb; now apply in_map|now apply find_entry_none].
Qed.
