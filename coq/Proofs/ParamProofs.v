(* Proofs about Model/Param.v: decoding an encoded parameter string gives back the
   flags and the non-empty fields. *)
From Coq Require Import List NArith Bool String Ascii Lia.
From DM Require Import Model.Param.
Import ListNotations.
Open Scope N_scope.

Lemma mem_In : forall c l, mem c l = true <-> In c l.
Proof.
  induction l as [|x t IH]; cbn; [split; [discriminate|tauto]|].
  rewrite orb_true_iff, IH, N.eqb_eq. split; intros [H|H]; auto.
Qed.

Lemma mem_app : forall c a b, mem c (a ++ b) = mem c a || mem c b.
Proof. induction a as [|x t IH]; intros b; cbn; [reflexivity|]. now rewrite IH, orb_assoc. Qed.

Lemma mem_concat_false : forall c (ls : list str) l, mem c (List.concat ls) = false -> In l ls -> mem c l = false.
Proof.
  induction ls as [|x t IH]; intros l H Hin; [destruct Hin|].
  cbn in H. rewrite mem_app in H. apply orb_false_iff in H. destruct H as [H1 H2].
  destruct Hin as [->|Hin]; auto.
Qed.

(* ---- first_free ---- *)
Definition count_ge (used : str) (c : N) : nat := List.length (filter (fun u => c <=? u) used).

Lemma count_ge_succ_le : forall used c, (count_ge used (c + 1) <= count_ge used c)%nat.
Proof.
  unfold count_ge. induction used as [|u t IH]; intros c; cbn; [lia|].
  specialize (IH c).
  destruct (c + 1 <=? u) eqn:E1, (c <=? u) eqn:E2; cbn; try lia.
  apply N.leb_le in E1. apply N.leb_gt in E2. lia.
Qed.

Lemma count_ge_succ_lt : forall used c, mem c used = true -> (count_ge used (c + 1) < count_ge used c)%nat.
Proof.
  unfold count_ge. induction used as [|u t IH]; intros c H; cbn in *; [discriminate|].
  pose proof (count_ge_succ_le t c) as Hle. unfold count_ge in Hle.
  destruct (c =? u) eqn:E.
  - apply N.eqb_eq in E. subst u.
    destruct (c + 1 <=? c) eqn:E1; [apply N.leb_le in E1; lia|].
    rewrite N.leb_refl. cbn. lia.
  - cbn in H. specialize (IH c H).
    destruct (c + 1 <=? u) eqn:E1, (c <=? u) eqn:E2; cbn; try lia.
    apply N.leb_le in E1. apply N.leb_gt in E2. lia.
Qed.

Lemma first_free_spec : forall fuel used c, (count_ge used c < fuel)%nat ->
  c <= first_free fuel used c /\ mem (first_free fuel used c) used = false.
Proof.
  induction fuel as [|f IH]; intros used c H; [lia|].
  cbn [first_free]. destruct (mem c used) eqn:E.
  - pose proof (count_ge_succ_lt used c E) as Hlt.
    destruct (IH used (c + 1)) as [H1 H2]; [lia|]. split; [lia|exact H2].
  - split; [lia|exact E].
Qed.

Lemma count_ge_le_length : forall used c, (count_ge used c <= List.length used)%nat.
Proof. intros. unfold count_ge. induction used as [|u t IH]; cbn; [lia|]. destruct (c <=? u); cbn; lia. Qed.

Lemma set_separators_spec : forall values i k, set_separators values = (i, k) ->
  i <> k /\ zero_char <= i /\ zero_char <= k /\
  mem i (List.concat values) = false /\ mem k (List.concat values) = false /\
  mem i param_name_chars = false /\ mem k param_name_chars = false.
Proof.
  intros values i k H. unfold set_separators in H.
  set (invalid := List.concat values ++ param_name_chars) in *.
  set (i0 := first_free (S (List.length invalid)) invalid zero_char) in *.
  set (k0 := first_free (S (List.length (invalid ++ [i0]))) (invalid ++ [i0]) zero_char) in *.
  assert (A : zero_char <= i0 /\ mem i0 invalid = false).
  { apply first_free_spec. pose proof (count_ge_le_length invalid zero_char). lia. }
  assert (B : zero_char <= k0 /\ mem k0 (invalid ++ [i0]) = false).
  { apply first_free_spec. pose proof (count_ge_le_length (invalid ++ [i0]) zero_char). lia. }
  clearbody i0 k0. inversion H; subst i0 k0; clear H.
  destruct A as [A1 A2]. destruct B as [B1 B2].
  rewrite mem_app in B2. apply orb_false_iff in B2. destruct B2 as [B2 B3].
  unfold mem in B3. rewrite orb_false_r in B3. apply N.eqb_neq in B3.
  unfold invalid in A2, B2. rewrite mem_app in A2, B2.
  apply orb_false_iff in A2. apply orb_false_iff in B2.
  destruct A2, B2. repeat split; auto.
Qed.

(* ---- trim_suffix / split_on ---- *)
Lemma trim_suffix_snoc : forall i l, trim_suffix i (l ++ [i]) = l.
Proof. intros. unfold trim_suffix. rewrite rev_app_distr. cbn. now rewrite N.eqb_refl, rev_involutive. Qed.

Lemma filter_all_true : forall {A} (f : A -> bool) l, (forall x, In x l -> f x = true) -> filter f l = l.
Proof.
  induction l as [|x t IH]; intros H; cbn; [reflexivity|].
  rewrite (H x (or_introl eq_refl)), IH; auto. intros; apply H; now right.
Qed.

Lemma enc_body_snoc : forall i k (xs : list (list N)) last,
  trim_suffix i (i :: k :: List.concat (map (fun it => it ++ [i]) (xs ++ [last])))
  = i :: k :: List.concat (map (fun it => it ++ [i]) xs) ++ last.
Proof.
  intros. rewrite map_app, concat_app. cbn [map List.concat]. rewrite app_nil_r.
  rewrite <- (trim_suffix_snoc i (i :: k :: List.concat (map (fun it => it ++ [i]) xs) ++ last)).
  f_equal. cbn. now rewrite <- !app_assoc.
Qed.

Lemma split_on_none : forall sep l, mem sep l = false -> split_on sep l = [l].
Proof.
  induction l as [|x t IH]; intros H; cbn in *; [reflexivity|].
  apply orb_false_iff in H. destruct H as [H1 H2]. rewrite N.eqb_sym in H1. rewrite H1, (IH H2). reflexivity.
Qed.

Lemma split_on_app : forall sep x rest, mem sep x = false ->
  split_on sep (x ++ sep :: rest) = x :: split_on sep rest.
Proof.
  induction x as [|c t IH]; intros rest H; cbn in *.
  - now rewrite N.eqb_refl.
  - apply orb_false_iff in H. destruct H as [H1 H2]. rewrite N.eqb_sym in H1. rewrite H1, (IH rest H2). reflexivity.
Qed.

Lemma split_on_items : forall sep (items : list str) last,
  (forall it, In it items -> mem sep it = false) -> mem sep last = false ->
  split_on sep (List.concat (map (fun it => it ++ [sep]) items) ++ last) = items ++ [last].
Proof.
  induction items as [|it t IH]; intros last H Hl; cbn.
  - now apply split_on_none.
  - rewrite <- !app_assoc. cbn. rewrite split_on_app by (apply H; now left).
    rewrite IH; auto. intros; apply H; now right.
Qed.

Lemma parse_item_field : forall k n v, mem k n = false -> mem k v = false ->
  parse_item k (n ++ [k] ++ v) = (n, v).
Proof. intros. unfold parse_item. cbn. rewrite split_on_app by auto. now rewrite split_on_none. Qed.

Lemma parse_item_flag : forall k f, mem k f = false -> parse_item k f = (f, cp "true").
Proof. intros. unfold parse_item. now rewrite split_on_none. Qed.

Lemma fields_decode : forall k (fields : list (list N * list N)),
  (forall nv, In nv fields -> mem k (fst nv) = false /\ mem k (snd nv) = false) ->
  map (parse_item k) (field_items k fields) = filter (fun nv => nonempty (snd nv)) fields.
Proof.
  induction fields as [|[n v] t IH]; intros H; [reflexivity|].
  unfold field_items in *. cbn [filter snd fst].
  destruct v as [|c v']; cbn [negb nonempty].
  - apply IH. intros; apply H; now right.
  - cbn [map fst snd]. rewrite IH by (intros; apply H; now right). f_equal.
    destruct (H (n, c :: v') (or_introl eq_refl)) as [H1 H2]. cbn [fst snd] in *.
    now rewrite parse_item_field.
Qed.

Definition sep_free (i k : N) (s : str) : Prop := mem i s = false /\ mem k s = false.

Lemma nonempty_app_l : forall a b : str, nonempty a = true -> nonempty (a ++ b) = true.
Proof. destruct a; cbn; auto; discriminate. Qed.

(* the general round trip *)
Theorem enc_dec : forall i k flags fields e,
  i <> k -> i <> dot_char -> k <> dot_char ->
  (forall f, In f flags -> nonempty f = true /\ sep_free i k f) ->
  (forall nv, In nv fields -> nonempty (fst nv) = true /\ sep_free i k (fst nv)) ->
  enc_string i k flags fields = Some e ->
  dec_string e = Some (expected flags fields).
Proof.
  intros i k flags fields e Hik Hi Hk Hfl Hfi Henc.
  unfold enc_string in Henc.
  destruct (existsb _ fields) eqn:Ex; [discriminate|]. inversion Henc as [He]; clear Henc.
  assert (Hvals : forall nv, In nv fields -> sep_free i k (snd nv)).
  { intros nv Hin. destruct (contains_sep i k (snd nv)) eqn:E.
    - assert (existsb (fun nv => contains_sep i k (snd nv)) fields = true) by (apply existsb_exists; eauto).
      congruence.
    - unfold contains_sep in E. apply orb_false_iff in E. exact E. }
  set (items := flags ++ field_items k fields) in *.
  (* every item is non-empty and free of the item separator *)
  assert (Hitems : forall it, In it items -> nonempty it = true /\ mem i it = false).
  { intros it Hin. apply in_app_or in Hin. destruct Hin as [Hin|Hin].
    - destruct (Hfl it Hin) as [? [? ?]]. auto.
    - unfold field_items in Hin. apply in_map_iff in Hin. destruct Hin as [nv [<- Hin]].
      apply filter_In in Hin. destruct Hin as [Hin _].
      destruct (Hfi nv Hin) as [Hn [Hn1 Hn2]]. destruct (Hvals nv Hin) as [Hv1 Hv2].
      split; [now apply nonempty_app_l|].
      rewrite !mem_app, Hn1, Hv1. cbn. rewrite !orb_false_r. apply N.eqb_neq. auto. }
  assert (Hdecode : map (parse_item k) items = expected flags fields).
  { unfold items, expected. rewrite map_app. f_equal.
    - apply map_ext_in. intros f Hin. apply parse_item_flag. now destruct (Hfl f Hin) as [_ [_ ?]].
    - apply fields_decode. intros nv Hin. split; [apply (Hfi nv Hin)|apply (Hvals nv Hin)]. }
  destruct items as [|it0 its] eqn:Eit using rev_ind.
  - (* no item at all *)
    subst e. cbn [map List.concat]. unfold trim_suffix. cbn [rev app].
    destruct (k =? i) eqn:E; [apply N.eqb_eq in E; congruence|].
    unfold dec_string.
    destruct (i =? dot_char) eqn:E1; [apply N.eqb_eq in E1; congruence|].
    destruct (k =? dot_char) eqn:E2; [apply N.eqb_eq in E2; congruence|].
    cbn. rewrite <- Hdecode. reflexivity.
  - clear IHits. rename it0 into last. rename its into xs.
    rewrite enc_body_snoc. unfold dec_string.
    destruct (i =? dot_char) eqn:E1; [apply N.eqb_eq in E1; congruence|].
    destruct (k =? dot_char) eqn:E2; [apply N.eqb_eq in E2; congruence|].
    cbn [orb]. f_equal. rewrite split_on_items.
    + rewrite <- Hdecode. f_equal.
      apply filter_all_true. intros it Hin. now apply Hitems.
    + intros it Hin. apply Hitems. apply in_or_app. now left.
    + apply Hitems. apply in_or_app. right. now left.
Qed.

(* ---- the two public encoders ---- *)
Definition subset (a b : list N) : bool := forallb (fun x => mem x b) a.

Lemma subset_mem_false : forall a b c, subset a b = true -> mem c b = false -> mem c a = false.
Proof.
  intros a b c Hs Hb. destruct (mem c a) eqn:E; [|reflexivity].
  apply mem_In in E. unfold subset in Hs. rewrite forallb_forall in Hs.
  specialize (Hs c E). congruence.
Qed.

Definition names_ok (fields : list (list N * list N)) : bool :=
  forallb (fun nv => nonempty (fst nv) && subset (fst nv) param_name_chars) fields.

Lemma names_ok_sep_free : forall fields i k,
  names_ok fields = true -> mem i param_name_chars = false -> mem k param_name_chars = false ->
  forall nv, In nv fields -> nonempty (fst nv) = true /\ sep_free i k (fst nv).
Proof.
  intros fields i k H Hi Hk nv Hin. unfold names_ok in H. rewrite forallb_forall in H.
  specialize (H nv Hin). apply andb_prop in H. destruct H as [H1 H2].
  split; auto. split; eapply subset_mem_false; eauto.
Qed.

Lemma all_some_Forall2 : forall {A B} (f : A -> option B) l bs,
  all_some (map f l) = Some bs -> Forall2 (fun x e => f x = Some e) l bs.
Proof.
  induction l as [|x t IH]; intros bs H; cbn in H.
  - inversion H. constructor.
  - destruct (f x) eqn:E; [|discriminate].
    destruct (all_some (map f t)) eqn:E2; [|discriminate]. inversion H; subst.
    constructor; auto.
Qed.

Lemma Forall2_impl : forall {A B} (P Q : A -> B -> Prop) l1 l2,
  (forall a b, P a b -> Q a b) -> Forall2 P l1 l2 -> Forall2 Q l1 l2.
Proof. intros A B P Q l1 l2 H F. induction F; constructor; auto. Qed.

Lemma zero_not_dot : forall c, zero_char <= c -> c <> dot_char.
Proof. unfold zero_char, dot_char. intros. lia. Qed.

Lemma flags_ok : forall (b : bool) i k,
  mem i param_name_chars = false -> mem k param_name_chars = false ->
  forall f, In f (if b then [cp "S"] else []) -> nonempty f = true /\ sep_free i k f.
Proof.
  intros b i k Hi Hk f Hin. destruct b; [|destruct Hin]. destruct Hin as [<-|[]].
  split; [reflexivity|]. split; eapply subset_mem_false; eauto; reflexivity.
Qed.

Theorem fuse_env_roundtrip : forall p envs, fuse_env p = Some envs ->
  exists bs g,
    envs = combine (map (fun b => cp "dm_fuse_bd_" ++ fb_name b) (fp_bundles p)) bs ++ [(cp "dm_fuse_opts", g)] /\
    dec_string g = Some (expected (fuse_global_flags p) (fuse_global_fields p)) /\
    Forall2 (fun b e => dec_string e = Some (expected [] (fb_fields b))) (fp_bundles p) bs.
Proof.
  intros p envs H. unfold fuse_env in H.
  destruct (set_separators (fuse_values p)) as [i k] eqn:Es.
  destruct (set_separators_spec _ _ _ Es) as [Hik [Hi0 [Hk0 [_ [_ [Hin Hkn]]]]]].
  destruct (all_some _) as [bs|] eqn:Eb; [|discriminate].
  destruct (negb _ || _ || _); [discriminate|].
  destruct (enc_string i k (fuse_global_flags p) (fuse_global_fields p)) as [g|] eqn:Eg; [|discriminate].
  inversion H; subst envs. exists bs, g. split; [reflexivity|]. split.
  - eapply enc_dec; eauto using zero_not_dot.
    + apply flags_ok; auto.
    + apply names_ok_sep_free; auto.
  - apply all_some_Forall2 in Eb. eapply Forall2_impl; [|exact Eb].
    intros b e He. eapply enc_dec; eauto using zero_not_dot.
    + intros f [].
    + apply names_ok_sep_free; auto.
Qed.

Theorem pg_env_roundtrip : forall p envs, pg_env p = Some envs ->
  exists ds g,
    envs = combine (map (fun d => cp "dm_pg_db_" ++ pd_name d) (pp_dbs p)) ds ++ [(cp "dm_pg_opts", g)] /\
    dec_string g = Some (expected (pg_global_flags p) (pg_global_fields p)) /\
    Forall2 (fun d e => dec_string e = Some (expected [] (pd_fields d))) (pp_dbs p) ds.
Proof.
  intros p envs H. unfold pg_env in H.
  destruct (set_separators (pg_values p)) as [i k] eqn:Es.
  destruct (set_separators_spec _ _ _ Es) as [Hik [Hi0 [Hk0 [_ [_ [Hin Hkn]]]]]].
  destruct (all_some _) as [ds|] eqn:Eb; [|discriminate].
  destruct (negb _); [discriminate|].
  destruct (enc_string i k (pg_global_flags p) (pg_global_fields p)) as [g|] eqn:Eg; [|discriminate].
  inversion H; subst envs. exists ds, g. split; [reflexivity|]. split.
  - eapply enc_dec; eauto using zero_not_dot.
    + apply flags_ok; auto.
    + apply names_ok_sep_free; auto.
  - apply all_some_Forall2 in Eb. eapply Forall2_impl; [|exact Eb].
    intros d e He. eapply enc_dec; eauto using zero_not_dot.
    + intros f [].
    + apply names_ok_sep_free; auto.
Qed.

(* unambiguity: two parameter strings that decode differently are different strings is trivial;
   the useful direction: encoding never fails for lack of a separator - after set_separators the
   separator test of appendToParamString cannot fire *)
Theorem enc_never_refuses : forall values i k flags fields,
  set_separators values = (i, k) ->
  (forall nv, In nv fields -> In (snd nv) values) ->
  enc_string i k flags fields <> None.
Proof.
  intros values i k flags fields Es Hv. unfold enc_string.
  destruct (set_separators_spec _ _ _ Es) as [_ [_ [_ [Hi [Hk _]]]]].
  destruct (existsb _ fields) eqn:E; [|discriminate].
  apply existsb_exists in E. destruct E as [nv [Hin Hc]].
  unfold contains_sep in Hc. rewrite (mem_concat_false i values (snd nv)), (mem_concat_false k values (snd nv)) in Hc; auto.
  discriminate.
Qed.

(* without the parameter-name characters in the excluded set the round trip fails: the
   pre-repair encoder, witness = values using every code point from '0' to 'R' *)
Definition set_separators_old (values : list (list N)) : N * N :=
  let invalid := List.concat values in
  let isep := first_free (S (List.length invalid)) invalid zero_char in
  let invalid2 := invalid ++ [isep] in
  (isep, first_free (S (List.length invalid2)) invalid2 zero_char).

Example old_separators_refuted :
  let v := map N.of_nat (seq 48 35) in        (* '0' .. 'R' *)
  let '(i, k) := set_separators_old [cp "true"; v] in
  exists e, enc_string i k [cp "S"] [(cp "c", v)] = Some e /\
            dec_string e <> Some (expected [cp "S"] [(cp "c", v)]).
Proof. vm_compute. eexists; split; [reflexivity|discriminate]. Qed.

Example fuse_example :
  exists envs, fuse_env {| fp_sleep := true; fp_coord := cp "/tmp/coord"; fp_bucket := cp "bkt";
                           fp_context := cp "ctx-0123456789:;<=>?@ABCDEFGHIJKLMNOPQR";
                           fp_bundles := [ {| fb_name := cp "in"; fb_srcpath := cp "/data"; fb_srcrepo := cp "r";
                                              fb_srclabel := cp "l"; fb_srcbundle := []; fb_destpath := [];
                                              fb_destrepo := []; fb_destmsg := []; fb_destlabel := [];
                                              fb_destbundleid := [] |} ] |} = Some envs.
Proof. vm_compute. eexists; reflexivity. Qed.
