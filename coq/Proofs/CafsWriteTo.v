(* WriteTo through a WriterAt: leaves are verified and written at index * L in any order; a
   successful copy leaves exactly the content in the destination. *)
From Coq Require Import List NArith Arith Bool Lia.
From DM Require Import Model.Cafs Proofs.CafsWriter Proofs.CafsStore Proofs.CafsReadAt.
Import ListNotations.

Lemma file_get_write_at : forall d f off x,
  file_get (write_at f off d) x =
  if (off <=? x) && (x <? off + length d) then nth_error d (x - off) else file_get f x.
Proof.
  induction d as [|b d IH]; intros f off x; cbn [write_at length].
  - rewrite Nat.add_0_r. destruct (off <=? x) eqn:E1, (x <? off) eqn:E2; cbn; try reflexivity.
    apply Nat.leb_le in E1. apply Nat.ltb_lt in E2. lia.
  - rewrite IH. cbn [file_get].
    destruct (Nat.eqb_spec x off) as [->|Hne];
    repeat match goal with |- context [?a <=? ?b] => destruct (Nat.leb_spec a b) end;
    repeat match goal with |- context [?a <? ?b] => destruct (Nat.ltb_spec a b) end;
    cbn [andb]; try lia; try reflexivity.
    + now rewrite Nat.sub_diag.
    + replace (x - off) with (S (x - S off)) by lia. reflexivity.
Qed.

Section WriteTo.
Variable H : N -> N -> N -> bool -> list N -> list N.
Variable L : nat.
Hypothesis Lpos : 0 < L.
Hypothesis H_len : forall l o d b x, length (H l o d b x) = KS.

(* a job list whose entries name honest keys of the leaves lv *)
Definition honest_jobs (lv : list (list N)) (jobs : list (nat * list N)) : Prop :=
  Forall (fun j => exists d, nth_error lv (fst j) = Some d /\ snd j = hkey H L (fst j) d) jobs.

Definition leaf_byte (lv : list (list N)) (x : nat) : option N :=
  match nth_error lv (x / L) with Some d => nth_error d (x mod L) | None => None end.

Lemma div_mod_range : forall i x n, n <= L ->
  ((i * L <=? x) && (x <? i * L + n) = true) <-> (x / L = i /\ x mod L < n).
Proof.
  intros i x n Hn. pose proof (Nat.div_mod_eq x L) as Hdm. pose proof (Nat.mod_upper_bound x L ltac:(lia)) as Hm.
  rewrite andb_true_iff, Nat.leb_le, Nat.ltb_lt. split.
  - intros [A B]. assert (x / L = i).
    { symmetry. apply (Nat.div_unique x L i (x - i * L)); lia. }
    subst i. split; auto. nia.
  - intros [<- B]. nia.
Qed.

Lemma write_to_at_sound : forall jobs lv s n f f', nocoll H L lv ->
  shape L lv -> n = length lv -> honest_jobs lv jobs ->
  write_to_at H L s n jobs f = Ok f' ->
  forall x, file_get f' x =
    if existsb (fun j => Nat.eqb (fst j) (x / L)) jobs
    then (match leaf_byte lv x with Some b => Some b | None => file_get f x end)
    else file_get f x.
Proof.
  induction jobs as [|[i k] jobs IH]; intros lv s n f f' Hnc Hs Hn Hj Hw x.
  - cbn in *. inversion Hw. reflexivity.
  - apply Forall_cons_iff in Hj. destruct Hj as [[d [Hd Hk]] Hj]. cbn [fst snd] in *. subst k.
    cbn [write_to_at] in Hw. destruct (lookup (hkey H L i d) s) as [d'|] eqn:El; [|discriminate].
    destruct (verify_leaf H L n i (hkey H L i d) d') eqn:Ev; [|discriminate].
    assert (Hlen : 0 < length d <= L /\ (length d <> L -> S i = n)).
    { clear - Hs Hd Hn Lpos. subst n. revert i Hd. induction lv as [|y lv IHl]; intros i Hd; [destruct i; discriminate|].
      destruct (shape_tail L Lpos y lv Hs) as [Hs' [Hy Hfull]]. destruct i as [|i]; cbn in Hd.
      - inversion Hd; subst. split; auto. intros Hne. destruct lv; [reflexivity|]. exfalso. apply Hne, Hfull. discriminate.
      - destruct (IHl Hs' i Hd) as [A B]. split; auto. intros Hne. cbn. f_equal. auto. }
    destruct Hlen as [Hlen Hlast].
    assert (d' = d) by (apply (verify_honest H L lv n i d d' Hnc Hd); auto). subst d'.
    rewrite (IH lv s n _ f' Hnc Hs Hn Hj Hw x). cbn [existsb fst].
    rewrite file_get_write_at.
    destruct (Nat.eqb_spec i (x / L)) as [Ei|Ei].
    + cbn [orb]. subst i. unfold leaf_byte. rewrite Hd.
      destruct ((x / L * L <=? x) && (x <? x / L * L + length d)) eqn:Er.
      * apply div_mod_range in Er; [|lia]. destruct Er as [_ Er].
        replace (x - x / L * L) with (x mod L) by (pose proof (Nat.div_mod_eq x L); lia).
        destruct (nth_error d (x mod L)) eqn:En; [|apply nth_error_None in En; lia].
        destruct (existsb _ jobs); reflexivity.
      * assert (Hnr : ~ (x mod L < length d)).
        { intros Hlt. assert ((x / L * L <=? x) && (x <? x / L * L + length d) = true) by (apply div_mod_range; [lia|auto]). congruence. }
        destruct (nth_error d (x mod L)) eqn:En.
        { exfalso. apply Hnr. apply nth_error_Some. congruence. }
        destruct (existsb _ jobs); reflexivity.
    + cbn [orb].
      destruct ((i * L <=? x) && (x <? i * L + length d)) eqn:Er.
      * apply div_mod_range in Er; [|lia]. destruct Er as [Er _]. congruence.
      * reflexivity.
Qed.

Lemma nth_error_concat_shape : forall lv x, shape L lv ->
  nth_error (concat lv) x = leaf_byte lv x.
Proof.
  induction lv as [|d lv IH]; intros x Hs; unfold leaf_byte.
  - cbn. destruct (x / L); destruct x; reflexivity.
  - destruct (shape_tail L Lpos d lv Hs) as [Hs' [Hd Hfull]]. cbn [concat].
    destruct (le_lt_dec L x) as [Hge|Hlt].
    + (* beyond the first leaf *)
      destruct lv as [|y lv'].
      * (* d is the last leaf and x >= L >= |d| *)
        cbn [concat]. rewrite app_nil_r.
        assert (Hxd : length d <= x) by lia.
        rewrite (proj2 (nth_error_None d x) Hxd).
        destruct (x / L) as [|q] eqn:Eq.
        { apply Nat.div_small_iff in Eq; lia. }
        cbn. destruct q; reflexivity.
      * assert (Hl : length d = L) by (apply Hfull; discriminate).
        rewrite nth_error_app2 by lia. rewrite Hl, (IH (x - L) Hs'). unfold leaf_byte.
        assert (Hx : x = (x - L) + 1 * L) by lia.
        assert (Hdiv : x / L = S ((x - L) / L)) by (rewrite Hx at 1; rewrite Nat.div_add by lia; lia).
        assert (Hmod : x mod L = (x - L) mod L) by (rewrite Hx at 1; rewrite Nat.mod_add by lia; reflexivity).
        rewrite Hdiv, Hmod. reflexivity.
    + rewrite Nat.div_small, Nat.mod_small by lia. cbn [nth_error].
      destruct (le_lt_dec (length d) x) as [Hxd|Hxd].
      * (* inside index 0 but past a short d: d is last *)
        destruct lv as [|y lv']; [|assert (length d = L) by (apply Hfull; discriminate); lia].
        cbn [concat]. rewrite app_nil_r. reflexivity.
      * now rewrite nth_error_app1 by lia.
Qed.

Lemma existsb_index_from : forall (kv : list (list N)) i x,
  existsb (fun j => Nat.eqb (fst j) x) (index_from i kv) = (i <=? x) && (x <? i + length kv).
Proof.
  induction kv as [|k kv IH]; intros i x; cbn [index_from existsb length fst].
  - rewrite Nat.add_0_r. destruct (i <=? x) eqn:E1, (x <? i) eqn:E2; cbn; try reflexivity.
    apply Nat.leb_le in E1. apply Nat.ltb_lt in E2. lia.
  - rewrite IH.
    destruct (Nat.eqb_spec i x), (S i <=? x) eqn:E1, (x <? S i + length kv) eqn:E2, (i <=? x) eqn:E3, (x <? i + S (length kv)) eqn:E4;
      cbn; try reflexivity;
      repeat match goal with
      | H : (_ <=? _) = true |- _ => apply Nat.leb_le in H
      | H : (_ <=? _) = false |- _ => apply Nat.leb_gt in H
      | H : (_ <? _) = true |- _ => apply Nat.ltb_lt in H
      | H : (_ <? _) = false |- _ => apply Nat.ltb_ge in H
      end; lia.
Qed.

Lemma honest_index_from : forall lv i (pre : list (list N)),
  i = length pre ->
  honest_jobs (pre ++ lv) (index_from i (keys_of_leaves H L i lv)).
Proof.
  induction lv as [|d lv IH]; intros i pre Hi; cbn; [constructor|].
  constructor.
  - exists d. cbn [fst snd]. split; [|reflexivity]. subst i. rewrite nth_error_app2 by lia. now rewrite Nat.sub_diag.
  - replace (pre ++ d :: lv) with ((pre ++ [d]) ++ lv) by now rewrite <- app_assoc.
    apply IH. rewrite app_length. cbn. lia.
Qed.

(* the jobs may run in any order: any list with the same members *)
Theorem write_to_at_content : forall s c jobs f', nocoll H L (split_leaves L c) ->
  (forall j, In j jobs <-> In j (index_from 0 (keys_of_leaves H L 0 (split_leaves L c)))) ->
  write_to_at H L s (length (split_leaves L c)) jobs [] = Ok f' ->
  forall x, file_get f' x = nth_error c x.
Proof.
  intros s c jobs f' Hnc Hperm Hw x.
  set (lv := split_leaves L c) in *.
  assert (Hsh : shape L lv) by (apply split_shape; auto).
  assert (Hj : honest_jobs lv jobs).
  { pose proof (honest_index_from lv 0 [] eq_refl) as Hh. cbn [app] in Hh.
    unfold honest_jobs in *. rewrite Forall_forall in *. intros j Hin. apply Hh. now apply Hperm. }
  rewrite (write_to_at_sound jobs lv s (length lv) [] f' Hnc Hsh eq_refl Hj Hw x).
  rewrite <- (split_leaves_concat L Lpos c). fold lv. rewrite nth_error_concat_shape by auto.
  cbn [file_get].
  assert (He : existsb (fun j => Nat.eqb (fst j) (x / L)) jobs = (x / L <? length lv)).
  { transitivity (existsb (fun j => Nat.eqb (fst j) (x / L)) (index_from 0 (keys_of_leaves H L 0 lv))).
    - apply eq_true_iff_eq. rewrite !existsb_exists. split; intros [j [Hin Hb]]; exists j; split; auto; now apply Hperm.
    - rewrite existsb_index_from, keys_length. cbn. reflexivity. }
  rewrite He. destruct (x / L <? length lv) eqn:E.
  - destruct (leaf_byte lv x); reflexivity.
  - unfold leaf_byte. apply Nat.ltb_ge in E. now rewrite (proj2 (nth_error_None lv (x / L)) E).
Qed.

End WriteTo.

Theorem write_to_at_any_store : forall H L, 0 < L ->
  (forall l o d b x, length (H l o d b x) = KS) ->
  forall s c ks jobs f', nocoll H L (split_leaves L c) ->
  leaves_for_hash H L (tree_key H L c) s = Some ks ->
  (forall j, In j jobs <-> In j (index_from 0 ks)) ->
  write_to_at H L s (length ks) jobs [] = Ok f' ->
  forall x, file_get f' x = nth_error c x.
Proof.
  intros H L Lpos H_len s c ks jobs f' Hnc Hl Hperm Hw x.
  apply (leaves_for_hash_sound H L Lpos H_len) in Hl; [|exact Hnc]. subst ks.
  rewrite keys_length in Hw.
  eapply (write_to_at_content H L Lpos); eauto.
Qed.
