(* C11: properties of the diamond commit merge (Model/Merge.v). *)
From Coq Require Import List String Ascii NArith Bool Arith Lia Permutation.
From DM Require Import Base.Util Base.Str Base.StrOrder Base.Ord Model.ListOps Model.Merge.
Import ListNotations.
Open Scope list_scope.

(* ---- the result does not depend on the order in which file lists (or entries) arrive ---- *)
Theorem merge_order_independent : forall mode l l', Permutation l l' -> merge mode l = merge mode l'.
Proof. intros mode l l' H. unfold merge. now rewrite (to_set_perm ord_ver l l' H). Qed.

(* ---- generic facts on orders ---- *)
Section OrdFacts.
  Context {A : Type} (o : ord A).
  Definition gt (a b : A) : bool := match cmp o a b with Gt => true | _ => false end.

  Lemma gt_false_trans : forall a b c, gt a b = false -> gt b c = false -> gt a c = false.
  Proof.
    unfold gt. intros a b c H1 H2.
    destruct (cmp o a b) eqn:E1; try discriminate; destruct (cmp o b c) eqn:E2; try discriminate.
    - apply (cmp_eq o) in E1. subst. now rewrite E2.
    - apply (cmp_eq o) in E1. subst. now rewrite E2.
    - apply (cmp_eq o) in E2. subst. now rewrite E1.
    - now rewrite (cmp_trans o _ _ _ E1 E2).
  Qed.

  Lemma gt_true_false : forall a b, gt a b = true -> gt b a = false.
  Proof. unfold gt. intros a b H. rewrite (cmp_anti o a b). destruct (cmp o a b); try discriminate. reflexivity. Qed.

  Lemma gt_refl : forall a, gt a a = false.
  Proof. intros. unfold gt. now rewrite (cmp_refl o). Qed.

  Lemma gt_total : forall a b, gt a b = false -> gt b a = false -> a = b.
  Proof.
    unfold gt. intros a b H1 H2. rewrite (cmp_anti o a b) in H2.
    destruct (cmp o a b) eqn:E; try discriminate. now apply (cmp_eq o).
  Qed.
End OrdFacts.

Lemma more_recent_gt : forall a b, more_recent a b = gt ord_rkey (rkey a) (rkey b).
Proof. reflexivity. Qed.

Lemma not_more_recent_time : forall a b, more_recent a b = false -> (v_time a <= v_time b)%N.
Proof.
  intros a b H. unfold more_recent, rkey in H. cbn [cmp ord_rkey ord_pair fst snd] in H.
  destruct (cmp ord_N (v_time a) (v_time b)) eqn:E; cbn [lex] in H; try discriminate;
    cbn [cmp ord_N] in E.
  - apply N.compare_eq in E. rewrite E. apply N.le_refl.
  - apply N.compare_lt_iff in E. now apply N.lt_le_incl.
Qed.

(* ---- best: a maximum of the list ---- *)
Definition best_step (acc : option ver) (v : ver) : option ver :=
  match acc with None => Some v | Some w => if more_recent v w then Some v else Some w end.

Lemma best_from : forall l a, exists w, fold_left best_step l (Some a) = Some w /\ In w (a :: l) /\
  forall v, In v (a :: l) -> more_recent v w = false.
Proof.
  induction l as [|x l IH]; intros a; cbn [fold_left].
  - exists a. split; [reflexivity|]. split; [now left|]. intros v [<-|[]]. rewrite more_recent_gt. apply gt_refl.
  - cbn [best_step]. destruct (more_recent x a) eqn:E.
    + destruct (IH x) as [w [Hw [Hin Hmax]]]. exists w. split; [exact Hw|]. split.
      * destruct Hin as [<-|Hin]; [right; now left|right; now right].
      * intros v [<-|[<-|Hv]].
        -- rewrite more_recent_gt in *. eapply gt_false_trans; [eapply gt_true_false; exact E|]. rewrite <- more_recent_gt. apply Hmax. now left.
        -- apply Hmax. now left.
        -- apply Hmax. now right.
    + destruct (IH a) as [w [Hw [Hin Hmax]]]. exists w. split; [exact Hw|]. split.
      * destruct Hin as [<-|Hin]; [now left|right; now right].
      * intros v [<-|[<-|Hv]].
        -- apply Hmax. now left.
        -- rewrite more_recent_gt in *. eapply gt_false_trans; [exact E|]. rewrite <- more_recent_gt. apply Hmax. now left.
        -- apply Hmax. now right.
Qed.

Lemma best_spec : forall l, match best l with
                            | None => l = []
                            | Some w => In w l /\ forall v, In v l -> more_recent v w = false
                            end.
Proof.
  intros [|a l]; [reflexivity|]. unfold best. cbn [fold_left]. change (fold_left _ l (Some a)) with (fold_left best_step l (Some a)).
  destruct (best_from l a) as [w [Hw [Hin Hmax]]]. rewrite Hw. auto.
Qed.

Lemma uniq_strs_In : forall l x, In x (uniq_strs l) <-> In x l.
Proof.
  induction l as [|a l IH]; intros x; cbn [uniq_strs]; [tauto|]. cbn [In]. rewrite filter_In, IH.
  destruct (String.eqb a x) eqn:E.
  - apply String.eqb_eq in E. subst. cbn. intuition.
  - assert (a <> x) by (intros ->; rewrite String.eqb_refl in E; discriminate). cbn. intuition.
Qed.

Lemma omap_In : forall {A B} (f : A -> option B) l y, In y (omap f l) <-> exists x, In x l /\ f x = Some y.
Proof.
  induction l as [|a l IH]; intros y; cbn [omap].
  - split; [intros []|intros [x [[] _]]].
  - destruct (f a) eqn:E.
    + cbn [In]. rewrite IH. split.
      * intros [<-|[x [Hx Hf]]]; [exists a; split; [now left|exact E]|exists x; split; [now right|exact Hf]].
      * intros [x [[<-|Hx] Hf]]; [left; congruence|right; exists x; auto].
    + rewrite IH. split.
      * intros [x [Hx Hf]]. exists x. split; [now right|exact Hf].
      * intros [x [[<-|Hx] Hf]]; [congruence|exists x; auto].
Qed.

Lemma versions_of_In : forall p S v, In v (versions_of p S) <-> In v S /\ v_path v = p.
Proof. intros. unfold versions_of. rewrite filter_In, String.eqb_eq. tauto. Qed.

(* what the split's latest version of a path is *)
Lemma latest_of_split_spec : forall p s S u, latest_of_split p s S = Some u ->
  In u S /\ v_path u = p /\ v_split u = s /\
  forall v, In v S -> v_path v = p -> v_split v = s -> more_recent v u = false.
Proof.
  intros p s S u H. unfold latest_of_split in H.
  pose proof (best_spec (filter (fun v => String.eqb (v_split v) s) (versions_of p S))) as B. rewrite H in B.
  destruct B as [Hin Hmax]. apply filter_In in Hin. destruct Hin as [Hin Hs]. apply versions_of_In in Hin.
  apply String.eqb_eq in Hs. repeat split; try tauto.
  intros v Hv Hp Hsv. apply Hmax. apply filter_In. split; [apply versions_of_In; auto|now apply String.eqb_eq].
Qed.

Lemma latest_of_split_exists : forall p S v, In v S -> v_path v = p ->
  exists u, latest_of_split p (v_split v) S = Some u.
Proof.
  intros p S v Hv Hp. unfold latest_of_split.
  pose proof (best_spec (filter (fun x => String.eqb (v_split x) (v_split v)) (versions_of p S))) as B.
  destruct (best _) as [u|]; [eauto|].
  assert (In v (filter (fun x => String.eqb (v_split x) (v_split v)) (versions_of p S))).
  { apply filter_In. split; [apply versions_of_In; auto|apply String.eqb_refl]. }
  rewrite B in H. destruct H.
Qed.

Lemma split_latests_In : forall p S u, In u (split_latests p S) <-> latest_of_split p (v_split u) S = Some u.
Proof.
  intros p S u. unfold split_latests. rewrite omap_In. split.
  - intros [s [Hs Hu]]. destruct (latest_of_split_spec _ _ _ _ Hu) as [_ [_ [<- _]]]. exact Hu.
  - intros Hu. exists (v_split u). split; [|exact Hu]. apply uniq_strs_In. apply in_map_iff. exists u. split; [reflexivity|].
    destruct (latest_of_split_spec _ _ _ _ Hu) as [Hin [Hp _]]. apply versions_of_In. auto.
Qed.

(* ---- the winner of a path is a version with the latest upload time ---- *)
Theorem winner_is_latest : forall l p v, In v l -> v_path v = p ->
  exists w, winner p (to_set ord_ver l) = Some w /\ In w l /\ v_path w = p /\ (v_time v <= v_time w)%N.
Proof.
  intros l p v Hv Hp. set (S := to_set ord_ver l).
  assert (HvS : In v S) by (apply to_set_In; exact Hv).
  destruct (latest_of_split_exists p S v HvS Hp) as [u Hu].
  destruct (latest_of_split_spec _ _ _ _ Hu) as [HuS [Hup [Hus Humax]]].
  assert (Hul : In u (split_latests p S)) by (apply split_latests_In; now rewrite Hus).
  unfold winner. pose proof (best_spec (split_latests p S)) as B.
  destruct (best (split_latests p S)) as [w|]; [|rewrite B in Hul; destruct Hul].
  destruct B as [Hw Hmax]. exists w. split; [reflexivity|].
  apply split_latests_In in Hw. destruct (latest_of_split_spec _ _ _ _ Hw) as [HwS [Hwp _]].
  split; [now apply to_set_In in HwS|]. split; [exact Hwp|].
  apply not_more_recent_time. rewrite more_recent_gt. eapply gt_false_trans; rewrite <- more_recent_gt.
  - apply Humax; auto.
  - apply Hmax. exact Hul.
Qed.

Lemma winner_in_latests : forall p S w, winner p S = Some w -> In w (split_latests p S).
Proof. intros p S w H. unfold winner in H. pose proof (best_spec (split_latests p S)) as B. rewrite H in B. tauto. Qed.

(* ---- what is kept as a conflict: exactly the other splits' latest versions whose content differs ---- *)
Theorem conflicts_exact : forall p S v, In v (conflicts_of p S) <->
  exists w, winner p S = Some w /\ In v (split_latests p S) /\ v_split v <> v_split w /\ v_hash v <> v_hash w.
Proof.
  intros p S v. unfold conflicts_of. destruct (winner p S) as [w|].
  - rewrite filter_In. split.
    + intros [Hin Hc]. apply andb_prop in Hc. destruct Hc as [H1 H2]. exists w. repeat split; auto.
      * intros E. rewrite E, String.eqb_refl in H1. discriminate.
      * intros E. rewrite E, String.eqb_refl in H2. discriminate.
    + intros [w' [E [Hin [H1 H2]]]]. inversion E; subst w'. split; [exact Hin|].
      apply andb_true_intro. split; apply negb_true_iff; apply String.eqb_neq; auto.
  - split; [intros []|intros [w [E _]]; discriminate].
Qed.

Theorem kept_exact : forall dir S e, In e (kept dir S) <->
  exists p v, In p (paths_of S) /\ In v (conflicts_of p S) /\ e = (deconflict dir (v_split v) p, (v_hash v, v_size v)).
Proof.
  intros dir S e. unfold kept. rewrite in_flat_map. split.
  - intros [p [Hp He]]. apply in_map_iff in He. destruct He as [v [<- Hv]]. exists p, v. auto.
  - intros [p [v [Hp [Hv ->]]]]. exists p. split; [exact Hp|]. apply in_map_iff. exists v. auto.
Qed.

(* identical content is never a conflict *)
Theorem identical_never_conflict : forall p S v w, winner p S = Some w -> In v (conflicts_of p S) -> v_hash v <> v_hash w.
Proof. intros p S v w Hw Hv. apply conflicts_exact in Hv. destruct Hv as [w' [E [_ [_ H]]]]. congruence. Qed.

(* forbid mode refuses exactly when some path has a conflict *)
Theorem forbid_refuses_iff : forall l, merge MForbid l = MErr <->
  exists p v, In v (conflicts_of p (to_set ord_ver l)).
Proof.
  intros l. unfold merge. set (S := to_set ord_ver l). destruct (kept "" S) as [|e k] eqn:E.
  - split; [discriminate|]. intros [p [v Hv]]. exfalso.
    assert (Hp : In p (paths_of S)).
    { apply conflicts_exact in Hv. destruct Hv as [w [_ [Hin _]]]. apply split_latests_In in Hin.
      destruct (latest_of_split_spec _ _ _ _ Hin) as [HS [Hpv _]]. unfold paths_of. apply uniq_strs_In, in_map_iff. eauto. }
    assert (In (deconflict "" (v_split v) p, (v_hash v, v_size v)) (kept "" S)) by (apply kept_exact; eauto).
    rewrite E in H. destruct H.
  - split; [intros _|reflexivity]. assert (He : In e (kept "" S)) by (rewrite E; now left).
    apply kept_exact in He. destruct He as [p [v [_ [Hv _]]]]. eauto.
Qed.

(* ---- the bundle as a map from names to contents ---- *)
Fixpoint lookup (p : string) (l : list oentry) : option (string * N) :=
  match l with
  | [] => None
  | x :: t => if String.eqb p (fst x) then Some (snd x) else lookup p t
  end.

Lemma lookup_put : forall l e p, lookup p (put_entry e l) = if String.eqb p (fst e) then Some (snd e) else lookup p l.
Proof.
  induction l as [|x t IH]; intros e p; cbn [put_entry lookup]; [reflexivity|].
  destruct (String.ltb (fst e) (fst x)); [reflexivity|].
  destruct (String.eqb (fst e) (fst x)) eqn:E.
  - apply String.eqb_eq in E. cbn [lookup]. rewrite <- E. destruct (String.eqb p (fst e)); reflexivity.
  - cbn [lookup]. rewrite IH. destruct (String.eqb p (fst x)) eqn:Ex; [|reflexivity].
    apply String.eqb_eq in Ex. subst p. rewrite String.eqb_sym, E. reflexivity.
Qed.

Lemma lookup_fold_put : forall l acc p,
  lookup p (fold_left (fun a e => put_entry e a) l acc) =
  match lookup p (rev l) with Some v => Some v | None => lookup p acc end.
Proof.
  induction l as [|e l IH]; intros acc p; cbn [fold_left rev]; [reflexivity|].
  rewrite IH, lookup_put. clear IH.
  assert (Happ : forall a b, lookup p (a ++ b) = match lookup p a with Some v => Some v | None => lookup p b end).
  { induction a as [|x a IHa]; intros b; cbn [app lookup]; [reflexivity|]. destruct (String.eqb p (fst x)); auto. }
  rewrite Happ. destruct (lookup p (rev l)); [reflexivity|]. cbn [lookup]. destruct (String.eqb p (fst e)); reflexivity.
Qed.

Lemma lookup_by_name : forall l p, lookup p (by_name l) = lookup p (rev l).
Proof. intros. unfold by_name. rewrite lookup_fold_put. destruct (lookup p (rev l)); reflexivity. Qed.

Lemma lookup_app : forall a b p, lookup p (a ++ b) = match lookup p a with Some v => Some v | None => lookup p b end.
Proof. induction a as [|x a IH]; intros b p; cbn [app lookup]; [reflexivity|]. destruct (String.eqb p (fst x)); auto. Qed.

Lemma lookup_notin : forall l p, ~ In p (map fst l) -> lookup p l = None.
Proof.
  induction l as [|x l IH]; intros p H; cbn [lookup]; [reflexivity|].
  destruct (String.eqb p (fst x)) eqn:E; [apply String.eqb_eq in E; exfalso; apply H; left; now symmetry|].
  apply IH. intros Hin. apply H. now right.
Qed.

Lemma lookup_in_nodup : forall l e, NoDup (map fst l) -> In e l -> lookup (fst e) l = Some (snd e).
Proof.
  induction l as [|x l IH]; intros e Hnd Hin; [destruct Hin|]. cbn [map] in Hnd. apply NoDup_cons_iff in Hnd. destruct Hnd as [Hx Hnd].
  cbn [lookup]. destruct Hin as [<-|Hin]; [now rewrite String.eqb_refl|].
  destruct (String.eqb (fst e) (fst x)) eqn:E; [|now apply IH].
  apply String.eqb_eq in E. exfalso. apply Hx. rewrite <- E. now apply in_map.
Qed.

Lemma uniq_strs_nodup : forall l, NoDup (uniq_strs l).
Proof.
  induction l as [|a l IH]; cbn [uniq_strs]; constructor.
  - intros H. apply filter_In in H. destruct H as [_ H]. rewrite String.eqb_refl in H. discriminate.
  - now apply NoDup_filter.
Qed.

Lemma mains_names : forall S ps, NoDup ps ->
  NoDup (map fst (omap (fun p => option_map (fun w => (p, (v_hash w, v_size w))) (winner p S)) ps)) /\
  forall n, In n (map fst (omap (fun p => option_map (fun w => (p, (v_hash w, v_size w))) (winner p S)) ps)) -> In n ps.
Proof.
  intros S ps. induction ps as [|a ps IH]; intros Hnd; cbn [omap map]; [split; [constructor|intros n []]|].
  apply NoDup_cons_iff in Hnd. destruct Hnd as [Ha Hnd]. destruct (IH Hnd) as [IH1 IH2].
  destruct (winner a S) as [w|]; cbn [option_map].
  - cbn [map fst]. split.
    + constructor; [|exact IH1]. intros Hin. apply Ha. now apply IH2.
    + intros n [<-|Hn]; [now left|right; now apply IH2].
  - split; [exact IH1|]. intros n Hn. right. now apply IH2.
Qed.

Lemma winner_none : forall p S, ~ In p (paths_of S) -> winner p S = None.
Proof.
  intros p S H. unfold winner, split_latests.
  assert (E : versions_of p S = []).
  { destruct (versions_of p S) as [|v t] eqn:E; [reflexivity|]. exfalso. apply H.
    assert (Hv : In v (versions_of p S)) by (rewrite E; now left). apply versions_of_In in Hv.
    unfold paths_of. apply uniq_strs_In, in_map_iff. exists v. tauto. }
  rewrite E. reflexivity.
Qed.

Lemma lookup_mains : forall S p, lookup p (by_name (mains S)) = option_map (fun w => (v_hash w, v_size w)) (winner p S).
Proof.
  intros S p. rewrite lookup_by_name. unfold mains.
  destruct (mains_names S (paths_of S) (uniq_strs_nodup _)) as [Hnd Hsub].
  destruct (in_dec string_dec p (paths_of S)) as [Hin|Hnot].
  - destruct (winner p S) as [w|] eqn:Ew; cbn [option_map].
    + change p with (fst (p, (v_hash w, v_size w))) at 1. change (v_hash w, v_size w) with (snd (p, (v_hash w, v_size w))).
      apply lookup_in_nodup.
      * rewrite map_rev. apply NoDup_rev. exact Hnd.
      * apply -> in_rev. apply omap_In. exists p. split; [exact Hin|]. now rewrite Ew.
    + apply lookup_notin. rewrite map_rev. intros H. apply in_rev in H. apply in_map_iff in H. destruct H as [e [He Hin']].
      apply omap_In in Hin'. destruct Hin' as [q [_ Hq]]. destruct (winner q S) eqn:Eq; cbn in Hq; [|discriminate].
      inversion Hq; subst e. cbn in He. subst q. congruence.
  - rewrite (winner_none _ _ Hnot). cbn [option_map]. apply lookup_notin. rewrite map_rev. intros H. apply in_rev in H. now apply Hsub in H.
Qed.

Lemma starts_with_app : forall a b, starts_with a (a ++ b)%string = true.
Proof. induction a as [|c a IH]; intros b; cbn; [now destruct b|]. now rewrite Ascii.eqb_refl, IH. Qed.

Lemma kept_names : forall dir S n, In n (map fst (kept dir S)) -> starts_with (dir ++ "/")%string n = true.
Proof.
  intros dir S n H. apply in_map_iff in H. destruct H as [e [<- He]]. apply kept_exact in He.
  destruct He as [p [v [_ [_ ->]]]]. cbn [fst]. unfold deconflict.
  replace (dir ++ "/" ++ v_split v ++ "/" ++ p)%string with ((dir ++ "/") ++ (v_split v ++ "/" ++ p))%string.
  - apply starts_with_app.
  - generalize (v_split v ++ "/" ++ p)%string. clear. intros r. induction dir as [|c d IH]; cbn; [reflexivity|]. now rewrite IH.
Qed.

(* ---- the main tree is the same in every mode: outside .conflicts/ and .checkpoints/ every name
   holds the content of the winner of that path ---- *)
Theorem main_tree_every_mode : forall mode l es p, merge mode l = MOk es ->
  starts_with ".conflicts/" p = false -> starts_with ".checkpoints/" p = false ->
  lookup p es = option_map (fun w => (v_hash w, v_size w)) (winner p (to_set ord_ver l)).
Proof.
  intros mode l es p H H1 H2. unfold merge in H. set (S := to_set ord_ver l) in *.
  assert (Hk : forall dir, starts_with (dir ++ "/")%string p = false ->
               lookup p (by_name (mains S ++ kept dir S)) = lookup p (by_name (mains S))).
  { intros dir Hd. rewrite !lookup_by_name, rev_app_distr, lookup_app.
    rewrite lookup_notin; [reflexivity|]. rewrite map_rev. intros Hin. apply in_rev in Hin. apply kept_names in Hin. congruence. }
  destruct mode.
  - inversion H; subst es. apply lookup_mains.
  - inversion H; subst es. rewrite (Hk ".checkpoints" H2). apply lookup_mains.
  - inversion H; subst es. rewrite (Hk ".conflicts" H1). apply lookup_mains.
  - destruct (kept "" S); [|discriminate]. inversion H; subst es. apply lookup_mains.
Qed.

(* ignore mode adds nothing: every name of the result is a path some split uploaded *)
Theorem ignore_adds_nothing : forall l es p, merge MIgnore l = MOk es -> lookup p es <> None -> In p (map v_path l).
Proof.
  intros l es p H Hp. inversion H; subst es. rewrite lookup_mains in Hp.
  destruct (winner p (to_set ord_ver l)) as [w|] eqn:E; [|now destruct Hp].
  apply winner_in_latests, split_latests_In, latest_of_split_spec in E. destruct E as [HS [Hpw _]].
  apply to_set_In in HS. apply in_map_iff. eauto.
Qed.

(* ---- a diamond with one split ---- *)
Lemma single_split_no_conflict : forall l s p, (forall v, In v l -> v_split v = s) -> conflicts_of p (to_set ord_ver l) = [].
Proof.
  intros l s p Hs. destruct (conflicts_of p (to_set ord_ver l)) as [|v t] eqn:E; [reflexivity|]. exfalso.
  assert (Hv : In v (conflicts_of p (to_set ord_ver l))) by (rewrite E; now left).
  apply conflicts_exact in Hv. destruct Hv as [w [Hw [Hin [Hne _]]]]. apply Hne.
  apply winner_in_latests in Hw.
  apply split_latests_In, latest_of_split_spec in Hin. apply split_latests_In, latest_of_split_spec in Hw.
  destruct Hin as [Hv _]. destruct Hw as [Hw _]. apply to_set_In in Hv. apply to_set_In in Hw.
  now rewrite (Hs _ Hv), (Hs _ Hw).
Qed.

Lemma flat_map_nil : forall {A B} (f : A -> list B) l, (forall x, f x = []) -> flat_map f l = [].
Proof. induction l as [|a l IH]; intros H; cbn [flat_map]; [reflexivity|]. now rewrite H, IH. Qed.

Theorem single_split_is_plain : forall l s mode,
  (forall v, In v l -> v_split v = s) -> NoDup (map v_path l) ->
  exists es, merge mode l = MOk es /\
    (forall v, In v l -> lookup (v_path v) es = Some (v_hash v, v_size v)) /\
    (forall p, ~ In p (map v_path l) -> lookup p es = None).
Proof.
  intros l s mode Hs Hnd. set (S := to_set ord_ver l).
  assert (Hk : forall dir, kept dir S = []).
  { intros dir. unfold kept. apply flat_map_nil. intros p. unfold S. now rewrite (single_split_no_conflict l s p Hs). }
  exists (by_name (mains S)). split.
  - unfold merge. fold S. destruct mode; rewrite ?Hk, ?app_nil_r; reflexivity.
  - split.
    + intros v Hv. rewrite lookup_mains. destruct (winner_is_latest l (v_path v) v Hv eq_refl) as [w [Hw [Hwl [Hwp _]]]].
      fold S in Hw. rewrite Hw. cbn [option_map].
      assert (w = v); [|now subst].
      clear -Hnd Hv Hwl Hwp. induction l as [|a l IH]; [destruct Hv|]. cbn [map] in Hnd. apply NoDup_cons_iff in Hnd. destruct Hnd as [Ha Hnd].
      destruct Hv as [<-|Hv]; destruct Hwl as [<-|Hwl]; auto.
      * exfalso. apply Ha. rewrite <- Hwp. now apply in_map.
      * exfalso. apply Ha. rewrite Hwp. now apply in_map.
    + intros p Hp. rewrite lookup_mains. rewrite winner_none; [reflexivity|].
      intros Hin. apply Hp. unfold paths_of in Hin. apply -> uniq_strs_In in Hin. apply in_map_iff in Hin.
      destruct Hin as [v [<- Hv]]. apply to_set_In in Hv. now apply in_map.
Qed.
