(* C13 / C14: delete-unused keeps exactly the indexed and the newer blobs; the index built over any
   number of interrupted sessions lists every key of every file scanned by the last one. *)
From Coq Require Import List String Ascii NArith Bool Arith Lia.
From DM Require Import Base.Util Base.Str Model.Purge.
Import ListNotations.
Open Scope list_scope.

(* ---- delete-unused ---- *)
Lemma mem_In : forall k l, mem k l = true <-> In k l.
Proof.
  intros k l. unfold mem. rewrite existsb_exists. split.
  - intros [x [Hx E]]. apply String.eqb_eq in E. now subst.
  - intros H. exists k. split; [exact H|apply String.eqb_refl].
Qed.

Theorem delete_unused_exact : forall index blobs k,
  In k (delete_unused index blobs) <-> exists nw, In (k, nw) blobs /\ (In k index \/ nw = true).
Proof.
  intros index blobs k. unfold delete_unused. rewrite in_map_iff. split.
  - intros [[k' nw] [E H]]. cbn in E. subst k'. apply filter_In in H. destruct H as [Hin Hk].
    exists nw. split; [exact Hin|]. unfold keep_blob in Hk. cbn in Hk. apply orb_prop in Hk.
    destruct Hk as [Hk|Hk]; [left; now apply mem_In|now right].
  - intros [nw [Hin Hk]]. exists (k, nw). split; [reflexivity|]. apply filter_In. split; [exact Hin|].
    unfold keep_blob. cbn. destruct Hk as [Hk|Hk]; [apply mem_In in Hk; now rewrite Hk|subst; apply orb_true_r].
Qed.

(* nothing a bundle needs is removed: a bundle whose keys are all indexed (committed before the index was
   built and scanned) or all newer than the index (uploaded afterwards) keeps all of its blobs *)
Theorem delete_unused_keeps_bundle : forall index blobs (ks : list string),
  (forall k, In k ks -> exists nw, In (k, nw) blobs /\ (In k index \/ nw = true)) ->
  forall k, In k ks -> In k (delete_unused index blobs).
Proof. intros index blobs ks H k Hk. apply delete_unused_exact. now apply H. Qed.

(* nothing is invented *)
Theorem delete_unused_subset : forall index blobs k, In k (delete_unused index blobs) -> In k (map fst blobs).
Proof. intros index blobs k H. apply delete_unused_exact in H. destruct H as [nw [Hin _]]. apply in_map_iff. now exists (k, nw). Qed.

(* ---- the local key-value store ---- *)
Lemma kv_has_In : forall k kv, kv_has k kv = true <-> exists b, In (k, b) kv.
Proof.
  intros k kv. unfold kv_has. rewrite existsb_exists. split.
  - intros [[k' b] [Hin E]]. cbn in E. apply String.eqb_eq in E. subst. eauto.
  - intros [b Hin]. exists (k, b). split; [exact Hin|apply String.eqb_refl].
Qed.

Lemma kv_add_has : forall k k' kv, kv_has k' (kv_add k kv) = true <-> k' = k \/ kv_has k' kv = true.
Proof.
  intros k k' kv. unfold kv_add. destruct (kv_has k kv) eqn:E.
  - split; [now right|]. intros [->|H]; auto.
  - rewrite !kv_has_In. split.
    + intros [b Hin]. apply in_app_or in Hin. destruct Hin as [Hin|[Hin|[]]]; [right; eauto|inversion Hin; now left].
    + intros [->|[b Hin]]; [exists false; apply in_or_app; right; now left|exists b; apply in_or_app; now left].
Qed.

Lemma kv_add_marked : forall k k' kv, In (k', true) (kv_add k kv) <-> In (k', true) kv.
Proof.
  intros k k' kv. unfold kv_add. destruct (kv_has k kv); [tauto|]. split.
  - intros H. apply in_app_or in H. destruct H as [H|[H|[]]]; [exact H|discriminate].
  - intros H. apply in_or_app. now left.
Qed.

Lemma fold_add_has : forall ks kv k', kv_has k' (fold_left (fun kv k => kv_add k kv) ks kv) = true <-> In k' ks \/ kv_has k' kv = true.
Proof.
  induction ks as [|k ks IH]; intros kv k'; cbn [fold_left]; [cbn; tauto|].
  rewrite IH, kv_add_has. cbn. intuition.
Qed.

Lemma fold_add_marked : forall ks kv k', In (k', true) (fold_left (fun kv k => kv_add k kv) ks kv) <-> In (k', true) kv.
Proof. induction ks as [|k ks IH]; intros kv k'; cbn [fold_left]; [tauto|]. now rewrite IH, kv_add_marked. Qed.

(* ---- one chunk ---- *)
Lemma kv_has_cons : forall k k' b t, kv_has k ((k', b) :: t) = String.eqb k k' || kv_has k t.
Proof. reflexivity. Qed.

Lemma pending_cons : forall k b t, pending ((k, b) :: t) = (if b then 0 else 1) + pending t.
Proof. intros. unfold pending. cbn. destruct b; reflexivity. Qed.

Lemma take_pending_spec : forall kv n ks kv', take_pending n kv = (ks, kv') ->
  (forall k, kv_has k kv' = kv_has k kv) /\
  (forall k, In (k, true) kv' <-> In (k, true) kv \/ In k ks) /\
  (forall k, In k ks -> kv_has k kv = true) /\
  pending kv' + List.length ks = pending kv /\
  (0 < n -> 0 < pending kv -> 0 < List.length ks).
Proof.
  induction kv as [|[k b] t IH]; intros n ks kv' H; cbn [take_pending] in H.
  - inversion H; subst. split; [reflexivity|]. split; [intros; cbn; tauto|]. split; [intros k []|]. split; [reflexivity|]. cbn. lia.
  - destruct b.
    + destruct (take_pending n t) as [ks0 t0] eqn:E. inversion H; subst. destruct (IH n ks t0 E) as [A [B [C [D F]]]].
      split; [intros k0; rewrite !kv_has_cons; now rewrite A|].
      split; [intros k0; cbn [In]; rewrite B; tauto|].
      split; [intros k0 Hk; rewrite kv_has_cons, (C k0 Hk); apply orb_true_r|].
      split; [rewrite !pending_cons; lia|]. rewrite pending_cons. cbn. exact F.
    + destruct n as [|m].
      * inversion H; subst. split; [reflexivity|]. split; [intros; cbn; tauto|]. split; [intros k0 []|]. split; [cbn; lia|]. lia.
      * destruct (take_pending m t) as [ks0 t0] eqn:E. inversion H; subst. destruct (IH m ks0 t0 E) as [A [B [C [D F]]]].
        split; [intros k0; rewrite !kv_has_cons; now rewrite A|].
        split.
        { intros k0. cbn [In]. rewrite B. split.
          - intros [H0|[H0|H0]]; [inversion H0; right; now left|left; now right|right; now right].
          - intros [[H0|H0]|[H0|H0]]; [discriminate|right; now left|subst; now left|right; now right]. }
        split.
        { intros k0 [<-|Hk]; rewrite kv_has_cons; [now rewrite String.eqb_refl|]. rewrite (C k0 Hk). apply orb_true_r. }
        split; [rewrite !pending_cons; cbn [List.length]; lia|]. intros _ _. cbn. lia.
Qed.

(* ---- invariants of a session ---- *)
Definition uploaded_ok (st : bstate) : Prop := forall k, In (k, true) (b_kv st) -> In k (List.concat (b_chunks st)).

Lemma concat_app_one : forall (cs : list (list string)) ks k, In k (List.concat (cs ++ [ks])) <-> In k (List.concat cs) \/ In k ks.
Proof. intros. rewrite concat_app. cbn. rewrite app_nil_r, in_app_iff. tauto. Qed.

Lemma flush_uploaded_ok : forall n st, uploaded_ok st -> uploaded_ok (flush n st).
Proof.
  intros n st H. unfold flush. destruct (take_pending n (b_kv st)) as [ks kv'] eqn:E.
  destruct (take_pending_spec _ _ _ _ E) as [_ [B _]]. intros k Hk. cbn [b_kv b_chunks] in *.
  apply concat_app_one. apply B in Hk. destruct Hk as [Hk|Hk]; [left; now apply H|now right].
Qed.

Lemma flush_has : forall n st k, kv_has k (b_kv (flush n st)) = kv_has k (b_kv st).
Proof.
  intros n st k. unfold flush. destruct (take_pending n (b_kv st)) as [ks kv'] eqn:E.
  destruct (take_pending_spec _ _ _ _ E) as [A _]. cbn. apply A.
Qed.

Lemma flush_chunks_grow : forall n st k, In k (List.concat (b_chunks st)) -> In k (List.concat (b_chunks (flush n st))).
Proof.
  intros n st k H. unfold flush. destruct (take_pending n (b_kv st)) as [ks kv']. cbn. apply concat_app_one. now left.
Qed.

Lemma scan_uploaded_ok : forall f st, uploaded_ok st -> uploaded_ok (scan_file f st).
Proof.
  intros f st H. unfold scan_file. destruct (b_trust st && kv_has (fk_root f) (b_kv st)); [exact H|].
  intros k Hk. cbn [b_kv b_chunks] in *. apply fold_add_marked in Hk. now apply H.
Qed.

Lemma scan_has_mono : forall f st k, kv_has k (b_kv st) = true -> kv_has k (b_kv (scan_file f st)) = true.
Proof.
  intros f st k H. unfold scan_file. destruct (b_trust st && kv_has (fk_root f) (b_kv st)); [exact H|].
  cbn [b_kv]. apply fold_add_has. now right.
Qed.

(* files whose root key stands for its leaves *)
Definition consistent (F : list file_keys) : Prop :=
  forall f g, In f F -> In g F -> In (fk_root f) (keys_of g) -> forall l, In l (fk_leaves f) -> In l (keys_of g).

Definition roots_closed (F : list file_keys) (st : bstate) : Prop :=
  b_trust st = true -> forall f, In f F -> kv_has (fk_root f) (b_kv st) = true ->
  forall l, In l (fk_leaves f) -> kv_has l (b_kv st) = true.

Lemma scan_roots_closed : forall F g st, consistent F -> In g F -> roots_closed F st -> roots_closed F (scan_file g st).
Proof.
  intros F g st HF Hg H. unfold scan_file. destruct (b_trust st && kv_has (fk_root g) (b_kv st)) eqn:E; [exact H|].
  intros Ht f Hf Hr l Hl. cbn [b_kv b_trust] in *. apply fold_add_has. apply fold_add_has in Hr.
  destruct Hr as [Hr|Hr]; [left; eapply HF; eauto|right; eapply H; eauto].
Qed.

Lemma flush_roots_closed : forall F n st, roots_closed F st -> roots_closed F (flush n st).
Proof.
  intros F n st H Ht f Hf Hr l Hl. rewrite flush_has in *.
  assert (b_trust (flush n st) = b_trust st) by (unfold flush; destruct (take_pending n (b_kv st)); reflexivity).
  rewrite H0 in Ht. eapply H; eauto.
Qed.

(* after scanning a file all its keys are known *)
Lemma scan_file_known : forall F f st, In f F -> roots_closed F st -> forall k, In k (keys_of f) -> kv_has k (b_kv (scan_file f st)) = true.
Proof.
  intros F f st Hf H k Hk. unfold scan_file. destruct (b_trust st && kv_has (fk_root f) (b_kv st)) eqn:E.
  - apply andb_prop in E. destruct E as [Et Er]. destruct Hk as [<-|Hk]; [exact Er|]. eapply H; eauto.
  - cbn [b_kv]. apply fold_add_has. now left.
Qed.

(* ---- a whole session ---- *)
Definition files_of (ops : list bop) : list file_keys := flat_map (fun o => match o with OScan f => [f] | OFlush => [] end) ops.

Lemma ops_invariants : forall F n ops st, consistent F -> (forall f, In f (files_of ops) -> In f F) ->
  uploaded_ok st -> roots_closed F st ->
  let st' := fold_left (apply_bop n) ops st in
  uploaded_ok st' /\ roots_closed F st' /\
  (forall k, kv_has k (b_kv st) = true -> kv_has k (b_kv st') = true) /\
  (forall f k, In f (files_of ops) -> In k (keys_of f) -> kv_has k (b_kv st') = true) /\
  (forall k, In k (List.concat (b_chunks st)) -> In k (List.concat (b_chunks st'))).
Proof.
  intros F n ops. induction ops as [|o ops IH]; intros st HF Hsub U R; cbn [fold_left].
  - split; [exact U|]. split; [exact R|]. split; [auto|]. split; [intros f k []|auto].
  - assert (Hsub' : forall f, In f (files_of ops) -> In f F).
    { intros f Hf. apply Hsub. unfold files_of. cbn [flat_map]. apply in_or_app. now right. }
    destruct o as [g|]; cbn [apply_bop].
    + assert (Hg : In g F) by (apply Hsub; unfold files_of; cbn; now left).
      destruct (IH (scan_file g st) HF Hsub' (scan_uploaded_ok g st U) (scan_roots_closed F g st HF Hg R)) as [A [B [C [D E]]]].
      split; [exact A|]. split; [exact B|]. split; [|split].
      * intros k Hk. apply C. now apply scan_has_mono.
      * intros f k Hf Hk. unfold files_of in Hf. cbn [flat_map] in Hf. apply in_app_or in Hf. destruct Hf as [[<-|[]]|Hf].
        -- apply C. eapply scan_file_known; eauto.
        -- eapply D; eauto.
      * intros k Hk. apply E. unfold scan_file. destruct (b_trust st && _); exact Hk.
    + destruct (IH (flush n st) HF Hsub' (flush_uploaded_ok n st U) (flush_roots_closed F n st R)) as [A [B [C [D E]]]].
      split; [exact A|]. split; [exact B|]. split; [|split].
      * intros k Hk. apply C. now rewrite flush_has.
      * intros f k Hf Hk. eapply D; eauto.
      * intros k Hk. apply E. now apply flush_chunks_grow.
Qed.

Lemma pending_zero_marked : forall kv k, pending kv = 0 -> kv_has k kv = true -> In (k, true) kv.
Proof.
  induction kv as [|[k' b] t IH]; intros k Hp Hk; [discriminate|].
  unfold pending in Hp. cbn in Hp. destruct b; cbn in Hp; [|discriminate].
  unfold kv_has in Hk. cbn in Hk. destruct (String.eqb k k') eqn:E.
  - apply String.eqb_eq in E. subst. now left.
  - right. apply IH; auto.
Qed.

Lemma flush_pending : forall n st, 0 < n -> 0 < pending (b_kv st) -> pending (b_kv (flush n st)) < pending (b_kv st).
Proof.
  intros n st Hn Hp. unfold flush. destruct (take_pending n (b_kv st)) as [ks kv'] eqn:E.
  destruct (take_pending_spec _ _ _ _ E) as [_ [_ [_ [D F]]]]. cbn [b_kv]. specialize (F Hn Hp). lia.
Qed.

Lemma finish_spec : forall fuel n st, 0 < n -> pending (b_kv st) < fuel -> uploaded_ok st ->
  let st' := finish fuel n st in
  uploaded_ok st' /\ pending (b_kv st') = 0 /\ (forall k, kv_has k (b_kv st') = kv_has k (b_kv st)) /\
  (forall k, In k (List.concat (b_chunks st)) -> In k (List.concat (b_chunks st'))).
Proof.
  induction fuel as [|fuel IH]; intros n st Hn Hf U; [lia|]. cbn [finish].
  destruct (Nat.eqb (pending (b_kv st)) 0) eqn:E.
  - apply Nat.eqb_eq in E. repeat split.
    + now apply flush_uploaded_ok.
    + unfold flush. destruct (take_pending n (b_kv st)) as [ks kv'] eqn:Et.
      destruct (take_pending_spec _ _ _ _ Et) as [_ [_ [_ [D _]]]]. cbn [b_kv]. lia.
    + intros k. apply flush_has.
    + intros k. apply flush_chunks_grow.
  - apply Nat.eqb_neq in E. assert (Hp : 0 < pending (b_kv st)) by lia.
    pose proof (flush_pending n st Hn Hp) as Hlt.
    destruct (IH n (flush n st) Hn ltac:(lia) (flush_uploaded_ok n st U)) as [A [B [C D]]].
    repeat split; auto.
    + intros k. rewrite C. apply flush_has.
    + intros k Hk. apply D. now apply flush_chunks_grow.
Qed.

Lemma pending_le_length : forall kv, pending kv <= List.length kv.
Proof. induction kv as [|[k b] t IH]; [apply Nat.le_refl|]. rewrite pending_cons. cbn [List.length]. destruct b; lia. Qed.

Lemma start_session_ok : forall F resume chunks, uploaded_ok (start_session resume chunks) /\ roots_closed F (start_session resume chunks).
Proof.
  intros F resume chunks. unfold start_session. destruct resume; split.
  - intros k Hk. cbn [b_kv b_chunks] in *. apply in_map_iff in Hk. destruct Hk as [k' [E Hin]]. now inversion E; subst.
  - intros Ht. discriminate.
  - intros k [].
  - intros _ f _ Hr. discriminate.
Qed.

(* ---- the index lists every key of every file scanned by the session that completes, however many
   sessions died before it, wherever they died ---- *)
Theorem index_complete : forall F n resume ops chunks f k, 0 < n -> consistent F ->
  (forall g, In g (files_of ops) -> In g F) ->
  In f (files_of ops) -> In k (keys_of f) ->
  In k (index_of (last_session n resume ops chunks)).
Proof.
  intros F n resume ops chunks f k Hn HF Hsub Hf Hk. unfold last_session, index_of.
  destruct (start_session_ok F resume chunks) as [U R].
  destruct (ops_invariants F n ops _ HF Hsub U R) as [A [_ [_ [D _]]]].
  set (st := fold_left (apply_bop n) ops (start_session resume chunks)) in *.
  destruct (finish_spec (S (List.length (b_kv st))) n st Hn) as [A' [B' [C' _]]]; [pose proof (pending_le_length (b_kv st)); lia|exact A|].
  apply A'. apply pending_zero_marked; [exact B'|]. rewrite C'. eapply D; eauto.
Qed.

(* ---- a build that is not resumed lists nothing but keys of the files it scanned ---- *)
Lemma ops_keys_sound : forall n ops st (P : string -> Prop), 
  (forall k, kv_has k (b_kv st) = true -> P k) -> (forall f k, In f (files_of ops) -> In k (keys_of f) -> P k) ->
  forall k, kv_has k (b_kv (fold_left (apply_bop n) ops st)) = true -> P k.
Proof.
  intros n ops. induction ops as [|o ops IH]; intros st P H0 HF k Hk; cbn [fold_left] in Hk; [now apply H0|].
  apply (IH (apply_bop n st o) P); auto.
  - intros k' Hk'. destruct o as [g|]; cbn [apply_bop] in Hk'.
    + unfold scan_file in Hk'. destruct (b_trust st && _); [now apply H0|]. cbn [b_kv] in Hk'. apply fold_add_has in Hk'.
      destruct Hk' as [Hk'|Hk']; [apply (HF g); [unfold files_of; cbn; now left|exact Hk']|now apply H0].
    + rewrite flush_has in Hk'. now apply H0.
  - intros f k' Hf Hk'. apply (HF f); auto. unfold files_of. cbn [flat_map]. apply in_or_app. now right.
Qed.

Lemma chunks_from_kv : forall n st, (forall k, In k (List.concat (b_chunks st)) -> kv_has k (b_kv st) = true) ->
  forall k, In k (List.concat (b_chunks (flush n st))) -> kv_has k (b_kv (flush n st)) = true.
Proof.
  intros n st H k Hk. rewrite flush_has. unfold flush in Hk. destruct (take_pending n (b_kv st)) as [ks kv'] eqn:E.
  destruct (take_pending_spec _ _ _ _ E) as [_ [_ [C _]]]. cbn in Hk. apply concat_app_one in Hk. destruct Hk; auto.
Qed.

Lemma ops_chunks_from_kv : forall n ops st, (forall k, In k (List.concat (b_chunks st)) -> kv_has k (b_kv st) = true) ->
  forall k, In k (List.concat (b_chunks (fold_left (apply_bop n) ops st))) -> kv_has k (b_kv (fold_left (apply_bop n) ops st)) = true.
Proof.
  intros n ops. induction ops as [|o ops IH]; intros st H; cbn [fold_left]; [exact H|]. apply IH.
  destruct o as [g|]; cbn [apply_bop].
  - intros k Hk. apply scan_has_mono. apply H. unfold scan_file in Hk. destruct (b_trust st && _); exact Hk.
  - now apply chunks_from_kv.
Qed.

Lemma finish_chunks_from_kv : forall fuel n st, (forall k, In k (List.concat (b_chunks st)) -> kv_has k (b_kv st) = true) ->
  forall k, In k (List.concat (b_chunks (finish fuel n st))) -> kv_has k (b_kv (finish fuel n st)) = true.
Proof.
  induction fuel as [|fuel IH]; intros n st H; cbn [finish]; [exact H|].
  destruct (Nat.eqb (pending (b_kv st)) 0); [now apply chunks_from_kv|]. apply IH. now apply chunks_from_kv.
Qed.

Lemma finish_has : forall fuel n st k, kv_has k (b_kv (finish fuel n st)) = kv_has k (b_kv st).
Proof.
  induction fuel as [|fuel IH]; intros n st k; cbn [finish]; [reflexivity|].
  destruct (Nat.eqb (pending (b_kv st)) 0); [apply flush_has|]. rewrite IH. apply flush_has.
Qed.

Theorem index_exact_fresh : forall n ops k, In k (index_of (last_session n false ops [])) ->
  exists f, In f (files_of ops) /\ In k (keys_of f).
Proof.
  intros n ops k H. unfold last_session, index_of in H.
  set (st := fold_left (apply_bop n) ops (start_session false [])) in *.
  apply finish_chunks_from_kv in H.
  - rewrite finish_has in H. unfold st in H.
    apply (ops_keys_sound n ops (start_session false []) (fun k => exists f, In f (files_of ops) /\ In k (keys_of f))); auto.
    + intros k' Hk'. discriminate.
    + intros f k' Hf Hk'. eauto.
  - apply ops_chunks_from_kv. intros k' [].
Qed.

(* ---- the two steps together ---- *)
(* a file scanned by the index build keeps every blob it has, whatever earlier sessions did *)
Theorem purge_keeps_scanned : forall F n resume ops chunks blobs f, 0 < n -> consistent F ->
  (forall g, In g (files_of ops) -> In g F) -> In f (files_of ops) ->
  (forall k, In k (keys_of f) -> exists nw, In (k, nw) blobs) ->
  forall k, In k (keys_of f) -> In k (delete_unused (index_of (last_session n resume ops chunks)) blobs).
Proof.
  intros F n resume ops chunks blobs f Hn Hc HF Hf Hb.
  apply delete_unused_keeps_bundle. intros k Hk. destruct (Hb k Hk) as [nw Hnw]. exists nw. split; [exact Hnw|].
  left. eapply index_complete; eauto.
Qed.

(* a file uploaded after the index was started - all of its blobs written or refreshed since - keeps
   them whatever the index holds *)
Theorem purge_keeps_newer : forall index blobs (ks : list string),
  (forall k, In k ks -> In (k, true) blobs) -> forall k, In k ks -> In k (delete_unused index blobs).
Proof.
  intros index blobs ks H. apply delete_unused_keeps_bundle. intros k Hk. exists true. split; [now apply H|now right].
Qed.
