(* Proofs about Model/ListOps.v: the paged, filtered key retrieval returns the whole filtered
   listing for every page size; merging batch by batch equals merging the whole listing; one key
   per diamond / split comes out of the merge, the final record when there is one. *)
From Coq Require Import List String Ascii NArith Bool Arith Lia Sorted.
From DM Require Import Base.Str Base.StrOrder Base.Paging Base.Listing Gen.Paths Model.PathsParse Model.Meta Model.ListOps.
Import ListNotations.
Open Scope list_scope.

Lemma start_seek_suffix : forall pre k suf,
  StronglySorted slt (pre ++ k :: suf) -> start_seek k (pre ++ k :: suf) = k :: suf.
Proof. intros. unfold start_seek. now apply drop_lt_suffix. Qed.

Lemma fetch_keys_from : forall fuel l pre suf count tok f,
  0 < count -> StronglySorted slt l -> l = pre ++ suf -> List.length suf <= fuel * count -> 0 < fuel ->
  (match suf with [] => tok = None /\ pre = [] | k :: _ => tok = Some k \/ (pre = [] /\ tok = None) end) ->
  exists ps, fetch_keys fuel tok count f l = Some ps /\ List.concat ps = filter f suf.
Proof.
  induction fuel as [|fu IH]; intros l pre suf count tok f Hc Hs El Hf Hpos Htok; [lia|].
  cbn [fetch_keys page page_of].
  assert (Hl : (match tok with None => l | Some t => start_seek t l end) = suf).
  { destruct suf as [|k suf'].
    - destruct Htok as [-> ->]. now rewrite El.
    - destruct Htok as [->|[-> ->]]; subst l; [now apply start_seek_suffix|reflexivity]. }
  rewrite Hl.
  destruct (skipn count suf) as [|k2 rest] eqn:Esk; cbn [hd_error].
  - eexists. split; [reflexivity|]. cbn. rewrite app_nil_r. f_equal. apply firstn_all2.
    assert (List.length (skipn count suf) = 0) by now rewrite Esk.
    rewrite skipn_length in H. lia.
  - assert (Hsplit : suf = firstn count suf ++ k2 :: rest) by (rewrite <- Esk; symmetry; apply firstn_skipn).
    assert (Hlen : List.length (k2 :: rest) = List.length suf - count) by (rewrite <- Esk; apply skipn_length).
    destruct (IH l (pre ++ firstn count suf) (k2 :: rest) count (Some k2) f) as [ps [Hp Hcat]]; auto.
    + rewrite <- app_assoc, <- Hsplit. exact El.
    + cbn [List.length] in *. nia.
    + cbn [List.length] in *. destruct fu; [|lia]. cbn in Hf. lia.
    + rewrite Hp. eexists. split; [reflexivity|]. cbn [List.concat]. rewrite Hcat.
      rewrite <- filter_app. f_equal. now rewrite <- Hsplit.
Qed.

(* every page size >= 1: the batches, concatenated, are the filtered listing - nothing lost when a
   page is filtered down to nothing *)
Theorem fetch_keys_complete : forall l count f, 0 < count -> StronglySorted slt l ->
  exists ps, fetch_keys (S (List.length l)) None count f l = Some ps /\ List.concat ps = filter f l.
Proof.
  intros l count f Hc Hs. apply (fetch_keys_from (S (List.length l)) l [] l); auto; try lia.
  - nia.
  - destruct l; auto.
Qed.

Theorem all_batches_complete : forall count f p d s, 0 < count ->
  exists ps, all_batches count f p d s = Some ps /\ List.concat ps = filter f (mlist p d s).
Proof. intros. unfold all_batches. apply fetch_keys_complete; auto. unfold mlist. apply list_keys_sorted. Qed.

(* ---- merge ---- *)
Lemma merge_step_out : forall st out key,
  merge_step (st, out) key = (fst (merge_step (st, []) key), out ++ snd (merge_step (st, []) key)).
Proof.
  intros st out key. unfold merge_step.
  destruct (get_components key) as [apc|]; [|cbn; now rewrite app_nil_r].
  destruct (String.eqb (c_split apc) EmptyString && String.eqb (c_diamond apc) EmptyString); [cbn; now rewrite app_nil_r|].
  match goal with |- context [if ?c then _ else _] => destruct c end; cbn; [reflexivity|now rewrite app_nil_r].
Qed.

Lemma merge_fold_out : forall keys st out,
  fold_left merge_step keys (st, out) =
  (fst (fold_left merge_step keys (st, [])), out ++ snd (fold_left merge_step keys (st, []))).
Proof.
  induction keys as [|k keys IH]; intros st out; cbn [fold_left]; [cbn; now rewrite app_nil_r|].
  rewrite merge_step_out. destruct (merge_step (st, []) k) as [st1 o1] eqn:E1. cbn [fst snd].
  rewrite (IH st1 (out ++ o1)), (IH st1 o1). cbn [fst snd]. now rewrite app_assoc.
Qed.

Lemma merge_batch_app : forall a b st,
  merge_batch st (a ++ b) =
  (fst (merge_batch (fst (merge_batch st a)) b), snd (merge_batch st a) ++ snd (merge_batch (fst (merge_batch st a)) b)).
Proof.
  intros a b st. unfold merge_batch. rewrite fold_left_app.
  destruct (fold_left merge_step a (st, [])) as [st1 o1] eqn:E. cbn [fst snd].
  now rewrite merge_fold_out.
Qed.

(* batch boundaries do not matter: the carried state makes the batched merge equal to one pass *)
Theorem merge_batches_concat : forall bs st,
  List.concat (merge_batches st bs) = snd (merge_batch st (List.concat bs)).
Proof.
  induction bs as [|b bs IH]; intros st; cbn [merge_batches List.concat]; [reflexivity|].
  destruct (merge_batch st b) as [st' out] eqn:E. cbn [List.concat]. rewrite IH, merge_batch_app, E. reflexivity.
Qed.

(* one diamond (or split) contributes its final record, then its running record, or only the
   latter; the merge emits exactly one key for it and leaves no state behind *)
Definition is_rec (id : string) (final : bool) (k : string) : Prop :=
  exists apc, get_components k = Some apc /\ (c_diamond apc ++ c_split apc)%string = id /\
              c_final apc = final /\ (String.eqb (c_split apc) EmptyString && String.eqb (c_diamond apc) EmptyString) = false.

Lemma merge_running_only : forall id kr, is_rec id false kr -> merge_batch [] [kr] = ([], [kr]).
Proof.
  intros id kr [apc [Hg [Hid [Hf Hne]]]]. unfold merge_batch. cbn [fold_left]. unfold merge_step.
  rewrite Hg, Hne, Hid, Hf. cbn. reflexivity.
Qed.

Lemma merge_done_running : forall id kd kr, is_rec id true kd -> is_rec id false kr ->
  merge_batch [] [kd; kr] = ([], [kd]).
Proof.
  intros id kd kr [ad [Hgd [Hidd [Hfd Hned]]]] [ar [Hgr [Hidr [Hfr Hner]]]].
  unfold merge_batch. cbn [fold_left]. unfold merge_step at 2. rewrite Hgd, Hned, Hidd, Hfd. cbn.
  unfold merge_step. rewrite Hgr, Hner, Hidr, Hfr. cbn. rewrite String.eqb_refl. cbn. reflexivity.
Qed.

(* a listing made of such groups: one key per object, in order, the final one when present *)
Inductive group : list string -> string -> Prop :=
| GRunning id kr : is_rec id false kr -> group [kr] kr
| GDone id kd kr : is_rec id true kd -> is_rec id false kr -> group [kd; kr] kd.

Theorem merge_groups : forall gs picks, Forall2 group gs picks ->
  merge_batch [] (List.concat gs) = ([], picks).
Proof.
  intros gs picks F. induction F as [|g p gs picks Hg F IH]; [reflexivity|].
  cbn [List.concat]. rewrite merge_batch_app.
  assert (Hone : merge_batch [] g = ([], [p])).
  { destruct Hg; [eapply merge_running_only; eauto|eapply merge_done_running; eauto]. }
  rewrite Hone. cbn [fst snd]. rewrite IH. reflexivity.
Qed.
