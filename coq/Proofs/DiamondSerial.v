(* C12: when commits do not overlap - each runs from its first to its last step without another actor
   in between and without crashing - a diamond produces at most one bundle, whatever split runs and
   cancellations do around them, crashes of those included. *)
From Coq Require Import List String NArith Bool Arith Lia.
From DM Require Import Base.Util Model.Diamond Proofs.DiamondProofs.
Import ListNotations.
Open Scope list_scope.

Inductive item := ICommit (i : nat) | IOther (e : event).

Definition is_commit (a : actor) : bool := match a with ACommit _ _ _ => true | _ => false end.

Definition event_actor (e : event) : nat := match e with EStep i | ECrash i => i end.

(* an item is well-formed for a state: ICommit names a commit, IOther names another kind of actor *)
Definition item_ok (st : dstate) (it : item) : Prop :=
  match it with
  | ICommit i => exists a, nth_error (d_actors st) i = Some a /\ is_commit a = true
  | IOther e => forall a, nth_error (d_actors st) (event_actor e) = Some a -> is_commit a = false
  end.

Definition apply_item (st : dstate) (it : item) : dstate :=
  match it with
  | ICommit i => run (repeat (EStep i) 5) st
  | IOther e => apply_event st e
  end.

Definition quiet (a : actor) : Prop :=
  match a with ACommit pc _ _ => pc = CReady \/ pc = CFin | _ => True end.

Record J (st : dstate) : Prop := {
  j_quiet : forall i a, nth_error (d_actors st) i = Some a -> quiet a;
  j_none : d_term st = None -> d_bundles st = [];
  j_le : List.length (d_bundles st) <= 1
}.

Lemma kinds_stable_set : forall i a st j, i < List.length (d_actors st) ->
  (forall b, nth_error (d_actors st) i = Some b -> is_commit b = is_commit a) ->
  forall b, nth_error (d_actors (set_actor i a st)) j = Some b ->
  exists b', nth_error (d_actors st) j = Some b' /\ is_commit b' = is_commit b.
Proof.
  intros i a st j Hi Hk b Hb. destruct (Nat.eq_dec i j) as [->|Hne].
  - rewrite nth_set_actor_same in Hb by exact Hi. inversion Hb; subst b.
    destruct (nth_error (d_actors st) j) as [b'|] eqn:E; [|apply nth_error_None in E; lia].
    exists b'. split; [reflexivity|]. now apply Hk.
  - rewrite nth_set_actor_other in Hb by auto. eauto.
Qed.

(* a step of an actor that is not a commit: bundles untouched, commits untouched *)
Lemma other_step : forall j st a, nth_error (d_actors st) j = Some a -> is_commit a = false ->
  d_bundles (fst (step j st)) = d_bundles st /\
  (d_term st <> None -> d_term (fst (step j st)) <> None) /\
  (forall i b, nth_error (d_actors (fst (step j st))) i = Some b -> is_commit b = true -> nth_error (d_actors st) i = Some b).
Proof.
  intros j st a Ha Hc. assert (Hj : j < List.length (d_actors st)) by (apply nth_error_Some; congruence).
  unfold step. rewrite Ha. destruct a as [pc c w|[] w|s g [] w]; [discriminate| | | | | | | | |]; cbn [fst];
  repeat match goal with
         | |- context [match d_term st with _ => _ end] => destruct (d_term st) eqn:?
         | |- context [match done_of ?s st with _ => _ end] => destruct (done_of s st) eqn:?
         | |- context [if existsb ?f ?l then _ else _] => destruct (existsb f l) eqn:?
         end; cbn [fst d_bundles d_term set_actor];
  (split; [reflexivity|split; [try congruence; try (intros _; discriminate)|]]);
  try (intros i b Hb Hcb; destruct (Nat.eq_dec j i) as [->|Hne];
       [rewrite nth_set_actor_same in Hb by (cbn [d_actors]; exact Hj); inversion Hb; subst b; discriminate
       |rewrite nth_set_actor_other in Hb by (cbn [d_actors]; auto); exact Hb]);
  try (intros i b Hb _; exact Hb).
Qed.

Lemma other_crash : forall j st a, nth_error (d_actors st) j = Some a -> is_commit a = false ->
  d_bundles (crash j st) = d_bundles st /\ d_term (crash j st) = d_term st /\
  (forall i b, nth_error (d_actors (crash j st)) i = Some b -> is_commit b = true -> nth_error (d_actors st) i = Some b).
Proof.
  intros j st a Ha Hc. assert (Hj : j < List.length (d_actors st)) by (apply nth_error_Some; congruence).
  unfold crash. rewrite Ha. destruct a as [pc c w|pc w|s g pc w]; [discriminate| |];
  (split; [reflexivity|split; [reflexivity|]]);
  (intros i b Hb Hcb; destruct (Nat.eq_dec j i) as [->|Hne];
   [rewrite nth_set_actor_same in Hb by exact Hj; inversion Hb; subst b; discriminate
   |rewrite nth_set_actor_other in Hb by auto; exact Hb]).
Qed.

Lemma J_other : forall st e, J st -> item_ok st (IOther e) -> J (apply_event st e).
Proof.
  intros st e [Jq Jn Jl] Hok. cbn [item_ok] in Hok. destruct e as [j|j]; cbn [apply_event event_actor] in *.
  - destruct (nth_error (d_actors st) j) as [a|] eqn:Ea.
    + destruct (other_step j st a Ea (Hok a eq_refl)) as [Hb [Ht Hact]]. constructor.
      * intros i b Hb'. destruct (is_commit b) eqn:Ec; [apply (Jq i); now apply Hact|destruct b; try discriminate; exact I].
      * intros Hn. rewrite Hb. apply Jn. destruct (d_term st) eqn:E; [exfalso; apply Ht; [discriminate|exact Hn]|reflexivity].
      * now rewrite Hb.
    + unfold step. rewrite Ea. cbn [fst]. constructor; auto.
  - destruct (nth_error (d_actors st) j) as [a|] eqn:Ea.
    + destruct (other_crash j st a Ea (Hok a eq_refl)) as [Hb [Ht Hact]]. constructor.
      * intros i b Hb'. destruct (is_commit b) eqn:Ec; [apply (Jq i); now apply Hact|destruct b; try discriminate; exact I].
      * rewrite Ht, Hb. exact Jn.
      * now rewrite Hb.
    + unfold crash. rewrite Ea. constructor; auto.
Qed.

(* the five steps of a commit, run in one go *)
Lemma step_fin : forall i st c w, nth_error (d_actors st) i = Some (ACommit CFin c w) -> fst (step i st) = st.
Proof. intros i st c w H. unfold step. now rewrite H. Qed.

Lemma run_fin : forall n i st c w, nth_error (d_actors st) i = Some (ACommit CFin c w) -> run (repeat (EStep i) n) st = st.
Proof.
  induction n as [|n IH]; intros i st c w H; [reflexivity|]. unfold run in *. cbn [repeat fold_left apply_event].
  rewrite (step_fin i st c w H). now apply (IH i st c w).
Qed.

Lemma run_S : forall n i st, run (repeat (EStep i) (S n)) st = run (repeat (EStep i) n) (fst (step i st)).
Proof. reflexivity. Qed.

Lemma commit_block : forall i st c w, J st -> nth_error (d_actors st) i = Some (ACommit CReady c w) ->
  forall st', st' = run (repeat (EStep i) 5) st ->
  (forall j, j <> i -> nth_error (d_actors st') j = nth_error (d_actors st) j) /\
  (exists c' w', nth_error (d_actors st') i = Some (ACommit CFin c' w')) /\
  ((d_term st' = d_term st /\ d_bundles st' = d_bundles st) \/
   (d_term st = None /\ d_term st' = Some (TDone i) /\ exists srcs, d_bundles st' = (i, srcs) :: d_bundles st)).
Proof.
  intros i st c w [Jq Jn Jl] Ha st' E. assert (Hi : i < List.length (d_actors st)) by (apply nth_error_Some; congruence).
  rewrite run_S in E.
  (* step 1: ready *)
  unfold step at 1 in E. rewrite Ha in E. destruct (d_term st) as [t|] eqn:Et; cbn [fst] in E.
  - (* refused *)
    set (s1 := set_actor i (ACommit CFin c w) st) in *.
    assert (H1 : nth_error (d_actors s1) i = Some (ACommit CFin c w)) by (apply nth_set_actor_same; exact Hi).
    rewrite (run_fin 4 i s1 c w H1) in E. subst st'. split; [intros j Hj; apply nth_set_actor_other; auto|].
    split; [exists c, w; exact H1|]. left. split; [exact Et|reflexivity].
  - set (s1 := set_actor i (ACommit CCollect c w) st) in *.
    assert (H1 : nth_error (d_actors s1) i = Some (ACommit CCollect c w)) by (apply nth_set_actor_same; exact Hi).
    assert (L1 : i < List.length (d_actors s1)) by (apply nth_error_Some; congruence).
    (* step 2: collect *)
    rewrite run_S in E. unfold step at 1 in E. rewrite H1 in E. change (d_done s1) with (d_done st) in E.
    destruct (d_done st) as [|p ds] eqn:Ed; cbn [fst] in E.
    + set (s2 := set_actor i (ACommit CFin [] w) s1) in *.
      assert (H2 : nth_error (d_actors s2) i = Some (ACommit CFin [] w)) by (apply nth_set_actor_same; exact L1).
      rewrite (run_fin 3 i s2 [] w H2) in E. subst st'. split.
      * intros j Hj. unfold s2. rewrite nth_set_actor_other by auto. apply nth_set_actor_other; auto.
      * split; [exists [], w; exact H2|]. left. split; [exact Et|reflexivity].
    + set (s2 := set_actor i (ACommit CWriteLists (p :: ds) w) s1) in *.
      assert (H2 : nth_error (d_actors s2) i = Some (ACommit CWriteLists (p :: ds) w)) by (apply nth_set_actor_same; exact L1).
      assert (L2 : i < List.length (d_actors s2)) by (apply nth_error_Some; congruence).
      (* step 3 *)
      rewrite run_S in E. unfold step at 1 in E. rewrite H2 in E. cbn [fst] in E.
      match type of E with context [set_actor i (ACommit CWriteBundle ?cc true) ?s] => set (s3 := set_actor i (ACommit CWriteBundle cc true) s) in * end.
      assert (H3 : nth_error (d_actors s3) i = Some (ACommit CWriteBundle (p :: ds) true)) by (apply nth_set_actor_same; cbn [d_actors]; exact L2).
      assert (L3 : i < List.length (d_actors s3)) by (apply nth_error_Some; congruence).
      (* step 4 *)
      rewrite run_S in E. unfold step at 1 in E. rewrite H3 in E. cbn [fst] in E.
      match type of E with context [set_actor i (ACommit CWriteDone ?cc true) ?s] => set (s4 := set_actor i (ACommit CWriteDone cc true) s) in * end.
      assert (H4 : nth_error (d_actors s4) i = Some (ACommit CWriteDone (p :: ds) true)) by (apply nth_set_actor_same; cbn [d_actors]; exact L3).
      assert (L4 : i < List.length (d_actors s4)) by (apply nth_error_Some; congruence).
      (* step 5 *)
      rewrite run_S in E. unfold step at 1 in E. rewrite H4 in E. assert (T4 : d_term s4 = None) by exact Et. rewrite T4 in E. cbn [fst] in E.
      unfold run in E. cbn [repeat fold_left] in E. subst st'.
      split.
      * intros j Hj. rewrite nth_set_actor_other by (cbn [d_actors]; auto). cbn [d_actors].
        unfold s4. rewrite nth_set_actor_other by (cbn [d_actors]; auto). cbn [d_actors].
        unfold s3. rewrite nth_set_actor_other by (cbn [d_actors]; auto). cbn [d_actors].
        unfold s2. rewrite nth_set_actor_other by auto. apply nth_set_actor_other; auto.
      * split.
        -- exists (p :: ds), true. apply nth_set_actor_same. cbn [d_actors]. exact L4.
        -- right. split; [reflexivity|]. split; [reflexivity|]. exists (p :: ds). reflexivity.
Qed.

Lemma J_commit : forall st i, J st -> item_ok st (ICommit i) -> J (apply_item st (ICommit i)).
Proof.
  intros st i Jst [a [Ha Hc]]. pose proof Jst as [Jq Jn Jl]. destruct a as [pc c w| |]; try discriminate.
  cbn [apply_item]. pose proof (Jq i _ Ha) as Hq. cbn [quiet] in Hq. destruct Hq as [Hq|Hq]; subst pc.
  - destruct (commit_block i st c w Jst Ha _ eq_refl) as (Hoth & (c' & w' & Hi) & Hres). constructor.
    + intros j b Hb. destruct (Nat.eq_dec j i) as [->|Hne].
      * rewrite Hi in Hb. inversion Hb; subst b. right. reflexivity.
      * rewrite (Hoth j Hne) in Hb. now apply (Jq j).
    + destruct Hres as [[Ht Hb]|[_ [Ht _]]]; [rewrite Ht, Hb; exact Jn|rewrite Ht; discriminate].
    + destruct Hres as [[Ht Hb]|[Hn [_ [srcs Hb]]]]; [now rewrite Hb|]. rewrite Hb, (Jn Hn). cbn. lia.
  - rewrite (run_fin 5 i st c w Ha). exact Jst.
Qed.

Definition items_ok_run : forall (items : list item) (st : dstate), Prop :=
  fix go items st := match items with
                     | [] => True
                     | it :: rest => item_ok st it /\ go rest (apply_item st it)
                     end.

Theorem serial_commits_one_bundle : forall items actors, all_fresh actors ->
  items_ok_run items (init actors) ->
  List.length (d_bundles (fold_left apply_item items (init actors))) <= 1.
Proof.
  intros items actors Hf. assert (J0 : J (init actors)).
  { constructor; cbn; auto. intros i a Ha. apply nth_error_In in Ha. specialize (Hf a Ha). destruct a as [[] c w| |]; cbn in *; auto; discriminate. }
  revert J0. generalize (init actors). induction items as [|it items IH]; intros st Jst Hok; cbn [fold_left]; [apply Jst|].
  destruct Hok as [H1 H2]. apply IH; [|exact H2]. destruct it as [i|e]; [now apply J_commit|now apply J_other].
Qed.
