(* Proofs about Model/RepoOps.v: labels behave like a finite map, repository creation is
   exclusive, delete / squash touch only keys of their repository, squash never removes the most
   recent committed bundle. *)
From Coq Require Import List String Ascii NArith Bool Arith Lia.
From DM Require Import Base.Str Base.StrOrder Base.Paging Base.Listing Gen.Paths Model.PathsParse Model.PathsCheck
  Model.Meta Model.Bundle Model.ListOps Model.RepoOps Proofs.PathsProofs.
Import ListNotations.
Open Scope list_scope.

(* ---- the reference store is a finite map ---- *)
Lemma mget_mremove_same : forall k s, mget k (mremove k s) = None.
Proof. induction s as [|[k' v] s IH]; cbn; [reflexivity|]. destruct (String.eqb k k') eqn:E; [exact IH|]. cbn. now rewrite E. Qed.

Lemma mget_mremove_other : forall k k' s, k <> k' -> mget k' (mremove k s) = mget k' s.
Proof.
  induction s as [|[k0 v] s IH]; intros Hne; cbn; [reflexivity|].
  destruct (String.eqb k k0) eqn:E.
  - apply String.eqb_eq in E. subst k0. destruct (String.eqb k' k) eqn:E'; [apply String.eqb_eq in E'; congruence|]. now apply IH.
  - cbn. destruct (String.eqb k' k0); [reflexivity|]. now apply IH.
Qed.

Lemma mget_mput_same : forall k v s, mget k (snd (mput k v false s)) = Some v.
Proof. intros. unfold mput. destruct (mget k s); cbn; now rewrite String.eqb_refl. Qed.

Lemma mget_mput_other : forall k v e s k', k <> k' -> mget k' (snd (mput k v e s)) = mget k' s.
Proof.
  intros k v e s k' Hne. unfold mput. destruct (mget k s); [destruct e|]; cbn; auto;
  (destruct (String.eqb k' k) eqn:E; [apply String.eqb_eq in E; congruence|]); auto using mget_mremove_other.
Qed.

Lemma mget_mdelete_other : forall k s k', k <> k' -> mget k' (snd (mdelete k s)) = mget k' s.
Proof. intros k s k' Hne. unfold mdelete. destruct (mhas k s); cbn; auto using mget_mremove_other. Qed.

Lemma mget_mdelete_same : forall k s, mget k (snd (mdelete k s)) = None.
Proof.
  intros. unfold mdelete, mhas. destruct (mget k s) eqn:E; cbn; [apply mget_mremove_same|exact E].
Qed.

(* create-if-absent: the first creator wins, every later one is refused and changes nothing *)
Theorem create_repo_once : forall r w,
  repo_exists r w = false ->
  fst (create_repo r w) = ROk /\
  let w1 := snd (create_repo r w) in repo_exists r w1 = true /\
  forall w2, w_meta w2 = w_meta w1 -> create_repo r w2 = (RErr, w2).
Proof.
  intros r w Hn. unfold repo_exists, mhas in Hn. unfold create_repo, mput.
  destruct (mget (GetArchivePathToRepoDescriptor r) (w_meta w)) eqn:E; [discriminate|]. cbn.
  split; [reflexivity|]. split.
  - unfold repo_exists, mhas. cbn. now rewrite String.eqb_refl.
  - intros w2 Hw. unfold mput. rewrite Hw. cbn. now rewrite String.eqb_refl.
Qed.

(* ---- labels ---- *)
Lemma label_key_inj : forall r n r' n', noslash r = true -> noslash n = true -> noslash r' = true -> noslash n' = true ->
  GetArchivePathToLabel r n = GetArchivePathToLabel r' n' -> r = r' /\ n = n'.
Proof.
  intros r n r' n' H1 H2 H3 H4 E.
  pose proof (parse_build_label r n H1 H2) as A. pose proof (parse_build_label r' n' H3 H4) as B.
  rewrite E in A. rewrite A in B. inversion B. auto.
Qed.

Theorem get_after_set_label : forall r n b w,
  repo_exists r w = true -> label_elem_ok n = true -> b <> EmptyString ->
  fst (set_label r n b w) = ROk /\ get_label r n (snd (set_label r n b w)) = Some b.
Proof.
  intros r n b w Hr Hn Hb. unfold set_label. rewrite Hr, Hn. cbn [negb orb].
  destruct (String.eqb b EmptyString) eqn:E; [apply String.eqb_eq in E; congruence|]. cbn [fst snd].
  split; [reflexivity|]. unfold get_label, repo_exists in *. cbn [w_meta w_vmeta with_vmeta]. rewrite Hr. cbn [negb].
  now rewrite mget_mput_same.
Qed.

(* setting a label changes no bundle, repository or other label *)
Theorem set_label_frame : forall r n b w,
  w_meta (snd (set_label r n b w)) = w_meta w /\
  forall k, k <> GetArchivePathToLabel r n -> mget k (w_vmeta (snd (set_label r n b w))) = mget k (w_vmeta w).
Proof.
  intros r n b w. unfold set_label.
  destruct (negb (repo_exists r w) || negb (label_elem_ok n) || String.eqb b EmptyString); cbn [snd]; [auto|].
  split; [reflexivity|]. intros k Hk. cbn [w_vmeta with_vmeta]. apply mget_mput_other. congruence.
Qed.

Theorem set_label_other : forall r n b w r' n',
  noslash r = true -> noslash n = true -> noslash r' = true -> noslash n' = true -> (r, n) <> (r', n') ->
  get_label r' n' (snd (set_label r n b w)) = get_label r' n' w.
Proof.
  intros r n b w r' n' H1 H2 H3 H4 Hne. destruct (set_label_frame r n b w) as [Hm Hv].
  unfold get_label, repo_exists. rewrite Hm. destruct (negb (mhas _ (w_meta w))); [reflexivity|].
  rewrite Hv; [reflexivity|]. intros E. apply label_key_inj in E; auto. destruct E. congruence.
Qed.

Theorem get_after_delete_label : forall r n w w', delete_label r n true w = (ROk, w') -> get_label r n w' = None.
Proof.
  intros r n w w' H. unfold delete_label in H. destruct (true && negb (repo_exists r w)); [discriminate|].
  destruct (mdelete (GetArchivePathToLabel r n) (w_vmeta w)) as [[|] v] eqn:E; [|discriminate]. inversion H; subst w'.
  unfold get_label. destruct (negb _); [reflexivity|]. cbn [w_vmeta with_vmeta].
  replace v with (snd (mdelete (GetArchivePathToLabel r n) (w_vmeta w))) by now rewrite E. now rewrite mget_mdelete_same.
Qed.

(* ---- deleting bundles touches only keys below bundles/<repo>/<id>/ ---- *)
Definition under_bundle (r id k : string) : bool := starts_with (GetArchivePathPrefixToBundles r ++ id ++ "/")%string k.

Lemma filelist_under : forall r id i, under_bundle r id (GetArchivePathToBundleFileList r id i) = true.
Proof.
  intros. unfold under_bundle, GetArchivePathToBundleFileList, GetArchivePathPrefixToBundles.
  rewrite !app_assoc_s. rewrite !sw_app_l. reflexivity.
Qed.

Lemma descriptor_under : forall r id, under_bundle r id (GetArchivePathToBundle r id) = true.
Proof.
  intros. unfold under_bundle, GetArchivePathToBundle, GetArchivePathPrefixToBundles.
  rewrite !app_assoc_s. rewrite !sw_app_l. reflexivity.
Qed.

Lemma delete_until_fail_frame : forall fuel r id i m k, under_bundle r id k = false ->
  mget k (delete_until_fail fuel r id i m) = mget k m.
Proof.
  induction fuel as [|f IH]; intros r id i m k Hk; cbn [delete_until_fail]; [reflexivity|].
  destruct (mdelete (GetArchivePathToBundleFileList r id i) m) as [[|] m'] eqn:E; [|reflexivity].
  rewrite IH by exact Hk. replace m' with (snd (mdelete (GetArchivePathToBundleFileList r id i) m)) by now rewrite E.
  apply mget_mdelete_other. intros Eq. rewrite <- Eq, filelist_under in Hk. discriminate.
Qed.

Lemma delete_n_frame : forall n r id i m k, under_bundle r id k = false ->
  mget k (delete_n n r id i m) = mget k m.
Proof.
  induction n as [|n IH]; intros r id i m k Hk; cbn [delete_n]; [reflexivity|].
  rewrite IH by exact Hk. apply mget_mdelete_other. intros Eq. rewrite <- Eq, filelist_under in Hk. discriminate.
Qed.

Theorem delete_bundle_frame : forall r id m k, under_bundle r id k = false ->
  mget k (delete_bundle_quiet r id m) = mget k m.
Proof.
  intros r id m k Hk. unfold delete_bundle_quiet.
  rewrite mget_mdelete_other by (intros Eq; rewrite <- Eq, descriptor_under in Hk; discriminate).
  destruct (N.eqb _ 0); [now apply delete_until_fail_frame|now apply delete_n_frame].
Qed.

Lemma delete_bundles_frame : forall ids r m k, (forall id, In id ids -> under_bundle r id k = false) ->
  mget k (fold_left (fun m id => delete_bundle_quiet r id m) ids m) = mget k m.
Proof.
  induction ids as [|id ids IH]; intros r m k H; cbn [fold_left]; [reflexivity|].
  rewrite IH by (intros; apply H; now right). apply delete_bundle_frame. apply H. now left.
Qed.

(* squash: metadata keys outside the deleted bundles are untouched - in particular every other
   repository, and every bundle that is kept *)
Theorem squash_meta_frame : forall r n mode sv w k,
  (forall id, under_bundle r id k = false) ->
  mget k (w_meta (snd (squash r n mode sv w))) = mget k (w_meta w).
Proof.
  intros r n mode sv w k Hk. unfold squash.
  destruct (negb (repo_exists r w)); [reflexivity|].
  destruct (Nat.ltb _ _); [reflexivity|]. cbn [snd w_meta with_vmeta with_meta].
  apply delete_bundles_frame. intros; apply Hk.
Qed.

(* the victims of a squash are among the oldest bundles: the n most recent are never deleted *)
Theorem squash_victims_old : forall (bs : list string) n labelled id, 0 < n -> NoDup bs ->
  In id (filter (fun id => negb (existsb (String.eqb id) labelled)) (firstn (List.length bs - n) bs)) ->
  ~ In id (skipn (List.length bs - n) bs).
Proof.
  intros bs n labelled id Hn Hnd Hin. apply filter_In in Hin. destruct Hin as [Hin _].
  rewrite <- (firstn_skipn (List.length bs - n) bs) in Hnd. intros Hs.
  revert Hnd Hin Hs. generalize (firstn (List.length bs - n) bs) (skipn (List.length bs - n) bs). clear.
  induction l as [|x l IH]; intros l0 Hnd Hin Hs; [destruct Hin|].
  cbn in Hnd. apply NoDup_cons_iff in Hnd. destruct Hnd as [Hx Hnd]. destruct Hin as [->|Hin].
  - apply Hx. apply in_or_app. now right.
  - eapply IH; eauto.
Qed.

(* repository deletion leaves every key that is not below bundles/<repo>/, not a label of <repo>
   and not its descriptor *)
Theorem delete_repo_meta_frame : forall r w k,
  (forall id, under_bundle r id k = false) -> k <> GetArchivePathToRepoDescriptor r ->
  mget k (w_meta (snd (delete_repo r w))) = mget k (w_meta w).
Proof.
  intros r w k Hk Hd. unfold delete_repo. destruct (negb (repo_exists r w)); [reflexivity|].
  cbn [snd w_meta]. rewrite mget_mdelete_other by congruence. apply delete_bundles_frame. intros; apply Hk.
Qed.

Lemma delete_labels_frame : forall (ls : list (string * string)) r v k,
  (forall l, In l ls -> k <> GetArchivePathToLabel r (fst l)) ->
  mget k (fold_left (fun v l => snd (mdelete (GetArchivePathToLabel r (fst l)) v)) ls v) = mget k v.
Proof.
  induction ls as [|l ls IH]; intros r v k H; cbn [fold_left]; [reflexivity|].
  rewrite IH by (intros; apply H; now right). apply mget_mdelete_other. intros E. apply (H l); [now left|congruence].
Qed.

Theorem delete_repo_vmeta_frame : forall r w k,
  (forall n, k <> GetArchivePathToLabel r n) ->
  mget k (w_vmeta (snd (delete_repo r w))) = mget k (w_vmeta w).
Proof.
  intros r w k Hk. unfold delete_repo. destruct (negb (repo_exists r w)); [reflexivity|].
  cbn [snd w_vmeta]. apply delete_labels_frame. intros; apply Hk.
Qed.

Lemma label_ok_noslash : forall n, label_elem_ok n = true -> noslash n = true.
Proof. intros n H. unfold label_elem_ok in H. apply andb_prop in H. tauto. Qed.

(* the documented alphabet passes core's check *)
Lemma label_name_elem : forall n, label_name_ok n = true -> label_elem_ok n = true.
Proof.
  intros n H. unfold label_elem_ok. rewrite (proj2 (valid_names_noslash n) H), andb_true_r.
  unfold label_name_ok in H. apply andb_prop in H. destruct H as [H1 H2]. rewrite H1. cbn [andb].
  destruct (String.eqb n ".") eqn:E1; [apply String.eqb_eq in E1; subst; discriminate H2|].
  destruct (String.eqb n "..") eqn:E2; [apply String.eqb_eq in E2; subst; discriminate H2|]. reflexivity.
Qed.
