(* C10: what a squash removes and what it leaves. *)
From Coq Require Import List String Ascii NArith Bool Arith Lia.
From DM Require Import Base.Str Gen.Paths Model.PathsParse Model.PathsCheck Model.Meta Model.Bundle Model.ListOps
  Model.RepoOps Proofs.PathsProofs Proofs.RepoProofs Proofs.AtomicProofs Proofs.DeleteFiles.
Import ListNotations.
Open Scope list_scope.

Definition squash_victims (bs labelled : list string) (n : nat) : list string :=
  filter (fun id => negb (existsb (String.eqb id) labelled)) (firstn (List.length bs - n) bs).

Lemma NoDup_firstn_skipn : forall (bs : list string) k id, NoDup bs -> In id (firstn k bs) -> ~ In id (skipn k bs).
Proof.
  intros bs k id Hnd Hin Hs. rewrite <- (firstn_skipn k bs) in Hnd.
  revert Hnd Hin Hs. generalize (firstn k bs) (skipn k bs). clear.
  induction l as [|x l IH]; intros l0 Hnd Hin Hs; [destruct Hin|].
  cbn in Hnd. apply NoDup_cons_iff in Hnd. destruct Hnd as [Hx Hnd]. destruct Hin as [->|Hin].
  - apply Hx. apply in_or_app. now right.
  - eapply IH; eauto.
Qed.

(* the bundles removed are exactly the committed ones that are neither among the n most recent nor
   carry a retained label *)
Theorem victims_exact : forall (bs labelled : list string) n id, NoDup bs ->
  (In id (squash_victims bs labelled n) <->
   In id bs /\ ~ In id (skipn (List.length bs - n) bs) /\ existsb (String.eqb id) labelled = false).
Proof.
  intros bs labelled n id Hnd. unfold squash_victims. rewrite filter_In, negb_true_iff. split.
  - intros [Hin Hl]. split; [|split; [|exact Hl]].
    + rewrite <- (firstn_skipn (List.length bs - n) bs). apply in_or_app. now left.
    + now apply NoDup_firstn_skipn.
  - intros [Hin [Hns Hl]]. split; [|exact Hl].
    rewrite <- (firstn_skipn (List.length bs - n) bs) in Hin. apply in_app_or in Hin. tauto.
Qed.

Lemma NoDup_app_l : forall (a b : list string), NoDup (a ++ b) -> NoDup a.
Proof.
  induction a as [|x a IH]; intros b H; [constructor|]. cbn in H. apply NoDup_cons_iff in H. destruct H as [Hx H].
  constructor; [|eapply IH; eauto]. intros Hin. apply Hx. apply in_or_app. now left.
Qed.

Lemma victims_NoDup : forall (bs labelled : list string) n, NoDup bs -> NoDup (squash_victims bs labelled n).
Proof.
  intros bs labelled n Hnd. unfold squash_victims. apply NoDup_filter.
  rewrite <- (firstn_skipn (List.length bs - n) bs) in Hnd. eapply NoDup_app_l. exact Hnd.
Qed.

(* ---- metadata ---- *)
Lemma delete_bundle_descriptor_gone : forall r id m, mget (GetArchivePathToBundle r id) (delete_bundle_quiet r id m) = None.
Proof. intros. unfold delete_bundle_quiet. apply mget_mdelete_same. Qed.

Lemma delete_bundles_gone : forall ids r m id,
  noslash id = true -> (forall v, In v ids -> noslash v = true) -> In id ids ->
  mget (GetArchivePathToBundle r id) (fold_left (fun m v => delete_bundle_quiet r v m) ids m) = None.
Proof.
  induction ids as [|v ids IH]; intros r m id Hid Hns Hin; [destruct Hin|]. cbn [fold_left].
  destruct (in_dec string_dec id ids) as [Hin'|Hnin].
  - apply IH; auto. intros; apply Hns; now right.
  - destruct Hin as [->|Hin]; [|contradiction].
    rewrite delete_bundles_frame; [apply delete_bundle_descriptor_gone|].
    intros v Hv. apply (other_bundle_not_under r v id); auto.
    + apply Hns. now right.
    + intros ->. contradiction.
    + apply descriptor_under.
Qed.

Section Squash.
Variables (r : string) (n : nat) (mode : tagmode) (sv : list string) (w : wstate).
Let n' := if Nat.eqb n 0 then 1 else n.
Let bs := bundles_of r w.
Let labelled := match mode with
                | TNone => []
                | TAll => map snd (labels_of r EmptyString w)
                | TSemver => map snd (filter (fun l => existsb (String.eqb (fst l)) sv) (labels_of r EmptyString w))
                end.
Hypothesis Hrepo : repo_exists r w = true.
Hypothesis Hmany : n' < List.length bs.
Hypothesis Hns : forall id, In id bs -> noslash id = true.

Lemma squash_unfold : w_meta (snd (squash r n mode sv w)) =
  fold_left (fun m id => delete_bundle_quiet r id m) (squash_victims bs labelled n') (w_meta w).
Proof.
  unfold squash. rewrite Hrepo. cbn [negb]. fold n' bs.
  destruct (Nat.ltb_spec (List.length bs) (S n')) as [H|H]; [lia|]. reflexivity.
Qed.

Lemma victim_in_bs : forall v, In v (squash_victims bs labelled n') -> In v bs.
Proof.
  intros v H. unfold squash_victims in H. apply filter_In in H. destruct H as [H _].
  rewrite <- (firstn_skipn (List.length bs - n') bs). apply in_or_app. now left.
Qed.

(* every removed bundle is gone from the listing's point of view: its descriptor no longer exists *)
Theorem squash_victims_gone : forall id, In id (squash_victims bs labelled n') ->
  mget (GetArchivePathToBundle r id) (w_meta (snd (squash r n mode sv w))) = None.
Proof.
  intros id Hin. rewrite squash_unfold. apply delete_bundles_gone; auto.
  - apply Hns. now apply victim_in_bs.
  - intros v Hv. apply Hns. now apply victim_in_bs.
Qed.

(* every other bundle keeps its descriptor and every one of its file lists *)
Theorem squash_kept_intact : forall id k, noslash id = true -> ~ In id (squash_victims bs labelled n') ->
  under_bundle r id k = true ->
  mget k (w_meta (snd (squash r n mode sv w))) = mget k (w_meta w).
Proof.
  intros id k Hid Hnot Hk. rewrite squash_unfold. apply delete_bundles_frame.
  intros v Hv. apply (other_bundle_not_under r v id); auto.
  - apply Hns. now apply victim_in_bs.
  - intros ->. contradiction.
Qed.
End Squash.

(* ---- labels ---- *)
Definition prune_labels (r : string) (kept : list string) (ls : list (string * string)) (v : mstore) : mstore :=
  fold_left (fun v l => if existsb (String.eqb (snd l)) kept then v
                        else snd (mdelete (GetArchivePathToLabel r (fst l)) v)) ls v.

Lemma prune_labels_frame : forall ls r kept v k,
  (forall l, In l ls -> existsb (String.eqb (snd l)) kept = false -> k <> GetArchivePathToLabel r (fst l)) ->
  mget k (prune_labels r kept ls v) = mget k v.
Proof.
  unfold prune_labels. induction ls as [|l ls IH]; intros r kept v k H; cbn [fold_left]; [reflexivity|].
  rewrite IH by (intros l' Hl'; apply H; now right).
  destruct (existsb (String.eqb (snd l)) kept) eqn:E; [reflexivity|].
  apply mget_mdelete_other. intros Eq. apply (H l); [now left|exact E|congruence].
Qed.

Lemma prune_labels_gone : forall ls r kept v l,
  In l ls -> existsb (String.eqb (snd l)) kept = false ->
  mget (GetArchivePathToLabel r (fst l)) (prune_labels r kept ls v) = None.
Proof.
  unfold prune_labels. induction ls as [|x ls IH]; intros r kept v l Hin Hl; [destruct Hin|]. cbn [fold_left].
  destruct Hin as [->|Hin]; [|now apply IH].
  rewrite Hl.
  (* once deleted, a key stays deleted: later steps only delete *)
  assert (G : forall ls' v', mget (GetArchivePathToLabel r (fst l)) v' = None ->
              mget (GetArchivePathToLabel r (fst l))
                (fold_left (fun v l0 => if existsb (String.eqb (snd l0)) kept then v
                                        else snd (mdelete (GetArchivePathToLabel r (fst l0)) v)) ls' v') = None).
  { induction ls' as [|y ls' IH']; intros v' Hv'; cbn [fold_left]; [exact Hv'|].
    apply IH'. destruct (existsb (String.eqb (snd y)) kept); [exact Hv'|].
    destruct (string_dec (GetArchivePathToLabel r (fst y)) (GetArchivePathToLabel r (fst l))) as [E|E].
    - rewrite <- E. apply mget_mdelete_same.
    - rewrite mget_mdelete_other by exact E. exact Hv'. }
  apply G. apply mget_mdelete_same.
Qed.

Lemma squash_vmeta_unfold : forall r n mode sv w,
  w_vmeta (snd (squash r n mode sv w)) = w_vmeta w \/
  exists kept ls, w_vmeta (snd (squash r n mode sv w)) = prune_labels r kept ls (w_vmeta w) /\
                  kept = bundles_of r (with_meta w (w_meta (snd (squash r n mode sv w)))) /\
                  ls = labels_of r EmptyString (with_meta w (w_meta (snd (squash r n mode sv w)))).
Proof.
  intros r n mode sv w. unfold squash. destruct (negb (repo_exists r w)); [now left|].
  destruct (Nat.ltb _ _); [now left|]. right. cbn [snd w_vmeta w_meta with_vmeta with_meta].
  eexists. eexists. split; [reflexivity|]. split; reflexivity.
Qed.

(* a squash touches no label of another repository, nor anything else in the label store *)
Theorem squash_vmeta_frame : forall r n mode sv w k,
  (forall nm, k <> GetArchivePathToLabel r nm) ->
  mget k (w_vmeta (snd (squash r n mode sv w))) = mget k (w_vmeta w).
Proof.
  intros r n mode sv w k Hk. destruct (squash_vmeta_unfold r n mode sv w) as [E|[kept [ls [E _]]]]; rewrite E; [reflexivity|].
  apply prune_labels_frame. intros; apply Hk.
Qed.

(* a label stays untouched when every bundle it is listed with is still there after the squash *)
Theorem squash_label_kept : forall r n mode sv w nm,
  noslash r = true -> noslash nm = true ->
  let w1 := with_meta w (w_meta (snd (squash r n mode sv w))) in
  let kept := bundles_of r w1 in
  let ls := labels_of r EmptyString w1 in
  (forall l, In l ls -> noslash (fst l) = true) ->
  (forall l, In l ls -> fst l = nm -> existsb (String.eqb (snd l)) kept = true) ->
  mget (GetArchivePathToLabel r nm) (w_vmeta (snd (squash r n mode sv w))) = mget (GetArchivePathToLabel r nm) (w_vmeta w).
Proof.
  intros r n mode sv w nm Hr Hnm w1 kept ls Hls Hall.
  destruct (squash_vmeta_unfold r n mode sv w) as [E|[kept' [ls' [E [Ek El]]]]]; [now rewrite E|].
  subst kept' ls'. fold w1 in E. fold kept ls in E. rewrite E. apply prune_labels_frame. intros l Hl Hgone Eq.
  apply label_key_inj in Eq; auto. destruct Eq as [_ Eq]. rewrite (Hall l Hl (eq_sym Eq)) in Hgone. discriminate.
Qed.

(* when the squash has bundles to remove, a label listed with a bundle that is gone afterwards is removed *)
Theorem squash_label_removed : forall r n mode sv w l,
  repo_exists r w = true -> (if Nat.eqb n 0 then 1 else n) < List.length (bundles_of r w) ->
  let w1 := with_meta w (w_meta (snd (squash r n mode sv w))) in
  In l (labels_of r EmptyString w1) -> existsb (String.eqb (snd l)) (bundles_of r w1) = false ->
  mget (GetArchivePathToLabel r (fst l)) (w_vmeta (snd (squash r n mode sv w))) = None.
Proof.
  intros r n mode sv w l Hrepo Hmany w1 Hl Hgone.
  assert (E : w_vmeta (snd (squash r n mode sv w)) =
              prune_labels r (bundles_of r w1) (labels_of r EmptyString w1) (w_vmeta w)).
  { unfold w1, squash. rewrite Hrepo. cbn [negb].
    destruct (Nat.ltb_spec (List.length (bundles_of r w)) (S (if Nat.eqb n 0 then 1 else n))) as [H|H]; [lia|]. reflexivity. }
  rewrite E. now apply prune_labels_gone.
Qed.

(* the premises are met by a concrete repository: three bundles, one labelled; retain 1 with labels
   kept removes exactly the middle one *)
Example squash_example :
  let e := {| e_name := "f"; e_hash := "h"; e_size := 1%N |} in
  let w0 := {| w_meta := []; w_vmeta := [] |} in
  let w1 := snd (create_repo "r" w0) in
  let w2 := snd (upload "r" "b1" [e] 1000 w1) in
  let w3 := snd (upload "r" "b2" [e] 1000 w2) in
  let w4 := snd (upload "r" "b3" [e] 1000 w3) in
  let w := snd (set_label "r" "v1" "b1" w4) in
  repo_exists "r" w = true /\ bundles_of "r" w = ["b1"; "b2"; "b3"]%string /\
  squash_victims (bundles_of "r" w) (map snd (labels_of "r" EmptyString w)) 1 = ["b2"%string] /\
  bundles_of "r" (snd (squash "r" 1 TAll [] w)) = ["b1"; "b3"]%string /\
  mget (GetArchivePathToBundle "r" "b2") (w_meta (snd (squash "r" 1 TAll [] w))) = None /\
  labels_of "r" EmptyString (snd (squash "r" 1 TAll [] w)) = [("v1", "b1")]%string.
Proof. vm_compute. repeat split; reflexivity. Qed.
