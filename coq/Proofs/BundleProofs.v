(* Proofs about Model/Bundle.v: index-file layout, reassembly, which files become entries, and
   the upload/download round trip at the level of entries. *)
From Coq Require Import List String Ascii NArith Bool Arith Lia.
From DM Require Import Base.Str Model.PathsParse Model.Meta Model.Bundle.
Import ListNotations.
Open Scope list_scope.

(* ---- index files ---- *)
Lemma chunk_fuel_spec : forall fuel E l, 0 < E -> List.length l <= fuel ->
  List.concat (chunk_fuel fuel E l) = l /\
  Forall (fun c => 0 < List.length c <= E) (chunk_fuel fuel E l).
Proof.
  induction fuel as [|f IH]; intros E l HE Hl.
  - destruct l; [cbn; auto|cbn in Hl; lia].
  - cbn [chunk_fuel]. destruct l as [|x l'] eqn:El; [cbn; auto|]. rewrite <- El in *.
    assert (Hlen : 0 < List.length l) by (subst l; cbn; lia).
    destruct (IH E (skipn E l) HE) as [A B]; [rewrite skipn_length; lia|].
    split.
    + cbn [List.concat]. rewrite A. apply firstn_skipn.
    + constructor; auto. rewrite firstn_length. lia.
Qed.

Theorem chunk_concat : forall E l, 0 < E -> List.concat (chunk E l) = l.
Proof. intros. unfold chunk. apply chunk_fuel_spec; auto. Qed.

(* all index files but the last hold exactly E entries *)
Lemma chunk_fuel_full : forall fuel E l, 0 < E -> List.length l <= fuel ->
  forall i, S i < List.length (chunk_fuel fuel E l) -> List.length (nth i (chunk_fuel fuel E l) []) = E.
Proof.
  induction fuel as [|f IH]; intros E l HE Hl i Hi; [cbn in Hi; lia|].
  cbn [chunk_fuel] in *. destruct l as [|x l'] eqn:El; [cbn in Hi; lia|]. rewrite <- El in *.
  cbn [List.length] in Hi. destruct i as [|i]; cbn [nth].
  - (* there is a second chunk, so skipn E l is not empty *)
    rewrite firstn_length. destruct (le_lt_dec E (List.length l)); [lia|].
    rewrite skipn_all2 in Hi by lia. destruct f; cbn in Hi; exfalso; lia.
  - assert (Hlen : 0 < List.length l) by (rewrite El; cbn; lia).
    apply IH; auto; [rewrite skipn_length; lia|lia].
Qed.

Lemma nth_error_nth_chunk : forall (c : list (list entry)) i, i < List.length c -> nth_error c i = Some (nth i c []).
Proof. intros. now apply nth_error_nth'. Qed.

(* the reader's reassembly with its count checks accepts the writer's layout *)
Lemma unpack_suffix : forall E (cs : list (list entry)) idx (all : list (list entry)),
  0 < E ->
  (forall j, j < List.length cs -> nth_error all (idx + j) = Some (nth j cs [])) ->
  (forall j, S j < List.length cs -> List.length (nth j cs []) = E) ->
  (cs <> [] -> List.length (last cs []) <= E) ->
  unpack_lists E (List.length cs) idx (nth_error all) = Some (List.concat cs).
Proof.
  intros E cs. induction cs as [|c cs IH]; intros idx all HE Hget Hfull Hlast; [reflexivity|].
  cbn [List.length unpack_lists List.concat].
  pose proof (Hget 0 ltac:(cbn; lia)) as H0. rewrite Nat.add_0_r in H0. cbn [nth] in H0. rewrite H0.
  destruct cs as [|c2 cs'].
  - cbn [List.length Nat.eqb]. cbn [last] in Hlast. specialize (Hlast ltac:(discriminate)).
    destruct (Nat.ltb_spec E (List.length c)); [lia|]. now rewrite app_nil_r.
  - cbn [List.length Nat.eqb].
    pose proof (Hfull 0 ltac:(cbn; lia)) as Hc. cbn [nth] in Hc. rewrite Hc, Nat.eqb_refl. cbn [negb].
    change (S (List.length cs')) with (List.length (c2 :: cs')).
    rewrite (IH (S idx) all); auto.
    + intros j Hj. specialize (Hget (S j) ltac:(cbn in *; lia)). cbn [nth] in Hget.
      now replace (S idx + j) with (idx + S j) by lia.
    + intros j Hj. apply (Hfull (S j)). cbn in *. lia.
    + intros _. apply Hlast. discriminate.
Qed.

Lemma last_in_Forall : forall (P : list entry -> Prop) (cs : list (list entry)), cs <> [] -> Forall P cs -> P (last cs []).
Proof.
  induction cs as [|c cs IH]; intros Hne F; [congruence|].
  apply Forall_cons_iff in F. destruct F as [Fc F]. destruct cs; [exact Fc|]. apply IH; auto. discriminate.
Qed.

Theorem unpack_chunk : forall E l, 0 < E ->
  unpack_lists E (List.length (chunk E l)) 0 (nth_error (chunk E l)) = Some l.
Proof.
  intros E l HE. transitivity (Some (List.concat (chunk E l))); [|now rewrite chunk_concat].
  apply unpack_suffix; auto.
  - intros j Hj. cbn. now apply nth_error_nth'.
  - intros j Hj. unfold chunk in *. apply chunk_fuel_full; auto.
  - intros Hne. unfold chunk in *.
    destruct (chunk_fuel_spec (List.length l) E l HE (Nat.le_refl _)) as [_ F].
    apply (last_in_Forall (fun c => 0 < List.length c <= E)) in F; auto. lia.
Qed.

(* ---- which files become entries ---- *)
Lemma find_file_in : forall n fs f, find_file n fs = Some f -> In f fs /\ f_name f = n.
Proof.
  induction fs as [|g fs IH]; intros f H; [discriminate|]. cbn in H.
  destruct (String.eqb n (f_name g)) eqn:E.
  - inversion H; subst. apply String.eqb_eq in E. split; [now left|auto].
  - destruct (IH f H). split; [now right|auto].
Qed.

Lemma find_file_self : forall fs f, NoDup (map f_name fs) -> In f fs -> find_file (f_name f) fs = Some f.
Proof.
  induction fs as [|g fs IH]; intros f Hnd Hin; [destruct Hin|].
  cbn [map] in Hnd. apply NoDup_cons_iff in Hnd. destruct Hnd as [Hg Hnd]. cbn.
  destruct Hin as [->|Hin]; [now rewrite String.eqb_refl|].
  destruct (String.eqb (f_name f) (f_name g)) eqn:E.
  - apply String.eqb_eq in E. exfalso. apply Hg. rewrite <- E. now apply in_map.
  - now apply IH.
Qed.

(* uploading every file of the tree: one entry per non-generated file, in walk order *)
Theorem upload_all : forall fs skip, NoDup (map f_name fs) ->
  upload_entries (map f_name fs) fs skip =
  Some (map entry_of (filter (fun f => negb (is_generated (f_name f))) fs)).
Proof.
  intros fs skip Hnd.
  assert (Hgen : forall sub, (forall f, In f sub -> In f fs) ->
            upload_entries (map f_name sub) fs skip =
            Some (map entry_of (filter (fun f => negb (is_generated (f_name f))) sub))).
  { induction sub as [|f sub IH]; intros Hsub; [reflexivity|].
    cbn [map upload_entries filter]. rewrite (find_file_self fs f Hnd (Hsub f (or_introl eq_refl))).
    rewrite IH by (intros; apply Hsub; now right).
    destruct (is_generated (f_name f)); reflexivity. }
  apply Hgen. auto.
Qed.

(* an explicit key list: the entries are those of the listed, existing, non-generated names *)
Theorem upload_keys_sound : forall names fs skip es, upload_entries names fs skip = Some es ->
  forall e, In e es -> exists f, In f fs /\ e = entry_of f /\ In (f_name f) names /\ is_generated (f_name f) = false.
Proof.
  induction names as [|n names IH]; intros fs skip es H e Hin; cbn in H.
  - inversion H; subst. destruct Hin.
  - destruct (find_file n fs) as [f|] eqn:Ef.
    + destruct (find_file_in _ _ _ Ef) as [Hf Hn]. destruct (is_generated n) eqn:Eg.
      * destruct (IH fs skip es H e Hin) as [g [A [B [C D]]]]. exists g. repeat split; auto. now right.
      * destruct (upload_entries names fs skip) as [r|] eqn:Er; [|discriminate]. inversion H; subst es.
        destruct Hin as [<-|Hin].
        -- exists f. repeat split; auto; [now left|now rewrite Hn].
        -- destruct (IH fs skip r Er e Hin) as [g [A [B [C D]]]]. exists g. repeat split; auto. now right.
    + destruct (is_generated n || skip); [|discriminate].
      destruct (IH fs skip es H e Hin) as [g [A [B [C D]]]]. exists g. repeat split; auto. now right.
Qed.

Theorem upload_keys_fails_only_on_missing : forall names fs,
  upload_entries names fs false = None ->
  exists n, In n names /\ find_file n fs = None /\ is_generated n = false.
Proof.
  induction names as [|n names IH]; intros fs H; cbn in H; [discriminate|].
  destruct (find_file n fs) as [f|] eqn:Ef.
  - destruct (is_generated n).
    + destruct (IH fs H) as [m [A B]]. exists m. split; [now right|auto].
    + destruct (upload_entries names fs false) eqn:Er; [discriminate|].
      destruct (IH fs Er) as [m [A B]]. exists m. split; [now right|auto].
  - destruct (is_generated n) eqn:Eg; cbn in H.
    + destruct (IH fs H) as [m [A B]]. exists m. split; [now right|auto].
    + exists n. split; [now left|auto].
Qed.

(* ---- download ---- *)
Lemma download_files_spec : forall es sel acc,
  NoDup (map fst acc ++ map e_name (filter (fun e => sel (e_name e)) es)) ->
  download_files es sel acc = Some (acc ++ map (fun e => (e_name e, e_hash e)) (filter (fun e => sel (e_name e)) es)).
Proof.
  induction es as [|e es IH]; intros sel acc Hnd; cbn [download_files filter map].
  - now rewrite app_nil_r.
  - cbn [filter] in Hnd. destruct (sel (e_name e)) eqn:Es.
    + cbn [map] in Hnd.
      assert (Hnot : existsb (fun p => String.eqb (fst p) (e_name e)) acc = false).
      { destruct (existsb _ acc) eqn:Ex; [|reflexivity]. apply existsb_exists in Ex.
        destruct Ex as [p [Hp Heq]]. apply String.eqb_eq in Heq.
        apply NoDup_remove_2 in Hnd. exfalso. apply Hnd. apply in_or_app. left. rewrite <- Heq. now apply in_map. }
      rewrite Hnot. rewrite IH.
      * cbn [map]. now rewrite <- app_assoc.
      * rewrite map_app. cbn [map fst]. rewrite <- app_assoc. cbn [app].
        apply NoDup_Add with (a := e_name e) (l := map fst acc ++ map e_name (filter (fun e0 => sel (e_name e0)) es)).
        -- apply Add_app.
        -- split; [apply NoDup_remove_1 in Hnd; exact Hnd|apply NoDup_remove_2 in Hnd; exact Hnd].
    + apply IH. exact Hnd.
Qed.

Theorem download_selected : forall es sel, NoDup (map e_name es) ->
  download_files es sel [] = Some (map (fun e => (e_name e, e_hash e)) (filter (fun e => sel (e_name e)) es)).
Proof.
  intros es sel Hnd. rewrite download_files_spec; [reflexivity|]. cbn.
  clear - Hnd. induction es as [|e es IH]; cbn; [constructor|].
  cbn in Hnd. apply NoDup_cons_iff in Hnd. destruct Hnd as [Hn Hnd]. destruct (sel (e_name e)); cbn; auto.
  constructor; auto. intros Hin. apply Hn. apply in_map_iff in Hin. destruct Hin as [x [Hx Hf]].
  apply filter_In in Hf. rewrite <- Hx. apply in_map. tauto.
Qed.

(* ---- the round trip: upload every file, store the entries in index files of E, read them back,
   download with a selection ---- *)
Theorem bundle_roundtrip : forall fs skip E sel, 0 < E -> NoDup (map f_name fs) ->
  exists es,
    upload_entries (map f_name fs) fs skip = Some es /\
    unpack_lists E (List.length (chunk E es)) 0 (nth_error (chunk E es)) = Some es /\
    download_files es sel [] =
      Some (map (fun f => (f_name f, f_hash f))
                (filter (fun f => negb (is_generated (f_name f)) && sel (f_name f)) fs)).
Proof.
  intros fs skip E sel HE Hnd. eexists. split; [apply upload_all; exact Hnd|]. split; [now apply unpack_chunk|].
  set (keep := filter (fun f => negb (is_generated (f_name f))) fs).
  assert (Hnd' : NoDup (map e_name (map entry_of keep))).
  { rewrite map_map. cbn. unfold keep. clear - Hnd. induction fs as [|f fs IH]; cbn; [constructor|].
    cbn in Hnd. apply NoDup_cons_iff in Hnd. destruct Hnd as [Hn Hnd]. destruct (negb (is_generated (f_name f))); cbn; auto.
    constructor; auto. intros Hin. apply Hn. apply in_map_iff in Hin. destruct Hin as [x [Hx Hf]].
    apply filter_In in Hf. rewrite <- Hx. apply in_map. tauto. }
  rewrite download_selected by exact Hnd'. f_equal. unfold keep.
  clear. induction fs as [|f fs IH]; cbn; [reflexivity|].
  destruct (is_generated (f_name f)); cbn; [exact IH|]. destruct (sel (f_name f)); cbn; [now rewrite IH|exact IH].
Qed.

Theorem index_files_roundtrip : forall E l, 0 < E ->
  List.concat (chunk E l) = l /\
  unpack_lists E (List.length (chunk E l)) 0 (nth_error (chunk E l)) = Some l.
Proof. intros E l HE. split; [now apply chunk_concat|now apply unpack_chunk]. Qed.
