(* C18: the inode generator never hands out a number that is still in use. *)
From Coq Require Import List NArith Bool Lia Permutation.
From DM Require Import Model.Inode Model.InodeCheck.

Import ListNotations.
Local Open Scope N_scope.

Lemma NoDup_app_one : forall (l : list N) x, NoDup l -> ~ In x l -> NoDup (l ++ [x]).
Proof.
  induction l as [|y l IH]; intros x Hn Hx; cbn; [constructor; [tauto|constructor]|].
  apply NoDup_cons_iff in Hn. destruct Hn as [Hy Hn]. constructor.
  - rewrite in_app_iff. cbn. intros [H|[H|[]]]; [tauto|]. apply Hx. now left.
  - apply IH; auto. intros H. apply Hx. now right.
Qed.

(* numbers above the base are either live or on the free stack, each exactly once, and nothing else is *)
Definition iinv (base : N) (g : igen) (live : list N) : Prop :=
  base <= ig_hi g /\ NoDup (live ++ ig_free g) /\ forall x, In x (live ++ ig_free g) <-> base < x <= ig_hi g.

Lemma iinv_init : forall base, iinv base {| ig_hi := base; ig_free := [] |} [].
Proof. intros base. split; [cbn; lia|]. split; [constructor|]. intros x. cbn. split; [tauto|lia]. Qed.

(* allocation: the number is above the base, in use by nobody, and the invariant carries on *)
Theorem ialloc_fresh : forall base g live, iinv base g live ->
  ~ In (fst (ialloc g)) live /\ base < fst (ialloc g) /\ iinv base (snd (ialloc g)) (live ++ [fst (ialloc g)]).
Proof.
  intros base g live [Hb [A B]]. unfold ialloc. destruct (ig_free g) as [|x t] eqn:Ef; cbn [fst snd ig_hi ig_free].
  - assert (B' : forall y, In y live <-> base < y <= ig_hi g) by (intros y; rewrite <- B, app_nil_r; reflexivity).
    rewrite app_nil_r in A.
    assert (Hn : ~ In (ig_hi g + 1) live) by (intros H; destruct (proj1 (B' _) H); lia).
    split; [exact Hn|]. split; [lia|]. unfold iinv; cbn [ig_hi ig_free]. split; [lia|]. rewrite app_nil_r. split.
    + apply NoDup_app_one; auto.
    + intros y. rewrite in_app_iff, B'. cbn. split; [intros [H|[H|[]]]; lia|].
      intros H. destruct (N.eq_dec y (ig_hi g + 1)); [right; left; congruence|left; lia].
  - assert (Hx : ~ In x live).
    { intros H. apply NoDup_remove_2 in A. apply A. apply in_app_iff. now left. }
    split; [exact Hx|]. split; [apply (B x); apply in_app_iff; right; now left|]. unfold iinv; cbn [ig_hi ig_free]. split; [exact Hb|].
    assert (P : Permutation (live ++ x :: t) ((live ++ [x]) ++ t)) by (rewrite <- app_assoc; reflexivity).
    split.
    + eapply Permutation_NoDup; eauto.
    + intros y. rewrite <- B. split; apply Permutation_in; [symmetry|]; exact P.
Qed.

Lemma remove_nth_perm : forall (live : list N) k i, nth_error live k = Some i -> Permutation live (i :: remove_nth k live).
Proof.
  induction live as [|x live IH]; intros k i H; [destruct k; discriminate|].
  destruct k as [|k]; cbn in *; [inversion H; reflexivity|].
  rewrite perm_swap. constructor. now apply IH.
Qed.

(* releasing a live number keeps the invariant *)
Theorem irelease_inv : forall base g live k i, iinv base g live -> nth_error live k = Some i ->
  iinv base (irelease i g) (remove_nth k live).
Proof.
  intros base g live k i [Hb [A B]] Hk. pose proof (remove_nth_perm live k i Hk) as P.
  assert (A' : NoDup (i :: remove_nth k live ++ ig_free g)).
  { eapply Permutation_NoDup; [|exact A]. change (i :: remove_nth k live ++ ig_free g) with ((i :: remove_nth k live) ++ ig_free g).
    now apply Permutation_app_tail. }
  assert (B' : forall x, In x (i :: remove_nth k live ++ ig_free g) <-> base < x <= ig_hi g).
  { intros x. rewrite <- B. change (i :: remove_nth k live ++ ig_free g) with ((i :: remove_nth k live) ++ ig_free g).
    split; apply Permutation_in; [symmetry|]; now apply Permutation_app_tail. }
  assert (Hi : base < i <= ig_hi g) by (apply B'; now left).
  apply NoDup_cons_iff in A'. destruct A' as [Hni A'].
  unfold irelease. destruct (N.eqb_spec (ig_hi g) i) as [E|E]; unfold iinv; cbn [ig_hi ig_free].
  - split; [lia|]. split; [exact A'|]. intros x. split.
    + intros H. assert (x <> i) by (intros ->; contradiction).
      destruct (proj1 (B' x) (or_intror H)). lia.
    + intros H. destruct (proj2 (B' x) ltac:(lia)) as [->|H']; [lia|exact H'].
  - split; [exact Hb|]. split.
    + eapply Permutation_NoDup; [|constructor; [exact Hni|exact A']]. apply Permutation_middle.
    + intros x. rewrite <- B'. split; apply Permutation_in; [symmetry|]; apply Permutation_middle.
Qed.

(* every history that follows the protocol (only live numbers are released): no number is ever
   live twice, and every number handed out is above the base *)
Theorem istep_inv : forall base g live o, iinv base g live -> iinv base (fst (fst (istep (g, live) o))) (snd (fst (istep (g, live) o))).
Proof.
  intros base g live o H. destruct o as [|k]; cbn [istep].
  - pose proof (ialloc_fresh base g live H) as [_ [_ I]]. destruct (ialloc g) as [n g']. exact I.
  - destruct (nth_error live k) as [i|] eqn:Ek; cbn [fst snd]; [|exact H]. eapply irelease_inv; eauto.
Qed.

Theorem ifinal_inv : forall base ops g live, iinv base g live ->
  iinv base (fst (ifinal (g, live) ops)) (snd (ifinal (g, live) ops)).
Proof.
  intros base ops. induction ops as [|o ops IH]; intros g live H; [exact H|].
  cbn [ifinal]. pose proof (istep_inv base g live o H) as H'.
  destruct (fst (istep (g, live) o)) as [g' live']. now apply IH.
Qed.

Corollary live_never_shared : forall base ops,
  let st := ifinal ({| ig_hi := base; ig_free := [] |}, []) ops in
  NoDup (snd st) /\ forall x, In x (snd st) -> base < x.
Proof.
  intros base ops. pose proof (ifinal_inv base ops _ _ (iinv_init base)) as [_ [A B]]. cbv zeta. split.
  - clear B. revert A. generalize (snd (ifinal ({| ig_hi := base; ig_free := [] |}, []) ops)). intros l.
    induction l as [|x l IH]; cbn; intros A; [constructor|]. apply NoDup_cons_iff in A. destruct A as [Hx A].
    constructor; [|now apply IH]. intros H. apply Hx. apply in_app_iff. now left.
  - intros x Hx. apply (B x). apply in_app_iff. now left.
Qed.

(* the same, in the terms the check uses on the implementation's answers: the model's own answers
   meet the executable reading of the property, for every history *)
Lemma on_eqb_refl : forall o, on_eqb o o = true.
Proof. destruct o; cbn; [apply N.eqb_refl|reflexivity]. Qed.

Theorem irun_meets_spec : forall base ops g live, iinv base g live ->
  ispec base live ops (irun (g, live) ops) = true.
Proof.
  intros base ops. induction ops as [|o ops IH]; intros g live H; [reflexivity|].
  cbn [irun]. destruct o as [|k]; cbn [istep].
  - pose proof (ialloc_fresh base g live H) as [Hn [Hb I]]. destruct (ialloc g) as [n g']. cbn [fst snd] in *.
    cbn [ispec]. rewrite (IH g' (live ++ [n]) I), andb_true_r.
    apply andb_true_iff. split; [now apply N.ltb_lt|].
    apply negb_true_iff. apply not_true_is_false. intros E. apply existsb_exists in E.
    destruct E as [y [Hy E]]. apply N.eqb_eq in E. subst y. contradiction.
  - destruct (nth_error live k) as [i|] eqn:Ek; cbn [ispec].
    + rewrite Ek, on_eqb_refl. cbn [andb]. apply IH. eapply irelease_inv; eauto.
    + rewrite Ek. cbn [on_eqb andb].
      assert (R : remove_nth k live = live).
      { clear -Ek. revert k Ek. induction live as [|x l IHl]; intros k Ek; [now destruct k|].
        destruct k as [|k]; cbn in *; [discriminate|]. f_equal. now apply IHl. }
      rewrite R. now apply IH.
Qed.

Corollary irun_meets_spec_init : forall base ops,
  ispec base [] ops (irun ({| ig_hi := base; ig_free := [] |}, []) ops) = true.
Proof. intros. apply irun_meets_spec. apply iinv_init. Qed.
