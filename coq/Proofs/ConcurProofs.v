(* C15: in a content-addressed store no write of one operation is lost or altered by the writes of
   another, whatever the order in which they take effect. *)
From Coq Require Import List String Ascii NArith Bool Arith.
From DM Require Import Base.Util Base.Str Model.Concur.
Import ListNotations.
Open Scope list_scope.

Lemma key_eqb_refl : forall k, key_eqb k k = true.
Proof. intros [a b]. unfold key_eqb. cbn. now rewrite !String.eqb_refl. Qed.

Lemma key_eqb_eq : forall a b, key_eqb a b = true -> a = b.
Proof.
  intros [a1 a2] [b1 b2] H. unfold key_eqb in H. cbn in H. apply andb_prop in H. destruct H as [H1 H2].
  apply String.eqb_eq in H1. apply String.eqb_eq in H2. now subst.
Qed.

Lemma lookup_set_same : forall s k d, lookup k (set k d s) = Some d.
Proof.
  induction s as [|[k' d'] s IH]; intros k d; cbn [set lookup]; [now rewrite key_eqb_refl|].
  destruct (key_eqb k k') eqn:E; cbn [lookup]; [now rewrite key_eqb_refl|]. rewrite E. apply IH.
Qed.

Lemma lookup_set_other : forall s k k' d, key_eqb k' k = false -> lookup k' (set k d s) = lookup k' s.
Proof.
  induction s as [|[k0 d0] s IH]; intros k k' d H; cbn [set lookup]; [now rewrite H|].
  destruct (key_eqb k k0) eqn:E; cbn [lookup].
  - apply key_eqb_eq in E. subst k0. now rewrite H.
  - destruct (key_eqb k' k0); [reflexivity|now apply IH].
Qed.

(* a key that holds a content keeps it as long as every later write to that key carries that content *)
Lemma replay_keeps : forall trace s k d,
  lookup k s = Some d ->
  (forall p, In p trace -> (p_store p, p_key p) = k -> p_digest p = d) ->
  lookup k (replay trace s) = Some d.
Proof.
  induction trace as [|p trace IH]; intros s k d H Hall; [exact H|].
  unfold replay. cbn [fold_left]. apply IH; [|intros q Hq; apply Hall; now right].
  unfold apply_put. destruct (key_eqb k (p_store p, p_key p)) eqn:E.
  - apply key_eqb_eq in E. assert (Hd : p_digest p = d) by (apply Hall; [now left|now symmetry]).
    rewrite <- E. rewrite H. destruct (p_excl p); cbn [fst]; [exact H|]. rewrite Hd. apply lookup_set_same.
  - destruct (lookup (p_store p, p_key p) s); [destruct (p_excl p); cbn [fst]; [exact H|]|cbn [fst]];
      rewrite lookup_set_other by exact E; exact H.
Qed.

(* every successful write to a store under the content-address discipline is there at the end, with
   the content it was written with - whichever operations wrote the same key before or after it *)
Theorem no_write_lost : forall before p after s store,
  (forall q, In q (before ++ p :: after) -> p_store q = store -> p_key q = p_key p -> p_digest q = p_digest p) ->
  (forall d, lookup (store, p_key p) (replay before s) = Some d -> d = p_digest p) ->
  p_store p = store ->
  lookup (store, p_key p) (replay (before ++ p :: after) s) = Some (p_digest p).
Proof.
  intros before p after s store Hdisc Hinit Hst.
  unfold replay. rewrite fold_left_app. cbn [fold_left]. fold (replay before s).
  apply replay_keeps.
  - unfold apply_put. rewrite Hst. destruct (lookup (store, p_key p) (replay before s)) as [d|] eqn:E.
    + rewrite (Hinit d eq_refl) in *. destruct (p_excl p); cbn [fst]; [exact E|apply lookup_set_same].
    + cbn [fst]. apply lookup_set_same.
  - intros q Hq Hk. inversion Hk. apply Hdisc; auto. apply in_or_app. right. now right.
Qed.

(* a create-if-absent write never alters an object that exists *)
Theorem excl_never_alters : forall s p k d, p_excl p = true -> lookup k s = Some d -> lookup k (fst (apply_put s p)) = Some d.
Proof.
  intros s p k d He H. unfold apply_put. destruct (lookup (p_store p, p_key p) s) eqn:E; rewrite ?He; cbn [fst]; [exact H|].
  rewrite lookup_set_other; [exact H|]. destruct (key_eqb k (p_store p, p_key p)) eqn:Ek; [|reflexivity].
  apply key_eqb_eq in Ek. subst k. congruence.
Qed.
