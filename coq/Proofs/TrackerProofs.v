(* Proofs about Model/Tracker.v: the marker list refines the set of covered offsets. *)
From Coq Require Import List ZArith Bool Lia.
From DM Require Import Base.Util Model.Tracker Model.TrackerCheck.
Import ListNotations.
Open Scope Z_scope.

(* state (inside a written range?) at offset x, given the state before the list *)
Fixpoint cov (m : tracker) (x : Z) (cur : bool) : bool :=
  match m with
  | [] => cur
  | (k, f) :: t => if k <=? x then cov t x f else cur
  end.
Definition covered (m : tracker) (x : Z) : bool := cov m x false.

(* well-formed: keys strictly increasing above lb, flags alternate starting opposite to cur,
   and the list ends outside a range *)
Fixpoint wf (lb : Z) (cur : bool) (m : tracker) : Prop :=
  match m with
  | [] => cur = false
  | (k, f) :: t => lb < k /\ f = negb cur /\ wf k f t
  end.

(* structural form of trackWrite on the walked list *)
Fixpoint tw_s (s e : Z) (m : tracker) (prevS : bool) : tracker :=
  match m with
  | [] => (if prevS then [] else [(s, true)]) ++ [(e, false)]
  | (k, f) :: t =>
      if k <? s then (k, f) :: tw_s s e t f
      else if k <=? e then tw_s s e t prevS
      else (if prevS then [] else [(s, true)]) ++ (if f then [(e, false)] else []) ++ (k, f) :: t
  end.

Definition finish (s e : Z) (r : tracker * bool * bool) : tracker :=
  let '(txn, insS, insE) := r in
  let txn := if insS then ins s true txn else txn in
  if insE then ins e false txn else txn.

Lemma ins_app_lt : forall pre k f rest,
  Forall (fun p => fst p < k) pre ->
  ins k f (pre ++ rest) = pre ++ ins k f rest.
Proof.
  induction pre as [|[k' f'] pre IH]; intros k f rest Hp; cbn; [reflexivity|].
  inversion Hp as [|? ? Hk Hp']; subst; cbn in Hk.
  destruct (k <? k') eqn:E1; [lia|]. destruct (k =? k') eqn:E2; [lia|].
  now rewrite IH.
Qed.

Lemma del_app_lt : forall pre k f rest,
  Forall (fun p => fst p < k) pre ->
  del k (pre ++ (k, f) :: rest) = pre ++ rest.
Proof.
  induction pre as [|[k' f'] pre IH]; intros k f rest Hp; cbn.
  - now rewrite Z.eqb_refl.
  - inversion Hp as [|? ? Hk Hp']; subst; cbn in Hk.
    destruct (k =? k') eqn:E2; [lia|]. now rewrite IH.
Qed.

Lemma Forall_lt_weaken : forall (pre : tracker) a b, a <= b ->
  Forall (fun p => fst p < a) pre -> Forall (fun p => fst p < b) pre.
Proof. intros pre a b Hab H. eapply Forall_impl; [|exact H]. cbn; intros; lia. Qed.

Lemma walk_eq : forall m pre prevS s e, s < e ->
  Forall (fun p => fst p < s) pre ->
  finish s e (tw_walk s e m (pre ++ m) (negb prevS) true) = pre ++ tw_s s e m prevS.
Proof.
  induction m as [|[k f] t IH]; intros pre prevS s e Hse Hp.
  - cbn [tw_walk tw_s finish]. rewrite app_nil_r.
    destruct prevS; cbn [negb].
    + rewrite <- (app_nil_r pre) at 1. rewrite ins_app_lt by (eapply Forall_lt_weaken; [|exact Hp]; lia).
      reflexivity.
    + rewrite <- (app_nil_r pre) at 1. rewrite ins_app_lt by exact Hp. cbn [ins].
      change (pre ++ [(s, true)]) with (pre ++ [(s, true)] ++ []).
      rewrite app_assoc. rewrite ins_app_lt.
      * cbn. now rewrite <- app_assoc.
      * apply Forall_app; split; [eapply Forall_lt_weaken; [|exact Hp]; lia|].
        constructor; [cbn; lia|constructor].
  - cbn [tw_walk tw_s]. destruct (k <? s) eqn:E1.
    + replace (pre ++ (k, f) :: t) with ((pre ++ [(k, f)]) ++ t) by now rewrite <- app_assoc.
      rewrite IH; auto.
      * now rewrite <- app_assoc.
      * apply Forall_app; split; auto. constructor; [cbn; lia|constructor].
    + destruct (k <=? e) eqn:E2.
      * rewrite del_app_lt by (eapply Forall_lt_weaken; [|exact Hp]; lia). now apply IH.
      * cbn [finish].
        assert (Hpe : Forall (fun p => fst p < e) pre) by (eapply Forall_lt_weaken; [|exact Hp]; lia).
        destruct prevS; cbn [negb].
        -- destruct f; [|reflexivity].
           rewrite ins_app_lt by exact Hpe. cbn [ins].
           destruct (e <? k) eqn:E3; [reflexivity|lia].
        -- rewrite ins_app_lt by exact Hp. cbn [ins].
           destruct (s <? k) eqn:E3; [|lia].
           destruct f; [|reflexivity].
           rewrite ins_app_lt by exact Hpe. cbn [ins].
           destruct (e <? s) eqn:E4; [lia|]. destruct (e =? s) eqn:E5; [lia|].
           destruct (e <? k) eqn:E6; [reflexivity|lia].
Qed.

Lemma track_write_struct : forall off len m, 0 < len ->
  track_write off len m = tw_s off (off + len) m false.
Proof.
  intros off len m Hl. unfold track_write.
  destruct (len <=? 0) eqn:E; [lia|].
  destruct m as [|p t] eqn:Em.
  - cbn. destruct (off + len <? off) eqn:E1; [lia|]. destruct (off + len =? off) eqn:E2; [lia|]. reflexivity.
  - rewrite <- Em. pose proof (walk_eq m [] false off (off + len)) as H.
    cbn [app negb] in H. rewrite <- H; [|lia|constructor].
    unfold finish. destruct (tw_walk off (off + len) m m true true) as [[txn a] b]. reflexivity.
Qed.

(* ---- semantics of the structural form ---- *)

Lemma cov_above : forall m x cur lb, wf lb cur m -> x <= lb -> cov m x cur = cur.
Proof.
  destruct m as [|[k f] t]; intros x cur lb Hw Hx; cbn; [reflexivity|].
  cbn in Hw. destruct Hw as [Hk _]. destruct (k <=? x) eqn:E; [lia|reflexivity].
Qed.

Lemma cov_keys_ge : forall m x cur, Forall (fun p => x < fst p) m -> cov m x cur = cur.
Proof.
  destruct m as [|[k f] t]; intros x cur H; cbn; [reflexivity|].
  inversion H; subst; cbn in *. destruct (k <=? x) eqn:E; [lia|reflexivity].
Qed.

Lemma wf_keys : forall m lb cur, wf lb cur m -> Forall (fun p => lb < fst p) m.
Proof.
  induction m as [|[k f] t IH]; intros lb cur H; constructor; cbn in *.
  - lia.
  - destruct H as [Hk [_ Ht]]. eapply Forall_impl; [|eapply IH; exact Ht]. cbn; intros; lia.
Qed.

(* phase 2: every remaining key is >= s *)
Lemma tw_s_phase2_cov : forall m s e prevS cur lb x,
  wf lb cur m -> s <= lb + 1 -> s < e -> s <= x ->
  cov (tw_s s e m prevS) x prevS = cov m x cur || (x <? e).
Proof.
  induction m as [|[k f] t IH]; intros s e prevS cur lb x Hw Hlb Hse Hx.
  - cbn in Hw; subst cur. cbn [tw_s cov orb].
    destruct prevS; cbn.
    + destruct (e <=? x) eqn:E, (x <? e) eqn:E'; try lia; reflexivity.
    + destruct (s <=? x) eqn:E0; [|lia].
      destruct (e <=? x) eqn:E, (x <? e) eqn:E'; try lia; reflexivity.
  - cbn in Hw. destruct Hw as [Hk [Hf Ht]]. cbn [tw_s].
    destruct (k <? s) eqn:E1; [lia|].
    destruct (k <=? e) eqn:E2.
    + rewrite (IH s e prevS f k x Ht) by lia. cbn [cov].
      destruct (k <=? x) eqn:E3; [reflexivity|].
      destruct (x <? e) eqn:E4; [now rewrite !orb_true_r|lia].
    + cbn [cov]. destruct (x <? e) eqn:E4.
      * rewrite orb_true_r.
        destruct prevS, f; cbn; repeat (match goal with |- context [?a <=? ?b] => destruct (a <=? b) eqn:? end; try lia); reflexivity.
      * rewrite orb_false_r.
        destruct prevS, f, cur; cbn in Hf; try discriminate Hf; cbn;
          repeat (match goal with |- context [?a <=? ?b] => destruct (a <=? b) eqn:? end; try lia); reflexivity.
Qed.

Lemma tw_s_phase2_keys : forall m s e prevS cur lb,
  wf lb cur m -> s <= lb + 1 -> s < e ->
  Forall (fun p => s <= fst p) (tw_s s e m prevS).
Proof.
  induction m as [|[k f] t IH]; intros s e prevS cur lb Hw Hlb Hse.
  - cbn. destruct prevS; repeat constructor; cbn; lia.
  - cbn in Hw. destruct Hw as [Hk [Hf Ht]]. cbn [tw_s].
    destruct (k <? s) eqn:E1; [lia|]. destruct (k <=? e) eqn:E2.
    + eapply IH; eauto; lia.
    + apply wf_keys in Ht.
      assert (Forall (fun p => s <= fst p) ((k, f) :: t)).
      { constructor; [cbn; lia|]. eapply Forall_impl; [|exact Ht]. cbn; intros; lia. }
      destruct prevS, f; cbn; repeat constructor; cbn; try lia; inversion H; auto.
Qed.

Definition inr (s e x : Z) : bool := (s <=? x) && (x <? e).

Lemma tw_s_cov : forall m s e prevS lb x,
  wf lb prevS m -> s < e ->
  cov (tw_s s e m prevS) x prevS = cov m x prevS || inr s e x.
Proof.
  induction m as [|[k f] t IH]; intros s e prevS lb x Hw Hse.
  - cbn in Hw; subst prevS. unfold inr. cbn.
    destruct (s <=? x) eqn:E0; cbn; [|reflexivity].
    destruct (e <=? x) eqn:E, (x <? e) eqn:E'; try lia; reflexivity.
  - pose proof Hw as Hw0. cbn in Hw. destruct Hw as [Hk [Hf Ht]].
    destruct (k <? s) eqn:E1.
    + cbn [tw_s]. rewrite E1. cbn [cov]. destruct (k <=? x) eqn:E3.
      * eapply IH; eauto.
      * unfold inr. destruct (s <=? x) eqn:E4; [lia|]. now rewrite orb_false_r.
    + destruct (s <=? x) eqn:E4.
      * rewrite (tw_s_phase2_cov _ s e prevS prevS (s - 1) x); try lia.
        -- unfold inr. now rewrite E4.
        -- cbn. repeat split; auto. lia.
      * rewrite cov_keys_ge.
        -- rewrite cov_keys_ge; [unfold inr; rewrite E4; now rewrite orb_false_r|].
           apply wf_keys in Ht. constructor; [cbn; lia|]. eapply Forall_impl; [|exact Ht]. cbn; intros; lia.
        -- eapply Forall_impl; [|eapply (tw_s_phase2_keys _ s e prevS prevS (s - 1))]; try lia.
           ++ cbn; intros; lia.
           ++ cbn. repeat split; auto. lia.
Qed.

Lemma tw_s_phase2_wf : forall m s e prevS cur lb lb',
  wf lb cur m -> s <= lb + 1 -> s < e -> lb' < s ->
  wf lb' prevS (tw_s s e m prevS).
Proof.
  induction m as [|[k f] t IH]; intros s e prevS cur lb lb' Hw Hlb Hse Hlb'.
  - cbn. destruct prevS; cbn; repeat split; lia.
  - cbn in Hw. destruct Hw as [Hk [Hf Ht]]. cbn [tw_s].
    destruct (k <? s) eqn:E1; [lia|]. destruct (k <=? e) eqn:E2.
    + eapply IH; eauto; lia.
    + destruct prevS, f; cbn; repeat split; auto; lia.
Qed.

Lemma tw_s_wf : forall m s e prevS lb,
  wf lb prevS m -> lb < s -> s < e -> wf lb prevS (tw_s s e m prevS).
Proof.
  induction m as [|[k f] t IH]; intros s e prevS lb Hw Hlb Hse.
  - cbn in Hw; subst. cbn. repeat split; lia.
  - pose proof Hw as Hw0. cbn in Hw. destruct Hw as [Hk [Hf Ht]].
    destruct (k <? s) eqn:E1.
    + cbn [tw_s]. rewrite E1. cbn. repeat split; auto. apply IH; auto; lia.
    + eapply (tw_s_phase2_wf _ s e prevS prevS (s - 1)); try lia.
      cbn. repeat split; auto; lia.
Qed.

(* ---- histories ---- *)

(* zero or negative length writes leave the tracker unchanged *)
Lemma track_write_nop : forall off len m, len <= 0 -> track_write off len m = m.
Proof. intros. unfold track_write. destruct (len <=? 0) eqn:E; [reflexivity|lia]. Qed.


Definition valid_write (w : Z * Z) : Prop := 0 <= fst w /\ 0 <= snd w.

Lemma run_writes_snoc : forall ws w,
  run_writes (ws ++ [w]) = track_write (fst w) (snd w) (run_writes ws).
Proof. intros. unfold run_writes. now rewrite fold_left_app. Qed.

Lemma run_writes_inv : forall ws, Forall valid_write ws ->
  wf (-1) false (run_writes ws) /\
  forall x, covered (run_writes ws) x = covered_by ws x.
Proof.
  induction ws as [|w ws IH] using rev_ind; intros Hv.
  - split; [reflexivity|]. intros; reflexivity.
  - apply Forall_app in Hv. destruct Hv as [Hv Hw]. inversion Hw as [|? ? [Ho Hl] _]; subst.
    destruct (IH Hv) as [Hwf Hc]. destruct w as [wo wl]; cbn [fst snd] in *.
    destruct (Z.eq_dec wl 0) as [Hz|Hz].
    { subst wl. rewrite run_writes_snoc, track_write_nop by (cbn; lia). split; auto.
      intros x. rewrite Hc. unfold covered_by. rewrite existsb_app. cbn.
      destruct (wo <=? x) eqn:E1, (x <? wo + 0) eqn:E2; try lia; cbn; now rewrite !orb_false_r. }
    rewrite run_writes_snoc; cbn [fst snd]. rewrite track_write_struct by lia. split.
    + apply tw_s_wf; auto; lia.
    + intros x. unfold covered. rewrite (tw_s_cov _ _ _ false (-1)); auto; try lia.
      fold (covered (run_writes ws) x). rewrite Hc.
      unfold covered_by. rewrite existsb_app. cbn. now rewrite orb_false_r.
Qed.



(* ---- getRangeToRead ---- *)

Lemma gr_walk_spec : forall m off len cur lb,
  wf lb cur m -> 0 < len ->
  let '(c, b) := gr_walk off len m len cur in
  b = cov m off cur /\ 0 < c <= len /\
  forall y, off <= y < off + c -> cov m y cur = b.
Proof.
  induction m as [|[k f] t IH]; intros off len cur lb Hw Hl.
  - cbn. repeat split; auto; lia.
  - cbn in Hw. destruct Hw as [Hk [Hf Ht]]. cbn [gr_walk cov].
    destruct f; destruct (k <=? off) eqn:E.
    + specialize (IH off len true k Ht Hl).
      destruct (gr_walk off len t len true) as [c b]. destruct IH as [H1 [H2 H3]].
      repeat split; auto; try lia. intros y Hy. destruct (k <=? y) eqn:E'; [apply H3; lia|lia].
    + destruct cur; [discriminate|]. repeat split; try lia.
      intros y Hy. destruct (k <=? y) eqn:E'; [lia|reflexivity].
    + specialize (IH off len false k Ht Hl).
      destruct (gr_walk off len t len false) as [c b]. destruct IH as [H1 [H2 H3]].
      repeat split; auto; try lia. intros y Hy. destruct (k <=? y) eqn:E'; [apply H3; lia|lia].
    + destruct cur; [|discriminate]. repeat split; try lia.
      intros y Hy. destruct (k <=? y) eqn:E'; [lia|reflexivity].
Qed.

(* The property, over all histories of valid writes. *)
Theorem tracker_refines_bitmap : forall ws off len,
  Forall valid_write ws -> 0 < len ->
  let '(c, b) := get_range off len (run_writes ws) in
  b = covered_by ws off /\
  0 < c <= len /\
  forall y, off <= y < off + c -> covered_by ws y = covered_by ws off.
Proof.
  intros ws off len Hv Hl. destruct (run_writes_inv ws Hv) as [Hwf Hc].
  pose proof (gr_walk_spec (run_writes ws) off len false (-1) Hwf Hl) as H.
  unfold get_range. destruct (gr_walk off len (run_writes ws) len false) as [c b].
  destruct H as [H1 [H2 H3]]. fold (covered (run_writes ws) off) in H1. rewrite Hc in H1.
  repeat split; auto; try lia.
  intros y Hy. rewrite <- H1, <- Hc. apply H3; lia.
Qed.


(* non-vacuity: a concrete history meets the hypotheses and exercises merging *)
(* the executable predicate used on implementation observations holds of the model's answers *)
Theorem probe_ok_model : forall ws off len,
  Forall valid_write ws -> 0 < len ->
  probe_ok ws off len (get_range off len (run_writes ws)) = true.
Proof.
  intros ws off len Hv Hl. pose proof (tracker_refines_bitmap ws off len Hv Hl) as H.
  unfold probe_ok. destruct (get_range off len (run_writes ws)) as [c b].
  destruct H as [H1 [H2 H3]]. rewrite H1, eqb_reflx. cbn [andb].
  destruct (0 <? c) eqn:E1; [|lia]. destruct (c <=? len) eqn:E2; [|lia]. cbn [andb].
  apply forallb_forall. intros y Hy. apply in_zseq in Hy. rewrite H3 by lia. apply eqb_reflx.
Qed.

(* and conversely an observation accepted by the predicate satisfies the statement *)
Theorem probe_ok_sound : forall ws off len c b,
  probe_ok ws off len (c, b) = true ->
  b = covered_by ws off /\ 0 < c <= len /\
  forall y, off <= y < off + c -> covered_by ws y = covered_by ws off.
Proof.
  intros ws off len c b H. unfold probe_ok in H.
  repeat (apply andb_prop in H; destruct H as [H ?]).
  apply eqb_prop in H. repeat split; auto; try lia.
  intros y Hy. rewrite forallb_forall in H0. apply eqb_prop. apply H0. apply in_zseq. lia.
Qed.

Example tracker_example :
  Forall valid_write [(0,1); (1,1); (5,5); (2,5)] /\
  run_writes [(0,1); (1,1); (5,5); (2,5)] = [(0,true); (10,false)] /\
  get_range 0 100 (run_writes [(0,1); (1,1)]) = (2, true).
Proof. repeat split; repeat constructor; cbn; lia. Qed.
