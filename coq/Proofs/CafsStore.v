(* Shared facts for the reader proofs: byte-string equality, the honest layout of an object,
   what a store must contain to hold it, and what hash verification buys under collision freedom. *)
From Coq Require Import List NArith Arith Bool Lia.
From DM Require Import Model.Cafs Proofs.CafsWriter.
Import ListNotations.

Lemma bytes_eqb_eq : forall a b, bytes_eqb a b = true <-> a = b.
Proof.
  induction a as [|x a IH]; destruct b as [|y b]; cbn; split; intros H; try discriminate; auto.
  - apply andb_prop in H. destruct H as [H1 H2]. apply N.eqb_eq in H1. apply IH in H2. congruence.
  - inversion H; subst. rewrite N.eqb_refl. cbn. now apply IH.
Qed.

Lemma bytes_eqb_refl : forall a, bytes_eqb a a = true.
Proof. intros. now apply bytes_eqb_eq. Qed.

Lemma app_inj_len : forall (x y a b : list N), length x = length y -> x ++ a = y ++ b -> x = y /\ a = b.
Proof.
  induction x as [|p x IH]; intros y a b Hl E; destruct y as [|q y]; cbn in *; try lia; auto.
  inversion E; subst. destruct (IH y a b) as [-> ->]; auto.
Qed.

Section StoreFacts.
Variable H : N -> N -> N -> bool -> list N -> list N.
Variable L : nat.
Hypothesis Lpos : 0 < L.
(* every digest has the key size *)
Hypothesis H_len : forall l o d b x, length (H l o d b x) = KS.

(* the layout of a content: full leaves and a shorter, possibly empty, tail *)
Definition shape (lt : list (list N)) : Prop :=
  exists (ls : list (list N)) (b : list N), lt = ls ++ (match b with [] => [] | _ => [b] end) /\
               Forall (fun l : list N => length l = L) ls /\ length b < L.

Lemma decompose : forall c, exists ls b,
  c = concat ls ++ b /\ Forall (fun l : list N => length l = L) ls /\ length b < L.
Proof.
  intros c.
  destruct (write_all_spec L Lpos [c] {| w_leaves := []; w_buf := [] |}) as [w [_ [H2 [H3 H4]]]].
  { split; cbn; [lia|constructor]. }
  exists (w_leaves w), (w_buf w). unfold wcontent in H2. cbn in H2. rewrite app_nil_r in H2. auto.
Qed.

Lemma split_shape : forall c, shape (split_leaves L c).
Proof.
  intros c. destruct (decompose c) as [ls [b [E [F B]]]]. exists ls, b. split; auto.
  rewrite E. now apply split_leaves_spec.
Qed.

Lemma shape_nil : shape [].
Proof. exists [], []. cbn. split; [reflexivity|]. split; [constructor|lia]. Qed.

Lemma shape_tail : forall d lt, shape (d :: lt) -> shape lt /\ 0 < length d <= L /\ (lt <> [] -> length d = L).
Proof.
  intros d lt [ls [b [E [F B]]]]. destruct ls as [|l ls].
  - cbn in E. destruct b as [|x b']; [discriminate|]. inversion E; subst.
    split; [apply shape_nil|]. split; [cbn in *; lia|]. intros Hn. congruence.
  - cbn in E. inversion E; subst. apply Forall_cons_iff in F. destruct F as [Fl Fs].
    split; [exists ls, b; auto|]. split; [lia|auto].
Qed.

(* honest key of leaf d at index i *)
Definition hkey (i : nat) (d : list N) : list N :=
  if Nat.eqb (length d) L then full_key H L i d else part_key H L i d.

Lemma keys_of_leaves_cons : forall i d lt,
  keys_of_leaves H L i (d :: lt) = hkey i d :: keys_of_leaves H L (S i) lt.
Proof. reflexivity. Qed.

Lemma keys_length : forall lt i, length (keys_of_leaves H L i lt) = length lt.
Proof. induction lt as [|d lt IH]; intros i; cbn; [reflexivity|]. now rewrite IH. Qed.

(* The hash inputs an honest writer feeds for the leaves lv: one per leaf, with the writer's
   parameter convention, and the root over the leaf keys. *)
Definition honest_in (lv : list (list N)) (o d : N) (b : bool) (x : list N) : Prop :=
  (d = 1%N /\ o = 0%N /\ b = true /\ x = concat (keys_of_leaves H L 0 lv)) \/
  (d = 0%N /\ exists i, nth_error lv i = Some x /\
      ((length x = L /\ o = N.of_nat (S i) /\ b = false) \/ (length x <> L /\ o = N.of_nat i /\ b = true))).

(* Collision freedom as the theorems need it: no input whatsoever collides with one of the honest
   inputs of the object (jointly in tree parameters and data).  Unlike global injectivity this
   is satisfiable by functions with 64-byte digests. *)
Definition nocoll (lv : list (list N)) : Prop :=
  forall o d b x o' d' b' x', honest_in lv o d b x ->
    H (LN L) o d b x = H (LN L) o' d' b' x' -> o = o' /\ d = d' /\ b = b' /\ x = x'.

Lemma honest_leaf_in : forall lv i d, nth_error lv i = Some d ->
  honest_in lv (if Nat.eqb (length d) L then N.of_nat (S i) else N.of_nat i) 0%N
            (negb (Nat.eqb (length d) L)) d.
Proof.
  intros lv i d Hn. right. split; [reflexivity|]. exists i. split; [exact Hn|].
  destruct (Nat.eqb_spec (length d) L); [left|right]; auto.
Qed.

Lemma hkey_as_H : forall i d,
  hkey i d = H (LN L) (if Nat.eqb (length d) L then N.of_nat (S i) else N.of_nat i) 0%N
               (negb (Nat.eqb (length d) L)) d.
Proof. intros. unfold hkey, full_key, part_key. destruct (Nat.eqb (length d) L); reflexivity. Qed.

(* hash verification: a blob accepted for the honest key of leaf i is that leaf *)
Lemma verify_honest : forall lv n i d d', nocoll lv -> nth_error lv i = Some d ->
  (length d <> L -> S i = n) ->
  verify_leaf H L n i (hkey i d) d' = true -> d' = d.
Proof.
  intros lv n i d d' Hnc Hn Hlast Hv. unfold verify_leaf in Hv. rewrite hkey_as_H in Hv.
  destruct (Nat.eqb (S i) n && negb (Nat.eqb (length d') L)) eqn:E;
  apply bytes_eqb_eq in Hv; unfold full_key, part_key in Hv;
  apply (Hnc _ _ _ _ _ _ _ _ (honest_leaf_in lv i d Hn)) in Hv;
  destruct Hv as [Ho [_ [Hb Hx]]]; auto.
Qed.

(* and the honest blob is accepted *)
Lemma verify_accepts : forall n i d,
  (length d <> L -> S i = n) -> (length d = L \/ S i = n) ->
  verify_leaf H L n i (hkey i d) d = true.
Proof.
  intros n i d Hlast _. unfold verify_leaf, hkey.
  destruct (Nat.eqb_spec (length d) L) as [Ed|Ed]; cbn [negb].
  - rewrite andb_false_r. apply bytes_eqb_refl.
  - rewrite (proj2 (Nat.eqb_eq _ _) (Hlast Ed)). cbn. apply bytes_eqb_refl.
Qed.

(* ---- the root blob ---- *)
Lemma concat_inj_len : forall (a b : list (list N)),
  Forall (fun k => length k = KS) a -> Forall (fun k => length k = KS) b ->
  concat a = concat b -> a = b.
Proof.
  induction a as [|x a IH]; intros b Fa Fb E.
  - destruct b as [|y b]; [reflexivity|]. apply Forall_cons_iff in Fb. destruct Fb as [Fy _].
    cbn in E. destruct y; [cbn in Fy; unfold KS in Fy; lia|discriminate].
  - apply Forall_cons_iff in Fa. destruct Fa as [Fx Fa].
    destruct b as [|y b].
    + cbn in E. destruct x; [cbn in Fx; unfold KS in Fx; lia|discriminate].
    + apply Forall_cons_iff in Fb. destruct Fb as [Fy Fb]. cbn in E.
      destruct (app_inj_len x y (concat a) (concat b)) as [-> E']; [congruence|exact E|].
      f_equal. now apply IH.
Qed.

Lemma chunk_keys_spec : forall fuel b ks, chunk_keys fuel b = Some ks ->
  concat ks = b /\ Forall (fun k => length k = KS) ks.
Proof.
  induction fuel as [|f IH]; intros b ks Hc; cbn [chunk_keys] in Hc.
  - destruct b; [|discriminate]. inversion Hc. cbn. auto.
  - destruct b as [|x b'] eqn:E; [inversion Hc; cbn; auto|]. rewrite <- E in *.
    destruct (Nat.ltb_spec (length b) KS) as [Hlt|Hge]; [discriminate|].
    destruct (chunk_keys f (skipn KS b)) as [r|] eqn:Er; [|discriminate].
    assert (Hk : ks = firstn KS b :: r) by congruence. subst ks. clear Hc.
    destruct (IH _ _ Er) as [A B]. split.
    + cbn [concat]. rewrite A. apply firstn_skipn.
    + constructor; auto. rewrite firstn_length. lia.
Qed.

Lemma chunk_keys_complete : forall ks fuel, Forall (fun k => length k = KS) ks -> length ks <= fuel ->
  chunk_keys fuel (concat ks) = Some ks.
Proof.
  induction ks as [|k ks IH]; intros fuel F Hf.
  - destruct fuel; reflexivity.
  - apply Forall_cons_iff in F. destruct F as [Fk F]. destruct fuel; [cbn in Hf; lia|].
    cbn [concat chunk_keys]. destruct (k ++ concat ks) eqn:E.
    { destruct k; [cbn in Fk; unfold KS in Fk; lia|discriminate]. }
    rewrite <- E.
    destruct (Nat.ltb_spec (length (k ++ concat ks)) KS) as [Hlt|Hge]; [rewrite app_length in Hlt; lia|].
    rewrite skipn_app, skipn_all2 by lia. replace (KS - length k) with 0 by lia. cbn [skipn app].
    rewrite IH by (auto; cbn in Hf; lia).
    rewrite firstn_app, firstn_all2 by lia. replace (KS - length k) with 0 by lia. cbn [firstn]. now rewrite app_nil_r.
Qed.

Lemma hkeys_len : forall lt i, Forall (fun k => length k = KS) (keys_of_leaves H L i lt).
Proof.
  induction lt as [|d lt IH]; intros i; cbn; constructor; auto.
  destruct (Nat.eqb (length d) L); apply H_len.
Qed.

(* whatever the store holds: if the root blob is accepted for the key of content c, the key list
   is the honest one *)
Lemma leaves_for_hash_sound : forall s c ks, nocoll (split_leaves L c) ->
  leaves_for_hash H L (tree_key H L c) s = Some ks -> ks = keys_of_leaves H L 0 (split_leaves L c).
Proof.
  intros s c ks Hnc Hl. unfold leaves_for_hash in Hl.
  destruct (lookup (tree_key H L c) s) as [b|]; [|discriminate].
  destruct (Nat.ltb (length b) KS); [discriminate|].
  destruct (chunk_keys _ _) as [ks'|] eqn:Ec; [|discriminate].
  destruct (bytes_eqb (root_of H L ks') _ && _) eqn:Eb; [|discriminate].
  inversion Hl; subst ks'. apply andb_prop in Eb. destruct Eb as [E1 E2].
  apply bytes_eqb_eq in E1. apply bytes_eqb_eq in E2.
  assert (Er : tree_key H L c = root_of H L ks) by congruence.
  unfold tree_key, root_of in Er.
  apply (Hnc 0%N 1%N true) in Er; [|left; auto]. destruct Er as [_ [_ [_ Ex]]].
  symmetry. apply concat_inj_len; auto.
  - apply hkeys_len.
  - apply chunk_keys_spec in Ec. tauto.
Qed.

(* a store holds an object when its root blob and leaf blobs are there *)
Definition holds (s : bstore) (c : list N) : Prop :=
  let lv := split_leaves L c in let kv := keys_of_leaves H L 0 lv in
  lookup (root_of H L kv) s = Some (concat kv ++ root_of H L kv) /\
  Forall2 (fun k d => lookup k s = Some d) kv lv.

Lemma leaves_for_hash_complete : forall s c, holds s c ->
  leaves_for_hash H L (tree_key H L c) s = Some (keys_of_leaves H L 0 (split_leaves L c)).
Proof.
  intros s c [Hr _]. unfold leaves_for_hash, tree_key.
  set (kv := keys_of_leaves H L 0 (split_leaves L c)) in *. rewrite Hr.
  assert (Hrl : length (root_of H L kv) = KS) by apply H_len.
  rewrite app_length, Hrl.
  destruct (Nat.ltb_spec (length (concat kv) + KS) KS) as [Hlt|Hge]; [lia|].
  replace (length (concat kv) + KS - KS) with (length (concat kv)) by lia.
  rewrite firstn_app, firstn_all2 by lia. rewrite Nat.sub_diag. cbn [firstn]. rewrite app_nil_r.
  rewrite skipn_app, skipn_all2 by lia. rewrite Nat.sub_diag. cbn [skipn app].
  rewrite chunk_keys_complete.
  - now rewrite !bytes_eqb_refl.
  - apply hkeys_len.
  - assert (Hk : Forall (fun k => length k = KS) kv) by apply hkeys_len.
    clear - Hk. induction kv as [|k kv IH]; cbn; [lia|].
    apply Forall_cons_iff in Hk. destruct Hk as [Hk1 Hk2]. rewrite app_length. specialize (IH Hk2).
    unfold KS in *. lia.
Qed.

End StoreFacts.
