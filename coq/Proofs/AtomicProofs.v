(* C06: what an interrupted upload leaves behind; create-if-absent never alters an object. *)
From Coq Require Import List String Ascii NArith Bool Arith Lia.
From DM Require Import Base.Str Gen.Paths Model.PathsParse Model.PathsCheck Model.Meta Model.Bundle Model.ListOps
  Model.RepoOps Model.Atomic Proofs.PathsProofs Proofs.RepoProofs.
Import ListNotations.
Open Scope list_scope.

Lemma mput_excl_keeps : forall k v m k' v', mget k' m = Some v' -> mget k' (snd (mput k v true m)) = Some v'.
Proof.
  intros k v m k' v' H. unfold mput. destruct (mget k m) eqn:E; cbn [snd]; [exact H|].
  cbn [mget]. destruct (String.eqb k' k) eqn:Ek; [|exact H].
  apply String.eqb_eq in Ek. subst k'. rewrite H in E. discriminate.
Qed.

(* create-if-absent programs never change an object that exists *)
Lemma apply_excl_keeps : forall ws m k v, mget k m = Some v -> mget k (apply_excl ws m) = Some v.
Proof.
  induction ws as [|[k0 v0] ws IH]; intros m k v H; cbn [apply_excl]; [exact H|].
  destruct (mput k0 v0 true m) as [[|] m'] eqn:E; [|exact H].
  apply IH. replace m' with (snd (mput k0 v0 true m)) by now rewrite E. now apply mput_excl_keeps.
Qed.

(* and touch only the keys they name *)
Lemma apply_excl_frame : forall ws m k, ~ In k (map fst ws) -> mget k (apply_excl ws m) = mget k m.
Proof.
  induction ws as [|[k0 v0] ws IH]; intros m k H; cbn [apply_excl]; [reflexivity|].
  destruct (mput k0 v0 true m) as [[|] m'] eqn:E; [|reflexivity].
  rewrite IH by (intros Hin; apply H; right; exact Hin).
  replace m' with (snd (mput k0 v0 true m)) by now rewrite E.
  apply mget_mput_other. intros Eq. apply H. left. exact Eq.
Qed.

Lemma index_writes_keys : forall cs r id i k, In k (map fst (index_writes r id i cs)) ->
  exists j, k = GetArchivePathToBundleFileList r id j.
Proof.
  induction cs as [|c cs IH]; intros r id i k H; cbn [index_writes map fst In] in H; [tauto|].
  destruct H as [H|H]; [eexists; symmetry; exact H|]. eapply IH; eauto.
Qed.

Lemma index_writes_length : forall cs r id i, List.length (index_writes r id i cs) = List.length cs.
Proof. induction cs as [|c cs IH]; intros; cbn [index_writes List.length]; [reflexivity|]. now rewrite IH. Qed.

Lemma upload_writes_length : forall r id es E, List.length (upload_writes r id es E) = S (List.length (chunk E es)).
Proof. intros. unfold upload_writes. rewrite app_length, index_writes_length. cbn. lia. Qed.

(* before the last write, only file-list objects have been written *)
Lemma interrupted_keys : forall r id es E n k, n < List.length (upload_writes r id es E) ->
  In k (map fst (firstn n (upload_writes r id es E))) -> exists j, k = GetArchivePathToBundleFileList r id j.
Proof.
  intros r id es E n k Hn Hin. rewrite upload_writes_length in Hn. unfold upload_writes in Hin.
  rewrite firstn_app, index_writes_length in Hin.
  replace (n - List.length (chunk E es)) with 0 in Hin by lia. cbn [firstn] in Hin. rewrite app_nil_r in Hin.
  eapply index_writes_keys. rewrite <- (firstn_skipn n (index_writes r id 0 (chunk E es))), map_app. apply in_or_app. left. exact Hin.
Qed.

Lemma filelist_not_descriptor : forall r id j r' id', noslash r = true -> noslash id = true ->
  noslash r' = true -> noslash id' = true ->
  GetArchivePathToBundleFileList r id j <> GetArchivePathToBundle r' id'.
Proof.
  intros r id j r' id' H1 H2 H3 H4 E.
  assert (V1 : valid_kind (BBundleFL r id j) = true) by (cbn; now rewrite H1, H2).
  assert (V2 : valid_kind (BBundle r' id') = true) by (cbn; now rewrite H3, H4).
  pose proof (build_injective _ _ V1 V2 E) as Hc. cbn [expected_comps] in Hc.
  assert (Hf : (bundleFilesIndexPrefix ++ dec j ++ ".yaml")%string = bundleDescriptorFile) by congruence.
  cbn in Hf. discriminate.
Qed.

(* no descriptor appears or changes while an upload is incomplete: the set of visible bundles of
   every repository, and what their descriptors say, is what it was *)
Theorem interrupted_upload_invisible : forall r id es E n m r' id',
  noslash r = true -> noslash id = true -> noslash r' = true -> noslash id' = true ->
  n < List.length (upload_writes r id es E) ->
  mget (GetArchivePathToBundle r' id') (crashed_upload r id es E n m) = mget (GetArchivePathToBundle r' id') m.
Proof.
  intros r id es E n m r' id' H1 H2 H3 H4 Hn. unfold crashed_upload. apply apply_excl_frame.
  intros Hin. destruct (interrupted_keys _ _ _ _ _ _ Hn Hin) as [j Hj].
  symmetry in Hj. now apply filelist_not_descriptor in Hj.
Qed.

(* whatever existed - descriptors and file lists of committed bundles, repositories - is untouched,
   at every crash point, including the last *)
Theorem crashed_upload_keeps : forall r id es E n m k v, mget k m = Some v ->
  mget k (crashed_upload r id es E n m) = Some v.
Proof. intros. unfold crashed_upload. now apply apply_excl_keeps. Qed.

Lemma upload_writes_under : forall r id es E k, In k (map fst (upload_writes r id es E)) -> under_bundle r id k = true.
Proof.
  intros r id es E k H. unfold upload_writes in H. rewrite map_app in H. apply in_app_or in H. destruct H as [H|H].
  - destruct (index_writes_keys _ _ _ _ _ H) as [j ->]. apply filelist_under.
  - cbn in H. destruct H as [<-|[]]. apply descriptor_under.
Qed.

(* keys outside the new bundle's directory are never touched *)
Theorem crashed_upload_frame : forall r id es E n m k, under_bundle r id k = false ->
  mget k (crashed_upload r id es E n m) = mget k m.
Proof.
  intros r id es E n m k Hk. unfold crashed_upload. apply apply_excl_frame. intros Hin.
  assert (In k (map fst (upload_writes r id es E))).
  { rewrite <- (firstn_skipn n (upload_writes r id es E)), map_app. apply in_or_app. now left. }
  apply upload_writes_under in H. congruence.
Qed.

(* a complete run on a fresh id writes every object of the bundle *)
Lemma apply_excl_fresh : forall ws m, NoDup (map fst ws) -> (forall k, In k (map fst ws) -> mget k m = None) ->
  forall k v, In (k, v) ws -> mget k (apply_excl ws m) = Some v.
Proof.
  induction ws as [|[k0 v0] ws IH]; intros m Hnd Hfresh k v Hin; [destruct Hin|].
  cbn [apply_excl]. cbn [map fst] in Hnd. apply NoDup_cons_iff in Hnd. destruct Hnd as [Hnot Hnd].
  unfold mput. rewrite (Hfresh k0) by (left; reflexivity).
  destruct Hin as [Heq|Hin].
  - inversion Heq; subst. apply apply_excl_keeps. cbn [mget]. now rewrite String.eqb_refl.
  - apply IH; auto. intros k' Hk'. cbn [mget]. destruct (String.eqb k' k0) eqn:Ek.
    + apply String.eqb_eq in Ek. subst k'. contradiction.
    + apply Hfresh. right. exact Hk'.
Qed.

Lemma filelist_key_inj : forall r id i j, GetArchivePathToBundleFileList r id i = GetArchivePathToBundleFileList r id j -> i = j.
Proof.
  intros r id i j H. unfold GetArchivePathToBundleFileList in H.
  do 5 (apply app_inv_head_s in H). apply index_name_inj. exact H.
Qed.

Lemma NoDup_app_one : forall (l : list string) x, NoDup l -> ~ In x l -> NoDup (l ++ [x]).
Proof.
  induction l as [|a l IH]; intros x Hnd Hx; cbn [app]; [constructor; [intros []|constructor]|].
  apply NoDup_cons_iff in Hnd. destruct Hnd as [Ha Hnd]. constructor.
  - intros Hin. apply in_app_or in Hin. destruct Hin as [Hin|[<-|[]]]; [contradiction|]. apply Hx. now left.
  - apply IH; auto. intros Hin. apply Hx. now right.
Qed.

Lemma index_writes_nodup : forall cs r id i, NoDup (map fst (index_writes r id i cs)) /\
  (forall k, In k (map fst (index_writes r id i cs)) -> exists j, (i <= j)%N /\ k = GetArchivePathToBundleFileList r id j).
Proof.
  induction cs as [|c cs IH]; intros r id i; cbn [index_writes map fst]; [split; [constructor|intros k []]|].
  destruct (IH r id (i + 1)%N) as [Hnd Hge]. split.
  - constructor; [|exact Hnd]. intros Hin. destruct (Hge _ Hin) as [j [Hj Ej]]. apply filelist_key_inj in Ej. lia.
  - intros k [<-|Hin]; [exists i; split; [lia|reflexivity]|]. destruct (Hge _ Hin) as [j [Hj Ej]]. exists j. split; [lia|exact Ej].
Qed.

Lemma index_writes_nth : forall cs r id i j c, nth_error cs j = Some c ->
  In (GetArchivePathToBundleFileList r id (i + N.of_nat j), VIndex c) (index_writes r id i cs).
Proof.
  induction cs as [|c0 cs IH]; intros r id i j c H; [destruct j; discriminate|].
  destruct j as [|j]; cbn [nth_error] in H; cbn [index_writes].
  - inversion H; subst. left. now rewrite N.add_0_r.
  - right. replace (i + N.of_nat (S j))%N with (i + 1 + N.of_nat j)%N by lia. now apply IH.
Qed.

Theorem completed_upload_visible : forall r id es E m, noslash r = true -> noslash id = true ->
  (forall k, under_bundle r id k = true -> mget k m = None) ->
  let m' := apply_excl (upload_writes r id es E) m in
  mget (GetArchivePathToBundle r id) m' = Some (VBundle id (N.of_nat (List.length (chunk E es)))) /\
  (forall j c, nth_error (chunk E es) j = Some c -> mget (GetArchivePathToBundleFileList r id (N.of_nat j)) m' = Some (VIndex c)).
Proof.
  intros r id es E m Hr Hid Hfresh m'.
  assert (Hnd : NoDup (map fst (upload_writes r id es E))).
  { unfold upload_writes. rewrite map_app. cbn [map fst]. apply NoDup_app_one.
    - apply index_writes_nodup.
    - intros Hin. destruct (index_writes_keys _ _ _ _ _ Hin) as [j Hj]. symmetry in Hj.
      now apply filelist_not_descriptor in Hj. }
  assert (Hf : forall k, In k (map fst (upload_writes r id es E)) -> mget k m = None).
  { intros k Hk. apply Hfresh. eapply upload_writes_under; eauto. }
  split.
  - apply apply_excl_fresh; auto. unfold upload_writes. apply in_or_app. right. left. reflexivity.
  - intros j c Hj. apply apply_excl_fresh; auto. unfold upload_writes. apply in_or_app. left.
    change (N.of_nat j) with (0 + N.of_nat j)%N. now apply index_writes_nth.
Qed.

(* the upload of the repository model (C08-C10) is the complete program *)
Lemma put_indexes_apply : forall cs r id i m m', put_indexes r id i cs m = Some m' ->
  apply_excl (index_writes r id i cs) m = m'.
Proof.
  induction cs as [|c cs IH]; intros r id i m m' H; cbn [put_indexes index_writes apply_excl] in *; [now inversion H|].
  destruct (mput (GetArchivePathToBundleFileList r id i) (VIndex c) true m) as [[|] m1]; [|discriminate]. now apply IH.
Qed.

Lemma apply_excl_app_ok : forall a b m, (forall k, In k (map fst a) -> mget k m = None) -> NoDup (map fst a) ->
  apply_excl (a ++ b) m = apply_excl b (apply_excl a m).
Proof.
  induction a as [|[k v] a IH]; intros b m Hf Hnd; [reflexivity|].
  cbn [app apply_excl]. cbn [map fst] in Hnd. apply NoDup_cons_iff in Hnd. destruct Hnd as [Hn Hnd].
  unfold mput. rewrite (Hf k) by (left; reflexivity). apply IH; auto.
  intros k' Hk'. cbn [mget]. destruct (String.eqb k' k) eqn:Ek; [apply String.eqb_eq in Ek; subst; contradiction|].
  apply Hf. now right.
Qed.

Theorem successful_upload_is_program : forall r id es E w w',
  (forall k, under_bundle r id k = true -> mget k (w_meta w) = None) ->
  upload r id es E w = (ROk, w') -> w_meta w' = apply_excl (upload_writes r id es E) (w_meta w) /\ w_vmeta w' = w_vmeta w.
Proof.
  intros r id es E w w' Hfresh H. unfold upload in H. destruct (negb (repo_exists r w)); [discriminate|].
  destruct (put_indexes r id 0 (chunk E es) (w_meta w)) as [m|] eqn:Ep; [|discriminate].
  destruct (mput (GetArchivePathToBundle r id) _ true m) as [[|] m1] eqn:Em; inversion H; subst. clear H.
  cbn [w_meta w_vmeta with_meta]. split; [|reflexivity].
  unfold upload_writes. rewrite apply_excl_app_ok.
  - rewrite (put_indexes_apply _ _ _ _ _ _ Ep). cbn [apply_excl]. now rewrite Em.
  - intros k Hk. apply Hfresh. destruct (index_writes_keys _ _ _ _ _ Hk) as [j ->]. apply filelist_under.
  - apply index_writes_nodup.
Qed.

(* ---- once written, never altered: every operation other than delete-repo / rename / delete-files /
   squash leaves every metadata object of every bundle exactly as it is, over every history ---- *)
From DM Require Import Model.WorldCheck.

Definition preserving (o : wop) : bool :=
  match o with
  | ODeleteRepo _ | ORename _ _ | ODeleteEntries _ _ | OSquash _ _ _ _ => false
  | _ => true
  end.

Lemma put_indexes_keeps : forall cs r id i m m' k v, put_indexes r id i cs m = Some m' -> mget k m = Some v -> mget k m' = Some v.
Proof.
  intros cs r id i m m' k v H Hk. rewrite <- (put_indexes_apply _ _ _ _ _ _ H). now apply apply_excl_keeps.
Qed.

Lemma upload_keeps : forall r id es E w k v, mget k (w_meta w) = Some v -> mget k (w_meta (snd (upload r id es E w))) = Some v.
Proof.
  intros r id es E w k v H. unfold upload. destruct (negb _); [exact H|].
  destruct (put_indexes r id 0 (chunk E es) (w_meta w)) as [m|] eqn:Ep; [|exact H].
  pose proof (put_indexes_keeps _ _ _ _ _ _ _ _ Ep H) as Hm.
  destruct (mput (GetArchivePathToBundle r id) _ true m) as [[|] m1] eqn:Em; cbn [snd w_meta with_meta]; [|exact Hm].
  replace m1 with (snd (mput (GetArchivePathToBundle r id) (VBundle id (N.of_nat (List.length (chunk E es)))) true m)) by now rewrite Em.
  now apply mput_excl_keeps.
Qed.

Lemma step_keeps : forall E o w k v, preserving o = true -> mget k (w_meta w) = Some v ->
  mget k (w_meta (fst (wstep_model E w o))) = Some v.
Proof.
  intros E o w k v Hp H. destruct o; try discriminate Hp; cbn [wstep_model].
  - unfold create_repo. destruct (mput _ _ true (w_meta w)) as [[|] m] eqn:Em; cbn [fst w_meta with_meta]; [|exact H].
    replace m with (snd (mput (GetArchivePathToRepoDescriptor r) (VRepo r) true (w_meta w))) by now rewrite Em.
    now apply mput_excl_keeps.
  - pose proof (upload_keeps r id es E w k v H) as Hu. destruct (upload r id es E w) as [c w']. exact Hu.
  - destruct (put_indexes r id 0 (chunk E es) (w_meta w)) as [m|] eqn:Ep; cbn [fst]; [|exact H].
    cbn [w_meta with_meta]. eapply put_indexes_keeps; eauto.
  - unfold set_label. destruct (_ || _); cbn [fst]; exact H.
  - exact H.
  - unfold delete_label. destruct (delete_label r name true w) as [c w'] eqn:Ed. cbn [fst].
    unfold delete_label in Ed. repeat match type of Ed with context [if ?b then _ else _] => destruct b end;
    try (destruct (mdelete _ _) as [[|] v1]); inversion Ed; subst; exact H.
  - exact H.
  - exact H.
  - exact H.
Qed.

Theorem committed_never_altered : forall E ops w k v, forallb preserving ops = true ->
  mget k (w_meta w) = Some v ->
  mget k (w_meta (fold_left (fun w o => fst (wstep_model E w o)) ops w)) = Some v.
Proof.
  induction ops as [|o ops IH]; intros w k v Hp H; [exact H|].
  cbn [forallb] in Hp. apply andb_prop in Hp. destruct Hp as [Ho Hp]. cbn [fold_left].
  apply IH; [exact Hp|]. now apply step_keeps.
Qed.
