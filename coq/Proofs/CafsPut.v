(* Effects of Put on the blob store: non-empty blobs are never rewritten, a second Put of the
   same content is a duplicate that changes nothing, the store afterwards holds the object, and
   different contents have different keys. *)
From Coq Require Import List NArith Arith Bool Lia.
From DM Require Import Model.Cafs Proofs.CafsWriter Proofs.CafsStore.
Import ListNotations.

(* ---- association-list facts ---- *)
Lemma lookup_put_over_same : forall k v s, lookup k (put_over k v s) = Some v.
Proof.
  induction s as [|[k' v'] s IH]; cbn.
  - now rewrite bytes_eqb_refl.
  - destruct (bytes_eqb k k') eqn:E; cbn; [now rewrite bytes_eqb_refl|]. now rewrite E.
Qed.

Lemma bytes_eqb_sym : forall a b, bytes_eqb a b = bytes_eqb b a.
Proof.
  intros a b. destruct (bytes_eqb a b) eqn:E1, (bytes_eqb b a) eqn:E2; auto.
  - apply bytes_eqb_eq in E1. subst. now rewrite bytes_eqb_refl in E2.
  - apply bytes_eqb_eq in E2. subst. now rewrite bytes_eqb_refl in E1.
Qed.

Lemma lookup_put_over_other : forall k k' v s, k <> k' -> lookup k' (put_over k v s) = lookup k' s.
Proof.
  induction s as [|[k0 v0] s IH]; intros Hne; cbn.
  - destruct (bytes_eqb k' k) eqn:E; [apply bytes_eqb_eq in E; congruence|reflexivity].
  - destruct (bytes_eqb k k0) eqn:E; cbn.
    + apply bytes_eqb_eq in E. subst k0.
      destruct (bytes_eqb k' k) eqn:E'; [apply bytes_eqb_eq in E'; congruence|reflexivity].
    + destruct (bytes_eqb k' k0); auto.
Qed.

Lemma write_blob_keeps_nonempty : forall k v s k' x b,
  lookup k' s = Some (x :: b) -> lookup k' (write_blob k v s) = Some (x :: b).
Proof.
  intros k v s k' x b Hl. unfold write_blob.
  destruct (lookup k s) as [[|y d]|] eqn:E; auto.
  - destruct (list_eq_dec N.eq_dec k k') as [->|Hne]; [congruence|]. now rewrite lookup_put_over_other.
  - destruct (list_eq_dec N.eq_dec k k') as [->|Hne]; [congruence|]. now rewrite lookup_put_over_other.
Qed.

Lemma write_blob_present : forall k v s x b,
  lookup k s = Some (x :: b) -> write_blob k v s = s.
Proof. intros k v s x b Hl. unfold write_blob. now rewrite Hl. Qed.

(* after writing (k, v): the store has v under k unless it already had another non-empty blob *)
Lemma write_blob_result : forall k v s,
  (lookup k s = None \/ lookup k s = Some [] \/ lookup k s = Some v) ->
  lookup k (write_blob k v s) = Some v.
Proof.
  intros k v s [Hn|[He|Hs]]; unfold write_blob.
  - rewrite Hn. apply lookup_put_over_same.
  - rewrite He. apply lookup_put_over_same.
  - rewrite Hs. destruct v; [apply lookup_put_over_same|exact Hs].
Qed.

Lemma write_blob_other : forall k v s k', k <> k' -> lookup k' (write_blob k v s) = lookup k' s.
Proof.
  intros k v s k' Hne. unfold write_blob. destruct (lookup k s) as [[|y d]|]; auto using lookup_put_over_other.
Qed.

Lemma NoDup_app_one : forall {A} (l : list A) x, NoDup l -> ~ In x l -> NoDup (l ++ [x]).
Proof.
  induction l as [|y l IH]; intros x Hn Hx; cbn.
  - constructor; [tauto|constructor].
  - apply NoDup_cons_iff in Hn. destruct Hn as [Hy Hn]. constructor.
    + intros Hin. apply in_app_or in Hin. destruct Hin as [Hin|[->|[]]]; [tauto|]. apply Hx. now left.
    + apply IH; auto. intros Hin. apply Hx. now right.
Qed.

Section PutFacts.
Variable H : N -> N -> N -> bool -> list N -> list N.
Variable L : nat.
Hypothesis Lpos : 0 < L.

(* the sequence of blob writes of a Put, as a list *)
Definition blob_writes (lv : list (list N)) : list (list N * list N) :=
  let kv := keys_of_leaves H L 0 lv in
  combine kv lv ++ [(root_of H L kv, concat kv ++ root_of H L kv)].

Definition apply_writes (ws : list (list N * list N)) (s : bstore) : bstore :=
  fold_left (fun s kv => write_blob (fst kv) (snd kv) s) ws s.

Lemma write_full_as_fold : forall ls i s,
  write_full H L i ls s = apply_writes (combine (full_keys H L i ls) ls) s.
Proof. induction ls as [|d ls IH]; intros i s; cbn; [reflexivity|]. now apply IH. Qed.

Lemma combine_app_eq : forall {A B} (a1 a2 : list A) (b1 b2 : list B),
  length a1 = length b1 -> combine (a1 ++ a2) (b1 ++ b2) = combine a1 b1 ++ combine a2 b2.
Proof.
  induction a1 as [|x a1 IH]; intros a2 b1 b2 Hl; destruct b1 as [|y b1]; cbn in *; try lia; auto.
  f_equal. apply IH. lia.
Qed.

Lemma full_keys_length : forall ls i, length (full_keys H L i ls) = length ls.
Proof. induction ls as [|d ls IH]; intros i; cbn; [reflexivity|]. now rewrite IH. Qed.

(* Put = the writes of the honest layout, in order *)
Lemma put_store : forall chunks s r, put H L chunks s = Ok r ->
  pr_store r = apply_writes (blob_writes (split_leaves L (concat chunks))) s /\
  pr_found r = found_nonempty (tree_key H L (concat chunks))
                 (apply_writes (combine (keys_of_leaves H L 0 (split_leaves L (concat chunks))) (split_leaves L (concat chunks))) s).
Proof.
  intros chunks s r Hp. unfold put in Hp.
  destruct (write_all_spec L Lpos chunks {| w_leaves := []; w_buf := [] |}) as [w [H1 [H2 [H3 H4]]]].
  { split; cbn; [lia|constructor]. }
  rewrite H1 in Hp. inversion Hp; subst r; clear Hp. cbn [pr_store pr_found].
  unfold wcontent in H2. cbn in H2.
  set (full := w_leaves w) in *. set (part := w_buf w) in *.
  assert (Hlv : split_leaves L (concat chunks) = full ++ match part with [] => [] | _ => [part] end).
  { rewrite <- H2. now apply split_leaves_spec. }
  assert (Hkv : keys_of_leaves H L 0 (split_leaves L (concat chunks)) = leaf_keys H L full part).
  { rewrite <- H2. symmetry. now apply leaf_keys_of_leaves. }
  unfold tree_key, blob_writes. rewrite Hkv, Hlv. unfold apply_writes.
  rewrite fold_left_app. cbn [fold_left fst snd].
  assert (Hs2 : fold_left (fun s0 kv => write_blob (fst kv) (snd kv) s0)
                  (combine (leaf_keys H L full part) (full ++ match part with [] => [] | _ => [part] end)) s
                = match part with
                  | [] => write_full H L 0 full s
                  | _ :: _ => write_blob (part_key H L (length full) part) part (write_full H L 0 full s)
                  end).
  { unfold leaf_keys. rewrite combine_app_eq by apply full_keys_length.
    rewrite fold_left_app. rewrite write_full_as_fold. unfold apply_writes.
    destruct part; reflexivity. }
  rewrite Hs2. split; reflexivity.
Qed.

(* non-empty blobs survive any Put: no hash assumption needed *)
Theorem put_keeps_blobs : forall chunks s r k x b,
  put H L chunks s = Ok r -> lookup k s = Some (x :: b) -> lookup k (pr_store r) = Some (x :: b).
Proof.
  intros chunks s r k x b Hp Hl. destruct (put_store chunks s r Hp) as [Hs _]. rewrite Hs.
  unfold apply_writes. generalize (blob_writes (split_leaves L (concat chunks))). intros ws. clear Hp Hs. revert s Hl.
  induction ws as [|w ws IH]; intros s Hl; cbn; [exact Hl|]. apply IH. now apply write_blob_keeps_nonempty.
Qed.

Hypothesis H_len : forall l o d b x, length (H l o d b x) = KS.

Lemma hkey_inj : forall lv i j d d', nocoll H L lv -> nth_error lv i = Some d ->
  hkey H L i d = hkey H L j d' -> i = j /\ d = d'.
Proof.
  intros lv i j d d' Hnc Hn E. rewrite !hkey_as_H in E.
  apply (Hnc _ _ _ _ _ _ _ _ (honest_leaf_in H L lv i d Hn)) in E. destruct E as [Eo [_ [Eb Ex]]]. subst d'.
  split; auto. destruct (Nat.eqb (length d) L); lia.
Qed.

Lemma hkey_not_root : forall lv i d ks, nocoll H L lv -> nth_error lv i = Some d ->
  hkey H L i d <> root_of H L ks.
Proof.
  intros lv i d ks Hnc Hn E. rewrite hkey_as_H in E. unfold root_of in E.
  apply (Hnc _ _ _ _ _ _ _ _ (honest_leaf_in H L lv i d Hn)) in E. destruct E as [_ [Ed _]]. discriminate.
Qed.

Lemma nth_keys : forall lv j i, i < length lv ->
  nth i (keys_of_leaves H L j lv) [] = hkey H L (j + i) (nth i lv []).
Proof.
  induction lv as [|d lv IH]; intros j i Hi; [cbn in Hi; lia|].
  rewrite keys_of_leaves_cons. destruct i; cbn [nth].
  - now rewrite Nat.add_0_r.
  - rewrite IH by (cbn in Hi; lia). f_equal. lia.
Qed.

(* different contents have different keys *)
Theorem tree_key_injective : forall c1 c2, nocoll H L (split_leaves L c1) ->
  tree_key H L c1 = tree_key H L c2 -> c1 = c2.
Proof.
  intros c1 c2 Hnc E. unfold tree_key, root_of in E.
  apply (Hnc 0%N 1%N true) in E; [|left; auto]. destruct E as [_ [_ [_ E]]].
  apply (concat_inj_len L Lpos) in E; try apply (hkeys_len H L H_len).
  set (l1 := split_leaves L c1) in *. set (l2 := split_leaves L c2) in *.
  assert (Hlen : length l1 = length l2).
  { rewrite <- (keys_length H L l1 0), <- (keys_length H L l2 0). now rewrite E. }
  assert (Heq : l1 = l2).
  { apply (nth_ext l1 l2 [] []); auto. intros i Hi.
    assert (Hk : nth i (keys_of_leaves H L 0 l1) [] = nth i (keys_of_leaves H L 0 l2) []) by now rewrite E.
    rewrite !nth_keys in Hk by lia. cbn [Nat.add] in Hk.
    apply (hkey_inj l1 i i _ _ Hnc) in Hk; [tauto|]. apply nth_error_nth'. exact Hi. }
  rewrite <- (split_leaves_concat L Lpos c1), <- (split_leaves_concat L Lpos c2). fold l1 l2. now rewrite Heq.
Qed.

(* writes to pairwise different keys do not disturb each other *)
Lemma apply_writes_other : forall ws s k, ~ In k (map fst ws) ->
  lookup k (apply_writes ws s) = lookup k s.
Proof.
  induction ws as [|[k0 v0] ws IH]; intros s k Hn; cbn; [reflexivity|].
  cbn in Hn. rewrite IH by tauto. apply write_blob_other. tauto.
Qed.

Definition clean (s : bstore) (ws : list (list N * list N)) : Prop :=
  forall k v, In (k, v) ws -> lookup k s = None \/ lookup k s = Some [] \/ lookup k s = Some v.

Lemma apply_writes_holds : forall ws s, NoDup (map fst ws) -> clean s ws ->
  forall k v, In (k, v) ws -> lookup k (apply_writes ws s) = Some v.
Proof.
  induction ws as [|[k0 v0] ws IH]; intros s Hnd Hc k v Hin; [destruct Hin|].
  cbn [map fst] in Hnd. apply NoDup_cons_iff in Hnd. destruct Hnd as [Hn0 Hnd]. cbn.
  destruct Hin as [Heq|Hin].
  - inversion Heq; subst k0 v0. rewrite apply_writes_other by exact Hn0.
    apply write_blob_result. apply Hc. now left.
  - apply IH; auto. intros k' v' Hin'.
    assert (Hne : k0 <> k').
    { intros ->. apply Hn0. apply in_map_iff. exists (k', v'). auto. }
    rewrite write_blob_other by exact Hne. apply Hc. now right.
Qed.

Lemma keys_NoDup : forall lv, nocoll H L lv -> NoDup (keys_of_leaves H L 0 lv).
Proof.
  intros lv Hnc. apply (NoDup_nth (keys_of_leaves H L 0 lv) []). intros i j Hi Hj E.
  rewrite keys_length in Hi, Hj. rewrite !nth_keys in E by lia. cbn [Nat.add] in E.
  apply (hkey_inj lv i j _ _ Hnc) in E; [tauto|]. apply nth_error_nth'. exact Hi.
Qed.

Lemma map_fst_combine : forall {A B} (a : list A) (b : list B), length a = length b -> map fst (combine a b) = a.
Proof. induction a as [|x a IH]; intros b Hl; destruct b; cbn in *; try lia; auto. f_equal. apply IH. lia. Qed.

Lemma root_not_in_keys : forall lv ks, nocoll H L lv -> ~ In (root_of H L ks) (keys_of_leaves H L 0 lv).
Proof.
  intros lv ks Hnc Hin. apply (In_nth _ _ []) in Hin. destruct Hin as [i [Hi E]].
  rewrite keys_length in Hi. rewrite nth_keys in E by lia. cbn [Nat.add] in E.
  apply (hkey_not_root lv i _ ks Hnc) in E; auto. apply nth_error_nth'. exact Hi.
Qed.

Lemma blob_writes_NoDup : forall lv, nocoll H L lv -> NoDup (map fst (blob_writes lv)).
Proof.
  intros lv Hnc. unfold blob_writes. rewrite map_app, map_fst_combine by (now rewrite keys_length). cbn [map fst].
  apply NoDup_app_one; [now apply keys_NoDup|]. now apply root_not_in_keys.
Qed.

(* a Put into a store that does not already hold conflicting blobs leaves the object in the store *)
Theorem put_holds : forall chunks s r, nocoll H L (split_leaves L (concat chunks)) ->
  clean s (blob_writes (split_leaves L (concat chunks))) ->
  put H L chunks s = Ok r -> holds H L (pr_store r) (concat chunks).
Proof.
  intros chunks s r Hnc Hc Hp. destruct (put_store chunks s r Hp) as [Hs _]. rewrite Hs.
  set (lv := split_leaves L (concat chunks)) in *.
  pose proof (apply_writes_holds (blob_writes lv) s (blob_writes_NoDup lv Hnc) Hc) as Hh.
  unfold holds. fold lv. split.
  - apply Hh. unfold blob_writes. apply in_or_app. right. now left.
  - assert (Hsub : forall k d, In (k, d) (combine (keys_of_leaves H L 0 lv) lv) ->
                    lookup k (apply_writes (blob_writes lv) s) = Some d).
    { intros k d Hin. apply Hh. unfold blob_writes. apply in_or_app. now left. }
    clear - Hsub. revert Hsub. generalize 0. generalize (apply_writes (blob_writes lv) s). intros st.
    induction lv as [|d lv IH]; intros i Hsub; cbn; constructor.
    + apply Hsub. now left.
    + apply IH. intros k d' Hin. apply Hsub. now right.
Qed.

(* a second Put of content the store already holds is a duplicate and changes nothing *)
Theorem put_duplicate : forall chunks s r,
  holds H L s (concat chunks) -> put H L chunks s = Ok r ->
  pr_found r = true /\ (forall k, lookup k (pr_store r) = lookup k s) /\ pr_key r = tree_key H L (concat chunks).
Proof.
  intros chunks s r Hh Hp. destruct (put_store chunks s r Hp) as [Hs Hf].
  set (lv := split_leaves L (concat chunks)) in *.
  assert (Hkey : pr_key r = tree_key H L (concat chunks)).
  { destruct (put_key H L Lpos chunks s) as [r' [E [_ [K _]]]]. congruence. }
  (* every write finds a non-empty blob already there *)
  assert (Hne : forall k v, In (k, v) (blob_writes lv) -> exists x b, lookup k s = Some (x :: b)).
  { intros k v Hin. destruct Hh as [Hr Hl]. fold lv in Hr, Hl. unfold blob_writes in Hin.
    apply in_app_or in Hin. destruct Hin as [Hin|[Heq|[]]].
    - assert (Hd : lookup k s = Some v /\ v <> []).
      { pose proof (split_shape L Lpos (concat chunks)) as Hsh. fold lv in Hsh.
        clear - Hin Hl Hsh Lpos. revert Hin Hl. generalize 0.
        induction lv as [|d lv IH]; intros i Hin Hl; cbn in Hin; [destruct Hin|].
        inversion Hl as [|? ? ? ? Hd Hl']; subst.
        destruct (shape_tail L Lpos d lv Hsh) as [Hs' [Hlen _]].
        destruct Hin as [E|Hin]; [inversion E; subst; split; auto; intros ->; cbn in Hlen; lia|].
        eapply IH; eauto. }
      destruct Hd as [Hd Hv]. destruct v as [|x b]; [congruence|]. eauto.
    - inversion Heq; subst k v. rewrite Hr.
      destruct (concat (keys_of_leaves H L 0 lv) ++ root_of H L (keys_of_leaves H L 0 lv)) as [|x b] eqn:E; [|eauto].
      apply app_eq_nil in E. destruct E as [_ E]. pose proof (H_len (LN L) 0%N 1%N true (concat (keys_of_leaves H L 0 lv))) as Hl64.
      unfold root_of in E. rewrite E in Hl64. cbn in Hl64. unfold KS in Hl64. lia. }
  assert (Hsame : forall ws st, (forall k v, In (k, v) ws -> exists x b, lookup k st = Some (x :: b)) ->
                   apply_writes ws st = st).
  { induction ws as [|[k v] ws IHw]; intros st Hw; cbn; [reflexivity|].
    destruct (Hw k v (or_introl eq_refl)) as [x [b Hl]]. rewrite (write_blob_present k v st x b Hl).
    apply IHw. intros k' v' Hin. apply (Hw k' v'). now right. }
  split; [|split; [|exact Hkey]].
  - rewrite Hf. rewrite Hsame.
    + destruct Hh as [Hr _]. fold lv in Hr. unfold found_nonempty, tree_key. fold lv. now rewrite Hr.
    + intros k v Hin. apply (Hne k v). unfold blob_writes. apply in_or_app. now left.
  - intros k. rewrite Hs. now rewrite Hsame.
Qed.

End PutFacts.
