(* Model of pkg/sidecar/param: encoding of sidecar parameters into environment
   variable strings, and the reference decoder (documented format = the shipped
   zsh decoder hack/fuse-demo/wrap_datamon.sh: the first two characters are the
   item and key/value separators; items are split on the first, each item on the
   second; an item without a value is a flag whose value is "true"; '.' is refused;
   empty items are dropped).  Strings are lists of Unicode code points. *)
From Coq Require Import List NArith Bool String Ascii Lia.
Import ListNotations.
Open Scope N_scope.

Notation str := (list N) (only parsing).
Definition cp (s : string) : str := map N_of_ascii (list_ascii_of_string s).

Fixpoint mem (c : N) (l : str) : bool :=
  match l with [] => false | x :: t => (c =? x) || mem c t end.

(* randCharNotInString: first code point >= start that does not occur in [used] *)
Fixpoint first_free (fuel : nat) (used : str) (c : N) : N :=
  match fuel with
  | O => c
  | S f => if mem c used then first_free f used (c + 1) else c
  end.

Definition zero_char : N := 48.   (* '0' *)
Definition dot_char : N := 46.    (* '.' *)

(* characters of the fixed parameter names and flags (paramNameChars) *)
Definition param_name_chars : str := cp "SVabcdfilmprs".

Definition set_separators (values : list str) : N * N :=
  let invalid := List.concat values ++ param_name_chars in
  let isep := first_free (S (List.length invalid)) invalid zero_char in
  let invalid2 := invalid ++ [isep] in
  let ksep := first_free (S (List.length invalid2)) invalid2 zero_char in
  (isep, ksep).

Definition trim_suffix (i : N) (l : str) : str :=
  match rev l with
  | x :: r => if x =? i then rev r else l
  | [] => []
  end.

(* appendToParamString for every field; flags come first *)
Definition field_items (ksep : N) (fields : list (str * str)) : list str :=
  map (fun nv => fst nv ++ [ksep] ++ snd nv)
      (filter (fun nv => negb (match snd nv with [] => true | _ => false end)) fields).

Definition contains_sep (isep ksep : N) (v : str) : bool := mem isep v || mem ksep v.

Definition enc_string (isep ksep : N) (flags : list str) (fields : list (str * str)) : option str :=
  if existsb (fun nv => contains_sep isep ksep (snd nv)) fields then None
  else Some (trim_suffix isep
         (isep :: ksep :: List.concat (map (fun it => it ++ [isep]) (flags ++ field_items ksep fields)))).

(* ---------- reference decoder ---------- *)
Fixpoint split_on (sep : N) (l : str) : list str :=
  match l with
  | [] => [[]]
  | x :: t =>
      if x =? sep then [] :: split_on sep t
      else match split_on sep t with
           | h :: r => (x :: h) :: r
           | [] => [[x]]
           end
  end.

Definition nonempty (s : str) : bool := match s with [] => false | _ => true end.

Definition parse_item (ksep : N) (it : str) : str * str :=
  match split_on ksep it with
  | [n] => (n, cp "true")
  | n :: v :: _ => (n, v)
  | [] => ([], [])
  end.

Definition dec_string (e : str) : option (list (str * str)) :=
  match e with
  | i :: k :: rest =>
      if (i =? dot_char) || (k =? dot_char) then None
      else Some (map (parse_item k) (filter nonempty (split_on i rest)))
  | _ => None
  end.

(* what a decoder must find: flags as name=true, then the non-empty fields in order *)
Definition expected (flags : list str) (fields : list (str * str)) : list (str * str) :=
  map (fun f => (f, cp "true")) flags ++ filter (fun nv => nonempty (snd nv)) fields.

(* ---------- the two parameter sets ---------- *)
Record fuse_bundle := {
  fb_name : str; fb_srcpath : str; fb_srcrepo : str; fb_srclabel : str; fb_srcbundle : str;
  fb_destpath : str; fb_destrepo : str; fb_destmsg : str; fb_destlabel : str; fb_destbundleid : str }.
Record fuse_params := {
  fp_sleep : bool; fp_coord : str; fp_bucket : str; fp_context : str; fp_bundles : list fuse_bundle }.

Definition bool_str (b : bool) : str := if b then cp "true" else cp "false".

Definition fb_values (b : fuse_bundle) : list str :=
  [fb_name b; fb_srcpath b; fb_srcrepo b; fb_srclabel b; fb_srcbundle b;
   fb_destpath b; fb_destrepo b; fb_destmsg b; fb_destlabel b; fb_destbundleid b].
Definition fuse_values (p : fuse_params) : list str :=
  [bool_str (fp_sleep p); fp_coord p; fp_bucket p; fp_context p] ++ List.concat (map fb_values (fp_bundles p)).

Definition fb_fields (b : fuse_bundle) : list (str * str) :=
  [(cp "sp", fb_srcpath b); (cp "sr", fb_srcrepo b); (cp "sl", fb_srclabel b); (cp "sb", fb_srcbundle b);
   (cp "dp", fb_destpath b); (cp "dr", fb_destrepo b); (cp "dm", fb_destmsg b); (cp "dl", fb_destlabel b);
   (cp "dif", fb_destbundleid b)].
Definition fuse_global_flags (p : fuse_params) : list str := if fp_sleep p then [cp "S"] else [].
Definition fuse_global_fields (p : fuse_params) : list (str * str) :=
  [(cp "c", fp_coord p); (cp "b", fp_bucket p); (cp "a", fp_context p)].

(* result: None = error; Some assoc list env-var name -> string, bundles first (in order), globals last;
   a Go map: a later bundle with the same name overwrites an earlier one *)
Fixpoint all_some {A} (l : list (option A)) : option (list A) :=
  match l with
  | [] => Some []
  | None :: _ => None
  | Some x :: t => match all_some t with Some r => Some (x :: r) | None => None end
  end.

Definition fuse_env (p : fuse_params) : option (list (str * str)) :=
  let '(i, k) := set_separators (fuse_values p) in
  match all_some (map (fun b => enc_string i k [] (fb_fields b)) (fp_bundles p)) with
  | None => None
  | Some bs =>
    if negb (nonempty (fp_coord p)) || negb (nonempty (fp_bucket p)) || negb (nonempty (fp_context p)) then None
    else match enc_string i k (fuse_global_flags p) (fuse_global_fields p) with
         | None => None
         | Some g => Some (combine (map (fun b => cp "dm_fuse_bd_" ++ fb_name b) (fp_bundles p)) bs
                           ++ [(cp "dm_fuse_opts", g)])
         end
  end.

Record pg_db := {
  pd_name : str; pd_port : str (* decimal *); pd_destrepo : str; pd_destmsg : str; pd_destlabel : str;
  pd_destbundleid : str; pd_srcrepo : str; pd_srclabel : str; pd_srcbundle : str }.
Record pg_params := {
  pp_sleep : bool; pp_ignore : bool; pp_coord : str; pp_cname : str; pp_cemail : str; pp_dbs : list pg_db }.

Definition pd_values (d : pg_db) : list str :=
  [pd_name d; pd_port d; pd_destrepo d; pd_destmsg d; pd_destlabel d; pd_destbundleid d;
   pd_srcrepo d; pd_srclabel d; pd_srcbundle d].
Definition pg_values (p : pg_params) : list str :=
  [bool_str (pp_sleep p); bool_str (pp_ignore p); pp_coord p; pp_cname p; pp_cemail p]
  ++ List.concat (map pd_values (pp_dbs p)).
Definition pd_fields (d : pg_db) : list (str * str) :=
  [(cp "p", pd_port d); (cp "m", pd_destmsg d); (cp "l", pd_destlabel d); (cp "r", pd_destrepo d);
   (cp "sl", pd_srclabel d); (cp "sr", pd_srcrepo d); (cp "sb", pd_srcbundle d)].
Definition pg_global_flags (p : pg_params) : list str := if pp_sleep p then [cp "S"] else [].
Definition pg_global_fields (p : pg_params) : list (str * str) :=
  [(cp "c", pp_coord p); (cp "V", bool_str (pp_ignore p))].

Definition pg_env (p : pg_params) : option (list (str * str)) :=
  let '(i, k) := set_separators (pg_values p) in
  match all_some (map (fun d => enc_string i k [] (pd_fields d)) (pp_dbs p)) with
  | None => None
  | Some ds =>
    if negb (nonempty (pp_coord p)) then None
    else match enc_string i k (pg_global_flags p) (pg_global_fields p) with
         | None => None
         | Some g => Some (combine (map (fun d => cp "dm_pg_db_" ++ pd_name d) (pp_dbs p)) ds
                           ++ [(cp "dm_pg_opts", g)])
         end
  end.
