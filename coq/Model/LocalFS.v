(* Model of pkg/storage/localfs as a key/value object store: the set of regular files below the
   base directory is an association list key -> bytes (keys unique); KeysPrefix is the walk,
   prefix filter, delimiter cut, sort, dedupe and token lookup of the code. *)
From Coq Require Import List String Ascii NArith Bool Arith.
From DM Require Import Base.Str Base.StrOrder Base.Paging Base.Listing.
Import ListNotations.
Open Scope list_scope.

Definition lfs := list (string * list N).

Fixpoint lget (k : string) (s : lfs) : option (list N) :=
  match s with
  | [] => None
  | (k', v) :: t => if String.eqb k k' then Some v else lget k t
  end.

Fixpoint lremove (k : string) (s : lfs) : lfs :=
  match s with
  | [] => []
  | (k', v) :: t => if String.eqb k k' then lremove k t else (k', v) :: lremove k t
  end.

Inductive lres := LOk | LExists | LNotFound.

(* Put: O_CREATE|O_TRUNC, plus O_EXCL for a create-if-absent write *)
Definition lput (k : string) (v : list N) (excl : bool) (s : lfs) : lres * lfs :=
  match lget k s with
  | Some _ => if excl then (LExists, s) else (LOk, (k, v) :: lremove k s)
  | None => (LOk, (k, v) :: s)
  end.

(* Delete: removing a missing key is not an error *)
Definition ldelete (k : string) (s : lfs) : lfs := lremove k s.
(* Clear: every key is gone; the store stays usable *)
Definition lclear (s : lfs) : lfs := [].
Definition lhas (k : string) (s : lfs) : bool := match lget k s with Some _ => true | None => false end.

Definition list_all (prefix delim : string) (s : lfs) : list string := list_keys prefix delim (map fst s).

Definition exact_seek (tok : string) (l : list string) : list string :=
  match find_eq tok l with Some r => r | None => [] end.

(* one KeysPrefix call; the token is "" for the first page *)
Definition keys_prefix (token prefix delim : string) (count : nat) (s : lfs) : list string * option string :=
  page exact_seek (if String.eqb token EmptyString then None else Some token) count (list_all prefix delim s).

(* histories *)
Inductive lop :=
| OpPut (k : string) (v : list N) (excl : bool)
| OpGet (k : string)
| OpHas (k : string)
| OpDelete (k : string)
| OpClear
| OpList (prefix delim : string) (count : nat).   (* a complete paged listing *)

Inductive lobs :=
| ObsRes (r : lres)
| ObsData (d : option (list N))
| ObsBool (b : bool)
| ObsKeys (ks : option (list string)).

Definition lstep (s : lfs) (o : lop) : lfs * lobs :=
  match o with
  | OpPut k v e => let '(r, s') := lput k v e s in (s', ObsRes r)
  | OpGet k => (s, ObsData (lget k s))
  | OpHas k => (s, ObsBool (lhas k s))
  | OpDelete k => (ldelete k s, ObsRes LOk)
  | OpClear => (lclear s, ObsRes LOk)
  | OpList p d c => (s, ObsKeys (all_pages exact_seek (S (List.length (list_all p d s))) None c (list_all p d s)))
  end.

Fixpoint lrun (s : lfs) (ops : list lop) : list lobs :=
  match ops with
  | [] => []
  | o :: t => let '(s', ob) := lstep s o in ob :: lrun s' t
  end.
