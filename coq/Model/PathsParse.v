(* Model of the path parsers of pkg/model (hand-written from GetArchivePathComponents,
   GetConsumableStorePathMetadata, ReverseIndexChunk, IsGeneratedFile); the builders are in
   Gen/Paths.v, regenerated from the source. *)
From Coq Require Import List String Ascii NArith Bool Lia.
From DM Require Import Base.Str Gen.Paths.
Import ListNotations.
Open Scope string_scope.

Record comps := {
  c_repo : string; c_bundle : string; c_file : string; c_label : string; c_context : string;
  c_diamond : string; c_split : string; c_gen : string; c_final : bool }.

Definition no_comps : comps :=
  {| c_repo := ""; c_bundle := ""; c_file := ""; c_label := ""; c_context := "";
     c_diamond := ""; c_split := ""; c_gen := ""; c_final := false |}.

Definition strip_prefix (p s : string) : option string :=
  if starts_with p s then Some (drop (String.length p) s) else None.

Fixpoint take (n : nat) (s : string) : string :=
  match n, s with
  | O, _ => ""
  | S n', String c t => String c (take n' t)
  | S _, EmptyString => ""
  end.

Definition strip_suffix (suf s : string) : option string :=
  if ends_with suf s then Some (take (String.length s - String.length suf) s) else None.

(* ^bundle-files-(\d+)\.yaml$ *)
Definition index_of_file (s : string) : option string :=
  match strip_prefix bundleFilesIndexPrefix s with
  | Some r => match strip_suffix ".yaml" r with
              | Some d => if negb (String.eqb d "") && all_chars is_digit d then Some d else None
              | None => None
              end
  | None => None
  end.
Definition is_index_file (s : string) : bool := match index_of_file s with Some _ => true | None => false end.

(* ksuid.Parse succeeds: 27 characters not above the maximal encoding.  Only base-62 strings
   are ever given to the model (the library does not validate the alphabet). *)
Definition is_base62 (c : ascii) : bool :=
  let n := N_of_ascii c in
  ((48 <=? n) && (n <=? 57) || (65 <=? n) && (n <=? 90) || (97 <=? n) && (n <=? 122))%N.
Fixpoint str_leb (a b : string) : bool :=
  match a, b with
  | EmptyString, _ => true
  | String _ _, EmptyString => false
  | String x a', String y b' =>
      if (N_of_ascii x <? N_of_ascii y)%N then true
      else if (N_of_ascii y <? N_of_ascii x)%N then false else str_leb a' b'
  end.
Definition max_ksuid : string := "aWgEPTl1tmebfsQzFP4bxwgy80V".
Definition is_ksuid (s : string) : bool :=
  Nat.eqb (String.length s) 27 && all_chars is_base62 s && str_leb s max_ksuid.

Definition nth_s (l : list string) (n : nat) : string := nth n l "".

(* GetArchivePathComponents; None = error *)
Definition get_components (p : string) : option comps :=
  let cs := splitn 7 p in
  let len := List.length cs in
  let head := nth_s cs 0 in
  if String.eqb head "labels" then
    if Nat.ltb len 4 then None
    else if negb (String.eqb (nth_s cs 3) labelDescriptorFile) then None
    else Some {| c_repo := nth_s cs 1; c_bundle := ""; c_file := nth_s cs 3; c_label := nth_s cs 2; c_context := "";
                 c_diamond := ""; c_split := ""; c_gen := ""; c_final := false |}
  else if String.eqb head "repos" then
    if Nat.ltb len 3 then None
    else if negb (String.eqb (nth_s cs 2) repoDescriptorFile) then None
    else Some {| c_repo := nth_s cs 1; c_bundle := ""; c_file := nth_s cs 2; c_label := ""; c_context := "";
                 c_diamond := ""; c_split := ""; c_gen := ""; c_final := false |}
  else if String.eqb head "bundles" then
    if Nat.ltb len 4 then None
    else if String.eqb (nth_s cs 3) "" || String.eqb (nth_s cs 3) bundleDescriptorFile || is_index_file (nth_s cs 3) then
      Some {| c_repo := nth_s cs 1; c_bundle := nth_s cs 2; c_file := nth_s cs 3; c_label := ""; c_context := "";
              c_diamond := ""; c_split := ""; c_gen := ""; c_final := false |}
    else None
  else if String.eqb head "contexts" then
    if Nat.ltb len 3 then None
    else Some {| c_repo := ""; c_bundle := ""; c_file := nth_s cs 2; c_label := ""; c_context := nth_s cs 1;
                 c_diamond := ""; c_split := ""; c_gen := ""; c_final := false |}
  else if String.eqb head "diamonds" then
    if Nat.ltb len 4 then None
    else
      let did := nth_s cs 2 in
      if negb (is_ksuid did) then None
      else if String.eqb (nth_s cs 3) "" || String.eqb (nth_s cs 3) diamondInitialDescriptorFile
              || String.eqb (nth_s cs 3) diamondFinalDescriptorFile then
        Some {| c_repo := nth_s cs 1; c_bundle := ""; c_file := nth_s cs 3; c_label := ""; c_context := "";
                c_diamond := did; c_split := ""; c_gen := "";
                c_final := String.eqb (nth_s cs 3) diamondFinalDescriptorFile |}
      else if Nat.ltb len 5 then None
      else
        let sid := nth_s cs 4 in
        if String.eqb sid "" then
          Some {| c_repo := nth_s cs 1; c_bundle := ""; c_file := ""; c_label := ""; c_context := "";
                  c_diamond := did; c_split := ""; c_gen := ""; c_final := false |}
        else if Nat.ltb len 6 then None
        else if String.eqb (nth_s cs 5) "" || String.eqb (nth_s cs 5) splitInitialDescriptorFile
                || String.eqb (nth_s cs 5) splitFinalDescriptorFile then
          Some {| c_repo := nth_s cs 1; c_bundle := ""; c_file := nth_s cs 5; c_label := ""; c_context := "";
                  c_diamond := did; c_split := sid; c_gen := "";
                  c_final := String.eqb (nth_s cs 5) splitFinalDescriptorFile |}
        else if Nat.ltb 6 len then
          let gid := nth_s cs 5 in
          if negb (is_ksuid gid) then None
          else if Nat.ltb 7 len || negb (is_index_file (nth_s cs 6)) then None
          else Some {| c_repo := nth_s cs 1; c_bundle := ""; c_file := nth_s cs 6; c_label := ""; c_context := "";
                       c_diamond := did; c_split := sid; c_gen := gid;
                       c_final := String.eqb (nth_s cs 5) splitFinalDescriptorFile |}
        else None
  else None.

(* ---- consumable-store metadata paths ---- *)
(* greedy "anything PAT anything": split at the last occurrence of PAT *)
Fixpoint split_last (pat s : string) : option (string * string) :=
  match s with
  | EmptyString => None
  | String c t =>
      match split_last pat t with
      | Some (a, b) => Some (String c a, b)
      | None => if starts_with pat s then Some ("", drop (String.length pat) s) else None
      end
  end.

Fixpoint nodash (s : string) : bool :=
  match s with EmptyString => true | String c t => negb (Ascii.eqb c "-") && nodash t end.

Definition two64 : N := 18446744073709551616.

Inductive cmeta := MetaDescriptor (bundle : string) | MetaFileList (bundle : string) (index : N).

(* GetConsumableStorePathMetadata (index read with strconv.ParseUint(.., 10, 64)) *)
Definition consumable_meta (p : string) : option cmeta :=
  match strip_prefix ".datamon/" p with
  | None => None
  | Some r =>
    match strip_suffix ".yaml" r with
    | None => None
    | Some name =>
      match split_last ("-" ++ bundleFilesIndexPrefix) name with
      | None => Some (MetaDescriptor name)
      | Some (b, i) =>
          if negb (String.eqb i "") && all_chars is_digit i then
            match undec i with
            | Some n => if (n <? two64)%N then Some (MetaFileList b n) else None
            | None => None
            end
          else None
      end
    end
  end.

Definition consumable_path_to_bundle (b : string) : string := ".datamon/" ++ b ++ ".yaml".
Definition consumable_path_to_filelist (b : string) (i : N) : string :=
  ".datamon/" ++ b ++ "-bundle-files-" ++ dec i ++ ".yaml".

(* ---- reverse index chunks ---- *)
Definition reverse_index_file (chunk : N) : string :=
  reverseIndexFile ++ "/" ++ indexFilePrefix ++ dec chunk ++ ".yaml".

(* ---- IsGeneratedFile: the alternatives of genFileRe, one boolean each ---- *)
Definition under (dir p : string) : bool := String.eqb p dir || starts_with (dir ++ "/") p.
Definition is_generated (p : string) : bool :=
  under ".datamon" p || under "/.datamon" p || under "./.datamon" p
  || under ".conflicts" p || under "/.conflicts" p || under "./.conflicts" p
  || under ".checkpoints" p || under "/.checkpoints" p || under "./.checkpoints" p.

(* documented reading: after an optional leading "./" or "/" the path is one of the three reserved
   names or lies below it *)
Definition strip_lead (p : string) : list string :=
  p :: (match strip_prefix "./" p with Some r => [r] | None => [] end)
    ++ (match strip_prefix "/" p with Some r => [r] | None => [] end).
Definition is_reserved_spec (p : string) : bool :=
  existsb (fun q => under ".datamon" q || under ".conflicts" q || under ".checkpoints" q) (strip_lead p).
