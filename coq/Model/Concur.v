(* C15: concurrent operations over shared stores, seen as the ordered log of their writes.  Blob keys
   are content addresses: whoever writes a key writes the same bytes.  Metadata objects of an
   operation live under keys of its own, written create-if-absent. *)
From Coq Require Import List String Ascii NArith Bool Arith.
From DM Require Import Base.Util Base.Str.
Import ListNotations.
Open Scope list_scope.

Record put := { p_op : nat; p_store : string; p_key : string; p_digest : string; p_excl : bool; p_ok : bool }.

Notation kvs := (list ((string * string) * string)) (only parsing).   (* (store, key) -> digest of the content *)

Definition key_eqb (a b : string * string) : bool := String.eqb (fst a) (fst b) && String.eqb (snd a) (snd b).

Fixpoint lookup (k : string * string) (s : kvs) : option string :=
  match s with
  | [] => None
  | (k', d) :: t => if key_eqb k k' then Some d else lookup k t
  end.

Fixpoint set (k : string * string) (d : string) (s : kvs) : kvs :=
  match s with
  | [] => [(k, d)]
  | (k', d') :: t => if key_eqb k k' then (k, d) :: t else (k', d') :: set k d t
  end.

(* one write: create-if-absent refuses an existing key *)
Definition apply_put (s : kvs) (p : put) : kvs * bool :=
  let k := (p_store p, p_key p) in
  match lookup k s with
  | Some _ => if p_excl p then (s, false) else (set k (p_digest p) s, true)
  | None => (set k (p_digest p) s, true)
  end.

Definition replay (trace : list put) (s : kvs) : kvs := fold_left (fun s p => fst (apply_put s p)) trace s.

(* the discipline of a content-addressed store: one key, one content *)
Definition agrees (p q : put) : bool :=
  negb (String.eqb (p_store p) (p_store q) && String.eqb (p_key p) (p_key q)) || String.eqb (p_digest p) (p_digest q).
Definition content_addressed (store : string) (trace : list put) : bool :=
  let bs := filter (fun p => String.eqb (p_store p) store) trace in
  forallb (fun p => forallb (agrees p) bs) bs.
