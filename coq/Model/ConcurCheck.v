(* Executable comparison for C15 case files. *)
From Coq Require Import List String Ascii NArith Bool Arith.
From DM Require Import Base.Util Base.Str Model.Concur.
Import ListNotations.
Open Scope list_scope.

Record cop := {
  co_kind : string;
  co_completed : bool;
  co_solo : string;                      (* digest of what the operation produces alone *)
  co_conc : string;                      (* digest of what it produced in the concurrent run *)
  co_blobs : list (string * string)      (* blob writes of the solo run: key, digest *)
}.

Record ccase := {
  cc_initial : list (string * string);   (* blob store before the run: key, digest *)
  cc_trace : list put;                   (* writes of the concurrent run, in the order they took effect *)
  cc_ops : list cop;
  cc_races : nat                         (* data races reported by the race detector *)
}.

Definition initial_store (c : ccase) : list ((string * string) * string) :=
  map (fun kd => (("blob"%string, fst kd), snd kd)) (cc_initial c).

Definition as_puts (c : ccase) : list put :=
  map (fun kd => {| p_op := 0; p_store := "blob"; p_key := fst kd; p_digest := snd kd; p_excl := false; p_ok := true |}) (cc_initial c)
  ++ flat_map (fun o => map (fun kd => {| p_op := 0; p_store := "blob"; p_key := fst kd; p_digest := snd kd; p_excl := false; p_ok := true |}) (co_blobs o)) (cc_ops c).

(* model side: the log obeys the discipline, also against what each operation writes alone, the
   outcome of each create-if-absent write is what the model store gives, and the final store holds
   every blob each operation needs with the content it would have written alone *)
Fixpoint outcomes_ok (trace : list put) (s : list ((string * string) * string)) : bool :=
  match trace with
  | [] => true
  | p :: t => let '(s', ok) := apply_put s p in Bool.eqb ok (p_ok p) && outcomes_ok t s'
  end.

Definition case_mismatch (c : ccase) : bool :=
  negb (content_addressed "blob" (as_puts c ++ cc_trace c)) ||
  negb (outcomes_ok (cc_trace c) (initial_store c)) ||
  negb (forallb (fun o => forallb (fun kd => match lookup ("blob"%string, fst kd) (replay (cc_trace c) (initial_store c)) with
                                             | Some d => String.eqb d (snd kd) | None => false end) (co_blobs o)) (cc_ops c)).

(* the statement: all complete, each result is the result of the operation alone, no data race *)
Definition spec_ok (c : ccase) : bool :=
  Nat.eqb (cc_races c) 0 &&
  forallb (fun o => co_completed o && String.eqb (co_solo o) (co_conc o)) (cc_ops c).

Definition report (cs : list ccase) : list N * list N :=
  (indices case_mismatch cs, indices (fun c => negb (spec_ok c)) cs).
