(* Executable comparison for C04 (and C05) case files. *)
From Coq Require Import List String Ascii NArith Bool Arith.
From DM Require Import Base.Util Base.Str Base.StrOrder Model.PathsParse Model.Meta Model.Bundle.
Import ListNotations.
Open Scope list_scope.

Definition bs (l : list N) : string := string_of_list_ascii (map ascii_of_N l).

Inductive sel :=
| SAll
| SPrefix (p : string)
| SSuffix (s : string)
| SNot (a : sel)
| SOr (a b : sel)
| SOne (name : string).     (* PublishFile of one name *)

Fixpoint sel_fn (s : sel) (n : string) : bool :=
  match s with
  | SAll => true
  | SPrefix p => starts_with p n
  | SSuffix x => ends_with x n
  | SNot a => negb (sel_fn a n)
  | SOr a b => sel_fn a n || sel_fn b n
  | SOne x => String.eqb x n
  end.

Definition entry_eqb (a b : entry) : bool :=
  String.eqb (e_name a) (e_name b) && String.eqb (e_hash a) (e_hash b) && N.eqb (e_size a) (e_size b).

Fixpoint entries_eqb (a b : list entry) : bool :=
  match a, b with
  | [], [] => true
  | x :: a', y :: b' => entry_eqb x y && entries_eqb a' b'
  | _, _ => false
  end.

(* stable insertion sort by name; linear on input that is already sorted *)
Fixpoint insert_entry (e : entry) (l : list entry) : list entry :=
  match l with
  | [] => [e]
  | x :: t => if String.leb (e_name e) (e_name x) then e :: l else x :: insert_entry e t
  end.
Definition sort_entries (l : list entry) : list entry := fold_right insert_entry [] l.

Definition pairs_eqb (a b : list (string * string)) : bool :=
  Nat.eqb (List.length a) (List.length b) &&
  forallb (fun xy => String.eqb (fst (fst xy)) (fst (snd xy)) && String.eqb (snd (fst xy)) (snd (snd xy))) (combine a b).

Definition opairs_eqb (a b : option (list (string * string))) : bool :=
  match a, b with Some x, Some y => pairs_eqb x y | None, None => true | _, _ => false end.

Record bcase := {
  bc_files : list file;                 (* the consumable store, sorted by name *)
  bc_keys : option (list string);       (* explicit key list *)
  bc_skip : bool;
  bc_E : nat;
  bc_up_ok : bool;                      (* observed: the upload succeeded *)
  bc_entries : list entry;              (* observed: listed entries, sorted by name *)
  bc_index_sizes : list nat;            (* observed: entries per index file *)
  bc_count : N;                         (* observed: index file count of the descriptor *)
  bc_downloads : list (sel * option (list (string * string))) (* observed: (name, key of the bytes) sorted by name *)
}.

Definition names_of (c : bcase) : list string :=
  match bc_keys c with Some ks => ks | None => map f_name (bc_files c) end.

(* repeated names in an explicit key list name the same file once *)
Fixpoint dedup_names (l : list string) (seen : list string) : list string :=
  match l with
  | [] => []
  | x :: t => if existsb (String.eqb x) seen then dedup_names t seen else x :: dedup_names t (x :: seen)
  end.

Definition expected_entries (c : bcase) : option (list entry) :=
  option_map sort_entries (upload_entries (dedup_names (names_of c) []) (bc_files c) (bc_skip c)).

Definition download_model (es : list entry) (s : sel) : option (list (string * string)) :=
  match s with
  | SOne n => if existsb (fun e => String.eqb (e_name e) n) es then download_files es (sel_fn s) [] else None
  | _ => download_files es (sel_fn s) []
  end.

Definition case_mismatch (c : bcase) : bool :=
  negb match expected_entries c with
       | None => negb (bc_up_ok c)
       | Some es =>
           bc_up_ok c && entries_eqb es (bc_entries c) &&
           forallb (fun p => Nat.eqb (fst p) (snd p)) (combine (map (@List.length entry) (chunk (bc_E c) es)) (bc_index_sizes c)) &&
           Nat.eqb (List.length (chunk (bc_E c) es)) (List.length (bc_index_sizes c)) &&
           N.eqb (bc_count c) (N.of_nat (List.length (bc_index_sizes c))) &&
           forallb (fun d => opairs_eqb (download_model es (fst d)) (snd d)) (bc_downloads c)
       end.

(* the property, read off the statement: entries = the listed, existing, non-generated files,
   one-to-one; index files full except the last; every download = the selected files, with
   the right bytes *)
Definition spec_entries (c : bcase) : list entry :=
  sort_entries (map entry_of (filter (fun f => negb (is_reserved_spec (f_name f)) &&
                                       existsb (String.eqb (f_name f)) (names_of c)) (bc_files c))).

Definition all_listed_exist (c : bcase) : bool :=
  forallb (fun n => is_reserved_spec n || existsb (fun f => String.eqb (f_name f) n) (bc_files c)) (names_of c).

Fixpoint sizes_ok (E : nat) (l : list nat) : bool :=
  match l with
  | [] => true
  | [x] => Nat.ltb 0 x && Nat.leb x E
  | x :: t => Nat.eqb x E && sizes_ok E t
  end.

Definition spec_ok (c : bcase) : bool :=
  if negb (bc_up_ok c) then negb (bc_skip c) && negb (all_listed_exist c)      (* refusal only for a missing file *)
  else
    entries_eqb (spec_entries c) (bc_entries c) &&
    sizes_ok (bc_E c) (bc_index_sizes c) &&
    Nat.eqb (fold_right Nat.add 0 (bc_index_sizes c)) (List.length (bc_entries c)) &&
    N.eqb (bc_count c) (N.of_nat (List.length (bc_index_sizes c))) &&
    forallb (fun d =>
      match snd d, fst d with
      | None, SOne n => negb (existsb (fun e => String.eqb (e_name e) n) (bc_entries c))
      | None, _ => false
      | Some got, s =>
          pairs_eqb got (map (fun e => (e_name e, e_hash e)) (filter (fun e => sel_fn s (e_name e)) (bc_entries c)))
      end) (bc_downloads c).

Definition report (cs : list bcase) : list N * list N :=
  (indices case_mismatch cs, indices (fun c => negb (spec_ok c)) cs).
