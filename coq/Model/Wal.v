(* C19: the write-ahead log.  A token is a KSUID: a 32-bit time in seconds followed by 128 random
   bits, compared as one 160-bit number (the order of its base-62 text).  The log is the list of
   stored (token, payload) objects in token order; a listing starts two look-back periods (20 min)
   before the time of the given token and returns at most max (at most 1000) entries. *)
From Coq Require Import List NArith Bool Arith String.
From DM Require Import Base.Util Gen.Consts.
Import ListNotations.
Open Scope N_scope.

Definition two128 : N := 2 ^ 128.
Definition token_of (time rand : N) : N := time * two128 + rand mod two128.
Definition time_of (tok : N) : N := tok / two128.

Notation log := (list (N * string)) (only parsing).

(* insertion in token order; an existing token is never overwritten *)
Fixpoint append_entry (tok : N) (p : string) (l : log) : log :=
  match l with
  | [] => [(tok, p)]
  | (t, q) :: rest =>
      if tok <? t then (tok, p) :: l
      else if tok =? t then l
      else (t, q) :: append_entry tok p rest
  end.

Definition lookback : N := N.of_nat (2 * walExpirationSeconds).       (* twice the expiration (Gen/Consts.v, from pkg/wal) *)
Definition list_start (from : N) : N := (time_of from - lookback) * two128.   (* truncated subtraction: times before the window start at 0 *)

Definition list_entries (from : N) (max : nat) (l : log) : log :=
  firstn (Nat.min max walMaxEntriesPerList) (filter (fun e => list_start from <=? fst e) l).

Definition add_all (es : list (N * string)) : log := fold_left (fun l e => append_entry (fst e) (snd e) l) es [].
