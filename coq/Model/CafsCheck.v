(* Executable comparison for the C01 / C02 / C03 case files (H = BLAKE2b tree mode). *)
From Coq Require Import List NArith Arith Bool.
From DM Require Import Base.Util Model.Blake2b Model.Cafs.
Import ListNotations.

Definition HB (leaf off depth : N) (last : bool) (d : list N) : list N := blake2b_tree leaf off depth last d.

Inductive robs := OOk (d : list N) | OHang | OPanic | OErr.

Inductive probe :=
| PSeq (bufs : list nat) (orc : list (nat * bool)) (obs : robs)
| PAt (off n : nat) (obs : robs)
| PWriteToAt (obs : robs)          (* the destination file after WriteTo through a WriterAt *)
| PWriteTo (obs : robs)            (* the bytes received by a plain Writer (io.Copy, 32 KiB buffer) *)
| PWarmSeq (obs : robs)            (* a whole sequential read through an instance that had read the object before the damage *)
| PWarmAt (off n : nat) (obs : robs).

Record put_obs := { po_class : N (* 0 ok 1 hang 2 panic 3 err *); po_written : nat; po_key : list N;
                    po_keys : list (list N); po_found : bool }.

Record ccase := {
  cc_L : nat;
  cc_pre : bstore;
  cc_chunks : list (list N);
  cc_put : put_obs;
  cc_pykey : list N;                       (* key computed by Python hashlib for the same content *)
  cc_after : bstore;                       (* implementation's blob store after the Put *)
  cc_damage : list (list N * option (list N));  (* then: set / remove blobs *)
  cc_probes : list probe }.

Fixpoint keys_eqb (a b : list (list N)) : bool :=
  match a, b with
  | [], [] => true
  | x :: a', y :: b' => bytes_eqb x y && keys_eqb a' b'
  | _, _ => false
  end.

Definition store_sub (a b : bstore) : bool :=
  forallb (fun kv => match lookup (fst kv) b with Some v => bytes_eqb v (snd kv) | None => false end) a.
Definition store_eqb (a b : bstore) : bool := store_sub a b && store_sub b a.

Definition robs_eqb (a b : robs) : bool :=
  match a, b with
  | OOk x, OOk y => bytes_eqb x y
  | OHang, OHang | OPanic, OPanic | OErr, OErr => true
  | _, _ => false
  end.

Definition of_outcome (o : outcome (list N)) : robs :=
  match o with Ok d => OOk d | Hang => OHang | Panic => OPanic | Err => OErr end.

Fixpoint remove_key (k : list N) (s : bstore) : bstore :=
  match s with
  | [] => []
  | (k', v) :: t => if bytes_eqb k k' then remove_key k t else (k', v) :: remove_key k t
  end.

Definition damage (s : bstore) (ops : list (list N * option (list N))) : bstore :=
  fold_left (fun s op => match snd op with Some v => put_over (fst op) v s | None => remove_key (fst op) s end) ops s.

Definition file_bytes (f : file) (n : nat) : list N :=
  flat_map (fun i => match file_get f i with Some b => [b] | None => [0%N] end) (seq 0%nat n).

Definition file_extent (f : file) : nat := fold_left (fun m p => Nat.max m (S (fst p))) f 0%nat.

Definition model_probe (L : nat) (root : list N) (s : bstore) (p : probe) : robs :=
  match p with
  | PSeq bufs orc _ => of_outcome (read_seq HB L root s bufs orc)
  | PAt off n _ => of_outcome (read_at HB L root s off n)
  | PWriteToAt _ =>
      match leaves_for_hash HB L root s with
      | None => OErr
      | Some ks => match write_to_at HB L s (length ks) (index_from 0%nat ks) [] with
                   | Ok f => OOk (file_bytes f (file_extent f))
                   | _ => OErr
                   end
      end
  | PWriteTo _ => of_outcome (read_seq HB L root s (repeat 32768%nat (S (length (concat (map snd s))))) [])
  | PWarmSeq o | PWarmAt _ _ o => o      (* caches may or may not be hit: not predicted, only judged *)
  end.

Definition probe_obs (p : probe) : robs :=
  match p with PSeq _ _ o | PAt _ _ o | PWriteToAt o | PWriteTo o | PWarmSeq o | PWarmAt _ _ o => o end.

Definition content (c : ccase) : list N := concat (cc_chunks c).

(* ---- model versus implementation ---- *)
Definition put_mismatch (c : ccase) : bool :=
  negb match put HB (cc_L c) (cc_chunks c) (cc_pre c) with
       | Ok r => N.eqb (po_class (cc_put c)) 0 && Nat.eqb (pr_written r) (po_written (cc_put c))
                 && bytes_eqb (pr_key r) (po_key (cc_put c)) && keys_eqb (pr_keys r) (po_keys (cc_put c))
                 && Bool.eqb (pr_found r) (po_found (cc_put c)) && store_eqb (pr_store r) (cc_after c)
       | Hang => N.eqb (po_class (cc_put c)) 1
       | Panic => N.eqb (po_class (cc_put c)) 2
       | Err => N.eqb (po_class (cc_put c)) 3
       end.

Definition probes_mismatch (c : ccase) : bool :=
  let s := damage (cc_after c) (cc_damage c) in
  existsb (fun p => negb (robs_eqb (model_probe (cc_L c) (po_key (cc_put c)) s p) (probe_obs p))) (cc_probes c).

Definition case_mismatch (c : ccase) : bool := put_mismatch c || probes_mismatch c.

(* ---- the properties on the implementation's observations ---- *)
Definition expected_probe (c : ccase) (p : probe) : list N :=
  match p with
  | PAt off n _ | PWarmAt off n _ => firstn n (skipn off (content c))
  | _ => content c
  end.

(* C01: the Put succeeds, reports the content length, and every read style returns the bytes *)
Definition c01_ok (c : ccase) : bool :=
  N.eqb (po_class (cc_put c)) 0 && Nat.eqb (po_written (cc_put c)) (length (content c)) &&
  match cc_damage c with
  | [] => forallb (fun p => robs_eqb (probe_obs p) (OOk (expected_probe c p))) (cc_probes c)
  | _ => true
  end.

(* C02: the key is the tree hash of the content (and equals the independent hashlib value), a
   duplicate is reported exactly when the root blob was already there, existing non-empty blobs
   keep their bytes *)
Definition c02_ok (c : ccase) : bool :=
  N.eqb (po_class (cc_put c)) 0 &&
  bytes_eqb (po_key (cc_put c)) (tree_key HB (cc_L c) (content c)) &&
  bytes_eqb (po_key (cc_put c)) (cc_pykey c) &&
  Bool.eqb (po_found (cc_put c)) (found_nonempty (tree_key HB (cc_L c) (content c)) (cc_pre c)) &&
  forallb (fun kv => match snd kv with
                     | [] => true
                     | _ => match lookup (fst kv) (cc_after c) with Some v => bytes_eqb v (snd kv) | None => false end
                     end) (cc_pre c).

(* C03: on a damaged store a read either fails or returns the right bytes *)
Definition c03_ok (c : ccase) : bool :=
  forallb (fun p => match probe_obs p with
                    | OOk d => bytes_eqb d (expected_probe c p)
                    | OErr => true
                    | OHang | OPanic => false
                    end) (cc_probes c).

(* Objects with production leaf sizes (1 .. 5 MiB) are too large to evaluate inside Coq: for them
   the harness compares the bytes itself and reports, per probe, the outcome class and whether
   the bytes were the expected ones; the model is not run (the theorems hold for every L). *)
Record bigcase := { bg_L : N; bg_len : N; bg_put_ok : bool; bg_written_ok : bool;
                    bg_probes : list (N * bool) }.
Inductive xcase := Small (c : ccase) | Big (b : bigcase).

Definition big_ok (b : bigcase) : bool :=
  bg_put_ok b && bg_written_ok b && forallb (fun p => N.eqb (fst p) 0 && snd p) (bg_probes b).

Definition report01 (cs : list xcase) :=
  (indices (fun x => match x with Small c => case_mismatch c | Big _ => false end) cs,
   indices (fun x => match x with Small c => negb (c01_ok c) | Big b => negb (big_ok b) end) cs).
Definition report02 (cs : list ccase) := (indices put_mismatch cs, indices (fun c => negb (c02_ok c)) cs).
Definition report03 (cs : list ccase) := (indices probes_mismatch cs, indices (fun c => negb (c03_ok c)) cs).
