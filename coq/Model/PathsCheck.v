(* Executable comparison for C20 case files. *)
From Coq Require Import List String Ascii NArith Bool.
From DM Require Import Base.Util Base.Str Gen.Paths Model.PathsParse.
Import ListNotations.
Open Scope string_scope.

Definition bs (l : list N) : string := string_of_list_ascii (map ascii_of_N l).

Definition comps_eqb (a b : comps) : bool :=
  String.eqb (c_repo a) (c_repo b) && String.eqb (c_bundle a) (c_bundle b) && String.eqb (c_file a) (c_file b)
  && String.eqb (c_label a) (c_label b) && String.eqb (c_context a) (c_context b)
  && String.eqb (c_diamond a) (c_diamond b) && String.eqb (c_split a) (c_split b)
  && String.eqb (c_gen a) (c_gen b) && Bool.eqb (c_final a) (c_final b).

Definition ocomps_eqb (a b : option comps) : bool :=
  match a, b with Some x, Some y => comps_eqb x y | None, None => true | _, _ => false end.

Definition cmeta_eqb (a b : option cmeta) : bool :=
  match a, b with
  | Some (MetaDescriptor x), Some (MetaDescriptor y) => String.eqb x y
  | Some (MetaFileList x i), Some (MetaFileList y j) => String.eqb x y && N.eqb i j
  | None, None => true
  | _, _ => false
  end.

(* ASCII part of the documented alphabets; non-ASCII runes are judged by the harness table *)
Definition is_upper (c : ascii) : bool := let n := N_of_ascii c in (65 <=? n)%N && (n <=? 90)%N.
Definition is_lower (c : ascii) : bool := let n := N_of_ascii c in (97 <=? n)%N && (n <=? 122)%N.
Definition repo_char_ok (c : ascii) : bool :=
  if (N_of_ascii c <? 128)%N then is_digit c || is_upper c || is_lower c || Ascii.eqb c "-" else true.
Definition label_char_ok (c : ascii) : bool := repo_char_ok c || Ascii.eqb c "_".
Definition repo_name_ok (s : string) : bool := negb (String.eqb s "") && all_chars repo_char_ok s.
Definition label_name_ok (s : string) : bool := negb (String.eqb s "") && all_chars label_char_ok s.

Inductive bkind :=
| BRepo (repo : string) | BLabel (repo label : string) | BBundle (repo b : string)
| BBundleFL (repo b : string) (i : N) | BDiamond (repo d : string) (final : bool)
| BSplit (repo d s : string) (final : bool) | BSplitFL (repo d s g : string) (i : N)
| BPrefixBundles (repo : string) | BPrefixLabels (repo : string) (prefixes : list string)
| BPrefixDiamonds (repo : string) | BPrefixSplits (repo d : string) | BPrefixRepos.

Definition build (k : bkind) : string :=
  match k with
  | BRepo r => GetArchivePathToRepoDescriptor r
  | BLabel r l => GetArchivePathToLabel r l
  | BBundle r b => GetArchivePathToBundle r b
  | BBundleFL r b i => GetArchivePathToBundleFileList r b i
  | BDiamond r d f => if f then GetArchivePathToFinalDiamond r d else GetArchivePathToInitialDiamond r d
  | BSplit r d s f => if f then GetArchivePathToFinalSplit r d s else GetArchivePathToInitialSplit r d s
  | BSplitFL r d s g i => GetArchivePathToSplitFileList r d s g i
  | BPrefixBundles r => GetArchivePathPrefixToBundles r
  | BPrefixLabels r ps => GetArchivePathPrefixToLabels r ps
  | BPrefixDiamonds r => GetArchivePathPrefixToDiamonds r
  | BPrefixSplits r d => GetArchivePathPrefixToSplits r d
  | BPrefixRepos => GetArchivePathPrefixToRepos
  end.

(* what the parser must return on a built path when the components are valid *)
Definition expected_comps (k : bkind) : option comps :=
  let mk r b f l d s g fin :=
    Some {| c_repo := r; c_bundle := b; c_file := f; c_label := l; c_context := "";
            c_diamond := d; c_split := s; c_gen := g; c_final := fin |} in
  match k with
  | BRepo r => mk r "" repoDescriptorFile "" "" "" "" false
  | BLabel r l => mk r "" labelDescriptorFile l "" "" "" false
  | BBundle r b => mk r b bundleDescriptorFile "" "" "" "" false
  | BBundleFL r b i => mk r b (bundleFilesIndexPrefix ++ dec i ++ ".yaml") "" "" "" "" false
  | BDiamond r d f => mk r "" (if f then diamondFinalDescriptorFile else diamondInitialDescriptorFile) "" d "" "" f
  | BSplit r d s f => mk r "" (if f then splitFinalDescriptorFile else splitInitialDescriptorFile) "" d s "" f
  | BSplitFL r d s g i => mk r "" (splitFilesIndexPrefix ++ dec i ++ ext) "" d s g false
  | _ => None
  end.

Definition valid_kind (k : bkind) : bool :=
  match k with
  | BRepo r => noslash r
  | BLabel r l => noslash r && noslash l
  | BBundle r b | BBundleFL r b _ => noslash r && noslash b
  | BDiamond r d _ => noslash r && is_ksuid d
  | BSplit r d s _ => noslash r && is_ksuid d && noslash s && negb (String.eqb s "")
  | BSplitFL r d s g _ => noslash r && is_ksuid d && noslash s && negb (String.eqb s "") && is_ksuid g
  | _ => false
  end.

Inductive pcase :=
| BuildCase (k : bkind) (built : string) (parsed : option comps)      (* builder output, parser on it *)
| ParseCase (p : string) (parsed : option comps)                        (* parser on an arbitrary string *)
| ConsDesc (b : string) (panicked : bool) (path : string) (meta : option cmeta)
| ConsFL (b : string) (i : N) (panicked : bool) (path : string) (meta : option cmeta)
| ConsParse (p : string) (meta : option cmeta)
| RevIndex (i : N) (path : string) (back : option N)
| GenFile (p : string) (obs : bool)
| ValidRepo (name : string) (nonascii_ok : bool) (obs : bool)
| ValidLabel (name : string) (nonascii_ok : bool) (obs : bool)
| Yaml (kind : string) (roundtrip_ok : bool).

Definition case_mismatch (c : pcase) : bool :=
  negb match c with
  | BuildCase k built parsed => String.eqb (build k) built && ocomps_eqb (get_components built) parsed
  | ParseCase p parsed => ocomps_eqb (get_components p) parsed
  | ConsDesc b panicked path meta =>
      (* the builder panics when its own inverse does not return the bundle id *)
      Bool.eqb panicked (negb (cmeta_eqb (consumable_meta (consumable_path_to_bundle b)) (Some (MetaDescriptor b))))
      && String.eqb path (consumable_path_to_bundle b) && cmeta_eqb (consumable_meta path) meta
  | ConsFL b i panicked path meta =>
      Bool.eqb panicked (negb (cmeta_eqb (consumable_meta (consumable_path_to_filelist b i)) (Some (MetaFileList b i))))
      && String.eqb path (consumable_path_to_filelist b i) && cmeta_eqb (consumable_meta path) meta
  | ConsParse p meta => cmeta_eqb (consumable_meta p) meta
  | RevIndex i path back =>
      String.eqb path (reverse_index_file i) &&
      match back with Some j => N.eqb i j | None => false end
  | GenFile p obs => Bool.eqb (is_generated p) obs
  | ValidRepo n na obs => Bool.eqb (repo_name_ok n && na) obs
  | ValidLabel n na obs => Bool.eqb (label_name_ok n && na) obs
  | Yaml _ ok => ok
  end.

(* the property judged on the implementation's own answers *)
Definition case_spec_ok (c : pcase) : bool :=
  match c with
  | BuildCase k built parsed =>
      if valid_kind k then ocomps_eqb parsed (expected_comps k) else true
  | ParseCase _ _ => true
  | ConsDesc b panicked path meta =>
      if nodash b then negb panicked && cmeta_eqb meta (Some (MetaDescriptor b)) else true
  | ConsFL b i panicked path meta =>
      if nodash b && (i <? two64)%N then negb panicked && cmeta_eqb meta (Some (MetaFileList b i)) else true
  | ConsParse _ _ => true
  | RevIndex i path back => match back with Some j => N.eqb i j | None => false end
  | GenFile p obs => Bool.eqb (is_reserved_spec p) obs
  | ValidRepo n na obs => Bool.eqb (repo_name_ok n && na) obs
  | ValidLabel n na obs => Bool.eqb (label_name_ok n && na) obs
  | Yaml _ ok => ok
  end.

Definition report (cs : list pcase) : list N * list N :=
  (indices case_mismatch cs, indices (fun c => negb (case_spec_ok c)) cs).
