(* Executable comparison for C21 case files. *)
From Coq Require Import List NArith Bool String Ascii.
From DM Require Import Base.Util Model.Param.
Import ListNotations.
Open Scope N_scope.

Definition bs (l : list N) : list N := l.

Fixpoint str_eqb (a b : list N) : bool :=
  match a, b with
  | [], [] => true
  | x :: a', y :: b' => (x =? y) && str_eqb a' b'
  | _, _ => false
  end.

Fixpoint lookup (k : list N) (l : list (list N * list N)) : option (list N) :=
  match l with
  | [] => None
  | (k', v) :: t => if str_eqb k k' then Some v else lookup k t
  end.

Definition kv_eqb (a b : list N * list N) : bool := str_eqb (fst a) (fst b) && str_eqb (snd a) (snd b).

Fixpoint kvs_eqb (a b : list (list N * list N)) : bool :=
  match a, b with
  | [], [] => true
  | x :: a', y :: b' => kv_eqb x y && kvs_eqb a' b'
  | _, _ => false
  end.

Definition opt_str_eqb (a b : option (list N)) : bool :=
  match a, b with Some x, Some y => str_eqb x y | None, None => true | _, _ => false end.

(* env maps are compared as finite maps *)
Definition env_eqb (model obs : option (list (list N * list N))) : bool :=
  match model, obs with
  | None, None => true
  | Some m, Some o =>
      Nat.eqb (List.length m) (List.length o) &&
      forallb (fun kv => opt_str_eqb (lookup (fst kv) m) (Some (snd kv))) o &&
      forallb (fun kv => opt_str_eqb (lookup (fst kv) o) (Some (snd kv))) m
  | _, _ => false
  end.

Definition dec_is (e : option (list N)) (want : list (list N * list N)) : bool :=
  match e with
  | Some s => match dec_string s with Some got => kvs_eqb got want | None => false end
  | None => false
  end.

Inductive pcase :=
| FuseCase (p : fuse_params) (obs : option (list (list N * list N)))
| PgCase (p : pg_params) (obs : option (list (list N * list N))).

Definition case_mismatch (c : pcase) : bool :=
  match c with
  | FuseCase p obs => negb (env_eqb (fuse_env p) obs)
  | PgCase p obs => negb (env_eqb (pg_env p) obs)
  end.

(* the property on the implementation's own output: every variable decodes to the given
   non-empty parameters; a refusal (None) is not a wrong answer *)
Definition case_spec_ok (c : pcase) : bool :=
  match c with
  | FuseCase p None | PgCase p None => true
  | FuseCase p (Some envs) =>
      Nat.eqb (List.length envs) (S (List.length (fp_bundles p))) &&
      dec_is (lookup (cp "dm_fuse_opts") envs) (expected (fuse_global_flags p) (fuse_global_fields p)) &&
      forallb (fun b => dec_is (lookup (cp "dm_fuse_bd_" ++ fb_name b) envs) (expected [] (fb_fields b))) (fp_bundles p)
  | PgCase p (Some envs) =>
      Nat.eqb (List.length envs) (S (List.length (pp_dbs p))) &&
      dec_is (lookup (cp "dm_pg_opts") envs) (expected (pg_global_flags p) (pg_global_fields p)) &&
      forallb (fun d => dec_is (lookup (cp "dm_pg_db_" ++ pd_name d) envs) (expected [] (pd_fields d))) (pp_dbs p)
  end.

Definition report (cs : list pcase) : list N * list N :=
  (indices case_mismatch cs, indices (fun c => negb (case_spec_ok c)) cs).
