(* The reference object store the core of datamon is written against (GCS contract), with decoded
   metadata objects as values: create-if-absent puts, deletes that fail on a missing key, sorted
   paged prefix listings whose continuation token is the first key of the next page. *)
From Coq Require Import List String Ascii NArith Bool Arith.
From DM Require Import Base.Str Base.StrOrder Base.Paging Base.Listing.
Import ListNotations.
Open Scope list_scope.

Record entry := { e_name : string; e_hash : string; e_size : N }.

Inductive mval :=
| VRepo (name : string)
| VBundle (id : string) (count : N)
| VIndex (es : list entry)
| VLabel (name bundle : string)
| VDiamond (id state bundle : string)
| VSplit (id state gen : string) (count : N)
| VOther.

Definition mstore := list (string * mval).

Fixpoint mget (k : string) (s : mstore) : option mval :=
  match s with
  | [] => None
  | (k', v) :: t => if String.eqb k k' then Some v else mget k t
  end.
Definition mhas (k : string) (s : mstore) : bool := match mget k s with Some _ => true | None => false end.

Fixpoint mremove (k : string) (s : mstore) : mstore :=
  match s with
  | [] => []
  | (k', v) :: t => if String.eqb k k' then mremove k t else (k', v) :: mremove k t
  end.

Inductive pres := POk | PExists.
Definition mput (k : string) (v : mval) (excl : bool) (s : mstore) : pres * mstore :=
  match mget k s with
  | Some _ => if excl then (PExists, s) else (POk, (k, v) :: mremove k s)
  | None => (POk, (k, v) :: s)
  end.

(* Delete of a missing key is an error *)
Definition mdelete (k : string) (s : mstore) : bool * mstore :=
  if mhas k s then (true, mremove k s) else (false, s).

Definition mkeys (s : mstore) : list string := map fst s.
Definition mlist (prefix delim : string) (s : mstore) : list string := list_keys prefix delim (mkeys s).

Definition start_seek (tok : string) (l : list string) : list string := drop_lt tok l.

(* one page of a listing *)
Definition mpage (token prefix delim : string) (count : nat) (s : mstore) : list string * option string :=
  page start_seek (if String.eqb token EmptyString then None else Some token) count (mlist prefix delim s).
