(* Executable comparison for C13 / C14 case files. *)
From Coq Require Import List String Ascii NArith Bool Arith.
From DM Require Import Base.Util Base.Str Model.Purge.
Import ListNotations.
Open Scope list_scope.

Record pbundle := { pb_files : list file_keys; pb_indexed : bool; pb_reads : bool }.

Record pcase := {
  pc_bundles : list pbundle;            (* the live bundles at the end: keys of their files, scanned by the index build?, read back? *)
  pc_chunk : nat;
  pc_attempts : list (bool * option nat);   (* resume?, chunks written before it died (None = ran to the end) *)
  pc_comparable : bool;                 (* the history holds no earlier purge cycle: the model can compute the index *)
  pc_index : list string;               (* keys listed by the stored index chunks *)
  pc_before : list (string * bool);     (* blob store before delete-unused: key, newer than the index? *)
  pc_after : list string;
  pc_success : bool;                    (* the last index build and delete-unused both reported success *)
  pc_panicked : bool;
  pc_faultfree : bool;
  pc_lock_tries : nat; pc_lock_wins : nat; pc_force_ok : bool;
  pc_unforced_refused : bool             (* while the lock is held, an acquisition that is not forced is refused *)
}.

Definition subset (a b : list string) : bool := forallb (fun k => mem k b) a.
Definition set_eq (a b : list string) : bool := subset a b && subset b a.

Definition scanned_files (c : pcase) : list file_keys :=
  flat_map pb_files (filter pb_indexed (pc_bundles c)).

Fixpoint model_chunks (c : pcase) (atts : list (bool * option nat)) (chunks : list (list string)) : list (list string) :=
  match atts with
  | [] => chunks
  | (res, Some k) :: t =>
      model_chunks c t (dead_session (pc_chunk c) res (map OScan (scanned_files c) ++ repeat OFlush k) chunks)
  | (res, None) :: t =>
      model_chunks c t (last_session (pc_chunk c) res (map OScan (scanned_files c)) chunks)
  end.

Definition case_mismatch (c : pcase) : bool :=
  if negb (pc_success c) then false else
  (pc_comparable c && negb (set_eq (index_of (model_chunks c (pc_attempts c) [])) (pc_index c))) ||
  negb (set_eq (delete_unused (pc_index c) (pc_before c)) (pc_after c)).

(* C13: when the commands report success, every live bundle - indexed or uploaded later - reads back *)
Definition spec13 (c : pcase) : bool :=
  negb (pc_panicked c) && (if pc_success c then forallb pb_reads (pc_bundles c) else true).

(* C14: without faults, the index is exactly the keys of the scanned bundles; delete-unused removes
   exactly the old blobs they do not reference; one holder of the lock *)
Definition refs (c : pcase) : list string := flat_map keys_of (scanned_files c).
Definition spec14 (c : pcase) : bool :=
  Nat.eqb (pc_lock_wins c) 1 && pc_force_ok c && pc_unforced_refused c &&
  if pc_faultfree c && pc_success c then
    set_eq (pc_index c) (refs c) &&
    set_eq (pc_after c) (map fst (filter (fun b : string * bool => mem (fst b) (refs c) || snd b) (pc_before c)))
  else true.

Definition report13 (cs : list pcase) : list N * list N :=
  (indices case_mismatch cs, indices (fun c => negb (spec13 c)) cs).
Definition report14 (cs : list pcase) : list N * list N :=
  (indices case_mismatch cs, indices (fun c => negb (spec14 c)) cs).
