(* C13 / C14: purge.  The reverse-lookup index is built in sessions over a local key-value store
   and a list of uploaded chunks: a session scans files (root key and leaf keys), writes chunks of
   the keys not yet uploaded, and may die at any point; a resumed session starts from the uploaded
   chunks.  delete-unused keeps a blob iff its key is in the index or the blob is newer than the
   index. *)
From Coq Require Import List String Ascii NArith Bool Arith.
From DM Require Import Base.Util Base.Str.
Import ListNotations.
Open Scope list_scope.

Record file_keys := { fk_root : string; fk_leaves : list string }.
Definition keys_of (f : file_keys) : list string := fk_root f :: fk_leaves f.

Definition mem (k : string) (l : list string) : bool := existsb (String.eqb k) l.

(* the local key-value store: key, uploaded? *)
Notation kvstore := (list (string * bool)) (only parsing).
Definition kv_has (k : string) (kv : kvstore) : bool := existsb (fun p => String.eqb k (fst p)) kv.
Definition kv_add (k : string) (kv : kvstore) : kvstore := if kv_has k kv then kv else kv ++ [(k, false)].

Record bstate := { b_kv : kvstore; b_chunks : list (list string); b_trust : bool }.

(* scanning a file: a known root is taken as proof that its leaves are known - but only in a session
   that did not start from uploaded chunks *)
Definition scan_file (f : file_keys) (st : bstate) : bstate :=
  if b_trust st && kv_has (fk_root f) (b_kv st) then st
  else {| b_kv := fold_left (fun kv k => kv_add k kv) (keys_of f) (b_kv st); b_chunks := b_chunks st; b_trust := b_trust st |}.

(* one chunk: the first n keys not uploaded yet, marked as uploaded once written *)
Fixpoint take_pending (n : nat) (kv : kvstore) : list string * kvstore :=
  match kv with
  | [] => ([], [])
  | (k, true) :: t => let '(ks, t') := take_pending n t in (ks, (k, true) :: t')
  | (k, false) :: t =>
      match n with
      | O => ([], kv)
      | S m => let '(ks, t') := take_pending m t in (k :: ks, (k, true) :: t')
      end
  end.

Definition flush (n : nat) (st : bstate) : bstate :=
  let '(ks, kv') := take_pending n (b_kv st) in
  {| b_kv := kv'; b_chunks := b_chunks st ++ [ks]; b_trust := b_trust st |}.

Definition pending (kv : kvstore) : nat := List.length (filter (fun p => negb (snd p)) kv).

(* the end of a successful session: chunks until nothing is pending (and one last, empty chunk) *)
Fixpoint finish (fuel n : nat) (st : bstate) : bstate :=
  match fuel with
  | O => st
  | S f => if Nat.eqb (pending (b_kv st)) 0 then flush n st else finish f n (flush n st)
  end.

Inductive bop := OScan (f : file_keys) | OFlush.
Definition apply_bop (n : nat) (st : bstate) (o : bop) : bstate :=
  match o with OScan f => scan_file f st | OFlush => flush n st end.

(* a session that dies: whatever it did, only the uploaded chunks survive *)
Definition start_session (resume : bool) (chunks : list (list string)) : bstate :=
  if resume then {| b_kv := map (fun k => (k, true)) (List.concat chunks); b_chunks := chunks; b_trust := false |}
  else {| b_kv := []; b_chunks := []; b_trust := true |}.

Definition dead_session (n : nat) (resume : bool) (ops : list bop) (chunks : list (list string)) : list (list string) :=
  b_chunks (fold_left (apply_bop n) ops (start_session resume chunks)).

(* the successful last session: its operations, then the final chunks *)
Definition last_session (n : nat) (resume : bool) (ops : list bop) (chunks : list (list string)) : list (list string) :=
  let st := fold_left (apply_bop n) ops (start_session resume chunks) in
  b_chunks (finish (S (List.length (b_kv st))) n st).

Definition index_of (chunks : list (list string)) : list string := List.concat chunks.

(* delete-unused: blobs as (key, newer than the index?) *)
Definition keep_blob (index : list string) (b : string * bool) : bool := mem (fst b) index || snd b.
Definition delete_unused (index : list string) (blobs : list (string * bool)) : list string :=
  map fst (filter (keep_blob index) blobs).
