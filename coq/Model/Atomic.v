(* C06: an upload as a sequence of metadata writes; what a crash after any prefix leaves. *)
From Coq Require Import List String Ascii NArith Bool Arith.
From DM Require Import Base.Str Gen.Paths Model.PathsParse Model.Meta Model.Bundle Model.ListOps Model.RepoOps.
Import ListNotations.
Open Scope list_scope.

(* the metadata writes of an upload, in program order: file lists, then the descriptor; all
   create-if-absent *)
Fixpoint index_writes (r id : string) (i : N) (cs : list (list entry)) : list (string * mval) :=
  match cs with
  | [] => []
  | c :: t => (GetArchivePathToBundleFileList r id i, VIndex c) :: index_writes r id (i + 1)%N t
  end.
Definition upload_writes (r id : string) (es : list entry) (E : nat) : list (string * mval) :=
  index_writes r id 0%N (chunk E es) ++ [(GetArchivePathToBundle r id, VBundle id (N.of_nat (List.length (chunk E es))))].

(* apply create-if-absent writes; a refused write stops the program *)
Fixpoint apply_excl (ws : list (string * mval)) (m : mstore) : mstore :=
  match ws with
  | [] => m
  | (k, v) :: t => match mput k v true m with
                   | (POk, m') => apply_excl t m'
                   | (PExists, _) => m
                   end
  end.

(* the store a crash leaves after n writes of the program took effect *)
Definition crashed_upload (r id : string) (es : list entry) (E n : nat) (m : mstore) : mstore :=
  apply_excl (firstn n (upload_writes r id es E)) m.
