(* C18: the reference tree a mutable mount is compared with.  A tree is the list of its nodes
   (path, directory or file with its bytes); the root is implicit.  Every operation answers as a
   POSIX directory tree does. *)
From Coq Require Import List String Ascii NArith Bool Arith.
From DM Require Import Base.Util Base.Str Model.Mount.
Import ListNotations.
Open Scope list_scope.

Inductive node := NDir | NFile (data : list N).
Notation tree := (list (list string * node)) (only parsing).

Inductive errno := ENOENT | EEXIST | ENOTEMPTY | ENOTDIR | EISDIR | EINVAL.

Inductive fsop :=
| FCreate (p : list string) | FMkdir (p : list string)
| FWrite (p : list string) (off : nat) (data : list N)
| FTruncate (p : list string) (size : nat)
| FRename (p q : list string)
| FUnlink (p : list string) | FRmdir (p : list string)
| FLookup (p : list string)
| FRead (p : list string) (off len : nat)
| FReaddir (p : list string).

Inductive fres :=
| ROk | RErr (e : errno)
| RKind (isdir : bool) (size : nat)
| RData (bytes : list N)
| RNames (names : list (string * bool)).

Fixpoint path_eqb (a b : list string) : bool :=
  match a, b with
  | [], [] => true
  | x :: a', y :: b' => String.eqb x y && path_eqb a' b'
  | _, _ => false
  end.

Definition get (p : list string) (t : tree) : option node :=
  match p with
  | [] => Some NDir
  | _ => option_map snd (find (fun e => path_eqb (fst e) p) t)
  end.

Definition parent (p : list string) : list string := removelast p.
Definition base (p : list string) : string := last p EmptyString.

Definition remove (p : list string) (t : tree) : tree := filter (fun e => negb (path_eqb (fst e) p)) t.
Definition put (p : list string) (n : node) (t : tree) : tree := remove p t ++ [(p, n)].

Definition strictly_below (d p : list string) : bool := is_prefix d p && Nat.ltb (List.length d) (List.length p).
Definition has_children (d : list string) (t : tree) : bool := existsb (fun e => strictly_below d (fst e)) t.

(* resolving the directories on the way to p: the first one that is missing or is a file decides *)
Fixpoint ancestor_err (fuel : nat) (k : nat) (p : list string) (t : tree) : option errno :=
  match fuel with
  | O => None
  | S f =>
      if Nat.leb (List.length p) k then None
      else match get (firstn k p) t with
           | None => Some ENOENT
           | Some (NFile _) => Some ENOTDIR
           | Some NDir => ancestor_err f (S k) p t
           end
  end.

(* can something be created at p: every directory above it must exist *)
Definition parent_check (p : list string) (t : tree) : option errno :=
  match p with
  | [] => Some EEXIST
  | _ => ancestor_err (List.length p) 1 p t
  end.

(* why p cannot be found *)
Definition missing_err (p : list string) (t : tree) : errno :=
  match ancestor_err (List.length p) 1 p t with Some e => e | None => ENOENT end.

Fixpoint zeros (n : nat) : list N := match n with O => [] | S m => 0%N :: zeros m end.

Definition write_at (old : list N) (off : nat) (data : list N) : list N :=
  let padded := old ++ zeros (off - List.length old) in
  firstn off padded ++ data ++ skipn (off + List.length data) padded.

Definition resize (old : list N) (size : nat) : list N :=
  firstn size old ++ zeros (size - List.length old).

(* re-root the subtree at p under q *)
Definition move_path (p q x : list string) : list string := q ++ skipn (List.length p) x.

Definition list_dir (d : list string) (t : tree) : list (string * bool) :=
  flat_map (fun e => if is_prefix d (fst e) && Nat.eqb (List.length (fst e)) (S (List.length d))
                     then [(base (fst e), match snd e with NDir => true | NFile _ => false end)] else []) t.

Definition step (t : tree) (o : fsop) : tree * fres :=
  match o with
  | FCreate p =>
      match parent_check p t with
      | Some e => (t, RErr e)
      | None => match get p t with Some _ => (t, RErr EEXIST) | None => (put p (NFile []) t, ROk) end
      end
  | FMkdir p =>
      match parent_check p t with
      | Some e => (t, RErr e)
      | None => match get p t with Some _ => (t, RErr EEXIST) | None => (put p NDir t, ROk) end
      end
  | FWrite p off data =>
      match p, get p t with
      | [], _ => (t, RErr EISDIR)
      | _, None => (t, RErr (missing_err p t))
      | _, Some NDir => (t, RErr EISDIR)
      | _, Some (NFile old) => (map (fun e => if path_eqb (fst e) p then (p, NFile (write_at old off data)) else e) t, ROk)
      end
  | FTruncate p size =>
      match p, get p t with
      | [], _ => (t, RErr EISDIR)
      | _, None => (t, RErr (missing_err p t))
      | _, Some NDir => (t, RErr EISDIR)
      | _, Some (NFile old) => (map (fun e => if path_eqb (fst e) p then (p, NFile (resize old size)) else e) t, ROk)
      end
  | FRename p q =>
      match p, get p t with
      | [], _ => (t, RErr EINVAL)
      | _, None => (t, RErr (missing_err p t))
      | _, Some n =>
          match parent_check q t with
          | Some EEXIST => (t, RErr EINVAL)                      (* onto the root *)
          | Some e => (t, RErr e)
          | None =>
              if path_eqb p q then (t, ROk)
              else if is_prefix p q then (t, RErr EINVAL)         (* into its own subtree *)
              else
                let moved := map (fun e => if is_prefix p (fst e) then (move_path p q (fst e), snd e) else e) in
                match n, get q t with
                | _, None => (moved t, ROk)
                | NFile _, Some (NFile _) => (moved (remove q t), ROk)
                | NFile _, Some NDir => (t, RErr EISDIR)
                | NDir, Some (NFile _) => (t, RErr ENOTDIR)
                | NDir, Some NDir => if has_children q t then (t, RErr ENOTEMPTY) else (moved (remove q t), ROk)
                end
          end
      end
  | FUnlink p =>
      match p, get p t with
      | [], _ => (t, RErr EISDIR)
      | _, None => (t, RErr (missing_err p t))
      | _, Some NDir => (t, RErr EISDIR)
      | _, Some (NFile _) => (remove p t, ROk)
      end
  | FRmdir p =>
      match p, get p t with
      | [], _ => (t, RErr EINVAL)
      | _, None => (t, RErr (missing_err p t))
      | _, Some (NFile _) => (t, RErr ENOTDIR)
      | _, Some NDir => if has_children p t then (t, RErr ENOTEMPTY) else (remove p t, ROk)
      end
  | FLookup p =>
      match get p t with
      | None => (t, RErr (missing_err p t))
      | Some NDir => (t, RKind true 0)
      | Some (NFile d) => (t, RKind false (List.length d))
      end
  | FRead p off len =>
      match get p t with
      | None => (t, RErr (missing_err p t))
      | Some NDir => (t, RErr EISDIR)
      | Some (NFile d) => (t, RData (read_bytes d off len))
      end
  | FReaddir p =>
      match get p t with
      | None => (t, RErr (missing_err p t))
      | Some (NFile _) => (t, RErr ENOTDIR)
      | Some NDir => (t, RNames (list_dir p t))
      end
  end.

Definition run (ops : list fsop) (t : tree) : tree := fold_left (fun t o => fst (step t o)) ops t.

(* the files a commit must hold *)
Definition files_of (t : tree) : list (list string * list N) :=
  flat_map (fun e => match snd e with NFile d => [(fst e, d)] | NDir => [] end) t.
