(* Model of bundle diff and in-place update (pkg/core bundle_diff.go, Update). *)
From Coq Require Import List String Ascii NArith Bool Arith.
From DM Require Import Base.Str Model.Meta.
Import ListNotations.
Open Scope list_scope.

Inductive dkind := DAdd | DDel | DDif.

Fixpoint find_entry (n : string) (es : list entry) : option entry :=
  match es with
  | [] => None
  | e :: t => if String.eqb n (e_name e) then Some e else find_entry n t
  end.

(* diffBundles existing additional: the Go maps are iterated in arbitrary order; the list below is
   one such order (existing entries first), comparisons are made on the sorted list *)
Definition diff (a b : list entry) : list (dkind * string) :=
  flat_map (fun e => match find_entry (e_name e) b with
                     | Some e' => if String.eqb (e_hash e) (e_hash e') then [] else [(DDif, e_name e)]
                     | None => [(DDel, e_name e)]
                     end) a
  ++ flat_map (fun e => match find_entry (e_name e) a with Some _ => [] | None => [(DAdd, e_name e)] end) b.

(* a local directory as a finite map name -> content key *)
Definition dir := list (string * string).
Fixpoint dget (n : string) (d : dir) : option string :=
  match d with [] => None | (k, v) :: t => if String.eqb n k then Some v else dget n t end.
Fixpoint dremove (n : string) (d : dir) : dir :=
  match d with [] => [] | (k, v) :: t => if String.eqb n k then dremove n t else (k, v) :: dremove n t end.

(* Update: download added, overwrite changed, delete removed *)
Definition apply_one (b : list entry) (d : dir) (x : dkind * string) : dir :=
  match fst x, find_entry (snd x) b with
  | DDel, _ => dremove (snd x) d
  | _, Some e => (snd x, e_hash e) :: dremove (snd x) d
  | _, None => d
  end.
Definition update (a b : list entry) (d : dir) : dir := fold_left (apply_one b) (diff a b) d.

Definition dir_of (es : list entry) : dir := map (fun e => (e_name e, e_hash e)) es.
