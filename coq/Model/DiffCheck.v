(* Executable comparison for C05 case files. *)
From Coq Require Import List String Ascii NArith Bool Arith.
From DM Require Import Base.Util Base.Str Model.Meta Model.Bundle Model.BundleCheck Model.Diff.
Import ListNotations.
Open Scope list_scope.

Definition dkind_eqb (a b : dkind) : bool :=
  match a, b with DAdd, DAdd | DDel, DDel | DDif, DDif => true | _, _ => false end.

Fixpoint insert_d (x : dkind * string) (l : list (dkind * string)) : list (dkind * string) :=
  match l with
  | [] => [x]
  | y :: t => if String.leb (snd x) (snd y) then x :: l else y :: insert_d x t
  end.
Definition sort_d (l : list (dkind * string)) := fold_right insert_d [] l.

Fixpoint diffs_eqb (a b : list (dkind * string)) : bool :=
  match a, b with
  | [], [] => true
  | x :: a', y :: b' => dkind_eqb (fst x) (fst y) && String.eqb (snd x) (snd y) && diffs_eqb a' b'
  | _, _ => false
  end.

Record dcase := {
  dc_a : list entry;                      (* entries of the bundle the local copy holds, sorted by name *)
  dc_b : list entry;                      (* entries of the target bundle *)
  dc_diff : option (list (dkind * string));   (* observed diff, sorted by name *)
  dc_updated : option (list (string * string)); (* observed: local directory after Update: name, key of bytes (metadata files included) *)
  dc_fresh : list (string * string)       (* observed: a fresh download of the target, same form *)
}.

Definition is_meta (n : string) : bool := starts_with ".datamon/" n.
Definition data_part (l : list (string * string)) := filter (fun p => negb (is_meta (fst p))) l.

Fixpoint insert_p (x : string * string) (l : list (string * string)) : list (string * string) :=
  match l with
  | [] => [x]
  | y :: t => if String.leb (fst x) (fst y) then x :: l else y :: insert_p x t
  end.
Definition sort_p (l : list (string * string)) := fold_right insert_p [] l.

Definition case_mismatch (c : dcase) : bool :=
  negb (match dc_diff c with Some d => diffs_eqb (sort_d (diff (dc_a c) (dc_b c))) d | None => false end &&
        match dc_updated c with
        | Some u => pairs_eqb (sort_p (update (dc_a c) (dc_b c) (dir_of (dc_a c)))) (data_part u)
        | None => false
        end).

(* the statement: the diff lists exactly added / removed / changed paths once each; the updated
   directory is byte-identical to a fresh download, metadata included *)
Definition spec_diff (a b : list entry) : list (dkind * string) :=
  sort_d (map (fun e => (DDel, e_name e)) (filter (fun e => negb (existsb (fun e' => String.eqb (e_name e) (e_name e')) b)) a)
          ++ map (fun e => (DAdd, e_name e)) (filter (fun e => negb (existsb (fun e' => String.eqb (e_name e) (e_name e')) a)) b)
          ++ map (fun e => (DDif, e_name e)) (filter (fun e => existsb (fun e' => String.eqb (e_name e) (e_name e') && negb (String.eqb (e_hash e) (e_hash e'))) b) a)).

Definition spec_ok (c : dcase) : bool :=
  match dc_diff c with Some d => diffs_eqb (spec_diff (dc_a c) (dc_b c)) d | None => false end &&
  match dc_updated c with Some u => pairs_eqb u (dc_fresh c) | None => false end.

Definition report (cs : list dcase) : list N * list N :=
  (indices case_mismatch cs, indices (fun c => negb (spec_ok c)) cs).
