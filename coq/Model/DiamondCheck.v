(* Executable comparison for C12 case files: a schedule observed on the implementation (actors gated
   at every decision-relevant store access) replayed on the protocol model, and the statement checked
   on the observed trace alone. *)
From Coq Require Import List String NArith Bool Arith.
From DM Require Import Base.Util Model.Diamond.
Import ListNotations.
Open Scope list_scope.

Record dcase := {
  dc_actors : list actor;
  dc_events : list (nat * option (action * bool));      (* actor, None = crash, Some (access, outcome) *)
  dc_term : option terminal;                             (* final descriptor of the diamond at the end *)
  dc_done : list (nat * nat);                            (* split, recorded run *)
  dc_bundles : list (nat * list (nat * nat));            (* committing actor, the runs whose files the bundle holds *)
  dc_count_only : bool                                   (* judge only the number of bundles *)
}.

Definition action_eqb (a b : action) : bool :=
  match a, b with
  | KReady, KReady | KReadSplit, KReadSplit | KWriteRunning, KWriteRunning | KWriteLists, KWriteLists
  | KWriteSplitDone, KWriteSplitDone | KCollect, KCollect | KWriteBLists, KWriteBLists
  | KWriteBundle, KWriteBundle | KWriteDone, KWriteDone => true
  | _, _ => false
  end.
Definition is_write (a : action) : bool :=
  match a with KWriteRunning | KWriteLists | KWriteSplitDone | KWriteBLists | KWriteBundle | KWriteDone => true | _ => false end.

Fixpoint replay (evs : list (nat * option (action * bool))) (st : dstate) : option dstate :=
  match evs with
  | [] => Some st
  | (i, None) :: t => replay t (crash i st)
  | (i, Some (k, ok)) :: t =>
      match nth_error (d_actors st) i with
      | None => None
      | Some a =>
          match next_action a with
          | Some k' =>
              if action_eqb k k' then
                let '(st', b) := step i st in
                if is_write k && negb (Bool.eqb b ok) then None else replay t st'
              else None
          | None => None
          end
      end
  end.

Definition pair_eqb (a b : nat * nat) : bool := Nat.eqb (fst a) (fst b) && Nat.eqb (snd a) (snd b).
Definition subset (a b : list (nat * nat)) : bool := forallb (fun x => existsb (pair_eqb x) b) a.
Definition same_set (a b : list (nat * nat)) : bool := subset a b && subset b a.
Definition term_eqb (a b : option terminal) : bool :=
  match a, b with
  | None, None | Some TCanceled, Some TCanceled => true
  | Some (TDone x), Some (TDone y) => Nat.eqb x y
  | _, _ => false
  end.
Definition bundles_same (a b : list (nat * list (nat * nat))) : bool :=
  Nat.eqb (List.length a) (List.length b) &&
  forallb (fun x => existsb (fun y => Nat.eqb (fst x) (fst y) && same_set (snd x) (snd y)) b) a.

Definition case_mismatch (c : dcase) : bool :=
  if dc_count_only c then false else
  match replay (dc_events c) (init (dc_actors c)) with
  | None => true
  | Some st =>
      negb (forallb (fun a => match next_action a with None => true | Some _ => false end) (d_actors st)) ||
      negb (term_eqb (d_term st) (dc_term c)) ||
      negb (same_set (d_done st) (dc_done c)) ||
      negb (bundles_same (d_bundles st) (dc_bundles c))
  end.

(* ---- the statement on the observed trace ---- *)
Definition indexed {A} (l : list A) : list (nat * A) := combine (seq 0 (List.length l)) l.

Fixpoint keep {A B} (f : A -> option B) (l : list A) : list B :=
  match l with [] => [] | x :: t => match f x with Some y => y :: keep f t | None => keep f t end end.

Definition ok_writes (c : dcase) (k : action) : list (nat * nat) :=     (* position, actor *)
  keep (fun pe : nat * (nat * option (action * bool)) =>
          match snd (snd pe) with
          | Some (k', true) => if action_eqb k k' then Some (fst pe, fst (snd pe)) else None
          | _ => None end)
       (indexed (dc_events c)).

Definition first_pos (c : dcase) (i : nat) (k : action) : option nat :=
  option_map fst (find (fun pe => Nat.eqb (fst (snd pe)) i &&
                                  match snd (snd pe) with Some (k', _) => action_eqb k k' | None => false end)
                       (indexed (dc_events c))).

Definition split_of (c : dcase) (i : nat) : option (nat * nat) :=
  match nth_error (dc_actors c) i with Some (ASplit s g _ _) => Some (s, g) | _ => None end.

(* successful writes of actor i at positions after p *)
Definition writes_after (c : dcase) (i p : nat) : bool :=
  existsb (fun pe => Nat.ltb p (fst pe) && Nat.eqb (fst (snd pe)) i &&
                     match snd (snd pe) with Some (k, true) => is_write k | _ => false end)
          (indexed (dc_events c)).

(* the first access of actor i, whatever it is *)
Definition first_any (c : dcase) (i : nat) : option nat :=
  option_map fst (find (fun pe => Nat.eqb (fst (snd pe)) i) (indexed (dc_events c))).
Definition writes_after_incl (c : dcase) (i p : nat) : bool :=
  existsb (fun pe => Nat.leb p (fst pe) && Nat.eqb (fst (snd pe)) i &&
                     match snd (snd pe) with Some (k, true) => is_write k | _ => false end)
          (indexed (dc_events c)).

Definition spec_ok (c : dcase) : bool :=
  if dc_count_only c then Nat.leb (List.length (dc_bundles c)) 1 else
  let dones := ok_writes c KWriteDone in
  let sdones := ok_writes c KWriteSplitDone in
  (* the final descriptor is written at most once; each split completes at most once *)
  Nat.leb (List.length dones) 1 &&
  forallb (fun x => forallb (fun y => Nat.eqb (fst x) (fst y) ||
                                      match split_of c (snd x), split_of c (snd y) with
                                      | Some (s1, _), Some (s2, _) => negb (Nat.eqb s1 s2) | _, _ => false end) sdones) sdones &&
  (* whoever starts after the diamond is terminated writes nothing *)
  match dones with
  | (pd, _) :: _ =>
      forallb (fun i => match first_any c i with
                        | Some p => if Nat.ltb pd p then negb (writes_after_incl c i p) else true
                        | None => true end) (seq 0 (List.length (dc_actors c)))
  | [] => true
  end &&
  (* a run that looks at its split after the split completed writes nothing *)
  forallb (fun i => match split_of c i, first_pos c i KReadSplit with
                    | Some (s, _), Some p =>
                        if existsb (fun x => Nat.ltb (fst x) p && match split_of c (snd x) with Some (s', _) => Nat.eqb s s' | None => false end) sdones
                        then negb (writes_after c i p) else true
                    | _, _ => true end) (seq 0 (List.length (dc_actors c))) &&
  (* a bundle holds files of recorded runs only, and of every split completed before its commit started *)
  forallb (fun b =>
             subset (snd b) (dc_done c) &&
             match first_pos c (fst b) KReady with
             | Some p => forallb (fun x => if Nat.ltb (fst x) p
                                           then match split_of c (snd x) with Some sg => existsb (pair_eqb sg) (snd b) | None => true end
                                           else true) sdones
             | None => false
             end) (dc_bundles c) &&
  (* ... and of no run whose split completed only after the commit had listed the splits *)
  forallb (fun b => match first_pos c (fst b) KCollect with
                    | Some p => forallb (fun sg => existsb (fun x => Nat.ltb (fst x) p &&
                                                      match split_of c (snd x) with Some sg' => pair_eqb sg sg' | None => false end) sdones) (snd b)
                    | None => false
                    end) (dc_bundles c) &&
  (* the recorded run of a split is the one whose final descriptor write succeeded *)
  forallb (fun x => match split_of c (snd x) with Some sg => existsb (pair_eqb sg) (dc_done c) | None => false end) sdones &&
  Nat.eqb (List.length (dc_done c)) (List.length sdones).

Definition report (cs : list dcase) : list N * list N :=
  (indices case_mismatch cs, indices (fun c => negb (spec_ok c)) cs).
