(* Executable comparison for C07 case files (also used by C06 / C08 - C10). *)
From Coq Require Import List String Ascii NArith Bool Arith.
From DM Require Import Base.Util Base.Str Base.StrOrder Base.Paging Base.Listing Gen.Paths Model.PathsParse Model.Meta Model.ListOps.
Import ListNotations.
Open Scope list_scope.

Definition bs (l : list N) : string := string_of_list_ascii (map ascii_of_N l).

Fixpoint strs_eqb (a b : list string) : bool :=
  match a, b with
  | [], [] => true
  | x :: a', y :: b' => String.eqb x y && strs_eqb a' b'
  | _, _ => false
  end.
Definition ostrs_eqb (a b : option (list string)) : bool :=
  match a, b with Some x, Some y => strs_eqb x y | None, None => true | _, _ => false end.
Fixpoint pairs_eqb (a b : list (string * string)) : bool :=
  match a, b with
  | [], [] => true
  | x :: a', y :: b' => String.eqb (fst x) (fst y) && String.eqb (snd x) (snd y) && pairs_eqb a' b'
  | _, _ => false
  end.

Inductive query :=
| QRepos (count : nat) (obs : option (list string))
| QBundles (repo : string) (count : nat) (obs : option (list string))
| QLabels (repo prefix : string) (count : nat) (obs : option (list (string * string)))
| QDiamonds (repo : string) (count : nat) (ordered : bool) (obs : option (list string))   (* ids, sorted by id; ordered = delivered by start time *)
| QSplits (repo did : string) (count : nat) (ordered : bool) (obs : option (list string)).

Record lcase := { lc_meta : mstore; lc_vmeta : mstore; lc_queries : list query }.

Definition sorted_ids (o : option (list (list string))) : option (list string) :=
  option_map (fun bs => sort_by String.leb (List.concat bs)) o.

Definition query_mismatch (c : lcase) (q : query) : bool :=
  negb match q with
  | QRepos n obs => ostrs_eqb (list_repos n (lc_meta c)) obs
  | QBundles r n obs => ostrs_eqb (list_bundles r n (lc_meta c)) obs
  | QLabels r p n obs =>
      match list_labels r p n (lc_vmeta c), obs with
      | Some x, Some y => pairs_eqb x y
      | None, None => true
      | _, _ => false
      end
  | QDiamonds r n _ obs => ostrs_eqb (sorted_ids (list_diamonds r n (lc_vmeta c))) obs
  | QSplits r d n _ obs => ostrs_eqb (sorted_ids (list_splits r d n (lc_vmeta c))) obs
  end.

Definition case_mismatch (c : lcase) : bool := existsb (query_mismatch c) (lc_queries c).

(* ---- the statement, read off the store: every existing object of the kind, once, in order ---- *)
Definition keys_sorted (s : mstore) : list string := sort_uniq (mkeys s).

Definition spec_repos (s : mstore) : list string :=
  omap (fun k => match get_components k, mget k s with
                 | Some apc, Some (VRepo n) => if String.eqb k (GetArchivePathToRepoDescriptor (c_repo apc)) then Some n else None
                 | _, _ => None end)
       (filter (starts_with "repos/") (keys_sorted s)).

Definition spec_bundles (r : string) (s : mstore) : list string :=
  omap (fun k => match get_components k, mget k s with
                 | Some apc, Some (VBundle id _) => if String.eqb k (GetArchivePathToBundle r (c_bundle apc)) then Some id else None
                 | _, _ => None end)
       (filter (starts_with (GetArchivePathPrefixToBundles r)) (keys_sorted s)).

Definition spec_labels (r p : string) (vs : mstore) : list (string * string) :=
  omap (fun k => match get_components k, mget k vs with
                 | Some apc, Some (VLabel n b) =>
                     if String.eqb k (GetArchivePathToLabel r (c_label apc)) && starts_with p (c_label apc) then Some (c_label apc, b) else None
                 | _, _ => None end)
       (filter (starts_with (GetArchivePathPrefixToLabels r [])) (keys_sorted vs)).

Definition spec_diamonds (r : string) (vs : mstore) : list string :=
  sort_by String.leb
    (omap (fun k => match get_components k with
                    | Some apc => if String.eqb k (GetArchivePathToInitialDiamond r (c_diamond apc)) then Some (c_diamond apc) else None
                    | None => None end)
          (filter (starts_with (GetArchivePathPrefixToDiamonds r)) (keys_sorted vs))).

Definition spec_splits (r d : string) (vs : mstore) : list string :=
  sort_by String.leb
    (omap (fun k => match get_components k with
                    | Some apc => if String.eqb k (GetArchivePathToInitialSplit r d (c_split apc)) then Some (c_split apc) else None
                    | None => None end)
          (filter (starts_with (GetArchivePathPrefixToSplits r d)) (keys_sorted vs))).

Definition query_spec_ok (c : lcase) (q : query) : bool :=
  match q with
  | QRepos _ (Some obs) => strs_eqb (spec_repos (lc_meta c)) obs
  | QBundles r _ (Some obs) => strs_eqb (spec_bundles r (lc_meta c)) obs
  | QBundles r _ None => negb (mhas (GetArchivePathToRepoDescriptor r) (lc_meta c))
  | QLabels r p _ (Some obs) => pairs_eqb (spec_labels r p (lc_vmeta c)) obs
  | QDiamonds r _ ordered (Some obs) => ordered && strs_eqb (spec_diamonds r (lc_vmeta c)) obs
  | QSplits r d _ ordered (Some obs) => ordered && strs_eqb (spec_splits r d (lc_vmeta c)) obs
  | _ => false
  end.

Definition spec_ok (c : lcase) : bool := forallb (query_spec_ok c) (lc_queries c).

Definition report (cs : list lcase) : list N * list N :=
  (indices case_mismatch cs, indices (fun c => negb (spec_ok c)) cs).
