(* C11: the merge performed by a diamond commit.  Every file entry of every completed split is a
   version (path, split, upload time, hash, size).  The merger collects the versions, keeps for each
   split its most recent version of a path, elects the most recent of those as the winner, and - in
   conflict / checkpoint mode - keeps the other splits' versions whose content differs from the
   winner's under .conflicts/<split>/<path> (.checkpoints/...). *)
From Coq Require Import List String Ascii NArith Bool Arith.
From DM Require Import Base.Util Base.Str Base.StrOrder Base.Ord Model.ListOps.
Import ListNotations.
Open Scope list_scope.

(* path, split, upload time, hash, size - in the order used to store them canonically *)
Definition ver := (string * (string * (N * (string * N))))%type.
Definition mkver (p s : string) (t : N) (h : string) (z : N) : ver := (p, (s, (t, (h, z)))).
Definition v_path (v : ver) := fst v.
Definition v_split (v : ver) := fst (snd v).
Definition v_time (v : ver) := fst (snd (snd v)).
Definition v_hash (v : ver) := fst (snd (snd (snd v))).
Definition v_size (v : ver) := snd (snd (snd (snd v))).

Definition ord_ver : ord ver := ord_pair ord_string (ord_pair ord_string (ord_pair ord_N (ord_pair ord_string ord_N))).

(* recency: upload time, ties broken by split id, hash, size (so that it is total on the versions of a path) *)
Definition rkey (v : ver) : N * (string * (string * N)) := (v_time v, (v_split v, (v_hash v, v_size v))).
Definition ord_rkey : ord (N * (string * (string * N))) := ord_pair ord_N (ord_pair ord_string (ord_pair ord_string ord_N)).
Definition more_recent (a b : ver) : bool := match cmp ord_rkey (rkey a) (rkey b) with Gt => true | _ => false end.

Definition best (l : list ver) : option ver :=
  fold_left (fun acc v => match acc with
                          | None => Some v
                          | Some w => if more_recent v w then Some v else Some w
                          end) l None.

Fixpoint uniq_strs (l : list string) : list string :=
  match l with
  | [] => []
  | x :: t => x :: filter (fun y => negb (String.eqb x y)) (uniq_strs t)
  end.

Definition versions_of (p : string) (S : list ver) := filter (fun v => String.eqb (v_path v) p) S.
Definition paths_of (S : list ver) := uniq_strs (map v_path S).
Definition latest_of_split (p s : string) (S : list ver) := best (filter (fun v => String.eqb (v_split v) s) (versions_of p S)).
Definition split_latests (p : string) (S : list ver) : list ver :=
  omap (fun s => latest_of_split p s S) (uniq_strs (map v_split (versions_of p S))).
Definition winner (p : string) (S : list ver) : option ver := best (split_latests p S).
Definition conflicts_of (p : string) (S : list ver) : list ver :=
  match winner p S with
  | None => []
  | Some w => filter (fun v => negb (String.eqb (v_split v) (v_split w)) && negb (String.eqb (v_hash v) (v_hash w))) (split_latests p S)
  end.

(* an entry of the committed bundle *)
Definition oentry := (string * (string * N))%type.
Definition deconflict (dir split p : string) : string := (dir ++ "/" ++ split ++ "/" ++ p)%string.

Definition mains (S : list ver) : list oentry :=
  omap (fun p => option_map (fun w => (p, (v_hash w, v_size w))) (winner p S)) (paths_of S).
Definition kept (dir : string) (S : list ver) : list oentry :=
  flat_map (fun p => map (fun v => (deconflict dir (v_split v) p, (v_hash v, v_size v))) (conflicts_of p S)) (paths_of S).

(* the bundle lists entries by name; a name written twice keeps the later write *)
Fixpoint put_entry (e : oentry) (l : list oentry) : list oentry :=
  match l with
  | [] => [e]
  | x :: t => if String.ltb (fst e) (fst x) then e :: x :: t
              else if String.eqb (fst e) (fst x) then e :: t
              else x :: put_entry e t
  end.
Definition by_name (l : list oentry) : list oentry := fold_left (fun acc e => put_entry e acc) l [].

Inductive cmode := MIgnore | MCheckpoints | MConflicts | MForbid.
Inductive mres := MErr | MOk (es : list oentry).

Definition merge (mode : cmode) (arrivals : list ver) : mres :=
  let S := to_set ord_ver arrivals in
  match mode with
  | MIgnore => MOk (by_name (mains S))
  | MForbid => match kept "" S with [] => MOk (by_name (mains S)) | _ => MErr end
  | MConflicts => MOk (by_name (mains S ++ kept ".conflicts" S))
  | MCheckpoints => MOk (by_name (mains S ++ kept ".checkpoints" S))
  end.
