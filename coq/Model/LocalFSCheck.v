(* Executable comparison for C16 case files. *)
From Coq Require Import List String Ascii NArith Bool Arith.
From DM Require Import Base.Util Base.Str Base.StrOrder Base.Paging Base.Listing Model.LocalFS.
Import ListNotations.
Open Scope list_scope.

Definition bs (l : list N) : string := string_of_list_ascii (map ascii_of_N l).

Fixpoint data_eqb (a b : list N) : bool :=
  match a, b with
  | [], [] => true
  | x :: a', y :: b' => N.eqb x y && data_eqb a' b'
  | _, _ => false
  end.

Fixpoint strs_eqb (a b : list string) : bool :=
  match a, b with
  | [], [] => true
  | x :: a', y :: b' => String.eqb x y && strs_eqb a' b'
  | _, _ => false
  end.

Definition lres_eqb (a b : lres) : bool :=
  match a, b with LOk, LOk | LExists, LExists | LNotFound, LNotFound => true | _, _ => false end.

Definition lobs_eqb (a b : lobs) : bool :=
  match a, b with
  | ObsRes x, ObsRes y => lres_eqb x y
  | ObsData (Some x), ObsData (Some y) => data_eqb x y
  | ObsData None, ObsData None => true
  | ObsBool x, ObsBool y => Bool.eqb x y
  | ObsKeys (Some x), ObsKeys (Some y) => strs_eqb x y
  | ObsKeys None, ObsKeys None => true
  | _, _ => false
  end.

Fixpoint all_eqb (a b : list lobs) : bool :=
  match a, b with
  | [], [] => true
  | x :: a', y :: b' => lobs_eqb x y && all_eqb a' b'
  | _, _ => false
  end.

(* a history and what the implementation answered *)
Definition lcase := (list lop * list lobs)%type.

Definition case_mismatch (c : lcase) : bool := negb (all_eqb (lrun [] (fst c)) (snd c)).

(* independent reading of the property for listings: strictly increasing, every listed name is
   the cut of a stored key with the prefix, every stored key with the prefix is represented *)
Fixpoint strictly_sorted (l : list string) : bool :=
  match l with
  | [] => true
  | x :: t => match t with [] => true | y :: _ => String.ltb x y && strictly_sorted t end
  end.

Definition list_ok (prefix delim : string) (keys obs : list string) : bool :=
  strictly_sorted obs &&
  forallb (fun x => existsb (fun k => starts_with prefix k && String.eqb x (cut prefix delim k)) keys) obs &&
  forallb (fun k => negb (starts_with prefix k) || existsb (String.eqb (cut prefix delim k)) obs) keys.

(* replay the history on the map model, judging each answer *)
Fixpoint spec_ok (s : lfs) (ops : list lop) (obs : list lobs) : bool :=
  match ops, obs with
  | [], [] => true
  | o :: ops', ob :: obs' =>
      let '(s', expected) := lstep s o in
      (match o, ob with
       | OpList p d c, ObsKeys (Some ks) => list_ok p d (map fst s) ks
       | OpList _ _ _, _ => false
       | _, _ => lobs_eqb expected ob
       end) && spec_ok s' ops' obs'
  | _, _ => false
  end.

(* concurrent exclusive writers of one key: exactly one succeeded and its bytes are read *)
Inductive xcase :=
| Hist (c : lcase)
| Excl (writers : list (list N)) (oks : list bool) (final : option (list N)).

Definition excl_ok (writers : list (list N)) (oks : list bool) (final : option (list N)) : bool :=
  Nat.eqb (List.length (filter (fun b => b) oks)) 1 && Nat.eqb (List.length oks) (List.length writers) &&
  match final with
  | Some d => existsb (fun wo => snd wo && data_eqb (fst wo) d) (combine writers oks)
  | None => false
  end.

Definition report (cs : list xcase) : list N * list N :=
  (indices (fun x => match x with Hist c => case_mismatch c | Excl _ _ _ => false end) cs,
   indices (fun x => match x with Hist c => negb (spec_ok [] (fst c) (snd c)) | Excl w o f => negb (excl_ok w o f) end) cs).
