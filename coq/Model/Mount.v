(* C17: what a read-only mount of a bundle shows.  Paths are lists of components; the bundle is the
   list of its files (path, bytes) in file-list order; directories are those the paths imply. *)
From Coq Require Import List String Ascii NArith Bool Arith.
From DM Require Import Base.Util Base.Str Model.ListOps.
Import ListNotations.
Open Scope list_scope.

Notation path := (list string) (only parsing).

Fixpoint is_prefix (d p : path) : bool :=
  match d, p with
  | [], _ => true
  | x :: d', y :: p' => String.eqb x y && is_prefix d' p'
  | _ :: _, [] => false
  end.

(* the child of directory d on the way to p: its name, and whether it is a directory *)
Definition child_of (d p : path) : option (string * bool) :=
  if is_prefix d p then
    match skipn (List.length d) p with
    | [] => None
    | n :: rest => Some (n, match rest with [] => false | _ => true end)
    end
  else None.

(* first appearance wins *)
Fixpoint uniq_names (l : list (string * bool)) : list (string * bool) :=
  match l with
  | [] => []
  | x :: t => x :: filter (fun y => negb (String.eqb (fst x) (fst y))) (uniq_names t)
  end.

Definition children (d : path) (paths : list path) : list (string * bool) :=
  uniq_names (omap (child_of d) paths).

Definition dir_exists (d : path) (paths : list path) : bool :=
  match d with [] => true | _ => existsb (fun p => is_prefix d p && Nat.ltb (List.length d) (List.length p)) paths end.

Definition lookup_child (d : path) (n : string) (paths : list path) : option bool :=
  option_map snd (find (fun c => String.eqb (fst c) n) (children d paths)).

(* a directory listing resumed at an offset, limited to k entries by the caller's buffer *)
Definition readdir_from {A} (l : list A) (off k : nat) : list A := firstn k (skipn off l).

(* reading a file at an offset *)
Definition read_bytes (data : list N) (off len : nat) : list N := firstn len (skipn off data).
