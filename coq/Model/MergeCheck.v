(* Executable comparison for C11 case files. *)
From Coq Require Import List String Ascii NArith Bool Arith.
From DM Require Import Base.Util Base.Str Base.StrOrder Base.Ord Model.ListOps Model.Merge.
Import ListNotations.
Open Scope list_scope.

Record mcase := {
  mc_mode : cmode;
  mc_batches : list (string * list (string * (N * (string * N))));   (* split id, entries (path, time, hash, size), in arrival order *)
  mc_judged : bool;                      (* upload times of the versions of each path are pairwise distinct *)
  mc_obs : option (list oentry);         (* entries of the committed bundle, None when the commit was refused *)
  mc_plain : option (list oentry)        (* single split: entries of a plain upload of the same files *)
}.

Definition arrivals (c : mcase) : list ver :=
  flat_map (fun b => map (fun e => mkver (fst e) (fst b) (fst (snd e)) (fst (snd (snd e))) (snd (snd (snd e)))) (snd b)) (mc_batches c).

Definition oentry_eqb (a b : oentry) : bool :=
  String.eqb (fst a) (fst b) && String.eqb (fst (snd a)) (fst (snd b)) && N.eqb (snd (snd a)) (snd (snd b)).
Fixpoint oentries_eqb (a b : list oentry) : bool :=
  match a, b with
  | [], [] => true
  | x :: a', y :: b' => oentry_eqb x y && oentries_eqb a' b'
  | _, _ => false
  end.

Definition case_mismatch (c : mcase) : bool :=
  match merge (mc_mode c) (arrivals c), mc_obs c with
  | MErr, None => false
  | MOk es, Some obs => negb (oentries_eqb es obs)
  | _, _ => true
  end.

(* the statement, with upload times only *)
Definition newest (l : list ver) : option ver :=
  fold_left (fun acc v => match acc with None => Some v | Some w => if N.ltb (v_time w) (v_time v) then Some v else Some w end) l None.

Definition expected_kept (vs : list ver) (p : string) : list ver :=
  match newest (versions_of p vs) with
  | None => []
  | Some w =>
      omap (fun s => match newest (filter (fun v => String.eqb (v_split v) s) (versions_of p vs)) with
                     | Some v => if negb (String.eqb (v_split v) (v_split w)) && negb (String.eqb (v_hash v) (v_hash w)) then Some v else None
                     | None => None end)
           (uniq_strs (map v_split (versions_of p vs)))
  end.

Definition has (obs : list oentry) (e : oentry) : bool := existsb (oentry_eqb e) obs.

Fixpoint strictly_sorted (l : list string) : bool :=
  match l with
  | x :: ((y :: _) as t) => String.ltb x y && strictly_sorted t
  | _ => true
  end.

Definition plain_ok (c : mcase) : bool :=
  match mc_plain c, mc_obs c with
  | Some pl, Some obs => oentries_eqb (by_name pl) (by_name obs)   (* same entries; the order of a file list carries no meaning *)
  | Some _, None => false
  | None, _ => true
  end.

Definition spec_ok (c : mcase) : bool :=
  plain_ok c &&
  if negb (mc_judged c) then true else
  let vs := arrivals c in
  let ps := uniq_strs (map v_path vs) in
  let nkept := List.length (flat_map (expected_kept vs) ps) in
  match mc_mode c, mc_obs c with
  | MForbid, None => negb (Nat.eqb nkept 0)
  | MForbid, Some obs | MIgnore, Some obs =>
      (match mc_mode c with MForbid => Nat.eqb nkept 0 | _ => true end) &&
      forallb (fun p => match newest (versions_of p vs) with Some w => has obs (p, (v_hash w, v_size w)) | None => false end) ps &&
      Nat.eqb (List.length obs) (List.length ps) && strictly_sorted (map fst obs)
  | (MConflicts | MCheckpoints) as m, Some obs =>
      let dir := match m with MConflicts => ".conflicts" | _ => ".checkpoints" end%string in
      forallb (fun p => match newest (versions_of p vs) with Some w => has obs (p, (v_hash w, v_size w)) | None => false end) ps &&
      forallb (fun p => forallb (fun v => has obs (deconflict dir (v_split v) p, (v_hash v, v_size v))) (expected_kept vs p)) ps &&
      Nat.eqb (List.length obs) (List.length ps + nkept) && strictly_sorted (map fst obs)
  | _, None => false
  end.

Definition report (cs : list mcase) : list N * list N :=
  (indices case_mismatch cs, indices (fun c => negb (spec_ok c)) cs).
