(* Executable comparison for C18 case files. *)
From Coq Require Import List String Ascii NArith Bool Arith.
From DM Require Import Base.Util Base.Str Model.BundleCheck Model.Mount Model.MutFs Model.Inode Model.InodeCheck.
Import ListNotations.
Open Scope list_scope.

Record ucase := {
  mu_steps : list (fsop * fres);                       (* operation, what the mount answered *)
  mu_inodes : list (list (list string * N));           (* at checkpoints: every live entry and its inode *)
  mu_commit : option (list (list string * list N));    (* files of the committed bundle (None: commit failed) *)
  mu_crashed : bool;                                   (* an operation panicked or killed the process *)
  mu_orphans : list bool                               (* files unlinked while still referenced: writes and reads through the inode went on working *)
}.

Definition errno_eqb (a b : errno) : bool :=
  match a, b with
  | ENOENT, ENOENT | EEXIST, EEXIST | ENOTEMPTY, ENOTEMPTY | ENOTDIR, ENOTDIR | EISDIR, EISDIR | EINVAL, EINVAL => true
  | _, _ => false
  end.

Fixpoint ns_eqb (a b : list N) : bool :=
  match a, b with
  | [], [] => true
  | x :: a', y :: b' => N.eqb x y && ns_eqb a' b'
  | _, _ => false
  end.

Definition name_in (l : list (string * bool)) (x : string * bool) : bool :=
  existsb (fun y => String.eqb (fst x) (fst y) && Bool.eqb (snd x) (snd y)) l.
Definition names_same (a b : list (string * bool)) : bool :=
  Nat.eqb (List.length a) (List.length b) && forallb (name_in b) a && forallb (name_in a) b.

Definition fres_eqb (a b : fres) : bool :=
  match a, b with
  | ROk, ROk => true
  | RErr x, RErr y => errno_eqb x y
  | RKind d1 s1, RKind d2 s2 => Bool.eqb d1 d2 && (d1 || Nat.eqb s1 s2)
  | RData x, RData y => ns_eqb x y
  | RNames x, RNames y => names_same x y
  | _, _ => false
  end.

Definition file_in (l : list (list string * list N)) (f : list string * list N) : bool :=
  existsb (fun g => path_eqb (fst f) (fst g) && ns_eqb (snd f) (snd g)) l.
Definition files_same (a b : list (list string * list N)) : bool :=
  Nat.eqb (List.length a) (List.length b) && forallb (file_in b) a && forallb (file_in a) b.

Fixpoint replay (steps : list (fsop * fres)) (t : list (list string * node)) : option (list (list string * node)) :=
  match steps with
  | [] => Some t
  | (o, obs) :: rest => let '(t', r) := step t o in if fres_eqb r obs then replay rest t' else None
  end.

Definition case_mismatch (c : ucase) : bool :=
  match replay (mu_steps c) [] with
  | None => true
  | Some t => match mu_commit c with Some fs => negb (files_same (files_of t) fs) | None => true end
  end.

Fixpoint nodup_N (l : list N) : bool :=
  match l with [] => true | x :: t => negb (existsb (N.eqb x) t) && nodup_N t end.

(* the reference tree is the statement; on top of it: no crash, no two live entries with one inode *)
Definition spec_ok (c : ucase) : bool :=
  negb (mu_crashed c) && negb (case_mismatch c) && forallb (fun cp => nodup_N (map snd cp)) (mu_inodes c) &&
  forallb (fun b => b) (mu_orphans c).

Definition report (cs : list ucase) : list N * list N :=
  (indices (fun c => case_mismatch c && negb (mu_crashed c)) cs, indices (fun c => negb (spec_ok c)) cs).

(* programs on the mount, and histories of its inode generator alone *)
Inductive c18case := UCase (c : ucase) | ICase (c : icase).
Definition report18 (cs : list c18case) : list N * list N :=
  (indices (fun x => match x with UCase c => case_mismatch c && negb (mu_crashed c) | ICase c => icase_mismatch c end) cs,
   indices (fun x => match x with UCase c => negb (spec_ok c) | ICase c => negb (icase_spec_ok c) end) cs).

(* diagnosis: the first step where the reference tree answers differently *)
Fixpoint first_bad (i : nat) (steps : list (fsop * fres)) (t : list (list string * node)) : option (nat * fsop * fres * fres) :=
  match steps with
  | [] => None
  | (o, obs) :: rest => let '(t', r) := step t o in if fres_eqb r obs then first_bad (S i) rest t' else Some (i, o, r, obs)
  end.
