(* Executable BLAKE2b (RFC 7693) with the tree-mode parameter block, over bytes as N.
   Used only to evaluate case files and vector examples; theorems never unfold it. *)
From Coq Require Import List NArith Lia.
Import ListNotations.
Open Scope N_scope.

Definition w64 := 18446744073709551616.
Definition mask64 := 18446744073709551615.
(* operands are below 2^64, so one conditional subtraction is the reduction *)
Definition add64 (a b : N) := let s := a + b in if s <? w64 then s else s - w64.
Definition rotr (x : N) (n : N) := N.lor (N.shiftr x n) (N.land (N.shiftl x (64 - n)) mask64).

Definition IV : list N := [
 0x6a09e667f3bcc908; 0xbb67ae8584caa73b; 0x3c6ef372fe94f82b; 0xa54ff53a5f1d36f1;
 0x510e527fade682d1; 0x9b05688c2b3e6c1f; 0x1f83d9abfb41bd6b; 0x5be0cd19137e2179].

Definition SIGMA : list (list nat) := [
 [0;1;2;3;4;5;6;7;8;9;10;11;12;13;14;15]%nat;
 [14;10;4;8;9;15;13;6;1;12;0;2;11;7;5;3]%nat;
 [11;8;12;0;5;2;15;13;10;14;3;6;7;1;9;4]%nat;
 [7;9;3;1;13;12;11;14;2;6;5;10;4;0;15;8]%nat;
 [9;0;5;7;2;4;10;15;14;1;11;12;6;8;3;13]%nat;
 [2;12;6;10;0;11;8;3;4;13;7;5;15;14;1;9]%nat;
 [12;5;1;15;14;13;4;10;0;7;6;3;9;2;8;11]%nat;
 [13;11;7;14;12;1;3;9;5;0;15;4;8;6;2;10]%nat;
 [6;15;14;9;11;3;0;8;12;2;13;7;1;4;10;5]%nat;
 [10;2;8;4;7;6;1;5;15;11;9;14;3;12;13;0]%nat;
 [0;1;2;3;4;5;6;7;8;9;10;11;12;13;14;15]%nat;
 [14;10;4;8;9;15;13;6;1;12;0;2;11;7;5;3]%nat].

Definition nth0 (l : list N) (i : nat) := nth i l 0.
Fixpoint upd (l : list N) (i : nat) (x : N) : list N :=
  match l, i with
  | [], _ => []
  | _ :: t, O => x :: t
  | h :: t, S j => h :: upd t j x
  end.

Definition G (v : list N) (a b c d : nat) (x y : N) : list N :=
  let va := add64 (add64 (nth0 v a) (nth0 v b)) x in
  let vd := rotr (N.lxor (nth0 v d) va) 32 in
  let vc := add64 (nth0 v c) vd in
  let vb := rotr (N.lxor (nth0 v b) vc) 24 in
  let va := add64 (add64 va vb) y in
  let vd := rotr (N.lxor vd va) 16 in
  let vc := add64 vc vd in
  let vb := rotr (N.lxor vb vc) 63 in
  upd (upd (upd (upd v a va) b vb) c vc) d vd.

Definition round (m : list N) (v : list N) (s : list nat) : list N :=
  let g v (a b c d i : nat) := G v a b c d (nth0 m (nth (2*i)%nat s 0%nat)) (nth0 m (nth (2*i+1)%nat s 0%nat)) in
  let v := g v 0%nat 4%nat 8%nat 12%nat 0%nat in let v := g v 1%nat 5%nat 9%nat 13%nat 1%nat in
  let v := g v 2%nat 6%nat 10%nat 14%nat 2%nat in let v := g v 3%nat 7%nat 11%nat 15%nat 3%nat in
  let v := g v 0%nat 5%nat 10%nat 15%nat 4%nat in let v := g v 1%nat 6%nat 11%nat 12%nat 5%nat in
  let v := g v 2%nat 7%nat 8%nat 13%nat 6%nat in g v 3%nat 4%nat 9%nat 14%nat 7%nat.

(* t: byte counter (< 2^64 here), f0: last block, f1: last node *)
Definition compress (h : list N) (m : list N) (t : N) (f0 f1 : bool) : list N :=
  let v := h ++ IV in
  let v := upd v 12%nat (N.lxor (nth0 v 12%nat) (t mod w64)) in
  let v := upd v 13%nat (N.lxor (nth0 v 13%nat) (t / w64)) in
  let v := if f0 then upd v 14%nat (N.lxor (nth0 v 14%nat) (w64 - 1)) else v in
  let v := if f1 then upd v 15%nat (N.lxor (nth0 v 15%nat) (w64 - 1)) else v in
  let v := fold_left (round m) SIGMA v in
  map (fun i => N.lxor (N.lxor (nth0 h i) (nth0 v i)) (nth0 v (i + 8)%nat)) (seq 0%nat 8%nat).

Fixpoint le_word (bs : list N) (k : nat) : N :=
  match k with O => 0 | S k' => match bs with [] => 0 | b :: t => b + 256 * le_word t k' end end.
Fixpoint words (bs : list N) (n : nat) : list N :=
  match n with O => [] | S n' => le_word bs 8%nat :: words (skipn 8%nat bs) n' end.

(* parameter block for tree mode: digest 64, key 0, fanout, depth, leaf length, node offset, node depth, inner length *)
Definition param_words (fanout depth : N) (leaflen : N) (nodeoff : N) (nodedepth inner : N) : list N :=
  [ 64 + 256 * 0 + 65536 * fanout + 16777216 * depth + 4294967296 * leaflen;
    nodeoff; nodedepth + 256 * inner; 0; 0; 0; 0; 0 ].

Definition h0 (p : list N) := map (fun i => N.lxor (nth0 IV i) (nth0 p i)) (seq 0%nat 8%nat).

(* process data with fuel = number of blocks *)
Fixpoint blocks (fuel : nat) (h : list N) (data : list N) (t : N) (lastnode : bool) : list N :=
  match fuel with
  | O => h
  | S f =>
    if (N.of_nat (length data) <=? 128) then
      compress h (words (data ++ repeat 0 (128 - length data)%nat) 16%nat) (t + N.of_nat (length data)) true lastnode
    else blocks f (compress h (words (firstn 128%nat data) 16%nat) (t + 128) false false) (skipn 128%nat data) (t + 128) lastnode
  end.

Fixpoint word_bytes (w : N) (k : nat) : list N :=
  match k with O => [] | S k' => (w mod 256) :: word_bytes (w / 256) k' end.

Definition blake2b_tree (leaflen nodeoff nodedepth : N) (lastnode : bool) (data : list N) : list N :=
  let h := blocks (S (Nat.div (length data) 128)) (h0 (param_words 0 2 leaflen nodeoff nodedepth 64)) data 0 lastnode in
  flat_map (fun w => word_bytes w 8%nat) h.

Definition blake2b_plain (data : list N) : list N :=
  let p := [64 + 65536 * 1 + 16777216 * 1; 0;0;0;0;0;0;0] in
  flat_map (fun w => word_bytes w 8%nat) (blocks (S (Nat.div (length data) 128)) (h0 p) data 0 false).


(* RFC 7693 appendix A: BLAKE2b-512("abc") *)
Example blake2b_abc :
  firstn 8 (blake2b_plain [97;98;99]) = [0xBA; 0x80; 0xA5; 0x3F; 0x98; 0x1C; 0x4D; 0x0D].
Proof. vm_compute. reflexivity. Qed.

Definition bench_data := repeat 7 2000%nat.
