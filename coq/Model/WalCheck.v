(* Executable comparison for C19 case files. *)
From Coq Require Import List NArith Bool Arith String.
From DM Require Import Base.Util Gen.Consts Model.Wal.
Import ListNotations.
Open Scope N_scope.

Record wlist := { wl_from : N; wl_max : nat; wl_obs : option (list (N * string)) }.
Record wcase := { wa_appends : list (N * string);
  wa_seconds : list N;      (* for each appended entry, by how many seconds the clock had been moved when it was appended *)
  wa_refused : nat;         (* appends the log refused although the store was healthy *)
  wa_lists : list wlist }.

Definition entry_eqb (a b : N * string) : bool := (fst a =? fst b) && String.eqb (snd a) (snd b).
Fixpoint entries_eqb (a b : list (N * string)) : bool :=
  match a, b with
  | [], [] => true
  | x :: a', y :: b' => entry_eqb x y && entries_eqb a' b'
  | _, _ => false
  end.

Definition case_mismatch (c : wcase) : bool :=
  let l := add_all (wa_appends c) in
  existsb (fun q => match wl_obs q with
                    | Some obs => negb (entries_eqb (list_entries (wl_from q) (wl_max q) l) obs)
                    | None => negb (Nat.eqb (wl_max q) 0)       (* refused only for a non-positive maximum *)
                    end) (wa_lists c).

Fixpoint strictly_increasing (l : list N) : bool :=
  match l with
  | x :: ((y :: _) as t) => (x <? y) && strictly_increasing t
  | _ => true
  end.

Definition count_if {A} (f : A -> bool) (l : list A) : nat := List.length (filter f l).

(* the statement, on the appended entries and the observed listings alone *)
Definition spec_ok (c : wcase) : bool :=
  let apps := wa_appends c in
  (* every append is taken *)
  Nat.eqb (wa_refused c) 0 &&
  (* unique tokens *)
  forallb (fun e => Nat.eqb (count_if (fun e' => fst e =? fst e') apps) 1) apps &&
  (* a token issued after the clock was moved on by two seconds or more sorts after the earlier ones
     (the runs themselves take well under a second) *)
  (let timed := combine (map fst apps) (wa_seconds c) in
   forallb (fun a => forallb (fun b => if snd a + 2 <=? snd b then fst a <? fst b else true) timed) timed) &&
  forallb (fun q =>
    match wl_obs q with
    | None => Nat.eqb (wl_max q) 0
    | Some obs =>
        let start := list_start (wl_from q) in
        let due := filter (fun e => start <=? fst e) apps in
        let m := Nat.min (wl_max q) walMaxEntriesPerList in
        (* token order, no duplicates *)
        strictly_increasing (map fst obs) &&
        (* only appended entries, token and payload unchanged, none from before the window *)
        forallb (fun o => existsb (entry_eqb o) due) obs &&
        (* all of them, up to the maximum; when cut, the smallest tokens *)
        Nat.eqb (List.length obs) (Nat.min m (List.length due)) &&
        forallb (fun o => Nat.leb (count_if (fun e => fst e <? fst o) due) (List.length obs - 1)) obs
    end) (wa_lists c).

Definition report (cs : list wcase) : list N * list N :=
  (indices case_mismatch cs, indices (fun c => negb (spec_ok c)) cs).
