(* Executable comparison for the histories of repository-level operations (C08, C09, C10, C06). *)
From Coq Require Import List String Ascii NArith Bool Arith.
From DM Require Import Base.Util Base.Str Base.StrOrder Base.Paging Base.Listing Gen.Paths Model.PathsParse Model.PathsCheck
  Model.Meta Model.Bundle Model.BundleCheck Model.ListOps Model.ListCheck Model.RepoOps.
Import ListNotations.
Open Scope list_scope.

Inductive wop :=
| OCreateRepo (r : string)
| OUpload (r id : string) (es : list entry)
| OLeftover (r id : string) (es : list entry)      (* file lists of an upload that never wrote its descriptor *)
| OSetLabel (r name b : string)
| OGetLabel (r name : string)
| ODeleteLabel (r name : string)
| OListLabels (r prefix : string)
| OListBundles (r : string)
| OLatest (r : string)
| ODeleteRepo (r : string)
| ORename (r r' : string)
| ODeleteEntries (r : string) (paths : list string)
| OSquash (r : string) (n : nat) (mode : tagmode) (semver : list string).

Inductive wobs :=
| WRes (ok : bool)
| WStr (v : option string)
| WPairs (v : option (list (string * string)))
| WStrs (v : option (list string)).

Record snap := { sn_meta : mstore; sn_vmeta : mstore }.
Record wstep := { ws_op : wop; ws_obs : wobs; ws_snaps : option (snap * snap) }.   (* stores before / after a judged step *)
Record wcase := { wc_E : nat; wc_steps : list wstep; wc_final : snap }.

Definition mval_eqb (a b : mval) : bool :=
  match a, b with
  | VRepo x, VRepo y => String.eqb x y
  | VBundle i c, VBundle j d => String.eqb i j && N.eqb c d
  | VIndex x, VIndex y => entries_eqb x y
  | VLabel n b1, VLabel m b2 => String.eqb n m && String.eqb b1 b2
  | VDiamond a1 a2 a3, VDiamond b1 b2 b3 => String.eqb a1 b1 && String.eqb a2 b2 && String.eqb a3 b3
  | VSplit a1 a2 a3 c1, VSplit b1 b2 b3 c2 => String.eqb a1 b1 && String.eqb a2 b2 && String.eqb a3 b3 && N.eqb c1 c2
  | VOther, VOther => true
  | _, _ => false
  end.

Definition store_sub (a b : mstore) : bool :=
  forallb (fun kv => match mget (fst kv) b with Some v => mval_eqb v (snd kv) | None => false end) a.
Definition store_eqb (a b : mstore) : bool := store_sub a b && store_sub b a.

Definition rc_ok (r : rc) : bool := match r with ROk => true | RErr => false end.

Definition wstep_model (E : nat) (w : wstate) (o : wop) : wstate * wobs :=
  match o with
  | OCreateRepo r => let '(c, w') := create_repo r w in (w', WRes (rc_ok c))
  | OUpload r id es => let '(c, w') := upload r id es E w in (w', WRes (rc_ok c))
  | OLeftover r id es =>
      (match put_indexes r id 0%N (chunk E es) (w_meta w) with Some m => with_meta w m | None => w end, WRes true)
  | OSetLabel r n b => let '(c, w') := set_label r n b w in (w', WRes (rc_ok c))
  | OGetLabel r n => (w, WStr (get_label r n w))
  | ODeleteLabel r n => let '(c, w') := delete_label r n true w in (w', WRes (rc_ok c))
  | OListLabels r p => (w, WPairs (if repo_exists r w then Some (labels_of r p w) else None))
  | OListBundles r => (w, WStrs (list_bundles r 1000 (w_meta w)))
  | OLatest r => (w, WStr (latest_bundle r w))
  | ODeleteRepo r => let '(c, w') := delete_repo r w in (w', WRes (rc_ok c))
  | ORename r r' => let '(c, w') := rename_repo r r' w in (w', WRes (rc_ok c))
  | ODeleteEntries r ps => let '(c, w') := delete_entries r ps E w in (w', WRes (rc_ok c))
  | OSquash r n m sv => let '(c, w') := squash r n m sv w in (w', WRes (rc_ok c))
  end.

Definition wobs_eqb (a b : wobs) : bool :=
  match a, b with
  | WRes x, WRes y => Bool.eqb x y
  | WStr (Some x), WStr (Some y) => String.eqb x y
  | WStr None, WStr None => true
  | WPairs (Some x), WPairs (Some y) => ListCheck.pairs_eqb x y
  | WPairs None, WPairs None => true
  | WStrs x, WStrs y => ostrs_eqb x y
  | _, _ => false
  end.

Fixpoint run_mismatch (E : nat) (w : wstate) (steps : list wstep) (final : snap) : bool :=
  match steps with
  | [] => negb (store_eqb (w_meta w) (sn_meta final) && store_eqb (w_vmeta w) (sn_vmeta final))
  | s :: t =>
      let '(w', ob) := wstep_model E w (ws_op s) in
      negb (wobs_eqb ob (ws_obs s)) ||
      match ws_snaps s with
      | Some (_, after) => negb (store_eqb (w_meta w') (sn_meta after) && store_eqb (w_vmeta w') (sn_vmeta after))
      | None => false
      end || run_mismatch E w' t final
  end.

Definition case_mismatch (c : wcase) : bool :=
  run_mismatch (wc_E c) {| w_meta := []; w_vmeta := [] |} (wc_steps c) (wc_final c).

(* ------------------------------------------------------------------ specifications on observations *)

(* the repository a metadata key belongs to, as the path parser reads it *)
Definition key_repo (k : string) : option string :=
  match get_components k with Some apc => Some (c_repo apc) | None => None end.
Definition belongs (r : string) (k : string) : bool :=
  match key_repo k with Some x => String.eqb x r | None => false end.

Definition frame_ok (keep : string -> bool) (before after : mstore) : bool :=
  forallb (fun kv => negb (keep (fst kv)) || match mget (fst kv) after with Some v => mval_eqb v (snd kv) | None => false end) before &&
  forallb (fun kv => negb (keep (fst kv)) || match mget (fst kv) before with Some v => mval_eqb v (snd kv) | None => false end) after.

(* C08: labels against an abstract map (repo, name) -> bundle *)
Definition lmap := list (string * string * string).
Fixpoint lm_get (r n : string) (m : lmap) : option string :=
  match m with
  | [] => None
  | (r', n', b) :: t => if String.eqb r r' && String.eqb n n' then Some b else lm_get r n t
  end.
Definition lm_del (r n : string) (m : lmap) : lmap :=
  filter (fun x => negb (String.eqb r (fst (fst x)) && String.eqb n (snd (fst x)))) m.
Definition lm_drop_repo (r : string) (m : lmap) : lmap := filter (fun x => negb (String.eqb r (fst (fst x)))) m.

Fixpoint insert_pair (x : string * string) (l : list (string * string)) : list (string * string) :=
  match l with [] => [x] | y :: t => if key_order_leb (fst x) (fst y) then x :: l else y :: insert_pair x t end.

Definition label_key (r : string) (k : string) : bool := starts_with (GetArchivePathPrefixToLabels r []) k.

Fixpoint c08_run (repos : list string) (m : lmap) (steps : list wstep) : bool :=
  match steps with
  | [] => true
  | s :: t =>
      let live r := existsb (String.eqb r) repos in
      match ws_op s, ws_obs s with
      | OCreateRepo r, WRes true => c08_run (r :: repos) m t
      | ODeleteRepo r, WRes true => c08_run (filter (fun x => negb (String.eqb x r)) repos) (lm_drop_repo r m) t
      | ORename r r', WRes true =>
          c08_run (r' :: filter (fun x => negb (String.eqb x r)) repos)
                  (map (fun x => if String.eqb (fst (fst x)) r then (r', snd (fst x), snd x) else x) m) t
      | OSquash r _ _ _, _ => true   (* squash removes labels: judged by C10; stop following the map *)
      | OSetLabel r n b, WRes ok =>
          (* names of the documented alphabet are accepted on a live repository; nothing is accepted on an
             unknown one; whatever else is accepted must behave (it enters the map below) *)
          implb ok (live r) &&
          implb (live r && PathsCheck.label_name_ok n && negb (String.eqb b EmptyString)) ok &&
          (* setting a label changes no bundle and no other label *)
          match ws_snaps s with
          | Some (before, after) =>
              frame_ok (fun _ => true) (sn_meta before) (sn_meta after) &&
              frame_ok (fun k => negb (String.eqb k (GetArchivePathToLabel r n))) (sn_vmeta before) (sn_vmeta after)
          | None => true
          end &&
          c08_run repos (if ok then (r, n, b) :: lm_del r n m else m) t
      | ODeleteLabel r n, WRes ok =>
          Bool.eqb ok (live r && match lm_get r n m with Some _ => true | None => false end) &&
          c08_run repos (if ok then lm_del r n m else m) t
      | OGetLabel r n, WStr v =>
          (match v, (if live r then lm_get r n m else None) with
           | Some x, Some y => String.eqb x y | None, None => true | _, _ => false end) && c08_run repos m t
      | OListLabels r p, WPairs v =>
          (match v with
           | Some l => live r && ListCheck.pairs_eqb l
                         (fold_right insert_pair [] (map (fun x => (snd (fst x), snd x))
                            (filter (fun x => String.eqb (fst (fst x)) r && starts_with p (snd (fst x))) m)))
           | None => negb (live r)
           end) && c08_run repos m t
      | _, _ => c08_run repos m t
      end
  end.
Definition c08_ok (c : wcase) : bool := c08_run [] [] (wc_steps c).

(* C09: delete / rename / delete-files stay inside their repository *)
Definition committed (r : string) (m : mstore) : list string := spec_bundles r m.
Definition bundle_entries (r id : string) (m : mstore) : list entry :=
  match mget (GetArchivePathToBundle r id) m with
  | Some (VBundle _ c) =>
      flat_map (fun i => match mget (GetArchivePathToBundleFileList r id (N.of_nat i)) m with Some (VIndex es) => es | _ => [] end)
               (seq 0 (N.to_nat c))
  | _ => []
  end.

Definition c09_step_ok (s : wstep) : bool :=
  match ws_op s, ws_obs s, ws_snaps s with
  | ODeleteRepo r, WRes true, Some (b, a) =>
      (* nothing of r is left (repository, committed bundles with their file lists, labels); nothing else changed *)
      negb (mhas (GetArchivePathToRepoDescriptor r) (sn_meta a)) &&
      forallb (fun id => negb (existsb (fun kv => starts_with (GetArchivePathPrefixToBundles r ++ id ++ "/")%string (fst kv)) (sn_meta a))) (committed r (sn_meta b)) &&
      negb (existsb (fun kv => label_key r (fst kv)) (sn_vmeta a)) &&
      frame_ok (fun k => negb (belongs r k)) (sn_meta b) (sn_meta a) &&
      frame_ok (fun k => negb (belongs r k)) (sn_vmeta b) (sn_vmeta a)
  | ORename r r', WRes true, Some (b, a) =>
      negb (mhas (GetArchivePathToRepoDescriptor r) (sn_meta a)) && mhas (GetArchivePathToRepoDescriptor r') (sn_meta a) &&
      strs_eqb (committed r' (sn_meta a)) (committed r (sn_meta b)) &&
      forallb (fun id => entries_eqb (bundle_entries r' id (sn_meta a)) (bundle_entries r id (sn_meta b))) (committed r (sn_meta b)) &&
      ListCheck.pairs_eqb (spec_labels r' EmptyString (sn_vmeta a)) (spec_labels r EmptyString (sn_vmeta b)) &&
      negb (existsb (fun kv => label_key r (fst kv)) (sn_vmeta a)) && strs_eqb (committed r (sn_meta a)) [] &&
      frame_ok (fun k => negb (belongs r k) && negb (belongs r' k)) (sn_meta b) (sn_meta a) &&
      frame_ok (fun k => negb (belongs r k) && negb (belongs r' k)) (sn_vmeta b) (sn_vmeta a)
  | ODeleteEntries r ps, WRes true, Some (b, a) =>
      strs_eqb (committed r (sn_meta a)) (committed r (sn_meta b)) &&
      forallb (fun id => entries_eqb (bundle_entries r id (sn_meta a))
                           (filter (fun e => negb (existsb (String.eqb (e_name e)) ps)) (bundle_entries r id (sn_meta b))))
              (committed r (sn_meta b)) &&
      (* the bundles still read back: file lists keep the layout the reader checks *)
      forallb (fun id => match mget (GetArchivePathToBundle r id) (sn_meta a) with
                         | Some (VBundle _ c) =>
                             match unpack_lists E_default (N.to_nat c) 0
                                     (fun i => match mget (GetArchivePathToBundleFileList r id (N.of_nat i)) (sn_meta a) with Some (VIndex es) => Some es | _ => None end) with
                             | Some _ => true | None => false end
                         | _ => false end) (committed r (sn_meta b)) &&
      (* no file list is left beside the ones the descriptor counts *)
      forallb (fun id => match mget (GetArchivePathToBundle r id) (sn_meta a) with
                         | Some (VBundle _ c) =>
                             Nat.eqb (List.length (filter (fun kv => starts_with (GetArchivePathPrefixToBundles r ++ id ++ "/")%string (fst kv)) (sn_meta a)))
                                     (S (N.to_nat c))
                         | _ => false end) (committed r (sn_meta b)) &&
      frame_ok (fun k => negb (belongs r k)) (sn_meta b) (sn_meta a) &&
      frame_ok (fun _ => true) (sn_vmeta b) (sn_vmeta a)
  | ODeleteEntries r ps, WRes false, Some (b, _) =>
      (* delete-files may refuse only a repository that does not exist *)
      negb (mhas (GetArchivePathToRepoDescriptor r) (sn_meta b))
  | _, _, _ => true
  end.
(* sequentially, creating a name succeeds exactly when it does not exist yet *)
Fixpoint creates_ok (seen : list string) (steps : list wstep) : bool :=
  match steps with
  | [] => true
  | s :: t =>
      match ws_op s, ws_obs s with
      | OCreateRepo r, WRes ok => Bool.eqb ok (negb (existsb (String.eqb r) seen)) && creates_ok (if ok then r :: seen else seen) t
      | ODeleteRepo r, WRes true => creates_ok (filter (fun x => negb (String.eqb x r)) seen) t
      | ORename r r', WRes true => creates_ok (r' :: filter (fun x => negb (String.eqb x r)) seen) t
      | _, _ => creates_ok seen t
      end
  end.
Definition c09_ok (c : wcase) : bool := forallb c09_step_ok (wc_steps c) && creates_ok [] (wc_steps c).

(* C10: squash keeps exactly the n most recent committed bundles plus the labelled ones *)
Definition c10_step_ok (s : wstep) : bool :=
  match ws_op s, ws_obs s, ws_snaps s with
  | OSquash r n mode semver, WRes true, Some (b, a) =>
      let n := if Nat.eqb n 0 then 1 else n in
      let before := committed r (sn_meta b) in
      let labels_b := spec_labels r EmptyString (sn_vmeta b) in
      let tagged := match mode with
                    | TNone => []
                    | TAll => map snd labels_b
                    | TSemver => map snd (filter (fun l => existsb (String.eqb (fst l)) semver) labels_b)
                    end in
      let keep := filter (fun id => existsb (String.eqb id) (skipn (List.length before - n) before) || existsb (String.eqb id) tagged) before in
      strs_eqb (committed r (sn_meta a)) keep &&
      forallb (fun id => entries_eqb (bundle_entries r id (sn_meta a)) (bundle_entries r id (sn_meta b))) keep &&
      (* labels of kept bundles are intact; no label is left on a bundle this squash removed; no label
         appears (labels that pointed nowhere before may or may not be cleaned up) *)
      let labels_a := spec_labels r EmptyString (sn_vmeta a) in
      let on_kept := filter (fun l : string * string => existsb (String.eqb (snd l)) keep) in
      ListCheck.pairs_eqb (on_kept labels_a) (on_kept labels_b) &&
      forallb (fun l : string * string =>
                 (existsb (String.eqb (snd l)) keep || negb (existsb (String.eqb (snd l)) before)) &&
                 existsb (fun l' : string * string => String.eqb (fst l) (fst l') && String.eqb (snd l) (snd l')) labels_b) labels_a &&
      frame_ok (fun k => negb (belongs r k)) (sn_meta b) (sn_meta a) &&
      frame_ok (fun k => negb (belongs r k)) (sn_vmeta b) (sn_vmeta a)
  | _, _, _ => true
  end.
Definition c10_ok (c : wcase) : bool := forallb c10_step_ok (wc_steps c).

(* latest bundle = the most recent committed one (C06 / C10) *)
Definition latest_step_ok (s : wstep) : bool :=
  match ws_op s, ws_obs s, ws_snaps s with
  | OLatest r, WStr v, Some (b, _) =>
      match v, rev (committed r (sn_meta b)) with
      | Some x, y :: _ => String.eqb x y
      | None, [] => true
      | _, _ => false
      end
  | _, _, _ => true
  end.

Definition report08 (cs : list wcase) := (indices case_mismatch cs, indices (fun c => negb (c08_ok c)) cs).
Definition report09 (cs : list wcase) := (indices case_mismatch cs, indices (fun c => negb (c09_ok c)) cs).
Definition report10 (cs : list wcase) := (indices case_mismatch cs, indices (fun c => negb (c10_ok c && forallb latest_step_ok (wc_steps c))) cs).
