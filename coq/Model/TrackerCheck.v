(* Executable comparison of implementation observations with the tracker model and
   with the bitmap specification; used by the generated case files. *)
From Coq Require Import List ZArith NArith Bool Lia.
From DM Require Import Base.Util Model.Tracker.
Import ListNotations.
Open Scope Z_scope.

(* one probe: offset, length, observed (contiguous, mutable) *)
Definition probe := (Z * Z * (Z * bool))%type.
Definition tcase := (list (Z * Z) * list probe)%type.

Definition obs_eqb (a b : Z * bool) : bool := (fst a =? fst b) && Bool.eqb (snd a) (snd b).

(* the property's statement for one observation, decided against the set of written offsets *)
Definition probe_ok (ws : list (Z * Z)) (off len : Z) (o : Z * bool) : bool :=
  let '(c, b) := o in
  Bool.eqb b (covered_by ws off) && (0 <? c) && (c <=? len) &&
  forallb (fun y => Bool.eqb (covered_by ws y) (covered_by ws off)) (zseq off (Z.to_nat c)).

Definition case_mismatch (c : tcase) : bool :=
  let m := run_writes (fst c) in
  existsb (fun p : probe => let '(off, len, o) := p in negb (obs_eqb (get_range off len m) o)) (snd c).

Definition case_spec_fail (c : tcase) : bool :=
  existsb (fun p : probe => let '(off, len, o) := p in negb (probe_ok (fst c) off len o)) (snd c).

Definition report (cs : list tcase) : list N * list N :=
  (indices case_mismatch cs, indices case_spec_fail cs).
