(* Model of the listing pipeline of pkg/core (keys.go, *_list.go): paged key retrieval with a
   per-page filter, the running/done merge of diamond and split keys, retrieval of descriptors. *)
From Coq Require Import List String Ascii NArith Bool Arith.
From DM Require Import Base.Str Base.StrOrder Base.Paging Base.Listing Gen.Paths Model.PathsParse Model.Meta.
Import ListNotations.
Open Scope list_scope.

(* fetchKeys: follow the continuation tokens; every page goes through the filter; the loop ends
   when the store returns no continuation *)
Fixpoint fetch_keys (fuel : nat) (tok : option string) (count : nat) (f : string -> bool) (l : list string)
  : option (list (list string)) :=
  match fuel with
  | O => None
  | S fu =>
      let '(p, next) := page start_seek tok count l in
      match next with
      | None => Some [filter f p]
      | Some t => match fetch_keys fu (Some t) count f l with Some r => Some (filter f p :: r) | None => None end
      end
  end.

(* path.Base of a key *)
Fixpoint basename_aux (s acc : string) : string :=
  match s with
  | EmptyString => acc
  | String c t => if is_slash c then basename_aux t EmptyString else basename_aux t (acc ++ String c EmptyString)%string
  end.
Definition basename (s : string) : string := basename_aux s EmptyString.
Definition basename_filter (p : string) (k : string) : bool := starts_with p (basename k).

(* mergeKeys: one key per diamond / split, the final record when there is one *)
Record mstate := { ms_final : bool; ms_count : nat; ms_key : string }.
Definition states := list (string * mstate).
Fixpoint st_get (id : string) (s : states) : mstate :=
  match s with
  | [] => {| ms_final := false; ms_count := 0; ms_key := EmptyString |}
  | (i, v) :: t => if String.eqb id i then v else st_get id t
  end.
Fixpoint st_del (id : string) (s : states) : states :=
  match s with [] => [] | (i, v) :: t => if String.eqb id i then st_del id t else (i, v) :: st_del id t end.

Definition merge_step (acc : states * list string) (key : string) : states * list string :=
  let '(st, out) := acc in
  match get_components key with
  | None => acc
  | Some apc =>
      if String.eqb (c_split apc) EmptyString && String.eqb (c_diamond apc) EmptyString then acc
      else
        let id := (c_diamond apc ++ c_split apc)%string in
        let ks := st_get id st in
        let retained := if ms_final ks && negb (c_final apc) then ms_key ks else key in
        let ks' := {| ms_final := ms_final ks || c_final apc; ms_count := S (ms_count ks); ms_key := retained |} in
        if Nat.ltb 1 (ms_count ks') || (Nat.eqb (ms_count ks') 1 && negb (ms_final ks'))
        then (st_del id st, out ++ [retained])
        else ((id, ks') :: st_del id st, out)
  end.

Definition merge_batch (st : states) (batch : list string) : states * list string :=
  fold_left merge_step batch (st, []).

Fixpoint merge_batches (st : states) (batches : list (list string)) : list (list string) :=
  match batches with
  | [] => []
  | b :: t => let '(st', out) := merge_batch st b in out :: merge_batches st' t
  end.

(* ---- what each listing returns, as names / ids in the order delivered ---- *)
Definition all_batches (count : nat) (f : string -> bool) (prefix delim : string) (s : mstore) : option (list (list string)) :=
  fetch_keys (S (List.length (mlist prefix delim s))) None count f (mlist prefix delim s).

Definition key_order_leb (a b : string) : bool := String.leb (a ++ "/")%string (b ++ "/")%string.
Fixpoint insert_by (leb : string -> string -> bool) (x : string) (l : list string) : list string :=
  match l with [] => [x] | y :: t => if leb x y then x :: l else y :: insert_by leb x t end.
Definition sort_by (leb : string -> string -> bool) (l : list string) : list string := fold_right (insert_by leb) [] l.

(* repos: keys repos/<name>/repo.yaml; names sorted per batch in key order *)
Definition repo_of_key (s : mstore) (k : string) : option string :=
  match get_components k with
  | Some apc => match mget (GetArchivePathToRepoDescriptor (c_repo apc)) s with Some (VRepo n) => Some n | _ => None end
  | None => None
  end.
Fixpoint omap {A B} (f : A -> option B) (l : list A) : list B :=
  match l with [] => [] | x :: t => match f x with Some y => y :: omap f t | None => omap f t end end.

Definition list_repos (count : nat) (s : mstore) : option (list string) :=
  option_map (fun bs => List.concat (map (fun b => sort_by key_order_leb (omap (repo_of_key s) b)) bs))
             (all_batches count (fun _ => true) GetArchivePathPrefixToRepos EmptyString s).

(* bundles: delimited listing bundles/<repo>/<id>/ ; a bundle counts when its descriptor exists *)
Definition bundle_of_key (repo : string) (s : mstore) (k : string) : option string :=
  match get_components k with
  | Some apc => match mget (GetArchivePathToBundle repo (c_bundle apc)) s with Some (VBundle id _) => Some id | _ => None end
  | None => None
  end.
Definition list_bundles (repo : string) (count : nat) (s : mstore) : option (list string) :=
  if negb (mhas (GetArchivePathToRepoDescriptor repo) s) then None else
  option_map (fun bs => List.concat (map (fun b => sort_by String.leb (omap (bundle_of_key repo s) b)) bs))
             (all_batches count (fun _ => true) (GetArchivePathPrefixToBundles repo) "/"%string s).

(* labels (vmetadata store): keys labels/<repo>/<name>/label.yaml, optional name prefix *)
Definition label_of_key (s : mstore) (k : string) : option (string * string) :=
  match get_components k with
  | Some apc => match mget k s with Some (VLabel n b) => Some (c_label apc, b) | _ => None end
  | None => None
  end.
Definition list_labels (repo prefix : string) (count : nat) (vs : mstore) : option (list (string * string)) :=
  option_map (fun bs => List.concat (map (fun b =>
                 let ls := omap (label_of_key vs) b in
                 map (fun n => (n, match find (fun p => String.eqb (fst p) n) ls with Some p => snd p | None => EmptyString end))
                     (sort_by key_order_leb (map fst ls))) bs))
             (all_batches count (fun _ => true) (GetArchivePathPrefixToLabels repo [prefix]) EmptyString vs).

(* diamonds and splits (vmetadata store): ids as delivered, batch by batch *)
Definition diamond_of_key (s : mstore) (k : string) : option string :=
  match mget k s with Some (VDiamond id _ _) => Some id | _ => None end.
Definition list_diamonds (repo : string) (count : nat) (vs : mstore) : option (list (list string)) :=
  option_map (fun bs => map (omap (diamond_of_key vs)) (merge_batches [] bs))
             (all_batches count (basename_filter "diamond-") (GetArchivePathPrefixToDiamonds repo) EmptyString vs).

Definition split_of_key (s : mstore) (k : string) : option string :=
  match mget k s with Some (VSplit id _ _ _) => Some id | _ => None end.
Definition list_splits (repo did : string) (count : nat) (vs : mstore) : option (list (list string)) :=
  option_map (fun bs => map (omap (split_of_key vs)) (merge_batches [] bs))
             (all_batches count (basename_filter "split-") (GetArchivePathPrefixToSplits repo did) EmptyString vs).
