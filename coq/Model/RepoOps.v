(* Model of the repository-level operations of pkg/core over the reference store: repositories,
   bundle metadata, labels, delete / rename / delete-files, squash, latest bundle.
   meta = immutable metadata store, vmeta = versioned metadata store (labels). *)
From Coq Require Import List String Ascii NArith Bool Arith.
From DM Require Import Base.Str Base.StrOrder Base.Paging Base.Listing Gen.Paths Model.PathsParse Model.PathsCheck Model.Meta Model.Bundle Model.ListOps.
Import ListNotations.
Open Scope list_scope.

Record wstate := { w_meta : mstore; w_vmeta : mstore }.

Definition repo_exists (r : string) (w : wstate) : bool := mhas (GetArchivePathToRepoDescriptor r) (w_meta w).

(* result classes *)
Inductive rc := ROk | RErr.

Definition with_meta (w : wstate) (m : mstore) : wstate := {| w_meta := m; w_vmeta := w_vmeta w |}.
Definition with_vmeta (w : wstate) (v : mstore) : wstate := {| w_meta := w_meta w; w_vmeta := v |}.

Definition create_repo (r : string) (w : wstate) : rc * wstate :=
  match mput (GetArchivePathToRepoDescriptor r) (VRepo r) true (w_meta w) with
  | (POk, m) => (ROk, with_meta w m)
  | (PExists, _) => (RErr, w)
  end.

(* write index files (create-if-absent) then the descriptor; stops at the first refusal *)
Fixpoint put_indexes (r id : string) (i : N) (cs : list (list entry)) (m : mstore) : option mstore :=
  match cs with
  | [] => Some m
  | c :: t => match mput (GetArchivePathToBundleFileList r id i) (VIndex c) true m with
              | (POk, m') => put_indexes r id (i + 1)%N t m'
              | (PExists, _) => None
              end
  end.

Definition upload (r id : string) (es : list entry) (E : nat) (w : wstate) : rc * wstate :=
  if negb (repo_exists r w) then (RErr, w) else
  match put_indexes r id 0%N (chunk E es) (w_meta w) with
  | None => (RErr, w)
  | Some m =>
      match mput (GetArchivePathToBundle r id) (VBundle id (N.of_nat (List.length (chunk E es)))) true m with
      | (POk, m') => (ROk, with_meta w m')
      | (PExists, _) => (RErr, with_meta w m)
      end
  end.

(* core's check of a label name: a single non-empty path element *)
Definition label_elem_ok (n : string) : bool :=
  negb (String.eqb n EmptyString) && negb (String.eqb n ".") && negb (String.eqb n "..") && noslash n.

Definition set_label (r name b : string) (w : wstate) : rc * wstate :=
  if negb (repo_exists r w) || negb (label_elem_ok name) || String.eqb b EmptyString then (RErr, w) else
  (ROk, with_vmeta w (snd (mput (GetArchivePathToLabel r name) (VLabel name b) false (w_vmeta w)))).

Definition get_label (r name : string) (w : wstate) : option string :=
  if negb (repo_exists r w) then None else
  match mget (GetArchivePathToLabel r name) (w_vmeta w) with Some (VLabel _ b) => Some b | _ => None end.

Definition delete_label (r name : string) (check : bool) (w : wstate) : rc * wstate :=
  if check && negb (repo_exists r w) then (RErr, w) else
  match mdelete (GetArchivePathToLabel r name) (w_vmeta w) with
  | (true, v) => (ROk, with_vmeta w v)
  | (false, _) => (RErr, w)
  end.

Definition labels_of (r prefix : string) (w : wstate) : list (string * string) :=
  match list_labels r prefix 1000 (w_vmeta w) with Some l => l | None => [] end.
Definition bundles_of (r : string) (w : wstate) : list string :=
  match list_bundles r 1000 (w_meta w) with Some l => l | None => [] end.

(* DeleteBundle in the mode used by DeleteRepo and RepoSquash: errors ignored, labels left alone *)
Fixpoint delete_until_fail (fuel : nat) (r id : string) (i : N) (m : mstore) : mstore :=
  match fuel with
  | O => m
  | S f => match mdelete (GetArchivePathToBundleFileList r id i) m with
           | (true, m') => delete_until_fail f r id (i + 1)%N m'
           | (false, _) => m
           end
  end.
Fixpoint delete_n (n : nat) (r id : string) (i : N) (m : mstore) : mstore :=
  match n with
  | O => m
  | S k => delete_n k r id (i + 1)%N (snd (mdelete (GetArchivePathToBundleFileList r id i) m))
  end.
Definition delete_bundle_quiet (r id : string) (m : mstore) : mstore :=
  let count := match mget (GetArchivePathToBundle r id) m with Some (VBundle _ c) => c | _ => 0%N end in
  let m1 := if N.eqb count 0 then delete_until_fail (S (List.length m)) r id 0%N m
            else delete_n (N.to_nat count) r id 0%N m in
  snd (mdelete (GetArchivePathToBundle r id) m1).

Definition delete_repo (r : string) (w : wstate) : rc * wstate :=
  if negb (repo_exists r w) then (RErr, w) else
  let m1 := fold_left (fun m id => delete_bundle_quiet r id m) (bundles_of r w) (w_meta w) in
  let v1 := fold_left (fun v l => snd (mdelete (GetArchivePathToLabel r (fst l)) v)) (labels_of r EmptyString w) (w_vmeta w) in
  (ROk, {| w_meta := snd (mdelete (GetArchivePathToRepoDescriptor r) m1); w_vmeta := v1 |}).

(* RenameRepo: create the new repository, copy descriptors and file lists of every committed
   bundle, copy labels, delete the old repository *)
Fixpoint copy_indexes (n : nat) (r r' id : string) (i : N) (m : mstore) : mstore :=
  match n with
  | O => m
  | S k => let m' := match mget (GetArchivePathToBundleFileList r id i) m with
                     | Some v => snd (mput (GetArchivePathToBundleFileList r' id i) v true m)
                     | None => m
                     end in
           copy_indexes k r r' id (i + 1)%N m'
  end.
Definition rename_repo (r r' : string) (w : wstate) : rc * wstate :=
  if negb (repo_exists r w) || repo_exists r' w then (RErr, w) else
  let m0 := snd (mput (GetArchivePathToRepoDescriptor r') (VRepo r') true (w_meta w)) in
  let m1 := fold_left (fun m id =>
              match mget (GetArchivePathToBundle r id) m with
              | Some (VBundle _ c) =>
                  copy_indexes (N.to_nat c) r r' id 0%N (snd (mput (GetArchivePathToBundle r' id) (VBundle id c) true m))
              | _ => m
              end) (bundles_of r w) m0 in
  let v1 := fold_left (fun v l => snd (mput (GetArchivePathToLabel r' (fst l)) (VLabel (fst l) (snd l)) false v))
                      (labels_of r EmptyString w) (w_vmeta w) in
  delete_repo r {| w_meta := m1; w_vmeta := v1 |}.

(* DeleteEntriesFromRepo: drop the paths from every bundle; a bundle whose file lists change is laid
   out again from the first list that changed (or that, not being the last one, was not full), its
   descriptor updated when the number of lists shrinks and the surplus lists deleted *)
Fixpoint read_indexes (n : nat) (r id : string) (i : N) (m : mstore) : option (list (list entry)) :=
  match n with
  | O => Some []
  | S k => match mget (GetArchivePathToBundleFileList r id i) m with
           | Some (VIndex es) => match read_indexes k r id (i + 1)%N m with Some t => Some (es :: t) | None => None end
           | _ => None
           end
  end.
Definition keep_entries (paths : list string) (es : list entry) : list entry :=
  filter (fun e => negb (existsb (String.eqb (e_name e)) paths)) es.
Fixpoint first_modified (E : nat) (paths : list string) (ls : list (list entry)) (i : nat) : option nat :=
  match ls with
  | [] => None
  | es :: t =>
      if negb (Nat.eqb (List.length (keep_entries paths es)) (List.length es))
         || (match t with [] => false | _ => negb (Nat.eqb (List.length es) E) end)
      then Some i else first_modified E paths t (S i)
  end.
Fixpoint overwrite_indexes (r id : string) (i : N) (cs : list (list entry)) (m : mstore) : mstore :=
  match cs with
  | [] => m
  | c :: t => overwrite_indexes r id (i + 1)%N t (snd (mput (GetArchivePathToBundleFileList r id i) (VIndex c) false m))
  end.
Fixpoint drop_indexes (n : nat) (r id : string) (i : N) (m : mstore) : mstore :=
  match n with
  | O => m
  | S k => drop_indexes k r id (i + 1)%N (snd (mdelete (GetArchivePathToBundleFileList r id i) m))
  end.
Definition relayout (E : nat) (es : list entry) : list (list entry) :=
  match chunk E es with [] => [[]] | cs => cs end.
Definition scrub_bundle (E : nat) (r id : string) (c : N) (paths : list string) (m : mstore) : option mstore :=
  match read_indexes (N.to_nat c) r id 0%N m with
  | None => None
  | Some ls =>
      match first_modified E paths ls 0 with
      | None => Some m
      | Some f =>
          let cs := relayout E (keep_entries paths (List.concat ls)) in
          let m1 := overwrite_indexes r id (N.of_nat f) (skipn f cs) m in
          if Nat.eqb (List.length cs) (N.to_nat c) then Some m1
          else Some (drop_indexes (N.to_nat c - List.length cs) r id (N.of_nat (List.length cs))
                       (snd (mput (GetArchivePathToBundle r id) (VBundle id (N.of_nat (List.length cs))) false m1)))
      end
  end.
Fixpoint scrub_bundles (E : nat) (r : string) (paths : list string) (ids : list string) (m : mstore) : rc * mstore :=
  match ids with
  | [] => (ROk, m)
  | id :: t =>
      match mget (GetArchivePathToBundle r id) m with
      | Some (VBundle _ c) =>
          match scrub_bundle E r id c paths m with
          | Some m' => scrub_bundles E r paths t m'
          | None => (RErr, m)
          end
      | _ => (RErr, m)
      end
  end.
Definition delete_entries (r : string) (paths : list string) (E : nat) (w : wstate) : rc * wstate :=
  if negb (repo_exists r w) then (RErr, w) else
  let '(c, m) := scrub_bundles E r paths (bundles_of r w) (w_meta w) in (c, with_meta w m).

(* RepoSquash: keep the n most recent committed bundles, plus labelled ones on request *)
Inductive tagmode := TNone | TAll | TSemver.
Definition squash (r : string) (n : nat) (mode : tagmode) (semver : list string) (w : wstate) : rc * wstate :=
  if negb (repo_exists r w) then (RErr, w) else
  let n := if Nat.eqb n 0 then 1 else n in
  let bs := bundles_of r w in
  if Nat.ltb (List.length bs) (S n) then (ROk, w) else
  let labelled := match mode with
                  | TNone => []
                  | TAll => map snd (labels_of r EmptyString w)
                  | TSemver => map snd (filter (fun l => existsb (String.eqb (fst l)) semver) (labels_of r EmptyString w))
                  end in
  let victims := filter (fun id => negb (existsb (String.eqb id) labelled)) (firstn (List.length bs - n) bs) in
  let m1 := fold_left (fun m id => delete_bundle_quiet r id m) victims (w_meta w) in
  let w1 := with_meta w m1 in
  let kept := bundles_of r w1 in
  let v1 := fold_left (fun v l => if existsb (String.eqb (snd l)) kept then v
                                  else snd (mdelete (GetArchivePathToLabel r (fst l)) v))
                      (labels_of r EmptyString w1) (w_vmeta w1) in
  (ROk, with_vmeta w1 v1).

(* GetLatestBundle: the last committed bundle in key order *)
Definition latest_bundle (r : string) (w : wstate) : option string :=
  if negb (repo_exists r w) then None else
  match rev (bundles_of r w) with
  | id :: _ => Some id
  | [] => None
  end.
