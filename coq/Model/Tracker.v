(* Model of pkg/filetracker: trackWrite / getRangeToRead.
   The radix tree keyed by big-endian offsets is a map offset -> flag walked in
   increasing key order; it is modelled as an association list kept sorted by
   [ins].  Walks run over the tree as it was before the transaction (immutable
   radix), deletions and insertions go to the transaction. *)
From Coq Require Import List ZArith Bool Lia.
Import ListNotations.
Open Scope Z_scope.

Notation marker := (Z * bool)%type (only parsing).   (* true = start of a written range *)
Notation tracker := (list (Z * bool)) (only parsing).

Fixpoint ins (k : Z) (f : bool) (m : tracker) : tracker :=
  match m with
  | [] => [(k, f)]
  | (k', f') :: t =>
      if k <? k' then (k, f) :: m
      else if k =? k' then (k, f) :: t
      else (k', f') :: ins k f t
  end.

Fixpoint del (k : Z) (m : tracker) : tracker :=
  match m with
  | [] => []
  | (k', f') :: t => if k =? k' then t else (k', f') :: del k t
  end.

(* the walk callback of trackWrite: returns the transaction's map and the two flags *)
Fixpoint tw_walk (s e : Z) (m : tracker) (txn : tracker) (insS insE : bool)
  : tracker * bool * bool :=
  match m with
  | [] => (txn, insS, insE)
  | (k, f) :: t =>
      if k <? s then tw_walk s e t txn (negb f) insE
      else if k <=? e then tw_walk s e t (del k txn) insS insE
      else (txn, insS, f)
  end.

Definition track_write (off len : Z) (m : tracker) : tracker :=
  if len <=? 0 then m else
  let s := off in let e := off + len in
  match m with
  | [] => ins e false (ins s true [])
  | _ =>
    let '(txn, insS, insE) := tw_walk s e m m true true in
    let txn := if insS then ins s true txn else txn in
    if insE then ins e false txn else txn
  end.

(* getRangeToRead: (contiguous, mutable?) *)
Fixpoint gr_walk (off len : Z) (m : tracker) (contig : Z) (st : bool) : Z * bool :=
  match m with
  | [] => (contig, st)
  | (k, f) :: t =>
      if f then
        if k <=? off then gr_walk off len t contig true
        else (Z.min (k - off) len, false)
      else
        if k <=? off then gr_walk off len t contig false
        else (Z.min (k - off) len, true)
  end.

Definition get_range (off len : Z) (m : tracker) : Z * bool := gr_walk off len m len false.

Definition run_writes (ws : list (Z * Z)) : tracker :=
  fold_left (fun m w => track_write (fst w) (snd w) m) ws [].

(* reference: the set of offsets covered by some write *)
Definition covered_by (ws : list (Z * Z)) (x : Z) : bool :=
  existsb (fun w => (fst w <=? x) && (x <? fst w + snd w)) ws.
