(* C12: the diamond protocol over a create-if-absent store.  Actors are commits, cancellations and
   split runs; every step of an actor is one decision-relevant access to the store (a read of the
   diamond state, the listing of completed splits, a create-if-absent write).  A crash stops an
   actor between two steps.  Runs of a split are told apart by their generation; the files of a run
   are written under its generation and only the generation recorded by the split's final
   descriptor counts. *)
From Coq Require Import List String NArith Bool Arith.
From DM Require Import Base.Util.
Import ListNotations.
Open Scope list_scope.

Notation split_id := nat (only parsing).
Notation gen_id := nat (only parsing).
Notation bundle_id := nat (only parsing).

Inductive terminal := TDone (b : bundle_id) | TCanceled.

(* program counters *)
Inductive cpc := CReady | CCollect | CWriteLists | CWriteBundle | CWriteDone | CFin.
Inductive xpc := XReady | XWriteDone | XFin.
Inductive spc := SReady | SReadSplit | SWriteRunning | SWriteLists | SWriteSplitDone | SFin.

Inductive actor :=
| ACommit (pc : cpc) (collected : list (split_id * gen_id)) (wrote : bool)      (* its bundle id is its index *)
| ACancel (pc : xpc) (wrote : bool)
| ASplit (s : split_id) (g : gen_id) (pc : spc) (wrote : bool).                 (* wrote: performed some write *)

Record dstate := {
  d_term : option terminal;                           (* the diamond's final descriptor *)
  d_running : list split_id;                          (* splits with an initial descriptor *)
  d_done : list (split_id * gen_id);                  (* final split descriptors: the generation recorded *)
  d_lists : list (split_id * gen_id);                 (* generations whose file lists are completely written *)
  d_blists : list bundle_id;                          (* bundle file lists written (invisible without a descriptor) *)
  d_bundles : list (bundle_id * list (split_id * gen_id));   (* bundle descriptors: id, the runs merged *)
  d_actors : list actor
}.

Definition done_of (s : split_id) (st : dstate) : option gen_id :=
  option_map snd (find (fun p => Nat.eqb (fst p) s) (d_done st)).

Definition set_actor (i : nat) (a : actor) (st : dstate) : dstate :=
  {| d_term := d_term st; d_running := d_running st; d_done := d_done st; d_lists := d_lists st;
     d_blists := d_blists st; d_bundles := d_bundles st;
     d_actors := firstn i (d_actors st) ++ a :: skipn (S i) (d_actors st) |}.

(* what an actor does next; None = finished *)
Inductive action := KReady | KReadSplit | KWriteRunning | KWriteLists | KWriteSplitDone
                  | KCollect | KWriteBLists | KWriteBundle | KWriteDone.

Definition next_action (a : actor) : option action :=
  match a with
  | ACommit CReady _ _ => Some KReady
  | ACommit CCollect _ _ => Some KCollect
  | ACommit CWriteLists _ _ => Some KWriteBLists
  | ACommit CWriteBundle _ _ => Some KWriteBundle
  | ACommit CWriteDone _ _ => Some KWriteDone
  | ACommit CFin _ _ => None
  | ACancel XReady _ => Some KReady
  | ACancel XWriteDone _ => Some KWriteDone
  | ACancel XFin _ => None
  | ASplit _ _ SReady _ => Some KReady
  | ASplit _ _ SReadSplit _ => Some KReadSplit
  | ASplit _ _ SWriteRunning _ => Some KWriteRunning
  | ASplit _ _ SWriteLists _ => Some KWriteLists
  | ASplit _ _ SWriteSplitDone _ => Some KWriteSplitDone
  | ASplit _ _ SFin _ => None
  end.

(* one step of actor i; the boolean is the outcome of the access (a refused read check or a refused
   create-if-absent write is false) *)
Definition step (i : nat) (st : dstate) : dstate * bool :=
  match nth_error (d_actors st) i with
  | None => (st, false)
  | Some a =>
    match a with
    | ACommit CReady c w =>
        match d_term st with
        | Some _ => (set_actor i (ACommit CFin c w) st, false)
        | None => (set_actor i (ACommit CCollect c w) st, true)
        end
    | ACommit CCollect _ w =>
        match d_done st with
        | [] => (set_actor i (ACommit CFin [] w) st, false)          (* no split to commit *)
        | ds => (set_actor i (ACommit CWriteLists ds w) st, true)
        end
    | ACommit CWriteLists c _ =>
        (set_actor i (ACommit CWriteBundle c true)
           {| d_term := d_term st; d_running := d_running st; d_done := d_done st; d_lists := d_lists st;
              d_blists := i :: d_blists st; d_bundles := d_bundles st; d_actors := d_actors st |}, true)
    | ACommit CWriteBundle c _ =>
        (set_actor i (ACommit CWriteDone c true)
           {| d_term := d_term st; d_running := d_running st; d_done := d_done st; d_lists := d_lists st;
              d_blists := d_blists st; d_bundles := (i, c) :: d_bundles st; d_actors := d_actors st |}, true)
    | ACommit CWriteDone c w =>
        match d_term st with
        | Some _ => (set_actor i (ACommit CFin c w) st, false)
        | None =>
            (set_actor i (ACommit CFin c true)
               {| d_term := Some (TDone i); d_running := d_running st; d_done := d_done st; d_lists := d_lists st;
                  d_blists := d_blists st; d_bundles := d_bundles st; d_actors := d_actors st |}, true)
        end
    | ACommit CFin _ _ => (st, false)
    | ACancel XReady w =>
        match d_term st with
        | Some _ => (set_actor i (ACancel XFin w) st, false)
        | None => (set_actor i (ACancel XWriteDone w) st, true)
        end
    | ACancel XWriteDone w =>
        match d_term st with
        | Some _ => (set_actor i (ACancel XFin w) st, false)
        | None =>
            (set_actor i (ACancel XFin true)
               {| d_term := Some TCanceled; d_running := d_running st; d_done := d_done st; d_lists := d_lists st;
                  d_blists := d_blists st; d_bundles := d_bundles st; d_actors := d_actors st |}, true)
        end
    | ACancel XFin _ => (st, false)
    | ASplit s g SReady w =>
        match d_term st with
        | Some _ => (set_actor i (ASplit s g SFin w) st, false)
        | None => (set_actor i (ASplit s g SReadSplit w) st, true)
        end
    | ASplit s g SReadSplit w =>
        match done_of s st with
        | Some _ => (set_actor i (ASplit s g SFin w) st, false)                  (* a completed split cannot be rerun *)
        | None => if existsb (Nat.eqb s) (d_running st)
                  then (set_actor i (ASplit s g SWriteLists w) st, true)
                  else (set_actor i (ASplit s g SWriteRunning w) st, true)
        end
    | ASplit s g SWriteRunning w =>
        if existsb (Nat.eqb s) (d_running st) then (set_actor i (ASplit s g SFin w) st, false)
        else (set_actor i (ASplit s g SWriteLists true)
                {| d_term := d_term st; d_running := s :: d_running st; d_done := d_done st; d_lists := d_lists st;
                   d_blists := d_blists st; d_bundles := d_bundles st; d_actors := d_actors st |}, true)
    | ASplit s g SWriteLists _ =>
        (set_actor i (ASplit s g SWriteSplitDone true)
           {| d_term := d_term st; d_running := d_running st; d_done := d_done st; d_lists := (s, g) :: d_lists st;
              d_blists := d_blists st; d_bundles := d_bundles st; d_actors := d_actors st |}, true)
    | ASplit s g SWriteSplitDone w =>
        match done_of s st with
        | Some _ => (set_actor i (ASplit s g SFin w) st, false)
        | None =>
            (set_actor i (ASplit s g SFin true)
               {| d_term := d_term st; d_running := d_running st; d_done := (s, g) :: d_done st; d_lists := d_lists st;
                  d_blists := d_blists st; d_bundles := d_bundles st; d_actors := d_actors st |}, true)
        end
    | ASplit _ _ SFin _ => (st, false)
    end
  end.

(* a crash: the actor takes no further step *)
Definition crash (i : nat) (st : dstate) : dstate :=
  match nth_error (d_actors st) i with
  | Some (ACommit _ c w) => set_actor i (ACommit CFin c w) st
  | Some (ACancel _ w) => set_actor i (ACancel XFin w) st
  | Some (ASplit s g _ w) => set_actor i (ASplit s g SFin w) st
  | None => st
  end.

Inductive event := EStep (i : nat) | ECrash (i : nat).

Definition apply_event (st : dstate) (e : event) : dstate :=
  match e with
  | EStep i => fst (step i st)
  | ECrash i => crash i st
  end.

Definition run (es : list event) (st : dstate) : dstate := fold_left apply_event es st.

Definition init (actors : list actor) : dstate :=
  {| d_term := None; d_running := []; d_done := []; d_lists := []; d_blists := []; d_bundles := []; d_actors := actors |}.

Definition fresh_commit := ACommit CReady [] false.
Definition fresh_cancel := ACancel XReady false.
Definition fresh_split (s g : nat) := ASplit s g SReady false.
