(* Model of bundle upload and download (pkg/core bundle_pack.go / bundle_unpack.go) at the level
   of entries: which files become entries, how entries are laid out in index files, how a
   download reassembles and selects them. *)
From Coq Require Import List String Ascii NArith Bool Arith.
From DM Require Import Gen.Consts Base.Str Gen.Paths Model.PathsParse Model.Meta.
Import ListNotations.
Open Scope list_scope.

(* a file of the consumable store: name, size and content key (hex) *)
Record file := { f_name : string; f_size : N; f_hash : string }.

Definition entry_of (f : file) : entry := {| e_name := f_name f; e_hash := f_hash f; e_size := f_size f |}.

Fixpoint find_file (n : string) (fs : list file) : option file :=
  match fs with
  | [] => None
  | f :: t => if String.eqb n (f_name f) then Some f else find_file n t
  end.

(* the entries an upload produces, in the order the names are walked; None = the upload fails
   (a listed file is missing and missing files are not skipped) *)
Fixpoint upload_entries (names : list string) (fs : list file) (skip : bool) : option (list entry) :=
  match names with
  | [] => Some []
  | n :: t =>
      match find_file n fs with
      | None =>
          if is_generated n || skip then upload_entries t fs skip else None
      | Some f =>
          if is_generated n then upload_entries t fs skip
          else match upload_entries t fs skip with Some r => Some (entry_of f :: r) | None => None end
      end
  end.

(* index files of E entries *)
Fixpoint chunk_fuel (fuel E : nat) (l : list entry) : list (list entry) :=
  match fuel with
  | O => []
  | S f => match l with
           | [] => []
           | _ => firstn E l :: chunk_fuel f E (skipn E l)
           end
  end.
Definition chunk (E : nat) (l : list entry) : list (list entry) := chunk_fuel (List.length l) E l.

(* unpackBundleFileList: reassemble by position with the per-file count checks *)
Fixpoint unpack_lists (E : nat) (count : nat) (idx : nat) (get : nat -> option (list entry)) : option (list entry) :=
  match count with
  | O => Some []
  | S c =>
      match get idx with
      | None => None
      | Some es =>
          if Nat.eqb c 0 then (if Nat.ltb E (List.length es) then None else Some es)
          else if negb (Nat.eqb (List.length es) E) then None
          else match unpack_lists E c (S idx) get with Some r => Some (es ++ r) | None => None end
      end
  end.

(* download of the selected entries into an empty directory with create-if-absent writes:
   a name listed twice makes the second write fail *)
Fixpoint download_files (es : list entry) (sel : string -> bool) (acc : list (string * string)) : option (list (string * string)) :=
  match es with
  | [] => Some acc
  | e :: t =>
      if sel (e_name e) then
        if existsb (fun p => String.eqb (fst p) (e_name e)) acc then None
        else download_files t sel (acc ++ [(e_name e, e_hash e)])
      else download_files t sel acc
  end.

Definition E_default : nat := defaultBundleEntriesPerFile.   (* Gen/Consts.v, from pkg/core/bundle_pack.go *)
