(* Executable comparison of the inode generator of the mutable mount with its model. *)
From Coq Require Import List NArith Bool.
From DM Require Import Base.Util Model.Inode.
Import ListNotations.
Local Open Scope N_scope.

Record icase := {
  ic_base : N;                      (* highestInode at construction *)
  ic_ops : list iop;
  ic_obs : list (option N)          (* the number allocINode returned / the number given to freeINode *)
}.

Definition on_eqb (a b : option N) : bool :=
  match a, b with Some x, Some y => N.eqb x y | None, None => true | _, _ => false end.
Fixpoint obs_eqb (a b : list (option N)) : bool :=
  match a, b with
  | [], [] => true
  | x :: a', y :: b' => on_eqb x y && obs_eqb a' b'
  | _, _ => false
  end.

Definition icase_mismatch (c : icase) : bool :=
  negb (obs_eqb (irun ({| ig_hi := ic_base c; ig_free := [] |}, []) (ic_ops c)) (ic_obs c)).

(* the property read directly off the observations: a number handed out is above the base and is
   not in use; a release names the k-th number in use *)
Fixpoint ispec (base : N) (live : list N) (ops : list iop) (obs : list (option N)) : bool :=
  match ops, obs with
  | [], [] => true
  | IAlloc :: ops', Some n :: obs' =>
      N.ltb base n && negb (existsb (N.eqb n) live) && ispec base (live ++ [n]) ops' obs'
  | IFree k :: ops', o :: obs' =>
      on_eqb (nth_error live k) o && ispec base (remove_nth k live) ops' obs'
  | _, _ => false
  end.
Definition icase_spec_ok (c : icase) : bool := ispec (ic_base c) [] (ic_ops c) (ic_obs c).
