(* Executable comparison for C17 case files. *)
From Coq Require Import List String Ascii NArith Bool Arith.
From DM Require Import Base.Util Base.Str Model.ListOps Model.BundleCheck Model.Mount.
Import ListNotations.
Open Scope list_scope.

Inductive mop :=
| MLookup (d : list string) (n : string) (obs : option (bool * N))          (* is a directory?, size *)
| MReaddir (d : list string) (chunks : list (nat * list (string * bool)))    (* offset asked, entries returned *)
| MRead (p : list string) (off len : nat) (obs : option (list N)).

Record mcase := { mo_files : list (list string * list N); mo_ops : list mop }.

Definition paths_of (c : mcase) : list (list string) := map fst (mo_files c).

Fixpoint path_eqb (a b : list string) : bool :=
  match a, b with
  | [], [] => true
  | x :: a', y :: b' => String.eqb x y && path_eqb a' b'
  | _, _ => false
  end.

Definition file_data (c : mcase) (p : list string) : option (list N) :=
  option_map snd (find (fun f => path_eqb (fst f) p) (mo_files c)).

Definition child_eqb (a b : string * bool) : bool := String.eqb (fst a) (fst b) && Bool.eqb (snd a) (snd b).
Fixpoint children_eqb (a b : list (string * bool)) : bool :=
  match a, b with
  | [], [] => true
  | x :: a', y :: b' => child_eqb x y && children_eqb a' b'
  | _, _ => false
  end.
Fixpoint ns_eqb (a b : list N) : bool :=
  match a, b with
  | [], [] => true
  | x :: a', y :: b' => N.eqb x y && ns_eqb a' b'
  | _, _ => false
  end.

Definition op_model_ok (c : mcase) (o : mop) : bool :=
  match o with
  | MLookup d n obs =>
      match lookup_child d n (paths_of c), obs with
      | None, None => true
      | Some true, Some (true, _) => true
      | Some false, Some (false, sz) =>
          match file_data c (d ++ [n]) with Some data => N.eqb sz (N.of_nat (List.length data)) | None => false end
      | _, _ => false
      end
  | MReaddir d chunks =>
      let l := children d (paths_of c) in
      forallb (fun ch => children_eqb (readdir_from l (fst ch) (List.length (snd ch))) (snd ch)) chunks
  | MRead p off len obs =>
      match file_data c p, obs with
      | Some data, Some got => ns_eqb (read_bytes data off len) got
      | _, _ => false
      end
  end.

Definition case_mismatch (c : mcase) : bool := negb (forallb (op_model_ok c) (mo_ops c)).

(* the statement, from the paths alone *)
Definition expected_child (c : mcase) (d : list string) (n : string) : option bool :=
  let below := filter (fun p => is_prefix (d ++ [n]) p) (paths_of c) in
  match below with
  | [] => None
  | _ => Some (existsb (fun p => Nat.ltb (List.length d + 1) (List.length p)) below)
  end.

Definition op_spec_ok (c : mcase) (o : mop) : bool :=
  match o with
  | MLookup d n obs =>
      match expected_child c d n, obs with
      | None, None => true
      | Some true, Some (true, _) => true
      | Some false, Some (false, sz) =>
          match file_data c (d ++ [n]) with Some data => N.eqb sz (N.of_nat (List.length data)) | None => false end
      | _, _ => false
      end
  | MReaddir d chunks =>
      (* resumed where the previous chunk ended, the chunks together list every child exactly once *)
      let all := flat_map snd chunks in
      forallb (fun ch => match expected_child c d (fst ch) with Some isd => Bool.eqb isd (snd ch) | None => false end) all &&
      forallb (fun ch => Nat.eqb (List.length (filter (fun x => String.eqb (fst x) (fst ch)) all)) 1) all &&
      forallb (fun p => if is_prefix d p && Nat.ltb (List.length d) (List.length p)
                        then existsb (fun ch => String.eqb (fst ch) (nth (List.length d) p EmptyString)) all else true) (paths_of c)
  | MRead p off len obs =>
      match file_data c p, obs with
      | Some data, Some got =>
          Nat.eqb (List.length got) (Nat.min len (List.length data - off)) &&
          forallb (fun i => N.eqb (nth i got 0%N) (nth (off + i) data 0%N)) (seq 0 (List.length got))
      | _, _ => false
      end
  end.

Definition spec_ok (c : mcase) : bool := forallb (op_spec_ok c) (mo_ops c).

Definition report (cs : list mcase) : list N * list N :=
  (indices case_mismatch cs, indices (fun c => negb (spec_ok c)) cs).
