(* The inode number generator of the mutable mount (pkg/fuse/inode.go): a high-water mark and a
   stack of released numbers. *)
From Coq Require Import List NArith Bool.
Import ListNotations.
Local Open Scope N_scope.

Record igen := { ig_hi : N; ig_free : list N }.   (* ig_free: most recently released first *)

(* allocINode *)
Definition ialloc (g : igen) : N * igen :=
  match ig_free g with
  | [] => (ig_hi g + 1, {| ig_hi := ig_hi g + 1; ig_free := [] |})
  | x :: t => (x, {| ig_hi := ig_hi g; ig_free := t |})
  end.

(* freeINode *)
Definition irelease (i : N) (g : igen) : igen :=
  if N.eqb (ig_hi g) i then {| ig_hi := ig_hi g - 1; ig_free := ig_free g |}
  else {| ig_hi := ig_hi g; ig_free := i :: ig_free g |}.

(* histories: allocate, or release the k-th live number (oldest first; ignored when there is none) *)
Inductive iop := IAlloc | IFree (k : nat).

Fixpoint remove_nth {A} (k : nat) (l : list A) : list A :=
  match l, k with
  | [], _ => []
  | _ :: t, O => t
  | x :: t, S k' => x :: remove_nth k' t
  end.

(* state: generator and the live numbers, oldest first; output: the number allocated or released *)
Definition istep (st : igen * list N) (o : iop) : (igen * list N) * option N :=
  let '(g, live) := st in
  match o with
  | IAlloc => let '(n, g') := ialloc g in ((g', live ++ [n]), Some n)
  | IFree k => match nth_error live k with
               | Some i => ((irelease i g, remove_nth k live), Some i)
               | None => (st, None)
               end
  end.

Fixpoint irun (st : igen * list N) (ops : list iop) : list (option N) :=
  match ops with
  | [] => []
  | o :: t => let '(st', out) := istep st o in out :: irun st' t
  end.

Fixpoint ifinal (st : igen * list N) (ops : list iop) : igen * list N :=
  match ops with
  | [] => st
  | o :: t => ifinal (fst (istep st o)) t
  end.
