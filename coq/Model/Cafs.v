(* Model of pkg/cafs: the leaf writer, the blob layout, the three read styles and their hash
   verification.  Bytes are N, keys are byte lists.  The hash is a parameter
   H leafsize node_offset node_depth last_node data (BLAKE2b tree mode in the case files). *)
From Coq Require Import List NArith Arith Bool Lia.
Import ListNotations.

Notation bytes := (list N) (only parsing).
Notation key := (list N) (only parsing).

Fixpoint bytes_eqb (a b : list N) : bool :=
  match a, b with
  | [], [] => true
  | x :: a', y :: b' => N.eqb x y && bytes_eqb a' b'
  | _, _ => false
  end.

(* ---------- blob store: association list, first match wins ---------- *)
Definition bstore := list (list N * list N).

Fixpoint lookup (k : list N) (s : bstore) : option (list N) :=
  match s with
  | [] => None
  | (k', v) :: t => if bytes_eqb k k' then Some v else lookup k t
  end.

Fixpoint put_over (k v : list N) (s : bstore) : bstore :=
  match s with
  | [] => [(k, v)]
  | (k', v') :: t => if bytes_eqb k k' then (k, v) :: t else (k', v') :: put_over k v t
  end.

(* writeBlob / root write: skip when a non-empty blob is already there *)
Definition write_blob (k v : list N) (s : bstore) : bstore :=
  match lookup k s with
  | Some (_ :: _) => s
  | _ => put_over k v s
  end.

Section WithHash.
Variable H : N -> N -> N -> bool -> list N -> list N.
Variable L : nat.    (* leaf size *)
Definition LN : N := N.of_nat L.

(* ---------- writer ---------- *)
Record wst := { w_leaves : list (list N); w_buf : list N }.

Inductive outcome (A : Type) := Ok (a : A) | Hang | Panic | Err.
Arguments Ok {A}. Arguments Hang {A}. Arguments Panic {A}. Arguments Err {A}.

(* fsWriter.Write: copy min(space, remaining) bytes, flush the buffer when full *)
Fixpoint write_loop (fuel : nat) (s : wst) (p : list N) : outcome wst :=
  match fuel with
  | O => Hang
  | S f =>
    match p with
    | [] => Ok s
    | _ =>
      let writable := Nat.min (L - length (w_buf s)) (length p) in
      let b := w_buf s ++ firstn writable p in
      let rest := skipn writable p in
      if Nat.eqb (length b) L
      then write_loop f {| w_leaves := w_leaves s ++ [b]; w_buf := [] |} rest
      else write_loop f {| w_leaves := w_leaves s; w_buf := b |} rest
    end
  end.

Definition write (s : wst) (p : list N) : outcome wst := write_loop (S (S (length p))) s p.

Fixpoint write_all (s : wst) (chunks : list (list N)) : outcome wst :=
  match chunks with
  | [] => Ok s
  | p :: t => match write s p with Ok s' => write_all s' t | o => o end
  end.

(* leaf key convention of the writer: full leaves are hashed with offset index+1 and no
   last-node flag, a trailing partial leaf with offset index and the flag *)
Definition full_key (i : nat) (d : list N) : list N := H LN (N.of_nat (S i)) 0%N false d.
Definition part_key (i : nat) (d : list N) : list N := H LN (N.of_nat i) 0%N true d.
Definition root_of (ks : list (list N)) : list N := H LN 0%N 1%N true (concat ks).

Fixpoint full_keys (i : nat) (ls : list (list N)) : list (list N) :=
  match ls with [] => [] | d :: t => full_key i d :: full_keys (S i) t end.

Definition leaf_keys (full : list (list N)) (part : list N) : list (list N) :=
  full_keys 0 full ++ (match part with [] => [] | _ => [part_key (length full) part] end).

Record put_res := { pr_written : nat; pr_key : list N; pr_keys : list (list N); pr_found : bool; pr_store : bstore }.

Fixpoint write_full (i : nat) (ls : list (list N)) (s : bstore) : bstore :=
  match ls with [] => s | d :: t => write_full (S i) t (write_blob (full_key i d) d s) end.

Definition found_nonempty (k : list N) (s : bstore) : bool :=
  match lookup k s with Some _ => true | None => false end.

(* Fs.Put over the chunks the source hands to Write *)
Definition put (chunks : list (list N)) (s : bstore) : outcome put_res :=
  match write_all {| w_leaves := []; w_buf := [] |} chunks with
  | Ok w =>
      let full := w_leaves w in let part := w_buf w in
      let s1 := write_full 0 full s in
      let s2 := match part with [] => s1 | _ => write_blob (part_key (length full) part) part s1 end in
      let ks := leaf_keys full part in
      let root := root_of ks in
      let found := found_nonempty root s2 in
      Ok {| pr_written := length (concat chunks); pr_key := root; pr_keys := ks; pr_found := found;
            pr_store := write_blob root (concat ks ++ root) s2 |}
  | Hang => Hang | Panic => Panic | Err => Err
  end.

(* ---------- the layout as a function of the content ---------- *)
Fixpoint split_fuel (fuel : nat) (c : list N) : list (list N) :=
  match fuel with
  | O => []
  | S f => match c with
           | [] => []
           | _ => firstn L c :: split_fuel f (skipn L c)
           end
  end.
Definition split_leaves (c : list N) : list (list N) := split_fuel (length c) c.

Fixpoint keys_of_leaves (i : nat) (ls : list (list N)) : list (list N) :=
  match ls with
  | [] => []
  | d :: t => (if Nat.eqb (length d) L then full_key i d else part_key i d) :: keys_of_leaves (S i) t
  end.
Definition tree_key (c : list N) : list N := root_of (keys_of_leaves 0 (split_leaves c)).

(* ---------- reading ---------- *)
Definition KS : nat := 64.

Fixpoint chunk_keys (fuel : nat) (b : list N) : option (list (list N)) :=
  match fuel with
  | O => match b with [] => Some [] | _ => None end
  | S f => match b with
           | [] => Some []
           | _ => if Nat.ltb (length b) KS then None
                  else match chunk_keys f (skipn KS b) with
                       | Some r => Some (firstn KS b :: r)
                       | None => None
                       end
           end
  end.

(* leavesForHash: root blob = keys ++ root; the keys must hash to the trailing key and the
   trailing key must be the one asked for *)
Definition leaves_for_hash (root : list N) (s : bstore) : option (list (list N)) :=
  match lookup root s with
  | None => None
  | Some b =>
      if Nat.ltb (length b) KS then None
      else
        let body := firstn (length b - KS) b in
        let trailer := skipn (length b - KS) b in
        match chunk_keys (length body) body with
        | None => None
        | Some ks => if bytes_eqb (root_of ks) trailer && bytes_eqb trailer root then Some ks else None
        end
  end.

(* verification convention of the readers *)
Definition verify_leaf (nkeys i : nat) (k d : list N) : bool :=
  if Nat.eqb (S i) nkeys && negb (Nat.eqb (length d) L)
  then bytes_eqb k (part_key i d) else bytes_eqb k (full_key i d).

(* --- ReadAt --- *)
Fixpoint read_at_loop (s : bstore) (nkeys : nat) (ks : list (list N)) (i : nat) (offset want : nat) (acc : list N)
  : outcome (list N) :=
  match ks with
  | [] => Ok acc
  | k :: t =>
      match lookup k s with
      | None => Err
      | Some d =>
          if negb (verify_leaf nkeys i k d) then Err
          else
            let acc' := acc ++ firstn (want - length acc) (skipn offset d) in
            if Nat.eqb (length acc') want then Ok acc' else read_at_loop s nkeys t (S i) 0 want acc'
      end
  end.

Definition read_at (root : list N) (s : bstore) (off want : nat) : outcome (list N) :=
  match leaves_for_hash root s with
  | None => Err
  | Some ks =>
      let index := off / L in let offset := off mod L in
      if Nat.leb (length ks) index then Ok []
      else read_at_loop s (length ks) (skipn index ks) index offset want []
  end.

(* --- sequential Read --- *)
(* state of the chunkReader between calls *)
Record rst := { r_todo : list (list N);      (* keys not opened yet *)
                r_idx : nat;                 (* index of the key being read / next to open *)
                r_cur : option (list N);     (* remaining bytes of the open leaf stream *)
                r_leaf : list N;             (* bytes of the current leaf delivered so far *)
                r_last : bool }.

(* one call of the underlying leaf stream with a buffer of [space] bytes; the oracle gives the
   number of bytes the stream chooses to deliver (at least 1 when possible) and whether it
   reports EOF together with its last bytes *)
Definition leaf_read (rem : list N) (space : nat) (o : nat * bool) : list N * bool * list N :=
  match rem with
  | [] => ([], true, [])
  | _ =>
    if Nat.eqb space 0 then ([], false, rem)
    else
      let n := Nat.max 1 (Nat.min (fst o) (Nat.min space (length rem))) in
      let out := firstn n rem in let rem' := skipn n rem in
      (out, match rem' with [] => snd o | _ => false end, rem')
  end.

Inductive rres := RData (d : list N) | REof (d : list N) | RErr | RPanic | RHang.

Fixpoint read_loop (fuel : nat) (s : bstore) (nkeys : nat) (st : rst) (k : nat) (acc : list N) (orc : list (nat * bool))
  : rres * rst * list (nat * bool) :=
  match fuel with
  | O => (RHang, st, orc)
  | S f =>
    (* key := r.keys[r.idx] (r_todo starts at r.idx); open the stream when none is open *)
    match r_todo st with
    | [] => (RPanic, st, orc)
    | key :: _ =>
      match Some key with
      | None => (RPanic, st, orc)
      | Some _ =>
        let curo := match r_cur st with Some c => Some c | None => lookup key s end in
        match curo with
        | None => (RErr, st, orc)
        | Some c =>
          let o := match orc with x :: _ => x | [] => (k, false) end in
          let orc' := tl orc in
          let '(out, eof, rem) := leaf_read c (k - length acc) o in
          let acc' := acc ++ out in
          let leaf' := r_leaf st ++ out in
          if eof then
            let idx' := S (r_idx st) in
            let last := Nat.eqb idx' nkeys in
            if negb (verify_leaf nkeys (r_idx st) key leaf') then (RErr, st, orc')
            else
              let st' := {| r_todo := tl (r_todo st); r_idx := idx'; r_cur := None; r_leaf := []; r_last := last |} in
              if last then
                (if Nat.eqb (length out) k then RData acc' else REof acc', st', orc')
              else read_loop f s nkeys st' k acc' orc'
          else
            let st' := {| r_todo := r_todo st; r_idx := r_idx st; r_cur := Some rem; r_leaf := leaf'; r_last := r_last st |} in
            if Nat.leb k (length acc') then (RData acc', st', orc')
            else read_loop f s nkeys st' k acc' orc'
        end
      end
    end
  end.

(* chunkReader.Read with a buffer of k bytes *)
Definition read_call (s : bstore) (nkeys : nat) (st : rst) (k : nat) (orc : list (nat * bool)) :=
  match r_cur st, r_last st with
  | None, true => (REof [], st, orc)
  | _, _ =>
      if Nat.eqb nkeys 0 then (REof [], st, orc)     (* empty object: nothing to read *)
      else read_loop (2 * k + 2 * nkeys + 4) s nkeys st k [] orc
  end.

(* io.Copy style consumption: call Read with the given buffer sizes until EOF or error *)
Fixpoint read_all (s : bstore) (nkeys : nat) (st : rst) (bufs : list nat) (orc : list (nat * bool)) (acc : list N)
  : outcome (list N) :=
  match bufs with
  | [] => Hang                         (* ran out of calls before EOF *)
  | k :: t =>
      match read_call s nkeys st k orc with
      | (RData d, st', orc') => read_all s nkeys st' t orc' (acc ++ d)
      | (REof d, _, _) => Ok (acc ++ d)
      | (RErr, _, _) => Err
      | (RPanic, _, _) => Panic
      | (RHang, _, _) => Hang
      end
  end.

Definition read_seq (root : list N) (s : bstore) (bufs : list nat) (orc : list (nat * bool)) : outcome (list N) :=
  match leaves_for_hash root s with
  | None => Err
  | Some ks =>
      read_all s (length ks) {| r_todo := ks; r_idx := 0; r_cur := None; r_leaf := []; r_last := false |} bufs orc []
  end.

(* --- WriteTo a WriterAt: every leaf is verified and written at index * L, in any order --- *)
Definition file := list (nat * N).     (* sparse file: offset -> byte, later writes first *)

Fixpoint write_at (f : file) (off : nat) (d : list N) : file :=
  match d with [] => f | b :: t => write_at ((off, b) :: f) (S off) t end.

Fixpoint file_get (f : file) (i : nat) : option N :=
  match f with [] => None | (j, b) :: t => if Nat.eqb i j then Some b else file_get t i end.

Fixpoint write_to_at (s : bstore) (nkeys : nat) (jobs : list (nat * list N)) (f : file) : outcome file :=
  match jobs with
  | [] => Ok f
  | (i, k) :: t =>
      match lookup k s with
      | None => Err
      | Some d => if verify_leaf nkeys i k d then write_to_at s nkeys t (write_at f (i * L) d) else Err
      end
  end.

Fixpoint index_from {A} (i : nat) (l : list A) : list (nat * A) :=
  match l with [] => [] | x :: t => (i, x) :: index_from (S i) t end.

End WithHash.

Arguments Ok {A}. Arguments Hang {A}. Arguments Panic {A}. Arguments Err {A}.
