(* Executable comparison for C06 case files. *)
From Coq Require Import List String Ascii NArith Bool Arith.
From DM Require Import Base.Util Base.Str Gen.Paths Model.PathsParse Model.Meta Model.Bundle Model.BundleCheck
  Model.ListOps Model.ListCheck Model.RepoOps Model.WorldCheck Model.Atomic.
Import ListNotations.
Open Scope list_scope.

(* what was observed after one crash point *)
Record crash_obs := {
  co_landed_meta : nat;                 (* metadata writes of the operation that took effect *)
  co_listed : option (list string);     (* ListBundles of the repository *)
  co_latest : option string;            (* GetLatestBundle *)
  co_labels : option (list (string * string));
  co_prior_ok : bool;                   (* every previously committed bundle still downloads with its original bytes *)
  co_new_keys : list string;            (* metadata keys below the new bundle's directory *)
  co_new_readable : bool;               (* the new bundle can be downloaded completely *)
  co_retry_ok : bool                    (* the same operation, retried after the crash, succeeds and the result is complete *)
}.

Inductive akind :=
| AUpload (r id : string) (es : list entry)
| ALabel (r name b : string)
| ACommit (r : string).            (* the commit of a diamond whose splits are complete *)

Record acase := { ac_before : snap; ac_kind : akind; ac_E : nat; ac_crashes : list crash_obs }.

Definition listed_before (r : string) (c : acase) := list_bundles r 1000 (sn_meta (ac_before c)).

Definition crash_model_ok (c : acase) (o : crash_obs) : bool :=
  match ac_kind c with
  | AUpload r id es =>
      let ws := upload_writes r id es (ac_E c) in
      let m' := crashed_upload r id es (ac_E c) (co_landed_meta o) (sn_meta (ac_before c)) in
      ostrs_eqb (list_bundles r 1000 m') (co_listed o) &&
      strs_eqb (sort_by String.leb (map fst (firstn (co_landed_meta o) ws))) (co_new_keys o)
  | ACommit _ => true        (* the commit protocol is modelled under C12; here only what is visible is judged *)
  | ALabel r n b =>
      let w := {| w_meta := sn_meta (ac_before c); w_vmeta := sn_vmeta (ac_before c) |} in
      let w' := if Nat.eqb (co_landed_meta o) 0 then w else snd (set_label r n b w) in
      match co_labels o with Some l => ListCheck.pairs_eqb (labels_of r EmptyString w') l | None => false end
  end.

Definition case_mismatch (c : acase) : bool := existsb (fun o => negb (crash_model_ok c o)) (ac_crashes c).

(* the statement: an interrupted operation shows nothing new and breaks nothing old; a completed
   one is visible and complete; a retry succeeds *)
Definition crash_spec_ok (c : acase) (o : crash_obs) : bool :=
  let before_m := sn_meta (ac_before c) in
  let wb := {| w_meta := before_m; w_vmeta := sn_vmeta (ac_before c) |} in
  co_prior_ok o && co_retry_ok o &&
  match ac_kind c with
  | AUpload r id es =>
      let total := List.length (upload_writes r id es (ac_E c)) in
      let visible_before := spec_bundles r before_m in
      if Nat.ltb (co_landed_meta o) total then
        ostrs_eqb (co_listed o) (Some visible_before) &&
        (match co_latest o, rev visible_before with
         | Some x, y :: _ => String.eqb x y | None, [] => true | _, _ => false end) &&
        negb (co_new_readable o) &&
        match co_labels o with Some l => ListCheck.pairs_eqb l (spec_labels r EmptyString (sn_vmeta (ac_before c))) | None => false end
      else
        ostrs_eqb (co_listed o) (Some (sort_by String.leb (id :: visible_before))) && co_new_readable o
  | ACommit r =>
      (* whatever the crash point: the bundles listed are those of before, in place, plus at most one new one;
         a new one reads back completely; latest resolves to the last one listed; labels are untouched *)
      let visible_before := spec_bundles r before_m in
      match co_listed o with
      | Some l =>
          strs_eqb (firstn (List.length visible_before) l) visible_before &&
          Nat.leb (List.length l) (S (List.length visible_before)) &&
          (match co_latest o, rev l with
           | Some x, y :: _ => String.eqb x y | None, [] => true | _, _ => false end)
      | None => false
      end &&
      co_new_readable o &&
      match co_labels o with Some l => ListCheck.pairs_eqb l (spec_labels r EmptyString (sn_vmeta (ac_before c))) | None => false end
  | ALabel r n b =>
      match co_labels o with
      | Some l =>
          let before_l := spec_labels r EmptyString (sn_vmeta (ac_before c)) in
          if Nat.eqb (co_landed_meta o) 0 then ListCheck.pairs_eqb l before_l
          else ListCheck.pairs_eqb l (labels_of r EmptyString (snd (set_label r n b wb)))
      | None => false
      end &&
      ostrs_eqb (co_listed o) (Some (spec_bundles r before_m))
  end.

Definition spec_ok (c : acase) : bool := forallb (crash_spec_ok c) (ac_crashes c).

Definition report (cs : list acase) : list N * list N :=
  (indices case_mismatch cs, indices (fun c => negb (spec_ok c)) cs).
