(* Byte-lexicographic order on strings (the order of Go string comparison and of object store
   listings): a strict total order; sorting with duplicate removal. *)
From Coq Require Import List String Ascii NArith Bool Lia Sorted Permutation Orders Mergesort Setoid.
Import ListNotations.
Open Scope string_scope.

Lemma ascii_compare_lt_trans : forall a b c, Ascii.compare a b = Lt -> Ascii.compare b c = Lt -> Ascii.compare a c = Lt.
Proof. unfold Ascii.compare. intros a b c H1 H2. apply N.compare_lt_iff in H1. apply N.compare_lt_iff in H2. apply N.compare_lt_iff. eapply N.lt_trans; eauto. Qed.

Lemma ascii_compare_refl : forall a, Ascii.compare a a = Eq.
Proof. intros. unfold Ascii.compare. apply N.compare_refl. Qed.

Lemma str_compare_refl : forall s, String.compare s s = Eq.
Proof. induction s as [|a s IH]; cbn; [reflexivity|]. now rewrite ascii_compare_refl. Qed.

Lemma str_compare_lt_trans : forall a b c,
  String.compare a b = Lt -> String.compare b c = Lt -> String.compare a c = Lt.
Proof.
  induction a as [|x a IH]; intros b c H1 H2.
  - destruct b as [|y b]; [discriminate|]. destruct c as [|z c]; [discriminate|reflexivity].
  - destruct b as [|y b]; [discriminate|]. destruct c as [|z c]; [discriminate|].
    cbn in *. destruct (Ascii.compare x y) eqn:E1; try discriminate.
    + apply Ascii.compare_eq_iff in E1. subst y.
      destruct (Ascii.compare x z) eqn:E2; try discriminate; auto. eapply IH; eauto.
    + destruct (Ascii.compare y z) eqn:E2; try discriminate.
      * apply Ascii.compare_eq_iff in E2. subst z. now rewrite E1.
      * now rewrite (ascii_compare_lt_trans x y z E1 E2).
Qed.

Definition slt (a b : string) : Prop := String.ltb a b = true.

Lemma ltb_lt : forall a b, String.ltb a b = true <-> String.compare a b = Lt.
Proof. intros. unfold String.ltb. destruct (String.compare a b); split; intros; try discriminate; auto. Qed.

Lemma slt_trans : forall a b c, slt a b -> slt b c -> slt a c.
Proof. unfold slt. intros a b c H1 H2. apply ltb_lt in H1, H2. apply ltb_lt. eapply str_compare_lt_trans; eauto. Qed.

Lemma slt_irrefl : forall a, String.ltb a a = false.
Proof. intros. unfold String.ltb. now rewrite str_compare_refl. Qed.

Lemma ltb_antisym : forall a b, String.ltb a b = true -> String.ltb b a = false.
Proof.
  intros a b H. apply ltb_lt in H. unfold String.ltb. rewrite String.compare_antisym, H. reflexivity.
Qed.

Lemma str_trichotomy : forall a b, String.ltb a b = true \/ a = b \/ String.ltb b a = true.
Proof.
  intros a b. unfold String.ltb. destruct (String.compare a b) eqn:E.
  - right; left. now apply String.compare_eq_iff.
  - now left.
  - right; right. rewrite String.compare_antisym, E. reflexivity.
Qed.

Lemma leb_ltb_or_eq : forall a b, String.leb a b = true -> String.ltb a b = true \/ a = b.
Proof.
  intros a b H. unfold String.leb, String.ltb in *. destruct (String.compare a b) eqn:E; try discriminate.
  - right. now apply String.compare_eq_iff.
  - now left.
Qed.

Module StringOrder <: TotalLeBool.
  Definition t := string.
  Definition leb := String.leb.
  Theorem leb_total : forall a1 a2, leb a1 a2 = true \/ leb a2 a1 = true.
  Proof. exact String.leb_total. Qed.
End StringOrder.
Module Import StringSort := Sort StringOrder.

(* remove adjacent duplicates *)
Fixpoint uniq (l : list string) : list string :=
  match l with
  | [] => []
  | x :: t => match t with
              | [] => [x]
              | y :: _ => if String.eqb x y then uniq t else x :: uniq t
              end
  end.

Definition sort_uniq (l : list string) : list string := uniq (sort l).

Lemma uniq_In : forall l x, In x (uniq l) <-> In x l.
Proof.
  induction l as [|a l IH]; intros x; [tauto|].
  destruct l as [|b l'].
  - cbn. tauto.
  - cbn [uniq]. destruct (String.eqb a b) eqn:E.
    + apply String.eqb_eq in E. subst b. rewrite IH. cbn. tauto.
    + cbn [In]. rewrite IH. cbn. tauto.
Qed.

Lemma uniq_head : forall b l, exists t, uniq (b :: l) = b :: t.
Proof.
  intros b l. revert b. induction l as [|c l IH]; intros b.
  - exists []. reflexivity.
  - cbn [uniq]. destruct (String.eqb b c) eqn:E.
    + apply String.eqb_eq in E. subst c. apply IH.
    + eexists. reflexivity.
Qed.

Lemma uniq_sorted : forall l, Sorted (fun a b => String.leb a b = true) l -> StronglySorted slt (uniq l).
Proof.
  induction l as [|a l IH]; intros Hs; [constructor|].
  apply Sorted_inv in Hs. destruct Hs as [Hs Hhd].
  destruct l as [|b l'].
  - cbn. constructor; constructor.
  - change (uniq (a :: b :: l')) with (if String.eqb a b then uniq (b :: l') else a :: uniq (b :: l')).
    specialize (IH Hs). inversion Hhd as [|? ? Hab]; subst.
    destruct (String.eqb a b) eqn:E; [exact IH|].
    constructor; [exact IH|].
    assert (Hltab : slt a b).
    { destruct (leb_ltb_or_eq a b Hab) as [H|H]; [exact H|]. subst. rewrite String.eqb_refl in E. discriminate. }
    destruct (uniq_head b l') as [t Ht]. rewrite Ht in *.
    inversion IH as [|? ? Hss Hfa]; subst.
    constructor; [exact Hltab|]. eapply Forall_impl; [|exact Hfa]. intros y Hy. eapply slt_trans; eauto.
Qed.

Lemma sort_uniq_sorted : forall l, StronglySorted slt (sort_uniq l).
Proof. intros. unfold sort_uniq. apply uniq_sorted. apply (Sorted_sort l). Qed.

Lemma sort_uniq_In : forall l x, In x (sort_uniq l) <-> In x l.
Proof.
  intros l x. unfold sort_uniq. rewrite uniq_In. split; intros H.
  - eapply Permutation_in; [apply Permutation_sym, Permuted_sort|exact H].
  - eapply Permutation_in; [apply Permuted_sort|exact H].
Qed.
