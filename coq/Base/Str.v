(* Strings (Coq [string] = sequences of bytes) : decimal numbers, join, split, prefixes. *)
From Coq Require Import List String Ascii NArith Bool Lia.
From Coq Require Import DecimalString DecimalN DecimalPos DecimalFacts Decimal.
Import ListNotations.
Open Scope string_scope.

(* decimal rendering of an unsigned integer, as fmt prints a uint64 *)
Definition dec (n : N) : string := NilZero.string_of_uint (N.to_uint n).

(* strict decimal parsing: non-empty, digits only *)
Definition undec (s : string) : option N := option_map N.of_uint (NilZero.uint_of_string s).

Lemma to_uint_nonnil : forall n, N.to_uint n <> Nil.
Proof. destruct n; cbn; [discriminate|apply DecimalPos.Unsigned.to_uint_nonnil]. Qed.

Lemma undec_dec : forall n, undec (dec n) = Some n.
Proof.
  intros n. unfold undec, dec. rewrite NilZero.usu by apply to_uint_nonnil.
  cbn. now rewrite DecimalN.Unsigned.of_to.
Qed.

Fixpoint join (sep : string) (l : list string) : string :=
  match l with
  | [] => ""
  | [x] => x
  | x :: t => x ++ sep ++ join sep t
  end.

Definition is_slash (c : ascii) : bool := Ascii.eqb c "/"%char.

(* no '/' byte *)
Fixpoint noslash (s : string) : bool :=
  match s with
  | EmptyString => true
  | String c t => negb (is_slash c) && noslash t
  end.

(* strings.SplitN(s, "/", n) for n >= 1 *)
Fixpoint splitn (n : nat) (s : string) : list string :=
  match n with
  | O => []
  | S O => [s]
  | S n' =>
      match s with
      | EmptyString => [""]
      | String c t =>
          if is_slash c then "" :: splitn n' t
          else match splitn n t with
               | h :: r => String c h :: r
               | [] => [String c ""]
               end
      end
  end.

Fixpoint starts_with (p s : string) : bool :=
  match p, s with
  | EmptyString, _ => true
  | String a p', String b s' => Ascii.eqb a b && starts_with p' s'
  | _, _ => false
  end.

Fixpoint drop (n : nat) (s : string) : string :=
  match n, s with
  | O, _ => s
  | S n', String _ t => drop n' t
  | S _, EmptyString => ""
  end.

Definition ends_with (suf s : string) : bool :=
  let ls := String.length s in let lf := String.length suf in
  Nat.leb lf ls && String.eqb (drop (ls - lf) s) suf.

Fixpoint all_chars (f : ascii -> bool) (s : string) : bool :=
  match s with EmptyString => true | String c t => f c && all_chars f t end.

Definition is_digit (c : ascii) : bool :=
  let n := N_of_ascii c in (48 <=? n)%N && (n <=? 57)%N.

Lemma starts_with_app : forall p s, starts_with p (p ++ s) = true.
Proof. induction p as [|a p IH]; intros s; cbn; [reflexivity|]. now rewrite Ascii.eqb_refl, IH. Qed.

Lemma noslash_app : forall a b, noslash (a ++ b) = noslash a && noslash b.
Proof. induction a as [|c a IH]; intros b; cbn; [reflexivity|]. now rewrite IH, andb_assoc. Qed.

(* splitting a path whose first component has no slash *)
Lemma splitn_cons : forall n a rest, noslash a = true ->
  splitn (S (S n)) (a ++ "/" ++ rest) = a :: splitn (S n) rest.
Proof.
  intros n a. revert n. induction a as [|c a IH]; intros n rest H.
  - reflexivity.
  - cbn in H. apply andb_prop in H. destruct H as [Hc Ha].
    change ((String c a ++ "/" ++ rest)) with (String c (a ++ "/" ++ rest)).
    cbn [splitn]. apply negb_true_iff in Hc. rewrite Hc. rewrite (IH n rest Ha). reflexivity.
Qed.

Lemma splitn_last : forall n a, noslash a = true -> splitn (S n) a = [a].
Proof.
  intros n a. revert n. induction a as [|c a IH]; intros n H.
  - destruct n; reflexivity.
  - cbn in H. apply andb_prop in H. destruct H as [Hc Ha]. apply negb_true_iff in Hc.
    destruct n; [reflexivity|]. cbn [splitn]. rewrite Hc. rewrite (IH (S n) Ha). reflexivity.
Qed.
