(* Small shared executable helpers for the case files. *)
From Coq Require Import List ZArith NArith Bool Lia.
Import ListNotations.

Fixpoint zseq (a : Z) (n : nat) : list Z :=
  match n with O => [] | S n' => a :: zseq (a + 1) n' end.

Lemma in_zseq : forall n a y, In y (zseq a n) <-> (a <= y < a + Z.of_nat n)%Z.
Proof.
  induction n as [|n IH]; intros a y; cbn [zseq In].
  - lia.
  - rewrite IH. lia.
Qed.

(* indices (from 0) of the elements satisfying f *)
Fixpoint indices_from {A} (i : N) (f : A -> bool) (l : list A) : list N :=
  match l with
  | [] => []
  | x :: t => if f x then i :: indices_from (i + 1)%N f t else indices_from (i + 1)%N f t
  end.
Definition indices {A} (f : A -> bool) (l : list A) : list N := indices_from 0%N f l.
