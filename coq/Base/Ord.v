(* Decidable total orders given by a comparison function; lexicographic products; sorted sets as
   lists with canonical insertion; insertion commutes, hence folding insertions over a list gives
   the same set for every permutation of the list. *)
From Coq Require Import List String Ascii NArith Bool Lia Permutation.
From DM Require Import Base.StrOrder.
Import ListNotations.

Record ord (A : Type) := {
  cmp : A -> A -> comparison;
  cmp_eq : forall a b, cmp a b = Eq -> a = b;
  cmp_refl : forall a, cmp a a = Eq;
  cmp_anti : forall a b, cmp b a = CompOpp (cmp a b);
  cmp_trans : forall a b c, cmp a b = Lt -> cmp b c = Lt -> cmp a c = Lt
}.
Arguments cmp {A} _ _ _.
Arguments cmp_eq {A} _ _ _ _.
Arguments cmp_refl {A} _ _.
Arguments cmp_anti {A} _ _ _.
Arguments cmp_trans {A} _ _ _ _ _ _.

Definition ord_N : ord N.
Proof.
  refine {| cmp := N.compare |}.
  - intros a b. apply N.compare_eq.
  - apply N.compare_refl.
  - intros a b. apply N.compare_antisym.
  - intros a b c H1 H2. apply N.compare_lt_iff in H1. apply N.compare_lt_iff in H2. apply N.compare_lt_iff. eapply N.lt_trans; eauto.
Defined.

Definition ord_string : ord string.
Proof.
  refine {| cmp := String.compare |}.
  - intros a b. apply String.compare_eq_iff.
  - apply str_compare_refl.
  - intros a b. apply String.compare_antisym.
  - apply str_compare_lt_trans.
Defined.

Definition lex (c1 c2 : comparison) : comparison := match c1 with Eq => c2 | o => o end.

Definition ord_pair {A B} (oa : ord A) (ob : ord B) : ord (A * B).
Proof.
  refine {| cmp := fun x y => lex (cmp oa (fst x) (fst y)) (cmp ob (snd x) (snd y)) |}.
  - intros [a1 b1] [a2 b2]. cbn. destruct (cmp oa a1 a2) eqn:E; cbn; try discriminate.
    intros H. apply (cmp_eq oa) in E. apply (cmp_eq ob) in H. now subst.
  - intros [a b]. cbn. now rewrite (cmp_refl oa), (cmp_refl ob).
  - intros [a1 b1] [a2 b2]. cbn. rewrite (cmp_anti oa a1 a2), (cmp_anti ob b1 b2).
    destruct (cmp oa a1 a2); reflexivity.
  - intros [a1 b1] [a2 b2] [a3 b3]. cbn. intros H1 H2.
    destruct (cmp oa a1 a2) eqn:E1; cbn in H1; try discriminate.
    + apply (cmp_eq oa) in E1. subst a2. destruct (cmp oa a1 a3) eqn:E2; cbn in *; try discriminate; auto.
      eapply (cmp_trans ob); eauto.
    + destruct (cmp oa a2 a3) eqn:E2; cbn in H2; try discriminate.
      * apply (cmp_eq oa) in E2. subst a3. now rewrite E1.
      * now rewrite (cmp_trans oa _ _ _ E1 E2).
Defined.

Section SetInsert.
  Context {A : Type} (o : ord A).

  Fixpoint ins (v : A) (l : list A) : list A :=
    match l with
    | [] => [v]
    | x :: t => match cmp o v x with
                | Lt => v :: x :: t
                | Eq => x :: t
                | Gt => x :: ins v t
                end
    end.

  Lemma cmp_gt_lt : forall a b, cmp o a b = Gt -> cmp o b a = Lt.
  Proof. intros a b H. rewrite (cmp_anti o a b), H. reflexivity. Qed.
  Lemma cmp_lt_gt : forall a b, cmp o a b = Lt -> cmp o b a = Gt.
  Proof. intros a b H. rewrite (cmp_anti o a b), H. reflexivity. Qed.

  Lemma ins_comm : forall l a b, ins a (ins b l) = ins b (ins a l).
  Proof.
    induction l as [|x t IH]; intros a b.
    - cbn. destruct (cmp o a b) eqn:E.
      + apply (cmp_eq o) in E. subst. now rewrite (cmp_refl o).
      + now rewrite (cmp_lt_gt _ _ E).
      + now rewrite (cmp_gt_lt _ _ E).
    - cbn [ins]. destruct (cmp o a x) eqn:Ea; destruct (cmp o b x) eqn:Eb; cbn [ins]; rewrite ?Ea, ?Eb; try reflexivity.
      + (* a = x, b < x *) apply (cmp_eq o) in Ea. subst a. now rewrite (cmp_lt_gt _ _ Eb).
      + (* a < x, b = x *) apply (cmp_eq o) in Eb. subst b. now rewrite (cmp_lt_gt _ _ Ea).
      + (* both below x *) destruct (cmp o a b) eqn:E.
        * apply (cmp_eq o) in E. subst. now rewrite (cmp_refl o).
        * now rewrite (cmp_lt_gt _ _ E).
        * now rewrite (cmp_gt_lt _ _ E).
      + (* a < x < b *) assert (Hab : cmp o a b = Lt) by (eapply (cmp_trans o); [exact Ea|now apply cmp_gt_lt]).
        now rewrite (cmp_lt_gt _ _ Hab).
      + (* b < x < a *) assert (Hba : cmp o b a = Lt) by (eapply (cmp_trans o); [exact Eb|now apply cmp_gt_lt]).
        now rewrite (cmp_lt_gt _ _ Hba).
      + now rewrite IH.
  Qed.

  Definition to_set (l : list A) : list A := fold_left (fun s v => ins v s) l [].

  Lemma fold_ins_perm : forall l l', Permutation l l' -> forall s,
    fold_left (fun s v => ins v s) l s = fold_left (fun s v => ins v s) l' s.
  Proof.
    induction 1 as [|x l l' _ IH|x y l|l l' l'' _ IH1 _ IH2]; intros s; cbn [fold_left].
    - reflexivity.
    - apply IH.
    - now rewrite ins_comm.
    - now rewrite IH1.
  Qed.

  Theorem to_set_perm : forall l l', Permutation l l' -> to_set l = to_set l'.
  Proof. intros. unfold to_set. now apply fold_ins_perm. Qed.

  Lemma ins_In : forall l v x, In x (ins v l) <-> x = v \/ In x l.
  Proof.
    induction l as [|y t IH]; intros v x; cbn [ins].
    - cbn. intuition.
    - destruct (cmp o v y) eqn:E.
      + apply (cmp_eq o) in E. subst. cbn. intuition.
      + cbn. intuition.
      + cbn [In]. rewrite IH. intuition.
  Qed.

  Lemma fold_ins_In : forall l s x, In x (fold_left (fun s v => ins v s) l s) <-> In x l \/ In x s.
  Proof.
    induction l as [|v l IH]; intros s x; cbn [fold_left].
    - cbn. tauto.
    - rewrite IH, ins_In. cbn. intuition.
  Qed.

  Theorem to_set_In : forall l x, In x (to_set l) <-> In x l.
  Proof. intros. unfold to_set. rewrite fold_ins_In. cbn. tauto. Qed.
End SetInsert.
