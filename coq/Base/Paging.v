(* Paged listings over a strictly sorted list of keys.  A page is [count] keys plus the key at
   which the next page starts ("" encoded as None); the continuation is located either by
   skipping smaller keys (start-key semantics: GCS, memstore) or by exact match (localfs). *)
From Coq Require Import List String Bool Arith Lia Sorted.
From DM Require Import Base.StrOrder.
Import ListNotations.
Open Scope list_scope.


Fixpoint drop_lt (tok : string) (l : list string) : list string :=
  match l with
  | [] => []
  | k :: t => if String.ltb k tok then drop_lt tok t else l
  end.

Fixpoint find_eq (tok : string) (l : list string) : option (list string) :=
  match l with
  | [] => None
  | k :: t => if String.eqb tok k then Some l else find_eq tok t
  end.

Definition page_of (l' : list string) (count : nat) : list string * option string :=
  (firstn count l', hd_error (skipn count l')).

Lemma drop_lt_suffix : forall pre k suf,
  StronglySorted slt (pre ++ k :: suf) -> drop_lt k (pre ++ k :: suf) = k :: suf.
Proof.
  induction pre as [|a pre IH]; intros k suf Hs; cbn.
  - now rewrite slt_irrefl.
  - inversion Hs as [|x y Hs' Hall]; subst.
    assert (Hak : String.ltb a k = true).
    { rewrite Forall_forall in Hall. apply Hall. apply in_or_app. right. now left. }
    rewrite Hak. now apply IH.
Qed.

Lemma find_eq_suffix : forall pre k suf,
  StronglySorted slt (pre ++ k :: suf) -> find_eq k (pre ++ k :: suf) = Some (k :: suf).
Proof.
  induction pre as [|a pre IH]; intros k suf Hs; cbn.
  - now rewrite String.eqb_refl.
  - inversion Hs as [|x y Hs' Hall]; subst.
    assert (Hak : String.ltb a k = true).
    { rewrite Forall_forall in Hall. apply Hall. apply in_or_app. right. now left. }
    destruct (String.eqb k a) eqn:E.
    + apply String.eqb_eq in E. subst a. rewrite slt_irrefl in Hak. discriminate.
    + now apply IH.
Qed.

Section Pager.
(* how a continuation token is turned back into the remaining keys *)
Variable seek : string -> list string -> list string.
Hypothesis seek_suffix : forall pre k suf,
  StronglySorted slt (pre ++ k :: suf) -> seek k (pre ++ k :: suf) = k :: suf.

Definition page (tok : option string) (count : nat) (l : list string) : list string * option string :=
  page_of (match tok with None => l | Some t => seek t l end) count.

(* the client loop: fetch pages until the continuation is empty *)
Fixpoint all_pages (fuel : nat) (tok : option string) (count : nat) (l : list string) : option (list string) :=
  match fuel with
  | O => None
  | S f =>
    let '(p, next) := page tok count l in
    match next with
    | None => Some p
    | Some t => match all_pages f (Some t) count l with Some r => Some (List.app p r) | None => None end
    end
  end.

Lemma all_pages_from : forall fuel l pre suf count tok,
  0 < count -> StronglySorted slt l -> l = pre ++ suf -> List.length suf <= fuel * count -> 0 < fuel ->
  (match suf with [] => tok = None /\ pre = [] | k :: _ => tok = Some k \/ (pre = [] /\ tok = None) end) ->
  all_pages fuel tok count l = Some suf.
Proof.
  induction fuel as [|f IH]; intros l pre suf count tok Hc Hs El Hf Hpos Htok; [lia|].
  cbn [all_pages page page_of].
  assert (Hl : (match tok with None => l | Some t => seek t l end) = suf).
  { destruct suf as [|k suf'].
    - destruct Htok as [-> ->]. now rewrite El.
    - destruct Htok as [->|[-> ->]]; subst l; [now apply seek_suffix|reflexivity]. }
  rewrite Hl.
  destruct (skipn count suf) as [|k2 rest] eqn:Esk; cbn [hd_error].
  - f_equal. rewrite firstn_all2; auto.
    assert (List.length (skipn count suf) = 0) by now rewrite Esk.
    rewrite skipn_length in H. lia.
  - assert (Hsplit : suf = firstn count suf ++ k2 :: rest) by (rewrite <- Esk; symmetry; apply firstn_skipn).
    assert (Hlen : List.length (k2 :: rest) = List.length suf - count) by (rewrite <- Esk; apply skipn_length).
    rewrite (IH l (pre ++ firstn count suf) (k2 :: rest) count (Some k2)); auto.
    + now rewrite <- Hsplit.
    + rewrite <- app_assoc, <- Hsplit. exact El.
    + cbn [List.length] in *. nia.
    + cbn [List.length] in *. destruct f; [|lia]. cbn in Hf. lia.
Qed.

(* for every page size >= 1 the pages, concatenated, are the listing: every key once, in order *)
Theorem paging_complete : forall l count, 0 < count -> StronglySorted slt l ->
  all_pages (S (List.length l)) None count l = Some l.
Proof.
  intros l count Hc Hs. apply (all_pages_from (S (List.length l)) l [] l); auto; try lia.
  - nia.
  - destruct l; auto.
Qed.
End Pager.
