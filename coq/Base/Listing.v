(* Prefix listings of an object store over its key set (shared by the localfs model and the
   reference store of the core models). *)
From Coq Require Import List String Ascii NArith Bool Arith Sorted.
From DM Require Import Base.Str Base.StrOrder.
Import ListNotations.
Open Scope list_scope.

(* first position of sub in s *)
Fixpoint find_sub (sub s : string) (fuel : nat) : option nat :=
  match fuel with
  | O => None
  | S f =>
      if starts_with sub s then Some 0
      else match s with
           | EmptyString => None
           | String _ t => option_map S (find_sub sub t f)
           end
  end.

Fixpoint take (n : nat) (s : string) : string :=
  match n, s with
  | O, _ => EmptyString
  | S n', String c t => String c (take n' t)
  | S _, EmptyString => EmptyString
  end.

(* the delimiter cut: keep the key up to and including the first delimiter after the prefix *)
Definition cut (prefix delim k : string) : string :=
  if String.eqb delim EmptyString then k
  else match find_sub delim (drop (String.length prefix) k) (S (String.length k)) with
       | Some i => take (String.length prefix + i + String.length delim) k
       | None => k
       end.

(* the listing of an object store: names under the prefix, cut after the first delimiter, each once, sorted *)
Definition list_keys (prefix delim : string) (keys : list string) : list string :=
  sort_uniq (map (cut prefix delim) (filter (starts_with prefix) keys)).


Lemma list_keys_sorted : forall p d ks, StronglySorted slt (list_keys p d ks).
Proof. intros. unfold list_keys. apply sort_uniq_sorted. Qed.

Lemma list_keys_exact : forall p d ks x,
  In x (list_keys p d ks) <-> exists k, In k ks /\ starts_with p k = true /\ x = cut p d k.
Proof.
  intros p d ks x. unfold list_keys. rewrite sort_uniq_In, in_map_iff. split.
  - intros [k [Hc Hin]]. apply filter_In in Hin. destruct Hin as [Hin Hp]. exists k. auto.
  - intros [k [Hin [Hp Hc]]]. exists k. split; [auto|]. apply filter_In. auto.
Qed.
