(* C10 - squash keeps exactly the requested bundles, intact.
   Statements only; proofs are in Proofs/RepoProofs.v. *)
From Coq Require Import List String NArith Bool.
From DM Require Import Base.Str Gen.Paths Model.Meta Model.RepoOps Proofs.RepoProofs Proofs.SquashProofs.
Import ListNotations.
Open Scope list_scope.

(* squash changes no metadata key outside the bundles it deletes: other repositories, and the file
   lists and descriptors of every kept bundle, stay as they were *)
Theorem C10_squash_frame : forall r n mode sv w k,
  (forall id, under_bundle r id k = false) ->
  mget k (w_meta (snd (squash r n mode sv w))) = mget k (w_meta w).
Proof. exact squash_meta_frame. Qed.
Print Assumptions C10_squash_frame.

(* the bundles a squash deletes are never among the n most recent committed ones (n >= 1): in
   particular the most recent committed bundle survives *)
Theorem C10_recent_survive : forall (bs : list string) n labelled id, 0 < n -> NoDup bs ->
  In id (filter (fun id => negb (existsb (String.eqb id) labelled)) (firstn (List.length bs - n) bs)) ->
  ~ In id (skipn (List.length bs - n) bs).
Proof. exact squash_victims_old. Qed.
Print Assumptions C10_recent_survive.

Theorem C10_delete_bundle_frame : forall r id m k, under_bundle r id k = false ->
  mget k (delete_bundle_quiet r id m) = mget k m.
Proof. exact delete_bundle_frame. Qed.
Print Assumptions C10_delete_bundle_frame.

(* the bundles a squash removes are exactly the committed ones that are neither among the n most recent
   nor carry a retained label *)
Theorem C10_victims_exact : forall (bs labelled : list string) n id, NoDup bs ->
  (In id (squash_victims bs labelled n) <->
   In id bs /\ ~ In id (skipn (List.length bs - n) bs) /\ existsb (String.eqb id) labelled = false).
Proof. exact victims_exact. Qed.
Print Assumptions C10_victims_exact.

(* when there is something to remove (more than n committed bundles): every victim's descriptor is gone ... *)
Theorem C10_victims_gone : forall r n mode sv w,
  repo_exists r w = true -> (if Nat.eqb n 0 then 1 else n) < List.length (bundles_of r w) ->
  (forall id, In id (bundles_of r w) -> noslash id = true) ->
  forall id,
  In id (squash_victims (bundles_of r w)
           (match mode with
            | TNone => []
            | TAll => map snd (labels_of r EmptyString w)
            | TSemver => map snd (filter (fun l => existsb (String.eqb (fst l)) sv) (labels_of r EmptyString w))
            end) (if Nat.eqb n 0 then 1 else n)) ->
  mget (GetArchivePathToBundle r id) (w_meta (snd (squash r n mode sv w))) = None.
Proof. exact squash_victims_gone. Qed.
Print Assumptions C10_victims_gone.

(* ... and every other bundle keeps its descriptor and all of its file lists, byte for byte *)
Theorem C10_kept_intact : forall r n mode sv w,
  repo_exists r w = true -> (if Nat.eqb n 0 then 1 else n) < List.length (bundles_of r w) ->
  (forall id, In id (bundles_of r w) -> noslash id = true) ->
  forall id k, noslash id = true ->
  ~ In id (squash_victims (bundles_of r w)
             (match mode with
              | TNone => []
              | TAll => map snd (labels_of r EmptyString w)
              | TSemver => map snd (filter (fun l => existsb (String.eqb (fst l)) sv) (labels_of r EmptyString w))
              end) (if Nat.eqb n 0 then 1 else n)) ->
  under_bundle r id k = true ->
  mget k (w_meta (snd (squash r n mode sv w))) = mget k (w_meta w).
Proof. exact squash_kept_intact. Qed.
Print Assumptions C10_kept_intact.

(* labels: nothing outside the repository's labels changes; a label whose bundle is still there is
   untouched; a label whose bundle is gone is removed *)
Theorem C10_labels_frame : forall r n mode sv w k,
  (forall nm, k <> GetArchivePathToLabel r nm) ->
  mget k (w_vmeta (snd (squash r n mode sv w))) = mget k (w_vmeta w).
Proof. exact squash_vmeta_frame. Qed.
Print Assumptions C10_labels_frame.

Theorem C10_label_kept : forall r n mode sv w nm,
  noslash r = true -> noslash nm = true ->
  let w1 := with_meta w (w_meta (snd (squash r n mode sv w))) in
  let kept := bundles_of r w1 in
  let ls := labels_of r EmptyString w1 in
  (forall l, In l ls -> noslash (fst l) = true) ->
  (forall l, In l ls -> fst l = nm -> existsb (String.eqb (snd l)) kept = true) ->
  mget (GetArchivePathToLabel r nm) (w_vmeta (snd (squash r n mode sv w))) = mget (GetArchivePathToLabel r nm) (w_vmeta w).
Proof. exact squash_label_kept. Qed.
Print Assumptions C10_label_kept.

Theorem C10_label_removed : forall r n mode sv w l,
  repo_exists r w = true -> (if Nat.eqb n 0 then 1 else n) < List.length (bundles_of r w) ->
  let w1 := with_meta w (w_meta (snd (squash r n mode sv w))) in
  In l (labels_of r EmptyString w1) -> existsb (String.eqb (snd l)) (bundles_of r w1) = false ->
  mget (GetArchivePathToLabel r (fst l)) (w_vmeta (snd (squash r n mode sv w))) = None.
Proof. exact squash_label_removed. Qed.
Print Assumptions C10_label_removed.
