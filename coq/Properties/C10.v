(* C10 - squash keeps exactly the requested bundles, intact.
   Statements only; proofs are in Proofs/RepoProofs.v. *)
From Coq Require Import List String NArith Bool.
From DM Require Import Base.Str Gen.Paths Model.Meta Model.RepoOps Proofs.RepoProofs.
Import ListNotations.
Open Scope list_scope.

(* squash changes no metadata key outside the bundles it deletes: other repositories, and the file
   lists and descriptors of every kept bundle, stay as they were *)
Theorem C10_squash_frame : forall r n mode sv w k,
  (forall id, under_bundle r id k = false) ->
  mget k (w_meta (snd (squash r n mode sv w))) = mget k (w_meta w).
Proof. exact squash_meta_frame. Qed.
Print Assumptions C10_squash_frame.

(* the bundles a squash deletes are never among the n most recent committed ones (n >= 1): in
   particular the most recent committed bundle survives *)
Theorem C10_recent_survive : forall (bs : list string) n labelled id, 0 < n -> NoDup bs ->
  In id (filter (fun id => negb (existsb (String.eqb id) labelled)) (firstn (List.length bs - n) bs)) ->
  ~ In id (skipn (List.length bs - n) bs).
Proof. exact squash_victims_old. Qed.
Print Assumptions C10_recent_survive.

Theorem C10_delete_bundle_frame : forall r id m k, under_bundle r id k = false ->
  mget k (delete_bundle_quiet r id m) = mget k m.
Proof. exact delete_bundle_frame. Qed.
Print Assumptions C10_delete_bundle_frame.
