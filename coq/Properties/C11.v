(* C11 - diamond commit merges splits by latest write, keeping every losing version.
   Statements only; proofs are in Proofs/MergeProofs.v (and Base/Ord.v).  Model/Merge.v is compared
   with the merger of pkg/core/diamond_commit.go - handed file lists in chosen arrival orders -
   and with Diamond.Commit on every run. *)
From Coq Require Import List String NArith Bool Permutation.
From DM Require Import Base.Str Base.Ord Model.Merge Proofs.MergeProofs.
Import ListNotations.
Open Scope list_scope.

(* The result does not depend on the order in which the commit receives the entries of the splits'
   file lists: every permutation of the arrivals, in every mode, gives the same outcome. *)
Theorem C11_order_independent : forall mode l l', Permutation l l' -> merge mode l = merge mode l'.
Proof. exact merge_order_independent. Qed.
Print Assumptions C11_order_independent.

(* For each path some split uploaded, the winner is one of the uploaded versions of that path and
   none has a later upload time. *)
Theorem C11_winner_is_latest : forall l p v, In v l -> v_path v = p ->
  exists w, winner p (to_set ord_ver l) = Some w /\ In w l /\ v_path w = p /\ (v_time v <= v_time w)%N.
Proof. exact winner_is_latest. Qed.
Print Assumptions C11_winner_is_latest.

(* The main tree is the same in every mode: whenever the commit succeeds, every name outside
   .conflicts/ and .checkpoints/ holds the winner of that path (and nothing if no split uploaded it). *)
Theorem C11_main_tree_every_mode : forall mode l es p, merge mode l = MOk es ->
  starts_with ".conflicts/" p = false -> starts_with ".checkpoints/" p = false ->
  lookup p es = option_map (fun w => (v_hash w, v_size w)) (winner p (to_set ord_ver l)).
Proof. exact main_tree_every_mode. Qed.
Print Assumptions C11_main_tree_every_mode.

(* What is kept under <dir>/<split>/<path>: exactly, for each path, the most recent version of every
   other split whose content differs from the winner's - filed under the split that uploaded it. *)
Theorem C11_kept_exact : forall dir S e, In e (kept dir S) <->
  exists p v, In p (paths_of S) /\ In v (conflicts_of p S) /\ e = (deconflict dir (v_split v) p, (v_hash v, v_size v)).
Proof. exact kept_exact. Qed.
Print Assumptions C11_kept_exact.

Theorem C11_conflicts_exact : forall p S v, In v (conflicts_of p S) <->
  exists w, winner p S = Some w /\ In v (split_latests p S) /\ v_split v <> v_split w /\ v_hash v <> v_hash w.
Proof. exact conflicts_exact. Qed.
Print Assumptions C11_conflicts_exact.

(* Identical contents never count as conflicts. *)
Theorem C11_identical_never_conflict : forall p S v w, winner p S = Some w -> In v (conflicts_of p S) -> v_hash v <> v_hash w.
Proof. exact identical_never_conflict. Qed.
Print Assumptions C11_identical_never_conflict.

(* Ignore mode adds no path that no split uploaded. *)
Theorem C11_ignore_adds_nothing : forall l es p, merge MIgnore l = MOk es -> lookup p es <> None -> In p (map v_path l).
Proof. exact ignore_adds_nothing. Qed.
Print Assumptions C11_ignore_adds_nothing.

(* Forbid mode refuses exactly when some path has a conflict. *)
Theorem C11_forbid_refuses_iff : forall l, merge MForbid l = MErr <-> exists p v, In v (conflicts_of p (to_set ord_ver l)).
Proof. exact forbid_refuses_iff. Qed.
Print Assumptions C11_forbid_refuses_iff.

(* A diamond with a single split commits, in every mode, the bundle a plain upload of the same
   files has: each file under its own name, nothing else. *)
Theorem C11_single_split_is_plain : forall l s mode,
  (forall v, In v l -> v_split v = s) -> NoDup (map v_path l) ->
  exists es, merge mode l = MOk es /\
    (forall v, In v l -> lookup (v_path v) es = Some (v_hash v, v_size v)) /\
    (forall p, ~ In p (map v_path l) -> lookup p es = None).
Proof. exact single_split_is_plain. Qed.
Print Assumptions C11_single_split_is_plain.

(* a concrete merge: three splits, the content of the oldest and the newest identical *)
Example C11_example :
  let l := [mkver "p" "s1" 1 "A" 1; mkver "p" "s2" 2 "B" 1; mkver "p" "s3" 3 "A" 1] in
  merge MConflicts l = MOk [(".conflicts/s2/p", ("B", 1%N)); ("p", ("A", 1%N))] /\
  merge MConflicts (rev l) = merge MConflicts l /\
  merge MForbid l = MErr /\ merge MIgnore l = MOk [("p", ("A", 1%N))].
Proof. vm_compute. repeat split. Qed.
