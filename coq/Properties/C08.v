(* C08 - labels resolve to the bundle most recently assigned to them.
   Statements only; proofs are in Proofs/RepoProofs.v (and C07 for the listing pipeline). *)
From Coq Require Import List String NArith Bool.
From DM Require Import Base.Str Gen.Paths Model.PathsCheck Model.Meta Model.RepoOps Proofs.RepoProofs.
Import ListNotations.
Open Scope list_scope.

(* an accepted assignment is what the label resolves to afterwards *)
Theorem C08_get_after_set : forall r n b w,
  repo_exists r w = true -> label_elem_ok n = true -> b <> EmptyString ->
  fst (set_label r n b w) = ROk /\ get_label r n (snd (set_label r n b w)) = Some b.
Proof. exact get_after_set_label. Qed.
Print Assumptions C08_get_after_set.

(* setting a label changes no bundle or repository key and no other label key *)
Theorem C08_set_frame : forall r n b w,
  w_meta (snd (set_label r n b w)) = w_meta w /\
  forall k, k <> GetArchivePathToLabel r n -> mget k (w_vmeta (snd (set_label r n b w))) = mget k (w_vmeta w).
Proof. exact set_label_frame. Qed.
Print Assumptions C08_set_frame.

(* ... in particular every other label of every repository (also repositories whose names share a
   prefix) resolves as before *)
Theorem C08_other_labels : forall r n b w r' n',
  noslash r = true -> noslash n = true -> noslash r' = true -> noslash n' = true -> (r, n) <> (r', n') ->
  get_label r' n' (snd (set_label r n b w)) = get_label r' n' w.
Proof. exact set_label_other. Qed.
Print Assumptions C08_other_labels.

Theorem C08_get_after_delete : forall r n w w', delete_label r n true w = (ROk, w') -> get_label r n w' = None.
Proof. exact get_after_delete_label. Qed.
Print Assumptions C08_get_after_delete.

(* names the API accepts contain no '/', hence build keys that parse back to the same name (C20) *)
Theorem C08_accepted_names : forall n, label_elem_ok n = true -> noslash n = true.
Proof. exact label_ok_noslash. Qed.
Print Assumptions C08_accepted_names.

(* every name of the documented alphabet (model.ValidateLabel, C20) is accepted *)
Theorem C08_documented_names_accepted : forall n, label_name_ok n = true -> label_elem_ok n = true.
Proof. exact label_name_elem. Qed.
Print Assumptions C08_documented_names_accepted.
