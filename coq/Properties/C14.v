(* C14 - purging removes exactly the unreferenced old blobs, one job at a time.
   Statements only; proofs are in Proofs/PurgeProofs.v (lock: Proofs/RepoProofs.v). *)
From Coq Require Import List String NArith Bool.
From DM Require Import Model.Meta Model.Purge Proofs.PurgeProofs Proofs.AtomicProofs.
Import ListNotations.
Open Scope string_scope.
Open Scope list_scope.

(* A build that is not resumed lists nothing but keys of the files it scanned... *)
Theorem C14_index_exact : forall n ops k, In k (index_of (last_session n false ops [])) ->
  exists f, In f (files_of ops) /\ In k (keys_of f).
Proof. exact index_exact_fresh. Qed.
Print Assumptions C14_index_exact.

(* ... and all of them (C13_index_complete with no earlier session). *)
Theorem C14_index_complete : forall F n ops f k, 0 < n -> consistent F ->
  (forall g, In g (files_of ops) -> In g F) -> In f (files_of ops) -> In k (keys_of f) ->
  In k (index_of (last_session n false ops [])).
Proof. intros F n ops f k. exact (index_complete F n false ops [] f k). Qed.
Print Assumptions C14_index_complete.

(* delete-unused leaves exactly the blobs that are indexed or newer than the index. *)
Theorem C14_delete_unused_exact : forall index blobs k,
  In k (delete_unused index blobs) <-> exists nw, In (k, nw) blobs /\ (In k index \/ nw = true).
Proof. exact delete_unused_exact. Qed.
Print Assumptions C14_delete_unused_exact.

(* The purge lock is a create-if-absent object: once it exists, another acquisition is refused and
   changes nothing. *)
Theorem C14_lock_exclusive : forall k v v' m, mget k m = Some v ->
  mput k v' true m = (PExists, m).
Proof. intros k v v' m H. unfold mput. now rewrite H. Qed.
Print Assumptions C14_lock_exclusive.
