(* C17 - a read-only mount shows exactly the bundle.
   Statements only; proofs are in Proofs/MountProofs.v.  Model/Mount.v is compared with the file
   system operations of pkg/fuse (streamed and pre-downloaded mounts) on every run. *)
From Coq Require Import List String NArith Bool Arith.
From DM Require Import Model.Mount Proofs.MountProofs.
Import ListNotations.
Open Scope list_scope.

(* A name is listed in (and can be looked up from) a directory exactly when some file of the bundle
   lies at or below that name: the mount shows the bundle's files and the directories they imply,
   and nothing else. *)
Theorem C17_children_exact : forall d paths n,
  (exists b, In (n, b) (children d paths)) <-> (exists p, In p paths /\ is_prefix (d ++ [n]) p = true).
Proof. exact children_exact. Qed.
Print Assumptions C17_children_exact.

(* No name is listed twice. *)
Theorem C17_children_nodup : forall d paths, NoDup (map fst (children d paths)).
Proof. exact children_nodup. Qed.
Print Assumptions C17_children_nodup.

(* A listing read through buffers of any sizes, each call resumed at the offset the previous one
   ended at, yields the remaining children in order - every child exactly once when read to the end. *)
Theorem C17_resume_complete : forall (l : list (string * bool)) ks off,
  List.length l - off <= fold_right Nat.add 0 ks -> resume l off ks = skipn off l.
Proof. exact (@resume_complete (string * bool)). Qed.
Print Assumptions C17_resume_complete.

Theorem C17_listing_from_start_complete : forall (l : list (string * bool)) ks,
  List.length l <= fold_right Nat.add 0 ks -> resume l 0 ks = l.
Proof. exact (@listing_from_start_complete (string * bool)). Qed.
Print Assumptions C17_listing_from_start_complete.

(* A read returns exactly the bytes of its range, cut at the end of the file. *)
Theorem C17_read_length : forall data off len, List.length (read_bytes data off len) = Nat.min len (List.length data - off).
Proof. exact read_length. Qed.
Print Assumptions C17_read_length.

Theorem C17_read_nth : forall data off len i, i < List.length (read_bytes data off len) ->
  nth i (read_bytes data off len) 0%N = nth (off + i) data 0%N.
Proof. exact read_nth. Qed.
Print Assumptions C17_read_nth.
