(* C15 - concurrent uploads, downloads and commits do not interfere.
   Statements only; proofs are in Proofs/ConcurProofs.v.  The log of writes of concurrent runs of the
   implementation (built with the Go race detector) is replayed on Model/Concur.v on every run; that
   the operations complete, that each result is the result of the operation alone, and that no data
   race is reported are observations of those runs - a theorem about the model cannot exhibit the
   Go scheduler or the memory model. *)
From Coq Require Import List String NArith Bool.
From DM Require Import Model.Concur Proofs.ConcurProofs.
Import ListNotations.
Open Scope list_scope.

(* Under the discipline of a content-addressed store (whoever writes a key writes the same content)
   no successful write is lost or altered: wherever it falls among the writes of the other operations,
   its key holds its content at the end. *)
Theorem C15_no_write_lost : forall before p after s store,
  (forall q, In q (before ++ p :: after) -> p_store q = store -> p_key q = p_key p -> p_digest q = p_digest p) ->
  (forall d, lookup (store, p_key p) (replay before s) = Some d -> d = p_digest p) ->
  p_store p = store ->
  lookup (store, p_key p) (replay (before ++ p :: after) s) = Some (p_digest p).
Proof. exact no_write_lost. Qed.
Print Assumptions C15_no_write_lost.

(* An object that exists is never altered by a create-if-absent write (the metadata of one operation
   is out of reach of the others). *)
Theorem C15_excl_never_alters : forall s p k d, p_excl p = true -> lookup k s = Some d -> lookup k (fst (apply_put s p)) = Some d.
Proof. exact excl_never_alters. Qed.
Print Assumptions C15_excl_never_alters.

(* A content an object holds stays as long as every later write to its key carries the same content. *)
Theorem C15_replay_keeps : forall trace s k d,
  lookup k s = Some d ->
  (forall p, In p trace -> (p_store p, p_key p) = k -> p_digest p = d) ->
  lookup k (replay trace s) = Some d.
Proof. exact replay_keeps. Qed.
Print Assumptions C15_replay_keeps.
