(* C07 - listings are complete, exact and ordered.
   Statements only; proofs are in Proofs/ListProofs.v, Base/Paging.v, Base/Listing.v. *)
From Coq Require Import List String NArith Bool Sorted.
From DM Require Import Base.Str Base.StrOrder Base.Paging Base.Listing Model.Meta Model.ListOps Proofs.ListProofs.
Import ListNotations.
Open Scope list_scope.

(* The store's listing under a prefix holds exactly the names under that prefix (cut after the
   delimiter), each once, in byte order - whatever other keys share the prefix. *)
Theorem C07_store_listing : forall p d ks x,
  In x (list_keys p d ks) <-> exists k, In k ks /\ starts_with p k = true /\ x = cut p d k.
Proof. exact list_keys_exact. Qed.
Print Assumptions C07_store_listing.

Theorem C07_store_listing_sorted : forall p d ks, StronglySorted slt (list_keys p d ks).
Proof. exact list_keys_sorted. Qed.
Print Assumptions C07_store_listing_sorted.

(* The key retrieval loop of every listing: for every page size >= 1, every per-page filter and
   every store content, the batches concatenated are the filtered listing - also when some pages
   are filtered down to nothing (pages made of split file-list keys only). *)
Theorem C07_all_batches : forall count f p d s, 0 < count ->
  exists ps, all_batches count f p d s = Some ps /\ List.concat ps = filter f (mlist p d s).
Proof. exact all_batches_complete. Qed.
Print Assumptions C07_all_batches.

(* Merging running/done records batch by batch is the same as merging the whole listing. *)
Theorem C07_merge_batches : forall bs st,
  List.concat (merge_batches st bs) = snd (merge_batch st (List.concat bs)).
Proof. exact merge_batches_concat. Qed.
Print Assumptions C07_merge_batches.

(* A listing in which every diamond (split) contributes its done record followed by its running
   record, or its running record alone, yields exactly one key per diamond (split), in order, the
   done record when there is one; no merge state is left behind. *)
Theorem C07_merge_groups : forall gs picks, Forall2 group gs picks ->
  merge_batch [] (List.concat gs) = ([], picks).
Proof. exact merge_groups. Qed.
Print Assumptions C07_merge_groups.
