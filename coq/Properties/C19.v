(* C19 - the write-ahead log returns what was appended, in token order.
   Statements only; proofs are in Proofs/WalProofs.v.  Model/Wal.v is compared with pkg/wal over a
   store that lists from a start key, with concurrent appends and a clock the harness moves, on
   every run. *)
From Coq Require Import List NArith Bool Arith String.
From DM Require Import Gen.Consts Model.Wal Proofs.WalProofs.
Import ListNotations.
Open Scope N_scope.

(* Tokens issued in a later second sort after every token issued in an earlier one, whatever their
   random parts; the time of a token is the time it was issued at. *)
Theorem C19_tokens_follow_time : forall t1 r1 t2 r2, t1 < t2 -> token_of t1 r1 < token_of t2 r2.
Proof. exact tokens_follow_time. Qed.
Print Assumptions C19_tokens_follow_time.

Theorem C19_time_of_token : forall t r, time_of (token_of t r) = t.
Proof. exact time_of_token. Qed.
Print Assumptions C19_time_of_token.

(* After any history of appends with unique tokens the log holds exactly the appended entries, token
   and payload unchanged, in token order. *)
Theorem C19_log_holds_appended : forall es e, NoDup (map fst es) -> (In e (add_all es) <-> In e es).
Proof. exact log_holds_appended. Qed.
Print Assumptions C19_log_holds_appended.

Theorem C19_log_sorted : forall es, sorted (add_all es).
Proof. exact log_sorted. Qed.
Print Assumptions C19_log_sorted.

(* A listing is in strict token order (hence without duplicates), ... *)
Theorem C19_listing_sorted : forall from max l, sorted l -> sorted (list_entries from max l).
Proof. exact listing_sorted. Qed.
Print Assumptions C19_listing_sorted.

(* ... returns stored entries of its window only, ... *)
Theorem C19_listing_sound : forall from max l e, In e (list_entries from max l) -> In e l /\ list_start from <= fst e.
Proof. exact listing_sound. Qed.
Print Assumptions C19_listing_sound.

(* ... every one of them when they fit in the requested maximum (capped at 1000), ... *)
Theorem C19_listing_complete : forall from max l e,
  Nat.le (List.length (filter (fun e : N * string => list_start from <=? fst e) l)) (Nat.min max walMaxEntriesPerList) ->
  In e l -> list_start from <= fst e -> In e (list_entries from max l).
Proof. exact listing_complete. Qed.
Print Assumptions C19_listing_complete.

(* ... and otherwise those with the smallest tokens. *)
Theorem C19_listing_prefix : forall from max l, exists rest,
  filter (fun e : N * string => list_start from <=? fst e) l = list_entries from max l ++ rest.
Proof. exact listing_prefix. Qed.
Print Assumptions C19_listing_prefix.

(* The window includes every entry issued no earlier than the look-back period before the given token. *)
Theorem C19_lookback_in_window : forall from tok, time_of from - lookback <= time_of tok -> list_start from <= tok.
Proof. exact lookback_in_window. Qed.
Print Assumptions C19_lookback_in_window.
