(* C09 - repository operations affect exactly their own repository.
   Statements only; proofs are in Proofs/RepoProofs.v, Proofs/DeleteFiles.v and Proofs/RenameProofs.v. *)
From Coq Require Import List String NArith Bool.
From DM Require Import Base.Str Gen.Paths Model.Meta Model.Bundle Model.RepoOps Proofs.RepoProofs Proofs.DeleteFiles Proofs.RenameProofs.
Import ListNotations.
Open Scope list_scope.

(* creation is create-if-absent: the first creator of a name succeeds, every later one is refused
   and changes nothing - whatever the order in which concurrent creators' writes take effect *)
Theorem C09_create_once : forall r w,
  repo_exists r w = false ->
  fst (create_repo r w) = ROk /\
  let w1 := snd (create_repo r w) in repo_exists r w1 = true /\
  forall w2, w_meta w2 = w_meta w1 -> create_repo r w2 = (RErr, w2).
Proof. exact create_repo_once. Qed.
Print Assumptions C09_create_once.

(* deleting a repository leaves every metadata key that is not below bundles/<repo>/<id>/ and is
   not the repository's descriptor ... *)
Theorem C09_delete_meta_frame : forall r w k,
  (forall id, under_bundle r id k = false) -> k <> GetArchivePathToRepoDescriptor r ->
  mget k (w_meta (snd (delete_repo r w))) = mget k (w_meta w).
Proof. exact delete_repo_meta_frame. Qed.
Print Assumptions C09_delete_meta_frame.

(* ... and every label key of any other repository *)
Theorem C09_delete_vmeta_frame : forall r w k,
  (forall n, k <> GetArchivePathToLabel r n) ->
  mget k (w_vmeta (snd (delete_repo r w))) = mget k (w_vmeta w).
Proof. exact delete_repo_vmeta_frame. Qed.
Print Assumptions C09_delete_vmeta_frame.

(* deleting one bundle touches nothing outside bundles/<repo>/<id>/ *)
Theorem C09_delete_bundle_frame : forall r id m k, under_bundle r id k = false ->
  mget k (delete_bundle_quiet r id m) = mget k m.
Proof. exact delete_bundle_frame. Qed.
Print Assumptions C09_delete_bundle_frame.

(* delete-files on one bundle stored as the file lists ls (none of them longer than E entries): the
   bundle afterwards holds exactly the entries whose path was not named, in their order, in a layout
   the reader accepts (every list but the last full); file lists no longer needed are gone and no
   key outside bundles/<repo>/<id>/ changes *)
Theorem C09_delete_files_bundle : forall E r id ls paths m,
  0 < E -> noslash r = true -> noslash id = true ->
  stored r id ls m -> Forall (fun l => List.length l <= E) ls ->
  exists ls' m',
    scrub_bundle E r id (N.of_nat (List.length ls)) paths m = Some m' /\
    stored r id ls' m' /\ wf_layout E ls' /\
    List.concat ls' = keep_entries paths (List.concat ls) /\
    (forall j, List.length ls' <= j -> j < List.length ls ->
               mget (GetArchivePathToBundleFileList r id (N.of_nat j)) m' = None) /\
    (forall k, under_bundle r id k = false -> mget k m' = mget k m).
Proof. exact scrub_bundle_exact. Qed.
Print Assumptions C09_delete_files_bundle.

(* ... and reading the bundle back with the reader's per-list count checks yields those entries *)
Theorem C09_delete_files_reads_back : forall E r id ls paths m,
  0 < E -> noslash r = true -> noslash id = true ->
  stored r id ls m -> Forall (fun l => List.length l <= E) ls ->
  exists (ls' : list (list entry)) m', scrub_bundle E r id (N.of_nat (List.length ls)) paths m = Some m' /\
    mget (GetArchivePathToBundle r id) m' = Some (VBundle id (N.of_nat (List.length ls'))) /\
    unpack_lists E (List.length ls') 0
      (fun j => match mget (GetArchivePathToBundleFileList r id (N.of_nat j)) m' with Some (VIndex es) => Some es | _ => None end)
    = Some (keep_entries paths (List.concat ls)).
Proof. exact scrub_bundle_reads_back. Qed.
Print Assumptions C09_delete_files_reads_back.

(* the whole repository: every bundle is left with exactly its other entries, and nothing that is
   not below one of those bundles changes (other repositories, labels, the repository descriptor) *)
Theorem C09_delete_files_repo : forall E r paths ids m (lay : string -> list (list entry)),
  0 < E -> noslash r = true -> NoDup ids -> (forall id, In id ids -> noslash id = true) ->
  (forall id, In id ids -> stored r id (lay id) m /\ Forall (fun l => List.length l <= E) (lay id)) ->
  exists m', scrub_bundles E r paths ids m = (ROk, m') /\
    (forall id, In id ids -> exists ls', stored r id ls' m' /\ wf_layout E ls' /\
                                          List.concat ls' = keep_entries paths (List.concat (lay id))) /\
    (forall k, (forall id, In id ids -> under_bundle r id k = false) -> mget k m' = mget k m).
Proof. exact scrub_bundles_exact. Qed.
Print Assumptions C09_delete_files_repo.

(* rename: every committed bundle of the old name, stored as the file lists ls, is stored under the new
   name with the same bundle id and the same file lists once the rename is over (what happened to the
   old name is judged on snapshots by the check: nothing of it is left) *)
Theorem C09_rename_moves_bundle : forall r r' w id ls,
  noslash r = true -> noslash r' = true -> r <> r' ->
  repo_exists r w = true -> repo_exists r' w = false ->
  NoDup (bundles_of r w) -> (forall x, In x (bundles_of r w) -> noslash x = true) -> In id (bundles_of r w) ->
  stored r id ls (w_meta w) -> (forall k, under_bundle r' id k = true -> mget k (w_meta w) = None) ->
  stored r' id ls (w_meta (snd (rename_repo r r' w))).
Proof. exact rename_moves_bundle. Qed.
Print Assumptions C09_rename_moves_bundle.
