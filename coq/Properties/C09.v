(* C09 - repository operations affect exactly their own repository.
   Statements only; proofs are in Proofs/RepoProofs.v. *)
From Coq Require Import List String NArith Bool.
From DM Require Import Base.Str Gen.Paths Model.Meta Model.RepoOps Proofs.RepoProofs.
Import ListNotations.
Open Scope list_scope.

(* creation is create-if-absent: the first creator of a name succeeds, every later one is refused
   and changes nothing - whatever the order in which concurrent creators' writes take effect *)
Theorem C09_create_once : forall r w,
  repo_exists r w = false ->
  fst (create_repo r w) = ROk /\
  let w1 := snd (create_repo r w) in repo_exists r w1 = true /\
  forall w2, w_meta w2 = w_meta w1 -> create_repo r w2 = (RErr, w2).
Proof. exact create_repo_once. Qed.
Print Assumptions C09_create_once.

(* deleting a repository leaves every metadata key that is not below bundles/<repo>/<id>/ and is
   not the repository's descriptor ... *)
Theorem C09_delete_meta_frame : forall r w k,
  (forall id, under_bundle r id k = false) -> k <> GetArchivePathToRepoDescriptor r ->
  mget k (w_meta (snd (delete_repo r w))) = mget k (w_meta w).
Proof. exact delete_repo_meta_frame. Qed.
Print Assumptions C09_delete_meta_frame.

(* ... and every label key of any other repository *)
Theorem C09_delete_vmeta_frame : forall r w k,
  (forall n, k <> GetArchivePathToLabel r n) ->
  mget k (w_vmeta (snd (delete_repo r w))) = mget k (w_vmeta w).
Proof. exact delete_repo_vmeta_frame. Qed.
Print Assumptions C09_delete_vmeta_frame.

(* deleting one bundle touches nothing outside bundles/<repo>/<id>/ *)
Theorem C09_delete_bundle_frame : forall r id m k, under_bundle r id k = false ->
  mget k (delete_bundle_quiet r id m) = mget k m.
Proof. exact delete_bundle_frame. Qed.
Print Assumptions C09_delete_bundle_frame.
