(* C22 - the write-range tracker records exactly the written ranges.
   Statements only; proofs are in Proofs/TrackerProofs.v. *)
From Coq Require Import List ZArith Bool.
From DM Require Import Model.Tracker Model.TrackerCheck Proofs.TrackerProofs.
Import ListNotations.
Open Scope Z_scope.

(* For every history of writes (offset >= 0, length >= 0), every probe offset and positive
   length: the tracker answers "modified" iff some write covered the offset, and the
   contiguous length it returns is positive, at most the requested length, and does not
   cross a boundary between modified and unmodified offsets. *)
Theorem C22_refines_bitmap : forall ws off len,
  Forall valid_write ws -> 0 < len ->
  let '(c, b) := get_range off len (run_writes ws) in
  b = covered_by ws off /\
  0 < c <= len /\
  forall y, off <= y < off + c -> covered_by ws y = covered_by ws off.
Proof. exact tracker_refines_bitmap. Qed.
Print Assumptions C22_refines_bitmap.

(* The executable oracle applied to implementation observations is exactly that statement. *)
Theorem C22_oracle_sound : forall ws off len c b,
  probe_ok ws off len (c, b) = true ->
  b = covered_by ws off /\ 0 < c <= len /\
  forall y, off <= y < off + c -> covered_by ws y = covered_by ws off.
Proof. exact probe_ok_sound. Qed.
Print Assumptions C22_oracle_sound.

Theorem C22_oracle_accepts_model : forall ws off len,
  Forall valid_write ws -> 0 < len ->
  probe_ok ws off len (get_range off len (run_writes ws)) = true.
Proof. exact probe_ok_model. Qed.
Print Assumptions C22_oracle_accepts_model.
