(* C13 - purging never deletes data that a committed bundle needs.
   Statements only; proofs are in Proofs/PurgeProofs.v.  Model/Purge.v is compared with
   PurgeBuildReverseIndex / PurgeDeleteUnused - interrupted at every index chunk write and resumed,
   and under injected transient store failures - on every run. *)
From Coq Require Import List String NArith Bool.
From DM Require Import Model.Purge Proofs.PurgeProofs.
Import ListNotations.
Open Scope string_scope.
Open Scope list_scope.

(* The index lists every key (root and leaves) of every file scanned by the session that completes -
   whatever earlier sessions did before they died, wherever they died, whichever chunks they had
   uploaded, and whether the last session was resumed from those chunks or not.  consistent: a root
   key stands for the same leaves wherever it occurs. *)
Theorem C13_index_complete : forall F n resume ops chunks f k, 0 < n -> consistent F ->
  (forall g, In g (files_of ops) -> In g F) ->
  In f (files_of ops) -> In k (keys_of f) ->
  In k (index_of (last_session n resume ops chunks)).
Proof. exact index_complete. Qed.
Print Assumptions C13_index_complete.

(* delete-unused keeps every blob whose key is in the index or that is newer than the index: a bundle
   whose keys are all indexed (committed before the index was started) or all newer (uploaded after
   it: new blobs are written, adopted ones are refreshed) keeps every blob it needs. *)
Theorem C13_delete_unused_keeps_bundle : forall index blobs (ks : list string),
  (forall k, In k ks -> exists nw, In (k, nw) blobs /\ (In k index \/ nw = true)) ->
  forall k, In k ks -> In k (delete_unused index blobs).
Proof. exact delete_unused_keeps_bundle. Qed.
Print Assumptions C13_delete_unused_keeps_bundle.

(* both steps together: a file scanned by the index build - whatever earlier sessions did before they
   died and whether the build was resumed - keeps every blob it has when delete-unused runs with that
   index ... *)
Theorem C13_purge_keeps_scanned : forall F n resume ops chunks blobs f, 0 < n -> consistent F ->
  (forall g, In g (files_of ops) -> In g F) -> In f (files_of ops) ->
  (forall k, In k (keys_of f) -> exists nw, In (k, nw) blobs) ->
  forall k, In k (keys_of f) -> In k (delete_unused (index_of (last_session n resume ops chunks)) blobs).
Proof. exact purge_keeps_scanned. Qed.
Print Assumptions C13_purge_keeps_scanned.

(* ... and a file uploaded after the index was started, all of whose blobs were written or refreshed
   since, keeps them whatever the index holds *)
Theorem C13_purge_keeps_newer : forall index blobs (ks : list string),
  (forall k, In k ks -> In (k, true) blobs) -> forall k, In k ks -> In k (delete_unused index blobs).
Proof. exact purge_keeps_newer. Qed.
Print Assumptions C13_purge_keeps_newer.

(* non-vacuity: a two-leaf file whose root was uploaded by a session that died before the leaves were *)
Example C13_resume_example :
  let f := {| fk_root := "r"; fk_leaves := ["l1"; "l2"] |} in
  let dead := dead_session 1 false [OScan f; OFlush] [] in
  dead = [["r"]] /\
  index_of (last_session 1 true [OScan f] dead) = ["r"; "l1"; "l2"].
Proof. vm_compute. split; reflexivity. Qed.
