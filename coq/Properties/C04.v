(* C04 - bundle upload then download reproduces the uploaded tree.
   Statements only; proofs are in Proofs/BundleProofs.v (entries and index files) and, for the
   bytes of each file, in the cafs theorems of C01 (C01_roundtrip). *)
From Coq Require Import List String NArith Bool Arith.
From DM Require Import Base.Str Model.PathsParse Model.Meta Model.Bundle Proofs.BundleProofs.
Import ListNotations.
Open Scope list_scope.

(* For every tree with distinct names, every index-file capacity E >= 1 and every selection
   predicate: the upload yields one entry per non-generated file (size and key of that file), the
   entries laid out in index files of E read back identically through the reader's count checks
   (whatever their number: no bound on the tree size), and the download of the selected entries is
   exactly the selected non-generated files. *)
Theorem C04_roundtrip : forall fs skip E sel, 0 < E -> NoDup (map f_name fs) ->
  exists es,
    upload_entries (map f_name fs) fs skip = Some es /\
    unpack_lists E (List.length (chunk E es)) 0 (nth_error (chunk E es)) = Some es /\
    download_files es sel [] =
      Some (map (fun f => (f_name f, f_hash f))
                (filter (fun f => negb (is_generated (f_name f)) && sel (f_name f)) fs)).
Proof. exact bundle_roundtrip. Qed.
Print Assumptions C04_roundtrip.

Theorem C04_entries : forall fs skip, NoDup (map f_name fs) ->
  upload_entries (map f_name fs) fs skip =
  Some (map entry_of (filter (fun f => negb (is_generated (f_name f))) fs)).
Proof. exact upload_all. Qed.
Print Assumptions C04_entries.

Theorem C04_index_files : forall E l, 0 < E ->
  List.concat (chunk E l) = l /\
  unpack_lists E (List.length (chunk E l)) 0 (nth_error (chunk E l)) = Some l.
Proof. exact index_files_roundtrip. Qed.
Print Assumptions C04_index_files.

(* explicit key lists: every entry stems from a listed, existing, non-generated file; the upload
   refuses only when a listed non-generated file is missing and missing files are not skipped *)
Theorem C04_keylist_sound : forall names fs skip es, upload_entries names fs skip = Some es ->
  forall e, In e es -> exists f, In f fs /\ e = entry_of f /\ In (f_name f) names /\ is_generated (f_name f) = false.
Proof. exact upload_keys_sound. Qed.
Print Assumptions C04_keylist_sound.

Theorem C04_keylist_refusal : forall names fs,
  upload_entries names fs false = None ->
  exists n, In n names /\ find_file n fs = None /\ is_generated n = false.
Proof. exact upload_keys_fails_only_on_missing. Qed.
Print Assumptions C04_keylist_refusal.

Theorem C04_filter : forall es sel, NoDup (map e_name es) ->
  download_files es sel [] = Some (map (fun e => (e_name e, e_hash e)) (filter (fun e => sel (e_name e)) es)).
Proof. exact download_selected. Qed.
Print Assumptions C04_filter.
