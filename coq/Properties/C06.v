(* C06 - bundles become visible atomically and are never altered afterwards.
   Statements only; proofs are in Proofs/AtomicProofs.v and Proofs/RepoProofs.v.  The write
   program of an upload (Model/Atomic.v) is compared with the calls the real upload makes on a
   crash-injecting store, at every crash point, by the harness on every run. *)
From Coq Require Import List String Ascii NArith Bool.
From DM Require Import Base.Str Gen.Paths Model.Meta Model.Bundle Model.RepoOps Model.WorldCheck Model.Atomic
  Proofs.RepoProofs Proofs.AtomicProofs.
Import ListNotations.
Open Scope list_scope.

(* An upload interrupted after any number n of its metadata writes short of all of them: no bundle
   descriptor of any repository has appeared or changed - what is visible, and what the visible
   descriptors say, is exactly what it was. *)
Theorem C06_interrupted_upload_invisible : forall r id es E n m r' id',
  noslash r = true -> noslash id = true -> noslash r' = true -> noslash id' = true ->
  n < List.length (upload_writes r id es E) ->
  mget (GetArchivePathToBundle r' id') (crashed_upload r id es E n m) = mget (GetArchivePathToBundle r' id') m.
Proof. exact interrupted_upload_invisible. Qed.
Print Assumptions C06_interrupted_upload_invisible.

(* At every crash point (the last included) every object that existed keeps its value... *)
Theorem C06_crash_keeps_existing : forall r id es E n m k v, mget k m = Some v ->
  mget k (crashed_upload r id es E n m) = Some v.
Proof. exact crashed_upload_keeps. Qed.
Print Assumptions C06_crash_keeps_existing.

(* ...and nothing outside bundles/<repo>/<id>/ is created either. *)
Theorem C06_crash_frame : forall r id es E n m k, under_bundle r id k = false ->
  mget k (crashed_upload r id es E n m) = mget k m.
Proof. exact crashed_upload_frame. Qed.
Print Assumptions C06_crash_frame.

(* The complete program on a fresh id leaves the descriptor with the right file-list count and
   every file list with its entries. *)
Theorem C06_completed_upload_visible : forall r id es E m, noslash r = true -> noslash id = true ->
  (forall k, under_bundle r id k = true -> mget k m = None) ->
  let m' := apply_excl (upload_writes r id es E) m in
  mget (GetArchivePathToBundle r id) m' = Some (VBundle id (N.of_nat (List.length (chunk E es)))) /\
  (forall j c, nth_error (chunk E es) j = Some c -> mget (GetArchivePathToBundleFileList r id (N.of_nat j)) m' = Some (VIndex c)).
Proof. exact completed_upload_visible. Qed.
Print Assumptions C06_completed_upload_visible.

(* The upload of the repository model of C08-C10 (compared with the implementation step by step
   over whole histories) is that program. *)
Theorem C06_upload_is_program : forall r id es E w w',
  (forall k, under_bundle r id k = true -> mget k (w_meta w) = None) ->
  upload r id es E w = (ROk, w') -> w_meta w' = apply_excl (upload_writes r id es E) (w_meta w) /\ w_vmeta w' = w_vmeta w.
Proof. exact successful_upload_is_program. Qed.
Print Assumptions C06_upload_is_program.

(* A label assignment is one write: it changes that label's object and nothing else, so a crash
   leaves either the old state or the complete new one. *)
Theorem C06_label_single_write : forall r n b w,
  w_meta (snd (set_label r n b w)) = w_meta w /\
  forall k, k <> GetArchivePathToLabel r n -> mget k (w_vmeta (snd (set_label r n b w))) = mget k (w_vmeta w).
Proof. exact set_label_frame. Qed.
Print Assumptions C06_label_single_write.

(* Once written, never altered: over every history of operations other than delete-repo, rename,
   delete-files and squash, every metadata object keeps its value. *)
Theorem C06_never_altered : forall E ops w k v, forallb preserving ops = true ->
  mget k (w_meta w) = Some v ->
  mget k (w_meta (fold_left (fun w o => fst (wstep_model E w o)) ops w)) = Some v.
Proof. exact committed_never_altered. Qed.
Print Assumptions C06_never_altered.

(* the hypotheses are met by a concrete upload of three entries in two file lists, interrupted after one *)
Example C06_premises_satisfiable :
  let es := [{| e_name := "a"; e_hash := "h1"; e_size := 1 |}; {| e_name := "b"; e_hash := "h2"; e_size := 2 |};
             {| e_name := "c"; e_hash := "h3"; e_size := 3 |}] in
  List.length (upload_writes "repo" "id1" es 2) = 3 /\
  List.length (crashed_upload "repo" "id1" es 2 1 []) = 1 /\
  mget (GetArchivePathToBundle "repo" "id1") (crashed_upload "repo" "id1" es 2 2 []) = None /\
  mget (GetArchivePathToBundle "repo" "id1") (crashed_upload "repo" "id1" es 2 3 []) = Some (VBundle "id1" 2).
Proof. vm_compute. repeat split. Qed.
