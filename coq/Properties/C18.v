(* C18 - a mutable mount behaves like a file system and commits what it shows.
   The reference tree of Model/MutFs.v is the statement: every operation on the mount must answer as
   `step` does, and the committed bundle must hold `files_of` the final tree.  The mount is driven
   through its file system operations, with the harness in the role of the kernel (lookups, lookup
   counts, forgets, VFS checks), and compared step by step on every run; on top of that no live entries
   may share an inode and nothing may crash.  The theorems below establish that the reference tree
   itself behaves as a directory tree should; proofs are in Proofs/MutFsProofs.v. *)
From Coq Require Import List String NArith Bool Arith.
From DM Require Import Model.Mount Model.MutFs Model.Inode Model.InodeCheck Proofs.MutFsProofs Proofs.MutFsWf Proofs.InodeProofs.
Import ListNotations.
Open Scope string_scope.
Open Scope list_scope.

(* The reference tree stays a tree under every program of operations, renames of whole subtrees
   included: no path occurs twice, no node sits at the root path, every node's parent is a directory
   of the tree. *)
Theorem C18_tree_stays_a_tree : forall ops t, wf t -> wf (run ops t).
Proof. exact run_wf. Qed.
Print Assumptions C18_tree_stays_a_tree.

Theorem C18_empty_tree_is_a_tree : wf [].
Proof. exact wf_empty. Qed.
Print Assumptions C18_empty_tree_is_a_tree.

(* An operation that is refused changes nothing. *)
Theorem C18_refused_changes_nothing : forall t o e, snd (step t o) = RErr e -> fst (step t o) = t.
Proof. exact refused_changes_nothing. Qed.
Print Assumptions C18_refused_changes_nothing.

(* Lookups, reads and listings change nothing. *)
Theorem C18_queries_change_nothing : forall t o,
  match o with FLookup _ | FRead _ _ _ | FReaddir _ => True | _ => False end -> fst (step t o) = t.
Proof. exact queries_change_nothing. Qed.
Print Assumptions C18_queries_change_nothing.

(* A successful create / mkdir / unlink changes exactly the one path. *)
Theorem C18_create_adds_one : forall t p, snd (step t (FCreate p)) = ROk ->
  get p (fst (step t (FCreate p))) = Some (NFile []) /\ forall q, q <> p -> get q (fst (step t (FCreate p))) = get q t.
Proof. exact create_adds_one. Qed.
Print Assumptions C18_create_adds_one.

Theorem C18_mkdir_adds_one : forall t p, snd (step t (FMkdir p)) = ROk ->
  get p (fst (step t (FMkdir p))) = Some NDir /\ forall q, q <> p -> get q (fst (step t (FMkdir p))) = get q t.
Proof. exact mkdir_adds_one. Qed.
Print Assumptions C18_mkdir_adds_one.

Theorem C18_unlink_removes_one : forall t p, snd (step t (FUnlink p)) = ROk ->
  get p (fst (step t (FUnlink p))) = None /\ forall q, q <> p -> get q (fst (step t (FUnlink p))) = get q t.
Proof. exact unlink_removes_one. Qed.
Print Assumptions C18_unlink_removes_one.

(* What is written at an offset is what is read back there, whatever was there before (holes are
   zero-filled); bytes before the written range are kept. *)
Theorem C18_write_then_read : forall old off data, read_bytes (write_at old off data) off (List.length data) = data.
Proof. exact write_then_read. Qed.
Print Assumptions C18_write_then_read.

Theorem C18_write_keeps_prefix : forall old off data i, i < off -> i < List.length old ->
  nth i (write_at old off data) 0%N = nth i old 0%N.
Proof. exact write_keeps_prefix. Qed.
Print Assumptions C18_write_keeps_prefix.

(* a concrete program: rename moves a subtree, rmdir refuses a non-empty directory *)
Example C18_example :
  let ops := [FMkdir ["a"]; FCreate ["a"; "f"]; FWrite ["a"; "f"] 2 [7; 8]%N; FMkdir ["b"]; FRename ["a"] ["b"; "c"]] in
  files_of (run ops []) = [(["b"; "c"; "f"], [0; 0; 7; 8]%N)] /\
  snd (step (run ops []) (FRmdir ["b"])) = RErr ENOTEMPTY /\
  snd (step (run ops []) (FLookup ["a"; "f"])) = RErr ENOENT.
Proof. vm_compute. repeat split. Qed.

(* ---- inode numbers (pkg/fuse/inode.go) ---- *)
(* a number handed out is above the base, in use by no live entry, and the bookkeeping stays exact:
   numbers above the base are live or on the free stack, each once *)
Theorem C18_inode_fresh : forall base g live, iinv base g live ->
  ~ In (fst (ialloc g)) live /\ (base < fst (ialloc g))%N /\ iinv base (snd (ialloc g)) (live ++ [fst (ialloc g)]).
Proof. exact ialloc_fresh. Qed.
Print Assumptions C18_inode_fresh.

Theorem C18_inode_release : forall base g live k i, iinv base g live -> nth_error live k = Some i ->
  iinv base (irelease i g) (remove_nth k live).
Proof. exact irelease_inv. Qed.
Print Assumptions C18_inode_release.

(* after any history of allocations and releases of live numbers, no two live entries share a number *)
Theorem C18_inodes_never_shared : forall base ops,
  let st := ifinal ({| ig_hi := base; ig_free := [] |}, []) ops in
  NoDup (snd st) /\ forall x, In x (snd st) -> (base < x)%N.
Proof. exact live_never_shared. Qed.
Print Assumptions C18_inodes_never_shared.

(* the executable reading of this clause, which the check applies to the implementation's answers,
   holds of the model's answers for every history *)
Theorem C18_inode_spec : forall base ops,
  ispec base [] ops (irun ({| ig_hi := base; ig_free := [] |}, []) ops) = true.
Proof. exact irun_meets_spec_init. Qed.
Print Assumptions C18_inode_spec.

Example C18_inode_example :
  irun ({| ig_hi := 1023; ig_free := [] |}, []) [IAlloc; IAlloc; IAlloc; IFree 1; IFree 1; IAlloc; IAlloc; IAlloc]
  = [Some 1024; Some 1025; Some 1026; Some 1025; Some 1026; Some 1025; Some 1026; Some 1027]%N.
Proof. vm_compute. reflexivity. Qed.
