(* C20 - metadata paths and descriptors round-trip.
   Statements only; proofs are in Proofs/PathsProofs.v.  The builders are those of
   Gen/Paths.v, regenerated from /repo/pkg/model by the translator on every run. *)
From Coq Require Import List String Ascii NArith Bool.
From DM Require Import Base.Str Gen.Paths Model.PathsParse Model.PathsCheck Proofs.PathsProofs.
Import ListNotations.
Open Scope string_scope.

(* Every metadata path built from valid components parses back to exactly those components.
   valid_kind: names without '/', diamond and generation ids that are KSUIDs, non-empty split id;
   indices are arbitrary naturals (in particular every uint64). *)
Theorem C20_parse_build : forall k, valid_kind k = true ->
  get_components (build k) = expected_comps k.
Proof. exact parse_build_all. Qed.
Print Assumptions C20_parse_build.

(* Paths of different objects never coincide: building is injective on valid components. *)
Theorem C20_disjoint : forall k1 k2, valid_kind k1 = true -> valid_kind k2 = true ->
  build k1 = build k2 -> expected_comps k1 = expected_comps k2.
Proof. exact build_injective. Qed.
Print Assumptions C20_disjoint.

Theorem C20_expected_comps_injective : forall k1 k2, valid_kind k1 = true -> valid_kind k2 = true ->
  expected_comps k1 = expected_comps k2 -> k1 = k2.
Proof. exact expected_comps_injective. Qed.
Print Assumptions C20_expected_comps_injective.

(* consumable-store metadata paths, every index below 2^64 *)
Theorem C20_consumable_descriptor : forall b, nodash b = true ->
  consumable_meta (consumable_path_to_bundle b) = Some (MetaDescriptor b).
Proof. exact consumable_descriptor_roundtrip. Qed.
Print Assumptions C20_consumable_descriptor.

Theorem C20_consumable_filelist : forall b n, nodash b = true -> (n < two64)%N ->
  consumable_meta (consumable_path_to_filelist b n) = Some (MetaFileList b n).
Proof. exact consumable_filelist_roundtrip. Qed.
Print Assumptions C20_consumable_filelist.

(* decimal indices read back *)
Theorem C20_index_roundtrip : forall n,
  index_of_file ("bundle-files-" ++ dec n ++ ".yaml") = Some (dec n) /\ undec (dec n) = Some n.
Proof. exact reverse_index_roundtrip. Qed.
Print Assumptions C20_index_roundtrip.

(* generated-path detection = the three reserved locations, optionally behind "./" or "/" *)
Theorem C20_generated : forall p, is_generated p = is_reserved_spec p.
Proof. exact is_generated_spec. Qed.
Print Assumptions C20_generated.

(* names accepted by the validators contain no '/', hence satisfy the hypotheses above *)
Theorem C20_valid_names_noslash : forall s,
  (repo_name_ok s = true -> noslash s = true) /\ (label_name_ok s = true -> noslash s = true).
Proof. exact valid_names_noslash. Qed.
Print Assumptions C20_valid_names_noslash.
