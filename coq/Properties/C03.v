(* C03 - reads never return corrupted content as if it were valid.
   Statements only; proofs are in Proofs/CafsReadAt.v, CafsReadSeq.v, CafsWriteTo.v.
   The store s is arbitrary (any damage whatsoever, not only single corruptions); H is any hash
   with 64-byte digests such that no input collides with one of the honest inputs of the content
   (nocoll: jointly in tree parameters and data; a cryptographic assumption stated as a
   hypothesis - not an axiom - and satisfiable, see C01_premises_satisfiable). *)
From Coq Require Import List NArith Arith Bool.
From DM Require Import Model.Cafs Proofs.CafsStore Proofs.CafsReadAt Proofs.CafsReadSeq Proofs.CafsWriteTo.
Import ListNotations.

Definition digest64 (H : N -> N -> N -> bool -> list N -> list N) : Prop :=
  forall l o d b x, length (H l o d b x) = KS.

(* random access: a read that succeeds returned the requested window of the content *)
Theorem C03_read_at : forall H L, 0 < L -> digest64 H ->
  forall s c off want r, nocoll H L (split_leaves L c) ->
  read_at H L (tree_key H L c) s off want = Ok r -> r = firstn want (skipn off c).
Proof. exact read_at_sound. Qed.
Print Assumptions C03_read_at.

(* sequential Read with any buffer sizes and any legal leaf-stream behaviour: a read that
   reaches EOF without error delivered exactly the content *)
Theorem C03_read_seq : forall H L, 0 < L -> digest64 H ->
  forall s c bufs orc r, nocoll H L (split_leaves L c) ->
  read_seq H L (tree_key H L c) s bufs orc = Ok r -> r = c.
Proof. exact read_seq_sound. Qed.
Print Assumptions C03_read_seq.

(* streaming to a WriterAt (the download path), leaves copied in any order: a copy that succeeds
   left exactly the content in the destination *)
Theorem C03_write_to_at : forall H L, 0 < L -> digest64 H ->
  forall s c ks jobs f', nocoll H L (split_leaves L c) ->
  leaves_for_hash H L (tree_key H L c) s = Some ks ->
  (forall j, In j jobs <-> In j (index_from 0 ks)) ->
  write_to_at H L s (length ks) jobs [] = Ok f' ->
  forall x, file_get f' x = nth_error c x.
Proof. exact write_to_at_any_store. Qed.
Print Assumptions C03_write_to_at.
